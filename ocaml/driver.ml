(* driver.ml — runs operation scripts on the extracted Coq model (Model.run) and prints the
   canonical transcript.  Parsing, hex <-> N conversion and printing only; all semantics is in
   model.ml, extracted from coq/theories/History.v.

     driver run <script> <dev|release> <cfg> [addr]
        cfg = arch,std,tf_avx2,tf_sse41,det_avx2,det_sse41,simd128   e.g. x86_64,1,0,0,1,1,0
     driver spec <script>      lines "<w> k0 k1 k2 k3 hex" -> digest lines of Spec.HH *)
open Model

let rec p_of_int (i : int) : positive =
  if i = 1 then XH else if i land 1 = 0 then XO (p_of_int (i lsr 1)) else XI (p_of_int (i lsr 1))
let n_of_int (i : int) : n = if i = 0 then N0 else Npos (p_of_int i)
let rec nat_of_int (i : int) : nat = if i = 0 then O else S (nat_of_int (i - 1))

(* N (< 2^64) -> Int64 bit pattern *)
let rec i64_of_p (p : positive) : int64 =
  match p with
  | XH -> 1L
  | XO q -> Int64.shift_left (i64_of_p q) 1
  | XI q -> Int64.logor (Int64.shift_left (i64_of_p q) 1) 1L
let i64_of_n (x : n) : int64 = match x with N0 -> 0L | Npos p -> i64_of_p p
let int_of_n (x : n) : int = Int64.to_int (i64_of_n x)

(* hex string of a u64 -> N *)
let n_of_hex64 (s : string) : n =
  let x = Int64.of_string ("0x" ^ s) in
  (* build from bits, unsigned *)
  let rec go (i : int) (acc : positive option) : positive option =
    if i < 0 then acc
    else
      let bit = Int64.logand (Int64.shift_right_logical x i) 1L = 1L in
      let acc' = match acc, bit with
        | None, false -> None
        | None, true -> Some XH
        | Some p, false -> Some (XO p)
        | Some p, true -> Some (XI p) in
      go (i - 1) acc' in
  match go 63 None with None -> N0 | Some p -> Npos p

let byte_tab : n array = Array.init 256 n_of_int
let hexval (c : char) : int =
  match c with
  | '0' .. '9' -> Char.code c - 48
  | 'a' .. 'f' -> Char.code c - 87
  | 'A' .. 'F' -> Char.code c - 55
  | _ -> failwith "bad hex"
let bytes_of_hex (s : string) : n list =
  if s = "-" then []
  else begin
    let len = String.length s / 2 in
    let rec go i acc = if i < 0 then acc else go (i - 1) (byte_tab.(hexval s.[2*i] * 16 + hexval s.[2*i+1]) :: acc) in
    go (len - 1) []
  end

let backend_of (s : string) : backend =
  match s with
  | "P" -> BP | "S" -> BS | "A" -> BA | "N" -> BN | "W" -> BW | "D" -> BD | "B" -> BB
  | _ -> failwith ("backend " ^ s)

let parse_op (t : string array) : op option =
  let reg i = nat_of_int (int_of_string t.(i)) in
  match t.(0) with
  | "new" | "fnew" ->
      Some (ONew (reg 1, backend_of t.(2), t.(0) = "fnew",
                  (((n_of_hex64 t.(3), n_of_hex64 t.(4)), n_of_hex64 t.(5)), n_of_hex64 t.(6))))
  | "default" -> Some (ODefault (reg 1, backend_of t.(2)))
  | "restore" | "frestore" -> Some (ORestore (reg 1, backend_of t.(2), t.(0) = "frestore", bytes_of_hex t.(3)))
  | "restorefrom" | "frestorefrom" -> Some (ORestoreFrom (reg 1, backend_of t.(2), t.(0) = "frestorefrom", reg 3))
  | "clone" -> Some (OClone (reg 1, reg 2))
  | "clonefrom" -> Some (OCloneFrom (reg 1, reg 2))
  | "append" -> Some (OAppend (reg 1, bytes_of_hex t.(2)))
  | "write" -> Some (OWrite (reg 1, bytes_of_hex t.(2)))
  | "writeall" -> Some (OWriteAll (reg 1, bytes_of_hex t.(2)))
  (* io::Write::write_vectored, std's provided method: "calls write with either the first nonempty buffer provided, or an
     empty one if none exists" *)
  | "writev" ->
      let bufs = List.map bytes_of_hex (List.tl (List.tl (Array.to_list t))) in
      let first = match List.filter (fun b -> b <> []) bufs with b :: _ -> b | [] -> [] in
      Some (OWrite (reg 1, first))
  | "iocopy" -> Some (OIoCopy (reg 1, bytes_of_hex t.(2)))
  | "hwrite" -> Some (OHWrite (reg 1, bytes_of_hex t.(2)))
  (* core::hash::Hasher::write_<int>(v): std's provided methods are  self.write(&v.to_ne_bytes());  the script carries
     the little-endian bytes of v and is only generated for little-endian targets *)
  | "hwint" -> Some (OHWrite (reg 1, bytes_of_hex t.(3)))
  | "flush" -> Some (OFlush (reg 1))
  | "finish" -> Some (OFinish (reg 1))
  | "ckpt" -> Some (OCkpt (reg 1))
  | "debug" -> Some (ODebug (reg 1))
  | "fin64" -> Some (OFin (W64, reg 1))
  | "fin128" -> Some (OFin (W128, reg 1))
  | "fin256" -> Some (OFin (W256, reg 1))
  | "hash64" -> Some (OHash (W64, reg 1, bytes_of_hex t.(2)))
  | "hash128" -> Some (OHash (W128, reg 1, bytes_of_hex t.(2)))
  | "hash256" -> Some (OHash (W256, reg 1, bytes_of_hex t.(2)))
  | "place" | "hplace" -> None      (* where data / the hasher lives: invisible to the model *)
  | s -> failwith ("op " ^ s)

let buf = Buffer.create 65536
let pr_digest (ws : n list) =
  (match List.length ws with
   | 1 -> Buffer.add_string buf "D64"
   | 2 -> Buffer.add_string buf "D128"
   | _ -> Buffer.add_string buf "D256");
  List.iter (fun w -> Buffer.add_string buf (Printf.sprintf " %016Lx" (i64_of_n w))) ws;
  Buffer.add_char buf '\n'
let pr_out (o : out) =
  match o with
  | OutDigest ws -> pr_digest ws
  | OutCk bs ->
      Buffer.add_string buf "CK ";
      List.iter (fun b -> Buffer.add_string buf (Printf.sprintf "%02x" (int_of_n b))) bs;
      Buffer.add_char buf '\n'
  | OutW x -> Buffer.add_string buf (Printf.sprintf "W %d\n" (int_of_n x))
  | OutFin x -> Buffer.add_string buf (Printf.sprintf "FIN %016Lx\n" (i64_of_n x))
  | OutTag x -> Buffer.add_string buf (Printf.sprintf "TAG %d\n" (int_of_n x))
  | OutOk -> Buffer.add_string buf "OK\n"
  | OutNone -> Buffer.add_string buf "NONE\n"
  | OutPanic -> Buffer.add_string buf "PANIC\n"
  | OutFault -> Buffer.add_string buf "FAULT\n"
  | OutIll -> Buffer.add_string buf "ILL\n"

let split (s : string) : string array =
  Array.of_list (List.filter (fun x -> x <> "") (String.split_on_char ' ' s))

let config_of (s : string) : config =
  match String.split_on_char ',' s with
  | [a; std; tfa; tfs; da; ds; simd] ->
      let b x = x = "1" in
      { c_arch = (match a with "x86_64" -> X86_64 | "aarch64" -> AArch64 | "wasm32" -> Wasm32 | _ -> OtherArch);
        c_std = b std; tf_avx2 = b tfa; tf_sse41 = b tfs; det_avx2 = b da; det_sse41 = b ds; c_simd128 = b simd }
  | _ -> failwith "cfg"

let flush_hist (e : env) (ops : op list) =
  let outs = run e (List.rev ops) in
  List.iter pr_out outs

let () =
  match Sys.argv.(1) with
  | "run" ->
      let ic = open_in Sys.argv.(2) in
      let prof = if Sys.argv.(3) = "dev" then prof_dev else prof_release in
      let cfg = config_of Sys.argv.(4) in
      let addr = if Array.length Sys.argv > 5 then n_of_int (int_of_string Sys.argv.(5)) else N0 in
      let e = { e_prof = prof; e_cfg = cfg; e_addr = addr } in
      let cur : op list ref = ref [] in
      let started = ref false in
      (try
         while true do
           let line = input_line ic in
           if String.length line >= 2 && line.[0] = 'H' && line.[1] = ' ' then begin
             if !started then flush_hist e !cur;
             started := true; cur := [];
             Buffer.add_string buf line; Buffer.add_char buf '\n'
           end else if line <> "" && line.[0] <> '#' then begin
             let t = split line in
             if Array.length t > 0 then
               match parse_op t with Some o -> cur := o :: !cur | None -> ()
           end;
           if Buffer.length buf > 1 lsl 20 then begin print_string (Buffer.contents buf); Buffer.clear buf end
         done
       with End_of_file -> ());
      if !started then flush_hist e !cur;
      print_string (Buffer.contents buf)
  | "spec" ->
      let ic = open_in Sys.argv.(2) in
      (try
         while true do
           let line = input_line ic in
           let t = split line in
           if Array.length t >= 6 then begin
             let w = match t.(0) with "64" -> W64 | "128" -> W128 | _ -> W256 in
             let k = (((n_of_hex64 t.(1), n_of_hex64 t.(2)), n_of_hex64 t.(3)), n_of_hex64 t.(4)) in
             pr_digest (hH w k (bytes_of_hex t.(5)))
           end
         done
       with End_of_file -> ());
      print_string (Buffer.contents buf)
  | "intrin" ->
      let ic = open_in Sys.argv.(2) in
      let pr2 (a, b) = Buffer.add_string buf (Printf.sprintf "R %016Lx %016Lx\n" (i64_of_n a) (i64_of_n b)) in
      let pr4 (((a, b), c), d) = Buffer.add_string buf (Printf.sprintf "R %016Lx %016Lx %016Lx %016Lx\n" (i64_of_n a) (i64_of_n b) (i64_of_n c) (i64_of_n d)) in
      (try
         while true do
           let t = split (input_line ic) in
           if Array.length t > 0 then begin
             let a i = n_of_hex64 t.(i + 1) in
             let v2 i = (a i, a (i + 1)) in
             let v4 i = (((a i, a (i + 1)), a (i + 2)), a (i + 3)) in
             let mem16 () = { mbytes = List.concat_map (fun x -> to_le_bytes (nat_of_int 8) x) [a 0; a 1]; maddr = N0 } in
             match t.(0) with
             | "mm_add_epi64" -> pr2 (mm_add_epi64 (v2 0) (v2 2))
             | "mm_mul_epu32" -> pr2 (mm_mul_epu32 (v2 0) (v2 2))
             | "mm_andnot_si128" -> pr2 (mm_andnot_si128 (v2 0) (v2 2))
             | "mm_srli_epi64_32" -> pr2 (mm_srli_epi64 (v2 0) (n_of_int 32))
             | "mm_srli_epi64_62" -> pr2 (mm_srli_epi64 (v2 0) (n_of_int 62))
             | "mm_srli_epi64_63" -> pr2 (mm_srli_epi64 (v2 0) (n_of_int 63))
             | "mm_shuffle_epi32_b1" -> pr2 (mm_shuffle_epi32 (v2 0) (n_of_int 0xB1))
             | "mm_shuffle_epi8" -> pr2 (mm_shuffle_epi8 (v2 0) (v2 2))
             | "mm_insert_epi32_3" -> pr2 (mm_insert_epi32_3 (v2 0) (a 2))
             | "mm_slli_si128_8" -> pr2 (mm_slli_si128_8 (v2 0))
             | "mm_sll_epi32" -> pr2 (mm_sll_epi32 (v2 0) (v2 2))
             | "mm_srl_epi32" -> pr2 (mm_srl_epi32 (v2 0) (v2 2))
             | "mm_cmpgt_epi32" -> pr2 (mm_cmpgt_epi32 (v2 0) (v2 2))
             | "mm_set1_epi32" -> pr2 (mm_set1_epi32 (a 0))
             | "mm_cvtsi64_si128" -> pr2 (mm_cvtsi64_si128 (a 0))
             | "mm_maskload_epi32" -> (match mm_maskload_epi32 (mem16 ()) O (v2 2) with Ok v -> pr2 v | _ -> Buffer.add_string buf "FAULT\n")
             | "mm256_add_epi64" -> pr4 (mm256_add_epi64 (v4 0) (v4 4))
             | "mm256_mul_epu32" -> pr4 (mm256_mul_epu32 (v4 0) (v4 4))
             | "mm256_andnot_si256" -> pr4 (mm256_andnot_si256 (v4 0) (v4 4))
             | "mm256_shuffle_epi8" -> pr4 (mm256_shuffle_epi8 (v4 0) (v4 4))
             | "mm256_shuffle_epi32_b1" -> pr4 (mm256_shuffle_epi32 (v4 0) (n_of_int 0xB1))
             | "mm256_permutevar8x32_epi32" -> pr4 (mm256_permutevar8x32_epi32 (v4 0) (v4 4))
             | "mm256_sllv_epi32" -> pr4 (mm256_sllv_epi32 (v4 0) (v4 4))
             | "mm256_srlv_epi32" -> pr4 (mm256_srlv_epi32 (v4 0) (v4 4))
             | "mm256_sub_epi32" -> pr4 (mm256_sub_epi32 (v4 0) (v4 4))
             | "mm256_unpacklo_epi64" -> pr4 (mm256_unpacklo_epi64 (v4 0) (v4 4))
             | "mm256_cmpeq_epi64" -> pr4 (mm256_cmpeq_epi64 (v4 0) (v4 4))
             | "mm256_srli_epi64_32" -> pr4 (mm256_srli_epi64 (v4 0) (n_of_int 32))
             | "mm256_srli_epi64_62" -> pr4 (mm256_srli_epi64 (v4 0) (n_of_int 62))
             | "mm256_srli_epi64_63" -> pr4 (mm256_srli_epi64 (v4 0) (n_of_int 63))
             | "mm256_slli_epi64_63" -> pr4 (mm256_slli_epi64 (v4 0) (n_of_int 63))
             | "mm256_slli_si256_8" -> pr4 (mm256_slli_si256_8 (v4 0))
             | "mm256_broadcastd_epi32" -> pr4 (mm256_broadcastd_epi32 (v2 0))
             | _ -> Buffer.add_string buf "UNKNOWN\n"
           end
         done
       with End_of_file -> ());
      print_string (Buffer.contents buf)
  | _ -> prerr_endline "usage: driver run <script> <dev|release> <cfg> [addr] | spec <file>"; exit 2
