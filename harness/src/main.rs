// hwharness — executes operation scripts (grammar: DESIGN.md Appendix D) against the real
// `highway` crate built from /repo's working tree and prints the canonical transcript.
//
//   hwharness info                      -> one CFG line describing this build / CPU
//   hwharness run <script> [threads]    -> transcript on stdout
#![allow(clippy::all)]
use highway::{HighwayBuildHasher, HighwayHash, HighwayHasher, Key, PortableHash};
#[cfg(target_arch = "x86_64")]
use highway::{AvxHash, SseHash};
#[cfg(target_arch = "aarch64")]
use highway::NeonHash;
use std::alloc::{GlobalAlloc, Layout, System};
use std::cell::Cell;
use std::collections::HashMap;
use std::fmt::{Debug, Write as FmtWrite};
use std::hash::{BuildHasher, Hasher};
use std::io::Write as IoWrite;
use std::panic::{catch_unwind, AssertUnwindSafe};

// ---------------------------------------------------------------- counting allocator (C18)
struct Counting;
thread_local! {
    static ARMED: Cell<bool> = const { Cell::new(false) };
    static COUNT: Cell<u64> = const { Cell::new(0) };
}
unsafe impl GlobalAlloc for Counting {
    unsafe fn alloc(&self, l: Layout) -> *mut u8 {
        let _ = ARMED.try_with(|a| {
            if a.get() {
                let _ = COUNT.try_with(|c| c.set(c.get() + 1));
            }
        });
        System.alloc(l)
    }
    unsafe fn dealloc(&self, p: *mut u8, l: Layout) {
        System.dealloc(p, l)
    }
    unsafe fn realloc(&self, p: *mut u8, l: Layout, n: usize) -> *mut u8 {
        let _ = ARMED.try_with(|a| {
            if a.get() {
                let _ = COUNT.try_with(|c| c.set(c.get() + 1));
            }
        });
        System.realloc(p, l, n)
    }
}
#[global_allocator]
static GLOBAL: Counting = Counting;

/// run a library call with allocation counting armed
fn lib<R>(f: impl FnOnce() -> R) -> R {
    ARMED.with(|a| a.set(true));
    let r = f();
    ARMED.with(|a| a.set(false));
    r
}
fn take_allocs() -> u64 {
    COUNT.with(|c| c.replace(0))
}

// ---------------------------------------------------------------- guarded memory (C09)
const PAGE: usize = 4096;
struct Mapping {
    base: *mut u8,
    len: usize,
}
impl Mapping {
    /// `pages` accessible pages with one PROT_NONE page on each side
    #[cfg(miri)]
    fn new(pages: usize) -> Mapping {
        // Miri has no mmap/mprotect; it checks every access against the allocation anyway
        let len = (pages + 2) * PAGE;
        let layout = Layout::from_size_align(len, PAGE).unwrap();
        let base = unsafe { System.alloc_zeroed(layout) };
        Mapping { base, len }
    }
    #[cfg(not(miri))]
    fn new(pages: usize) -> Mapping {
        unsafe {
            let len = (pages + 2) * PAGE;
            let base = libc::mmap(
                std::ptr::null_mut(),
                len,
                libc::PROT_READ | libc::PROT_WRITE,
                libc::MAP_PRIVATE | libc::MAP_ANONYMOUS,
                -1,
                0,
            );
            assert!(base != libc::MAP_FAILED);
            let base = base as *mut u8;
            assert_eq!(libc::mprotect(base as *mut _, PAGE, libc::PROT_NONE), 0);
            assert_eq!(
                libc::mprotect(base.add(len - PAGE) as *mut _, PAGE, libc::PROT_NONE),
                0
            );
            Mapping { base, len }
        }
    }
    fn lo(&self) -> *mut u8 {
        unsafe { self.base.add(PAGE) }
    }
    fn hi(&self) -> *mut u8 {
        unsafe { self.base.add(self.len - PAGE) }
    }
}
impl Drop for Mapping {
    fn drop(&mut self) {
        #[cfg(not(miri))]
        unsafe {
            libc::munmap(self.base as *mut _, self.len);
        }
        #[cfg(miri)]
        unsafe {
            System.dealloc(self.base, Layout::from_size_align(self.len, PAGE).unwrap());
        }
    }
}

#[derive(Clone, Copy, PartialEq)]
enum Place {
    Heap,
    End,            // slice ends exactly at an inaccessible page
    Start,          // slice starts exactly after an inaccessible page
    Mid(usize, u8), // start address = 64-aligned + k, surrounding bytes filled with the given byte
}

fn with_data<R>(place: Place, d: &[u8], f: impl FnOnce(&[u8]) -> R) -> R {
    match place {
        Place::Heap => f(d),
        Place::End | Place::Start | Place::Mid(..) => {
            let pages = (d.len() + 256 + PAGE - 1) / PAGE + 1;
            let m = Mapping::new(pages);
            unsafe {
                let p = match place {
                    Place::End => m.hi().sub(d.len()),
                    Place::Start => m.lo(),
                    Place::Mid(k, fill) => {
                        std::ptr::write_bytes(m.lo(), fill, pages * PAGE);
                        m.lo().add(64 + (k & 63))
                    }
                    Place::Heap => unreachable!(),
                };
                std::ptr::copy_nonoverlapping(d.as_ptr(), p, d.len());
                let s = std::slice::from_raw_parts(p, d.len());
                f(s)
            }
        }
    }
}

// ---------------------------------------------------------------- hasher holders
enum Loc<T> {
    Owned(T),
    Placed(*mut T, Mapping),
}
#[derive(Clone, Copy, PartialEq)]
enum HPlace {
    Plain,
    End,   // object ends exactly at an inaccessible page
    Start, // object starts exactly after an inaccessible page
}
struct Holder<T> {
    loc: Loc<T>,
    tagc: char,
}
impl<T> Holder<T> {
    fn make(tagc: char, hp: HPlace, f: impl FnOnce() -> T) -> Holder<T> {
        match hp {
            HPlace::Plain => Holder { loc: Loc::Owned(lib(f)), tagc },
            _ => {
                let size = std::mem::size_of::<T>();
                let align = std::mem::align_of::<T>();
                let m = Mapping::new(1);
                let p = unsafe {
                    if hp == HPlace::End {
                        // size is a multiple of align, PAGE is a multiple of align
                        m.hi().sub(size)
                    } else {
                        m.lo()
                    }
                } as *mut T;
                assert_eq!(p as usize % align, 0);
                unsafe { p.write(lib(f)) };
                Holder { loc: Loc::Placed(p, m), tagc }
            }
        }
    }
    fn get(&self) -> &T {
        match &self.loc {
            Loc::Owned(t) => t,
            Loc::Placed(p, _) => unsafe { &**p },
        }
    }
    fn get_mut(&mut self) -> &mut T {
        match &mut self.loc {
            Loc::Owned(t) => t,
            Loc::Placed(p, _) => unsafe { &mut **p },
        }
    }
    fn into_inner(self) -> T {
        match self.loc {
            Loc::Owned(t) => t,
            Loc::Placed(p, _m) => unsafe { p.read() },
        }
    }
}

struct StackSink {
    buf: [u8; 8192],
    len: usize,
}
impl std::fmt::Write for StackSink {
    fn write_str(&mut self, s: &str) -> std::fmt::Result {
        let b = s.as_bytes();
        if self.len + b.len() > self.buf.len() {
            return Err(std::fmt::Error);
        }
        self.buf[self.len..self.len + b.len()].copy_from_slice(b);
        self.len += b.len();
        Ok(())
    }
}

trait Ops {
    fn append(&mut self, d: &[u8]);
    fn io_write(&mut self, d: &[u8]) -> Option<Result<usize, ()>>;
    fn io_write_all(&mut self, d: &[u8]) -> Option<bool>;
    /// io::Write::write_vectored over the given slices
    fn io_write_vectored(&mut self, ds: &[Vec<u8>]) -> Option<Result<usize, ()>>;
    fn io_copy(&mut self, d: &[u8]) -> Option<Result<u64, ()>>;
    fn io_flush(&mut self) -> Option<bool>;
    fn h_write(&mut self, d: &[u8]);
    /// core::hash::Hasher::write_<kind>(value whose little-endian bytes are d)
    fn h_write_int(&mut self, kind: &str, d: &[u8]);
    fn h_finish(&self) -> u64;
    fn ckpt(&self) -> [u8; 164];
    fn clone_box(&self) -> Box<dyn Ops>;
    fn debug(&self, sink: &mut StackSink) -> bool;
    fn fin64(self: Box<Self>) -> u64;
    fn fin128(self: Box<Self>) -> [u64; 2];
    fn fin256(self: Box<Self>) -> [u64; 4];
    fn hash64(self: Box<Self>, d: &[u8]) -> u64;
    fn hash128(self: Box<Self>, d: &[u8]) -> [u64; 2];
    fn hash256(self: Box<Self>, d: &[u8]) -> [u64; 4];
    fn tagc(&self) -> char;
    fn as_any(&self) -> &dyn std::any::Any;
    /// Clone::clone_from(self, src) when both hold the same hasher type
    fn clone_from_dyn(&mut self, src: &dyn Ops) -> bool;
}

macro_rules! ops_common {
    () => {
        fn append(&mut self, d: &[u8]) {
            let t = self.get_mut();
            lib(|| HighwayHash::append(t, d))
        }
        fn ckpt(&self) -> [u8; 164] {
            let t = self.get();
            lib(|| HighwayHash::checkpoint(t))
        }
        fn clone_box(&self) -> Box<dyn Ops> {
            let t = self.get();
            let c = lib(|| t.clone());
            Box::new(Holder { loc: Loc::Owned(c), tagc: self.tagc })
        }
        fn debug(&self, sink: &mut StackSink) -> bool {
            let t = self.get();
            // both the compact and the pretty formatter, into stack sinks
            let mut pretty = StackSink { buf: [0; 8192], len: 0 };
            let ok2 = lib(|| write!(pretty, "{:#?}", t)).is_ok();
            lib(|| write!(sink, "{:?}", t)).is_ok() && ok2
        }
        fn fin64(self: Box<Self>) -> u64 {
            let t = self.into_inner();
            lib(|| t.finalize64())
        }
        fn fin128(self: Box<Self>) -> [u64; 2] {
            let t = self.into_inner();
            lib(|| t.finalize128())
        }
        fn fin256(self: Box<Self>) -> [u64; 4] {
            let t = self.into_inner();
            lib(|| t.finalize256())
        }
        fn hash64(self: Box<Self>, d: &[u8]) -> u64 {
            let t = self.into_inner();
            lib(|| t.hash64(d))
        }
        fn hash128(self: Box<Self>, d: &[u8]) -> [u64; 2] {
            let t = self.into_inner();
            lib(|| t.hash128(d))
        }
        fn hash256(self: Box<Self>, d: &[u8]) -> [u64; 4] {
            let t = self.into_inner();
            lib(|| t.hash256(d))
        }
        fn tagc(&self) -> char {
            self.tagc
        }
        fn as_any(&self) -> &dyn std::any::Any {
            self
        }
        fn clone_from_dyn(&mut self, src: &dyn Ops) -> bool {
            match src.as_any().downcast_ref::<Self>() {
                Some(s) => {
                    let from = s.get();
                    let to = self.get_mut();
                    lib(|| Clone::clone_from(to, from));
                    true
                }
                None => false,
            }
        }
    };
}
macro_rules! ops_adapters {
    () => {
        fn io_write(&mut self, _d: &[u8]) -> Option<Result<usize, ()>> {
            #[cfg(feature = "hw-std")]
            {
                let t = self.get_mut();
                Some(lib(|| std::io::Write::write(t, _d)).map_err(|_| ()))
            }
            #[cfg(not(feature = "hw-std"))]
            None
        }
        fn io_write_vectored(&mut self, _ds: &[Vec<u8>]) -> Option<Result<usize, ()>> {
            #[cfg(feature = "hw-std")]
            {
                let t = self.get_mut();
                let bufs: Vec<std::io::IoSlice<'_>> = _ds.iter().map(|d| std::io::IoSlice::new(d)).collect();
                Some(lib(|| std::io::Write::write_vectored(t, &bufs)).map_err(|_| ()))
            }
            #[cfg(not(feature = "hw-std"))]
            None
        }
        fn io_write_all(&mut self, _d: &[u8]) -> Option<bool> {
            #[cfg(feature = "hw-std")]
            {
                let t = self.get_mut();
                Some(lib(|| std::io::Write::write_all(t, _d)).is_ok())
            }
            #[cfg(not(feature = "hw-std"))]
            None
        }
        fn io_copy(&mut self, _d: &[u8]) -> Option<Result<u64, ()>> {
            #[cfg(feature = "hw-std")]
            {
                let t = self.get_mut();
                let mut rd = _d;
                // allocations inside std::io::copy are std's, not the library's: the counter is not armed
                Some(std::io::copy(&mut rd, t).map_err(|_| ()))
            }
            #[cfg(not(feature = "hw-std"))]
            None
        }
        fn io_flush(&mut self) -> Option<bool> {
            #[cfg(feature = "hw-std")]
            {
                let t = self.get_mut();
                Some(lib(|| std::io::Write::flush(t)).is_ok())
            }
            #[cfg(not(feature = "hw-std"))]
            None
        }
        fn h_write(&mut self, d: &[u8]) {
            let t = self.get_mut();
            lib(|| Hasher::write(t, d))
        }
        fn h_finish(&self) -> u64 {
            let t = self.get();
            lib(|| Hasher::finish(t))
        }
        fn h_write_int(&mut self, kind: &str, d: &[u8]) {
            let t = self.get_mut();
            macro_rules! w {
                ($ty:ty, $m:ident) => {{
                    let v = <$ty>::from_le_bytes(d.try_into().expect("script: hwint width"));
                    lib(|| Hasher::$m(t, v))
                }};
            }
            match kind {
                "u8" => w!(u8, write_u8),
                "u16" => w!(u16, write_u16),
                "u32" => w!(u32, write_u32),
                "u64" => w!(u64, write_u64),
                "u128" => w!(u128, write_u128),
                "usize" => w!(usize, write_usize),
                "i8" => w!(i8, write_i8),
                "i16" => w!(i16, write_i16),
                "i32" => w!(i32, write_i32),
                "i64" => w!(i64, write_i64),
                "i128" => w!(i128, write_i128),
                "isize" => w!(isize, write_isize),
                _ => panic!("script: hwint kind"),
            }
        }
    };
}
// NeonHash implements neither core::hash::Hasher nor io::Write (no impl_write!/impl_hasher! in aarch64.rs)
macro_rules! ops_no_adapters {
    () => {
        fn io_write(&mut self, _d: &[u8]) -> Option<Result<usize, ()>> {
            None
        }
        fn io_write_vectored(&mut self, _ds: &[Vec<u8>]) -> Option<Result<usize, ()>> {
            None
        }
        fn io_write_all(&mut self, _d: &[u8]) -> Option<bool> {
            None
        }
        fn io_copy(&mut self, _d: &[u8]) -> Option<Result<u64, ()>> {
            None
        }
        fn io_flush(&mut self) -> Option<bool> {
            None
        }
        fn h_write(&mut self, _d: &[u8]) {
            panic!("script: this hasher type does not implement Hasher")
        }
        fn h_finish(&self) -> u64 {
            panic!("script: this hasher type does not implement Hasher")
        }
        fn h_write_int(&mut self, _kind: &str, _d: &[u8]) {
            panic!("script: this hasher type does not implement Hasher")
        }
    };
}
impl Ops for Holder<PortableHash> {
    ops_common!();
    ops_adapters!();
}
impl Ops for Holder<HighwayHasher> {
    ops_common!();
    ops_adapters!();
}
#[cfg(target_arch = "x86_64")]
impl Ops for Holder<SseHash> {
    ops_common!();
    ops_adapters!();
}
#[cfg(target_arch = "x86_64")]
impl Ops for Holder<AvxHash> {
    ops_common!();
    ops_adapters!();
}
#[cfg(target_arch = "aarch64")]
impl Ops for Holder<NeonHash> {
    ops_common!();
    ops_no_adapters!();
}

/// records the exact write stream std's Hash impls produce
struct Rec(Vec<u8>);
impl Hasher for Rec {
    fn write(&mut self, b: &[u8]) {
        self.0.extend_from_slice(b);
    }
    fn finish(&self) -> u64 {
        0
    }
}

// ---------------------------------------------------------------- script interpretation
fn unhex(s: &str) -> Vec<u8> {
    if s == "-" {
        return Vec::new();
    }
    let b = s.as_bytes();
    if b.len() % 2 != 0 { panic!("script: odd hex"); }
    let v = |c: u8| -> u8 {
        match c {
            b'0'..=b'9' => c - b'0',
            b'a'..=b'f' => c - b'a' + 10,
            b'A'..=b'F' => c - b'A' + 10,
            _ => panic!("script: bad hex"),
        }
    };
    (0..b.len() / 2).map(|i| v(b[2 * i]) * 16 + v(b[2 * i + 1])).collect()
}
fn hex(out: &mut String, b: &[u8]) {
    for x in b {
        let _ = write!(out, "{:02x}", x);
    }
}
fn key_of(t: &[&str]) -> Key {
    let p = |s: &str| u64::from_str_radix(s, 16).expect("key word");
    Key([p(t[0]), p(t[1]), p(t[2]), p(t[3])])
}
fn ckpt_of(s: &str) -> [u8; 164] {
    let v = unhex(s);
    if v.len() != 164 { panic!("script: checkpoint must be 164 bytes"); }
    let mut a = [0u8; 164];
    a.copy_from_slice(&v);
    a
}

#[derive(Clone, Copy, PartialEq)]
enum Ctor {
    Safe,  // the safe constructor (Option-returning for SSE/AVX)
    Force, // unsafe force_* (only emitted by generators when the CPU supports the backend)
}

fn construct(
    backend: &str,
    ctor: Ctor,
    hp: HPlace,
    what: &dyn Fn() -> Option<([u8; 164], bool)>, // Some(ckpt, _) = restore; None = new/default handled by caller
    key: Option<Key>,
) -> Option<Box<dyn Ops>> {
    // what(): restore payload; key: Some for new, None for default (when what() is None)
    let restore = what();
    match backend {
        "P" => Some(Box::new(Holder::make('P', hp, || match (&restore, key) {
            (Some((c, _)), _) => PortableHash::from_checkpoint(*c),
            (None, Some(k)) => PortableHash::new(k),
            (None, None) => PortableHash::default(),
        }))),
        "D" => Some(Box::new(Holder::make('D', hp, || match (&restore, key) {
            (Some((c, _)), _) => HighwayHasher::from_checkpoint(*c),
            (None, Some(k)) => HighwayHasher::new(k),
            (None, None) => HighwayHasher::default(),
        }))),
        // HighwayBuildHasher::new(key).build_hasher()  /  HighwayBuildHasher::default().build_hasher()
        "B" => Some(Box::new(Holder::make('D', hp, || match (&restore, key) {
            (Some(_), _) => panic!("script: restore on B"),
            (None, Some(k)) => HighwayBuildHasher::new(k).build_hasher(),
            (None, None) => HighwayBuildHasher::default().build_hasher(),
        }))),
        #[cfg(target_arch = "x86_64")]
        "S" => {
            if ctor == Ctor::Force || restore.is_none() && key.is_none() {
                Some(Box::new(Holder::make('S', hp, || match (&restore, key) {
                    (Some((c, _)), _) => unsafe { SseHash::force_from_checkpoint(*c) },
                    (None, Some(k)) => unsafe { SseHash::force_new(k) },
                    (None, None) => SseHash::default(),
                })))
            } else {
                let o = lib(|| match (&restore, key) {
                    (Some((c, _)), _) => SseHash::from_checkpoint(*c),
                    (None, Some(k)) => SseHash::new(k),
                    (None, None) => unreachable!(),
                });
                o.map(|h| Box::new(Holder::make('S', hp, move || h)) as Box<dyn Ops>)
            }
        }
        #[cfg(target_arch = "x86_64")]
        "A" => {
            if ctor == Ctor::Force || restore.is_none() && key.is_none() {
                Some(Box::new(Holder::make('A', hp, || match (&restore, key) {
                    (Some((c, _)), _) => unsafe { AvxHash::force_from_checkpoint(*c) },
                    (None, Some(k)) => unsafe { AvxHash::force_new(k) },
                    (None, None) => AvxHash::default(),
                })))
            } else {
                let o = lib(|| match (&restore, key) {
                    (Some((c, _)), _) => AvxHash::from_checkpoint(*c),
                    (None, Some(k)) => AvxHash::new(k),
                    (None, None) => unreachable!(),
                });
                o.map(|h| Box::new(Holder::make('A', hp, move || h)) as Box<dyn Ops>)
            }
        }
        #[cfg(target_arch = "aarch64")]
        "N" => Some(Box::new(Holder::make('N', hp, || match (&restore, key) {
            (Some((c, _)), _) => unsafe { NeonHash::force_from_checkpoint(*c) },
            (None, Some(k)) => unsafe { NeonHash::force_new(k) },
            (None, None) => NeonHash::default(),
        }))),
        _ => panic!("script: unknown backend {}", backend),
    }
}

fn alloc_line(out: &mut String) {
    let n = take_allocs();
    if n > 0 {
        let _ = writeln!(out, "ALLOC {}", n);
    }
}

/// Execute one history (lines after its `H` line). Output is appended to `out`.
fn run_history(lines: &[&str], out: &mut String) {
    let mut regs: HashMap<u32, Box<dyn Ops>> = HashMap::new();
    let mut place = Place::Heap;
    let mut hplace = HPlace::Plain;
    for line in lines {
        let t: Vec<&str> = line.split_ascii_whitespace().collect();
        if t.is_empty() || t[0].starts_with('#') {
            continue;
        }
        let reg = |i: usize| -> u32 { t[i].parse().expect("register") };
        take_allocs();
        match t[0] {
            "place" => {
                place = match t[1] {
                    "heap" => Place::Heap,
                    "end" => Place::End,
                    "start" => Place::Start,
                    "mid" => Place::Mid(t[2].parse().unwrap(), u8::from_str_radix(t[3], 16).unwrap()),
                    _ => panic!("script: place"),
                };
            }
            "hplace" => {
                hplace = match t[1] {
                    "plain" => HPlace::Plain,
                    "end" => HPlace::End,
                    "start" => HPlace::Start,
                    _ => panic!("script: hplace"),
                };
            }
            "new" | "fnew" | "default" | "restore" | "frestore" | "restorefrom" | "frestorefrom" => {
                let r = reg(1);
                let ctor = if t[0].starts_with('f') { Ctor::Force } else { Ctor::Safe };
                let payload: Option<[u8; 164]> = match t[0] {
                    "restore" | "frestore" => Some(ckpt_of(t[3])),
                    "restorefrom" | "frestorefrom" => {
                        let src = regs.get(&reg(3)).expect("script: absent register");
                        Some(src.ckpt())
                    }
                    _ => None,
                };
                let key = match t[0] {
                    "new" | "fnew" => Some(key_of(&t[3..7])),
                    _ => None,
                };
                let h = construct(t[2], ctor, hplace, &|| payload.map(|c| (c, true)), key);
                match h {
                    Some(h) => {
                        regs.insert(r, h);
                        out.push_str("OK\n");
                    }
                    None => out.push_str("NONE\n"),
                }
                alloc_line(out);
            }
            "clonefrom" => {
                // reg[t1].clone_from(&reg[t2]); both must hold the same hasher type
                let (a, b) = (reg(1), reg(2));
                if a == b {
                    panic!("script: clonefrom onto itself");
                }
                let mut dst = regs.remove(&a).expect("script: absent register");
                let ok = {
                    let src = regs.get(&b).expect("script: absent register");
                    dst.clone_from_dyn(src.as_ref())
                };
                regs.insert(a, dst);
                if !ok {
                    panic!("script: clonefrom between different hasher types");
                }
                out.push_str("OK\n");
                alloc_line(out);
            }
            "clone" => {
                let c = regs.get(&reg(2)).expect("script: absent register").clone_box();
                regs.insert(reg(1), c);
                out.push_str("OK\n");
                alloc_line(out);
            }
            "append" | "hwrite" => {
                let d = unhex(t[2]);
                let h = regs.get_mut(&reg(1)).expect("script: absent register");
                with_data(place, &d, |s| if t[0] == "append" { h.append(s) } else { h.h_write(s) });
                out.push_str("OK\n");
                alloc_line(out);
            }
            "hwint" => {
                let d = unhex(t[3]);
                let h = regs.get_mut(&reg(1)).expect("script: absent register");
                h.h_write_int(t[2], &d);
                out.push_str("OK\n");
                alloc_line(out);
            }
            "write" => {
                let d = unhex(t[2]);
                let h = regs.get_mut(&reg(1)).expect("script: absent register");
                match with_data(place, &d, |s| h.io_write(s)) {
                    Some(Ok(n)) => {
                        let _ = writeln!(out, "W {}", n);
                    }
                    Some(Err(())) => out.push_str("WERR\n"),
                    None => out.push_str("UNSUPPORTED\n"),
                }
                alloc_line(out);
            }
            "writev" => {
                // writev <reg> <hex> <hex> ...   (the IoSlice vector itself is the harness's allocation, made before the call)
                let ds: Vec<Vec<u8>> = t[2..].iter().map(|x| unhex(x)).collect();
                let h = regs.get_mut(&reg(1)).expect("script: absent register");
                match h.io_write_vectored(&ds) {
                    Some(Ok(n)) => {
                        let _ = writeln!(out, "W {}", n);
                    }
                    Some(Err(())) => out.push_str("WERR\n"),
                    None => out.push_str("UNSUPPORTED\n"),
                }
                alloc_line(out);
            }
            "writeall" => {
                let d = unhex(t[2]);
                let h = regs.get_mut(&reg(1)).expect("script: absent register");
                match with_data(place, &d, |s| h.io_write_all(s)) {
                    Some(true) => out.push_str("OK\n"),
                    Some(false) => out.push_str("WERR\n"),
                    None => out.push_str("UNSUPPORTED\n"),
                }
                alloc_line(out);
            }
            "iocopy" => {
                let d = unhex(t[2]);
                let h = regs.get_mut(&reg(1)).expect("script: absent register");
                match with_data(place, &d, |s| h.io_copy(s)) {
                    Some(Ok(n)) => {
                        let _ = writeln!(out, "W {}", n);
                    }
                    Some(Err(())) => out.push_str("WERR\n"),
                    None => out.push_str("UNSUPPORTED\n"),
                }
            }
            "flush" => {
                let h = regs.get_mut(&reg(1)).expect("script: absent register");
                match h.io_flush() {
                    Some(true) => out.push_str("OK\n"),
                    Some(false) => out.push_str("WERR\n"),
                    None => out.push_str("UNSUPPORTED\n"),
                }
                alloc_line(out);
            }
            "finish" => {
                let h = regs.get(&reg(1)).expect("script: absent register");
                let _ = writeln!(out, "FIN {:016x}", h.h_finish());
                alloc_line(out);
            }
            "ckpt" => {
                let h = regs.get(&reg(1)).expect("script: absent register");
                let c = h.ckpt();
                out.push_str("CK ");
                hex(out, &c);
                out.push('\n');
                alloc_line(out);
            }
            "debug" => {
                let h = regs.get(&reg(1)).expect("script: absent register");
                let mut sink = StackSink { buf: [0; 8192], len: 0 };
                let ok = h.debug(&mut sink);
                let s = std::str::from_utf8(&sink.buf[..sink.len]).unwrap_or("");
                if !ok {
                    out.push_str("DEBUGERR\n");
                } else if h.tagc() == 'D' {
                    // "HighwayHasher { tag: N, hasher: ... }"
                    let tag = s
                        .split("tag: ")
                        .nth(1)
                        .and_then(|r| r.split(|c: char| !c.is_ascii_digit()).next())
                        .unwrap_or("?");
                    let _ = writeln!(out, "TAG {}", tag);
                } else {
                    out.push_str("OK\n");
                }
                alloc_line(out);
            }
            "fin64" | "fin128" | "fin256" => {
                let h = regs.remove(&reg(1)).expect("script: absent register");
                match t[0] {
                    "fin64" => {
                        let _ = writeln!(out, "D64 {:016x}", h.fin64());
                    }
                    "fin128" => {
                        let x = h.fin128();
                        let _ = writeln!(out, "D128 {:016x} {:016x}", x[0], x[1]);
                    }
                    _ => {
                        let x = h.fin256();
                        let _ = writeln!(out, "D256 {:016x} {:016x} {:016x} {:016x}", x[0], x[1], x[2], x[3]);
                    }
                }
                alloc_line(out);
            }
            "hash64" | "hash128" | "hash256" => {
                let d = unhex(t[2]);
                let h = regs.remove(&reg(1)).expect("script: absent register");
                with_data(place, &d, |s| match t[0] {
                    "hash64" => {
                        let _ = writeln!(out, "D64 {:016x}", h.hash64(s));
                    }
                    "hash128" => {
                        let x = h.hash128(s);
                        let _ = writeln!(out, "D128 {:016x} {:016x}", x[0], x[1]);
                    }
                    _ => {
                        let x = h.hash256(s);
                        let _ = writeln!(out, "D256 {:016x} {:016x} {:016x} {:016x}", x[0], x[1], x[2], x[3]);
                    }
                });
                alloc_line(out);
            }
            "hashone" => {
                let key = key_of(&t[1..5]);
                let v = unhex(t[6]);
                let mut rec = Rec(Vec::new());
                let b1 = HighwayBuildHasher::new(key);
                let b2 = HighwayBuildHasher::new(key);
                fn pad<const N: usize>(v: &[u8]) -> [u8; N] {
                    let mut a = [0u8; N];
                    for (d, s) in a.iter_mut().zip(v) {
                        *d = *s;
                    }
                    a
                }
                macro_rules! go {
                    ($val:expr) => {{
                        let val = $val;
                        std::hash::Hash::hash(&val, &mut rec);
                        (b1.hash_one(&val), b2.hash_one(&val))
                    }};
                }
                let (f1, f2) = match t[5] {
                    "u8" => go!(v.first().copied().unwrap_or(0)),
                    "u32" => go!(u32::from_le_bytes(pad::<4>(&v))),
                    "u16" => go!(u16::from_le_bytes(pad::<2>(&v))),
                    "i32" => go!(i32::from_le_bytes(pad::<4>(&v))),
                    "usize" => go!(u64::from_le_bytes(pad::<8>(&v)) as usize),
                    "isize" => go!(u64::from_le_bytes(pad::<8>(&v)) as isize),
                    "bool" => go!(v.first().copied().unwrap_or(0) & 1 == 1),
                    "char" => go!(char::from_u32(u32::from_le_bytes(pad::<4>(&v)) % 0xD800).unwrap_or('x')),
                    "slice32" => {
                        let w: Vec<u32> = v.chunks(4).map(|c| u32::from_le_bytes(pad::<4>(c))).collect();
                        go!(w.as_slice())
                    }
                    "array8" => go!(pad::<8>(&v)),
                    "option" => go!(if v.is_empty() { None } else { Some(u64::from_le_bytes(pad::<8>(&v))) }),
                    "u64" => go!(u64::from_le_bytes(pad::<8>(&v))),
                    "i64" => go!(i64::from_le_bytes(pad::<8>(&v))),
                    "u128" => go!(u128::from_le_bytes(pad::<16>(&v))),
                    "str" => go!(String::from_utf8_lossy(&v).into_owned()),
                    "bytes" => go!(&v[..]),
                    "tuple" => go!((u64::from_le_bytes(pad::<8>(&v)), String::from_utf8_lossy(&v).into_owned())),
                    "vec16" => go!(v.chunks(2).map(|c| u16::from_le_bytes(pad::<2>(c))).collect::<Vec<u16>>()),
                    "unit" => go!(()),
                    _ => panic!("script: hashone kind"),
                };
                let reference = PortableHash::new(key).hash64(&rec.0);
                out.push_str("HONE ");
                if rec.0.is_empty() {
                    out.push('-');
                } else {
                    hex(out, &rec.0);
                }
                let _ = writeln!(out, " {:016x} {:016x} {:016x}", f1, f2, reference);
            }
            other => panic!("script: unknown op {}", other),
        }
    }
}

fn info() {
    #[allow(unused_mut)]
    let mut det_avx2 = false;
    #[allow(unused_mut)]
    let mut det_sse41 = false;
    #[cfg(target_arch = "x86_64")]
    {
        det_avx2 = std::is_x86_feature_detected!("avx2");
        det_sse41 = std::is_x86_feature_detected!("sse4.1");
    }
    println!(
        "CFG arch={} std={} tf_avx2={} tf_sse41={} det_avx2={} det_sse41={} dbg={} ptr={} endian={}",
        std::env::consts::ARCH,
        cfg!(feature = "hw-std") as u8,
        cfg!(target_feature = "avx2") as u8,
        cfg!(target_feature = "sse4.1") as u8,
        det_avx2 as u8,
        det_sse41 as u8,
        cfg!(debug_assertions) as u8,
        std::mem::size_of::<usize>() * 8,
        if cfg!(target_endian = "big") { "big" } else { "little" },
    );
}

// ---------------------------------------------------------------- intrinsic-level cross-check (x86)
#[cfg(target_arch = "x86_64")]
mod intrin {
    use core::arch::x86_64::*;
    unsafe fn v128(a: &[u64]) -> __m128i {
        _mm_set_epi64x(a[1] as i64, a[0] as i64)
    }
    unsafe fn v256(a: &[u64]) -> __m256i {
        _mm256_set_epi64x(a[3] as i64, a[2] as i64, a[1] as i64, a[0] as i64)
    }
    unsafe fn o128(v: __m128i) -> Vec<u64> {
        let mut r = [0u64; 2];
        _mm_storeu_si128(r.as_mut_ptr().cast(), v);
        r.to_vec()
    }
    unsafe fn o256(v: __m256i) -> Vec<u64> {
        let mut r = [0u64; 4];
        _mm256_storeu_si256(r.as_mut_ptr().cast(), v);
        r.to_vec()
    }
    /// one real intrinsic on the given operands (u64 words, low lane first)
    #[target_feature(enable = "avx2")]
    pub unsafe fn run(name: &str, a: &[u64]) -> Option<Vec<u64>> {
        Some(match name {
            "mm_add_epi64" => o128(_mm_add_epi64(v128(&a[0..2]), v128(&a[2..4]))),
            "mm_mul_epu32" => o128(_mm_mul_epu32(v128(&a[0..2]), v128(&a[2..4]))),
            "mm_andnot_si128" => o128(_mm_andnot_si128(v128(&a[0..2]), v128(&a[2..4]))),
            "mm_srli_epi64_32" => o128(_mm_srli_epi64(v128(&a[0..2]), 32)),
            "mm_srli_epi64_62" => o128(_mm_srli_epi64(v128(&a[0..2]), 62)),
            "mm_srli_epi64_63" => o128(_mm_srli_epi64(v128(&a[0..2]), 63)),
            "mm_shuffle_epi32_b1" => o128(_mm_shuffle_epi32(v128(&a[0..2]), 0xB1)),
            "mm_shuffle_epi8" => o128(_mm_shuffle_epi8(v128(&a[0..2]), v128(&a[2..4]))),
            "mm_insert_epi32_3" => o128(_mm_insert_epi32(v128(&a[0..2]), a[2] as i32, 3)),
            "mm_slli_si128_8" => o128(_mm_slli_si128(v128(&a[0..2]), 8)),
            "mm_sll_epi32" => o128(_mm_sll_epi32(v128(&a[0..2]), v128(&a[2..4]))),
            "mm_srl_epi32" => o128(_mm_srl_epi32(v128(&a[0..2]), v128(&a[2..4]))),
            "mm_cmpgt_epi32" => o128(_mm_cmpgt_epi32(v128(&a[0..2]), v128(&a[2..4]))),
            "mm_set1_epi32" => o128(_mm_set1_epi32(a[0] as i32)),
            "mm_cvtsi64_si128" => o128(_mm_cvtsi64_si128(a[0] as i64)),
            "mm_maskload_epi32" => {
                let mem = [a[0], a[1]];
                o128(_mm_maskload_epi32(mem.as_ptr().cast(), v128(&a[2..4])))
            }
            "mm256_add_epi64" => o256(_mm256_add_epi64(v256(&a[0..4]), v256(&a[4..8]))),
            "mm256_mul_epu32" => o256(_mm256_mul_epu32(v256(&a[0..4]), v256(&a[4..8]))),
            "mm256_andnot_si256" => o256(_mm256_andnot_si256(v256(&a[0..4]), v256(&a[4..8]))),
            "mm256_shuffle_epi8" => o256(_mm256_shuffle_epi8(v256(&a[0..4]), v256(&a[4..8]))),
            "mm256_shuffle_epi32_b1" => o256(_mm256_shuffle_epi32(v256(&a[0..4]), 0xB1)),
            "mm256_permutevar8x32_epi32" => o256(_mm256_permutevar8x32_epi32(v256(&a[0..4]), v256(&a[4..8]))),
            "mm256_sllv_epi32" => o256(_mm256_sllv_epi32(v256(&a[0..4]), v256(&a[4..8]))),
            "mm256_srlv_epi32" => o256(_mm256_srlv_epi32(v256(&a[0..4]), v256(&a[4..8]))),
            "mm256_sub_epi32" => o256(_mm256_sub_epi32(v256(&a[0..4]), v256(&a[4..8]))),
            "mm256_unpacklo_epi64" => o256(_mm256_unpacklo_epi64(v256(&a[0..4]), v256(&a[4..8]))),
            "mm256_cmpeq_epi64" => o256(_mm256_cmpeq_epi64(v256(&a[0..4]), v256(&a[4..8]))),
            "mm256_srli_epi64_32" => o256(_mm256_srli_epi64(v256(&a[0..4]), 32)),
            "mm256_srli_epi64_62" => o256(_mm256_srli_epi64(v256(&a[0..4]), 62)),
            "mm256_srli_epi64_63" => o256(_mm256_srli_epi64(v256(&a[0..4]), 63)),
            "mm256_slli_epi64_63" => o256(_mm256_slli_epi64(v256(&a[0..4]), 63)),
            "mm256_slli_si256_8" => o256(_mm256_slli_si256(v256(&a[0..4]), 8)),
            "mm256_broadcastd_epi32" => o256(_mm256_broadcastd_epi32(v128(&a[0..2]))),
            _ => return None,
        })
    }
}

fn intrin_mode(path: &str) {
    let text = std::fs::read_to_string(path).expect("read");
    let mut out = String::new();
    for line in text.lines() {
        let t: Vec<&str> = line.split_ascii_whitespace().collect();
        if t.is_empty() {
            continue;
        }
        let args: Vec<u64> = t[1..].iter().map(|x| u64::from_str_radix(x, 16).unwrap()).collect();
        #[cfg(target_arch = "x86_64")]
        let r = unsafe { intrin::run(t[0], &args) };
        #[cfg(not(target_arch = "x86_64"))]
        let r: Option<Vec<u64>> = { let _ = &args; None };
        match r {
            Some(v) => {
                out.push('R');
                for x in v {
                    let _ = write!(out, " {:016x}", x);
                }
                out.push('\n');
            }
            None => out.push_str("UNKNOWN\n"),
        }
    }
    print!("{}", out);
}

fn main() {
    let args: Vec<String> = std::env::args().collect();
    if args.len() < 2 {
        eprintln!("usage: hwharness info | run <script> [threads] | stress <script> <threads> <reps> | intrin <file>");
        std::process::exit(2);
    }
    if args[1] == "info" {
        info();
        return;
    }
    if args[1] == "intrin" {
        intrin_mode(&args[2]);
        return;
    }
    let script = std::fs::read_to_string(&args[2]).expect("read script");
    let threads: usize = args.get(3).map(|s| s.parse().unwrap()).unwrap_or(1);
    // split into histories
    let mut hist: Vec<(&str, Vec<&str>)> = Vec::new();
    for line in script.lines() {
        if line.starts_with("H ") {
            hist.push((line, Vec::new()));
        } else if let Some(last) = hist.last_mut() {
            last.1.push(line);
        }
    }
    std::panic::set_hook(Box::new(|_| {}));
    let run_one = |h: &(&str, Vec<&str>)| -> String {
        let mut out = String::new();
        let r = catch_unwind(AssertUnwindSafe(|| run_history(&h.1, &mut out)));
        ARMED.with(|a| a.set(false));
        if let Err(e) = r {
            let msg = e
                .downcast_ref::<String>()
                .cloned()
                .or_else(|| e.downcast_ref::<&str>().map(|s| s.to_string()))
                .unwrap_or_default();
            if msg.starts_with("script:") || msg.contains("odd hex") || msg.contains("bad hex") {
                let _ = writeln!(out, "ILL {}", msg);
            } else {
                out.push_str("PANIC\n");
            }
        }
        out
    };
    let stdout = std::io::stdout();
    if args[1] == "stress" {
        // every thread runs EVERY history `reps` times, all at once; each run is compared with the transcript of a
        // single-threaded pass made before the threads start.  Prints the histories whose transcript ever deviated.
        let reps: usize = args.get(4).map(|s| s.parse().unwrap()).unwrap_or(1);
        let expect: Vec<String> = hist.iter().map(|h| run_one(h)).collect();
        let barrier = std::sync::Barrier::new(threads);
        let bad: Vec<Vec<(usize, String)>> = std::thread::scope(|sc| {
            let (hist, run_one, expect, barrier) = (&hist, &run_one, &expect, &barrier);
            let handles: Vec<_> = (0..threads)
                .map(|ti| {
                    sc.spawn(move || {
                        let mut v: Vec<(usize, String)> = Vec::new();
                        barrier.wait();
                        for rep in 0..reps {
                            for k in 0..hist.len() {
                                // half of the threads walk in the same order (same operation at the same moment), the
                                // others start elsewhere (different hashers and keys alive at the same moment)
                                let i = if ti % 2 == 0 { k } else { (k + (ti * 7 + rep * 13) * hist.len() / 16) % hist.len() };
                                let got = run_one(&hist[i]);
                                if got != expect[i] && !v.iter().any(|x| x.0 == i) {
                                    v.push((i, got));
                                }
                            }
                        }
                        v
                    })
                })
                .collect();
            handles.into_iter().map(|h| h.join().unwrap()).collect()
        });
        let mut lock = stdout.lock();
        let mut seen = std::collections::BTreeSet::new();
        for (i, got) in bad.into_iter().flatten() {
            if seen.insert(i) {
                let _ = write!(lock, "{}\nSTRESSBAD\n{}EXPECTED\n{}", hist[i].0, got, expect[i]);
            }
        }
        let _ = writeln!(lock, "H 999999999\nSTRESS histories={} threads={} reps={} deviating={}", hist.len(), threads, reps, seen.len());
        return;
    }
    if threads <= 1 {
        let mut lock = stdout.lock();
        for h in &hist {
            // announce first so that a crash (SIGSEGV) is attributable to this history
            lock.write_all(h.0.as_bytes()).unwrap();
            lock.write_all(b"\n").unwrap();
            lock.flush().unwrap();
            let s = run_one(h);
            lock.write_all(s.as_bytes()).unwrap();
        }
    } else {
        let results: Vec<String> = std::thread::scope(|sc| {
            let hist = &hist;
            let run_one = &run_one;
            let handles: Vec<_> = (0..threads)
                .map(|ti| {
                    sc.spawn(move || {
                        let mut v = Vec::new();
                        let mut i = ti;
                        while i < hist.len() {
                            v.push((i, format!("{}\n{}", hist[i].0, run_one(&hist[i]))));
                            i += threads;
                        }
                        v
                    })
                })
                .collect();
            let mut all: Vec<(usize, String)> = handles.into_iter().flat_map(|h| h.join().unwrap()).collect();
            all.sort_by_key(|x| x.0);
            all.into_iter().map(|x| x.1).collect()
        });
        let mut lock = stdout.lock();
        for s in results {
            lock.write_all(s.as_bytes()).unwrap();
        }
    }
}
