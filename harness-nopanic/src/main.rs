// #[no_panic] wrappers around every public operation of the four x86 hasher types.  The crate only
// links (release, fat LTO) when rustc/LLVM can prove that none of the operations contains a panic path.
#![allow(clippy::all)]
use highway::*;
use no_panic::no_panic;
use std::hash::Hasher;
use std::io::Write;

macro_rules! ops { ($m:ident, $t:ty, $mk:expr, $rs:expr, $df:expr) => { mod $m { use super::*;
  #[no_panic] #[inline(never)] pub fn new(k: Key) -> $t { ($mk)(k) }
  #[no_panic] #[inline(never)] pub fn dflt() -> $t { ($df)() }
  #[no_panic] #[inline(never)] pub fn append(h: &mut $t, d:&[u8]) { h.append(d) }
  #[no_panic] #[inline(never)] pub fn f64(h: $t) -> u64 { h.finalize64() }
  #[no_panic] #[inline(never)] pub fn f128(h: $t) -> [u64;2] { h.finalize128() }
  #[no_panic] #[inline(never)] pub fn f256(h: $t) -> [u64;4] { h.finalize256() }
  #[no_panic] #[inline(never)] pub fn h64(h: $t, d:&[u8]) -> u64 { h.hash64(d) }
  #[no_panic] #[inline(never)] pub fn ck(h: &$t) -> [u8;164] { h.checkpoint() }
  #[no_panic] #[inline(never)] pub fn rs(c: [u8;164]) -> $t { ($rs)(c) }
  #[no_panic] #[inline(never)] pub fn cl(h: &$t) -> $t { h.clone() }
  #[no_panic] #[inline(never)] pub fn fin(h: &$t) -> u64 { h.finish() }
  #[no_panic] #[inline(never)] pub fn hw(h: &mut $t, d:&[u8]) { Hasher::write(h, d) }
  #[no_panic] #[inline(never)] pub fn ww(h: &mut $t, d:&[u8]) -> usize { Write::write(h, d).unwrap_or(0) }
  pub fn all(k: Key, d:&[u8], c:[u8;164]) -> u64 {
     let mut h=new(k); append(&mut h,d); hw(&mut h,d); let n=ww(&mut h,d); let c2=ck(&h);
     let mut r=rs(c); append(&mut r,d); let r2=rs(c2); let x=cl(&h); let y=dflt();
     fin(&h) ^ f64(h) ^ f128(r)[0] ^ f256(r2)[1] ^ f64(x) ^ h64(y, d) ^ n as u64 }
}}}
ops!(portable, PortableHash, PortableHash::new, PortableHash::from_checkpoint, PortableHash::default);
ops!(disp, HighwayHasher, HighwayHasher::new, HighwayHasher::from_checkpoint, HighwayHasher::default);
#[cfg(target_arch = "x86_64")]
ops!(sse, SseHash, |k| unsafe{SseHash::force_new(k)}, |c| unsafe{SseHash::force_from_checkpoint(c)}, SseHash::default);
#[cfg(target_arch = "x86_64")]
ops!(avx, AvxHash, |k| unsafe{AvxHash::force_new(k)}, |c| unsafe{AvxHash::force_from_checkpoint(c)}, AvxHash::default);

fn main(){
    let mut data=Vec::new(); std::io::Read::read_to_end(&mut std::io::stdin(), &mut data).unwrap();
    let mut c=[0u8;164]; for (i,b) in data.iter().take(164).enumerate(){ c[i]=*b; }
    let k=Key([data.len() as u64,2,3,4]);
    let mut x = portable::all(k,&data,c) ^ disp::all(k,&data,c);
    #[cfg(target_arch = "x86_64")]
    { x ^= sse::all(k,&data,c) ^ avx::all(k,&data,c); }
    println!("{}", x);
}
