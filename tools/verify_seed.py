#!/usr/bin/env python3
"""verify_seed.py <id> <name> <demo command, run in the scratch worktree> -- confirm a seeded change myself:
   with the patch: crate builds, existing suite passes, demo FAILS; without: demo PASSES.
   Then store patch + demo + meta.json under /verif/seeded/<name>/ and remove the worktree."""
import json, os, shutil, subprocess, sys, time
pid, name, demo_cmd = sys.argv[1], sys.argv[2], sys.argv[3]
wt = sys.argv[4] if len(sys.argv) > 4 else "/tmp/wt_%s" % pid
env = dict(os.environ, CARGO_NET_OFFLINE="true", RUST_BACKTRACE="0")
def sh(cmd, cwd=wt):
    p = subprocess.run(cmd, shell=True, cwd=cwd, env=env, stdout=subprocess.PIPE, stderr=subprocess.STDOUT, text=True)
    return p.returncode, p.stdout
res = {"property": pid, "name": name, "worktree": wt, "demo_cmd": demo_cmd, "verified_at": time.strftime("%Y-%m-%d %H:%M:%S")}
patch = os.path.join(wt, "demo", "patch.diff")
sh("git checkout -- src Cargo.toml 2>/dev/null; git apply demo/patch.diff")
rc, out = sh("git diff --stat -- src Cargo.toml | tail -1"); res["diffstat"] = out.strip()
rc1, o1 = sh("cargo build --offline 2>&1 | tail -2; cargo build --release --offline 2>&1 | tail -2")
rc, out = sh("cargo test --workspace --no-fail-fast --offline 2>&1 | grep -E 'test result|FAILED|panicked' ")
passed = sum(int(l.split("ok. ")[1].split(" passed")[0]) for l in out.splitlines() if "test result: ok" in l)
failed = "FAILED" in out or "test result: FAILED" in out
res["suite_with_patch"] = {"passed": passed, "failed": failed}
rc_with, out_with = sh(demo_cmd)
res["demo_with_patch"] = {"exit": rc_with, "tail": out_with[-600:]}
sh("git checkout -- src Cargo.toml")
rc_wo, out_wo = sh(demo_cmd)
res["demo_without_patch"] = {"exit": rc_wo, "tail": out_wo[-300:]}
res["confirmed"] = (not failed) and passed >= 41 and rc_with != 0 and rc_wo == 0
dst = "/verif/seeded/%s" % name
os.makedirs(dst, exist_ok=True)
shutil.copy(patch, os.path.join(dst, "patch.diff"))
demo_dst = os.path.join(dst, "demo")
if os.path.exists(demo_dst):
    shutil.rmtree(demo_dst)
shutil.copytree(os.path.join(wt, "demo"), demo_dst, ignore=shutil.ignore_patterns("target", "patch.diff", "Cargo.lock"))
json.dump(res, open(os.path.join(dst, "meta.json"), "w"), indent=1)
print(name, "confirmed" if res["confirmed"] else "NOT CONFIRMED", res["suite_with_patch"], rc_with, rc_wo)
subprocess.run("git -C /repo worktree remove --force %s" % wt, shell=True)
