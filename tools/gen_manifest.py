#!/usr/bin/env python3
"""Regenerate /verif/MANIFEST.json from the table below (the properties themselves are fixed)."""
import json, os, sys
ROOT = os.path.dirname(os.path.dirname(os.path.abspath(__file__)))
props = [json.loads(l) for l in open(os.path.join(ROOT, "properties.jsonl"))]

TIE = ("Tie to /repo, re-established on every run, in two ways. (a) Translator: tools/srcfacts re-translates the current text of src/portable.rs "
       "(all of it: new, update, permute, zipper merge, modular reduction, remainder, data_to_lanes, update_remainder, finalize64/128/256, append, "
       "checkpoint, from_checkpoint), HashPacket and unordered_load3 of src/internal.rs, the WHOLE of src/wasm.rs (all 47 functions incl. finalize, append, "
       "remainder, checkpoint, from_checkpoint; only the 20 wasm32 instructions get their meaning from a table), the WHOLE of src/aarch64.rs likewise (42 functions, raw-pointer "
       "loads read as checked loads from the byte array; only the 26 NEON instructions from a table), and the SIMD kernels + vector wrapper types of the SSE / AVX backends into "
       "deep-embedded abstract syntax (gen/Src*.v); theorems SRC_* (Properties/SourceKernel*.v) prove that the Coq interpreters of that syntax "
       "compute exactly the hand-written model, function by function, for all states, arguments, slices and build profiles. (b) Correspondence: "
       "the extracted model (OCaml, ExtrOcamlBasic only) and the real crate, rebuilt from the working tree with hooks on, execute the same "
       "generated histories and must print identical transcripts; an implementation-only oracle searches for a failing input whenever a "
       "proof obligation or the correspondence breaks.")
NOTE = ("Trusted: Coq 8.16.1 kernel incl. vm_compute (no native_compute, no axioms: Print Assumptions of every property theorem is "
        "re-checked to be 'Closed under the global context' on each run), Spec.v as transcription of Google's reference pinned by the "
        "195 published vectors evaluated in Coq, the intrinsic semantics in X86.v/Neon.v/Wasm.v, extraction + OCaml driver, the Rust "
        "harnesses, the Python orchestrator, rustc/cargo/host CPU/Miri, the syn-based translators (rustlite.rs, veclite.rs) and the RustLite / VecLite semantics (DESIGN.md section 7).")

T = {
 "C01": ("proof", "Theorem C01_portable_is_highwayhash (all keys, byte lists, widths, profiles): the model of PortableHash computes Spec.HH. " + TIE +
         " Oracle: real digests vs the extracted specification.", "6 C01"),
 "C02": ("proof", "Theorems C02_x86_backends_equal_portable / C02_config_independent: for every key, feed list, width, profile and build configuration the "
         "models of SseHash, AvxHash, HighwayHasher and the BuildHasher-built hasher return the portable result (bit-level SIMD refinement proved with a "
         "verified reflective bit-blaster, all 31 remainder sizes and rotation counts). " + TIE + " Run in several build configurations (quick 4, thorough 20). "
         "Miscompilation that depends on target-feature flags is only observed, not proved.", "6 C02"),
 "C05": ("proof", "Theorem C05_streaming_invariance: for all six hasher types of the model, all keys, all chunk lists, widths, profiles, configurations: the digest "
         "is HH of the concatenation. " + TIE + " Exhaustive fill x chunk-length skeleton.", "6 C05"),
 "C06": ("proof", "Theorem C06_checkpoint_transparent: any number of checkpoint/restore hops across any hasher types, any cuts, any chunkings. " + TIE, "6 C06"),
 "C07": ("proof", "Theorem C07_default_is_zero_key for every hasher type (model of the repaired Default impls). " + TIE, "6 C07"),
 "C08": ("proof", "Theorem C08_no_panic: no history over the whole safe API (incl. restore from arbitrary bytes) prints PANIC or FAULT, any profile, any configuration, "
         "all hasher types. " + TIE + " The link-time clause (no panic edge in the optimised binary) is outside any Gallina model: checked by linking #[no_panic] "
         "wrappers around every public operation (release, fat LTO) - partial for that clause.", "6 C08"),
 "C09": ("proof", "Theorems C09_no_fault / C09_address_independent on the checked-memory model: every load of the SSE/AVX/NEON models stays inside its slice and "
         "meets its alignment requirement; results do not depend on the data address. " + TIE + " Real faults, struct layout and adjacency are observed by the "
         "placement sweep (guard pages, all alignments) - partial for those.", "6 C09"),
 "C11": ("proof", "Theorems C11_restore_total / C11_backend_independent / C11_empty_append / C11_recheckpoint for every byte list and hasher type. " + TIE, "6 C11"),
 "C12": ("proof", "Theorems C12_finish / C12_write / C12_build_hasher on the adapter models. " + TIE + " hash_one: the write stream std produces is recorded and "
         "replayed (std's Hash impls are not modelled).", "6 C12"),
 "C13": ("proof", "Theorems C13_observer_transparent / C13_clone_is_same_value / C13_registers_independent. " + TIE + " Histories with and without observers.", "6 C13"),
 "C14": ("proof", "Theorems C14_checkpoint_canonical / C14_idempotent / C14_layout / C14_only_unabsorbed_bytes. " + TIE, "6 C14"),
 "C15": ("proof", "Theorems C15_frame / C15_outputs_local (register isolation in the model) plus regenerated source facts (no global state). " + TIE +
         " Real thread schedules are sampled (16 threads) - partial.", "6 C15"),
 "C03": ("proof", "Theorems C03_neon_equals_portable / C03_checkpoints_interchangeable on the NEON model (full refinement proof). Tie: the real src/aarch64.rs "
         "executed under Miri (aarch64-unknown-linux-gnu) against the extracted model; and the translator: every function of the current src/aarch64.rs, re-translated on "
         "each run, is proved equal to the model (SRCN_*), and the interpreted aarch64.rs is proved to compute HighwayHash, to agree with the interpreted portable.rs, and to "
         "write / restore the same 164 checkpoint bytes (SRCN_source_*).", "6 C03"),
 "C04": ("proof", "Theorems C04_wasm_equals_portable / C04_checkpoints_interchangeable on the Wasm model (full refinement proof, mirrored lane order). Tie: the real "
         "src/wasm.rs executed under Miri (wasm32-unknown-unknown +simd128, no_std) against the extracted model; and the translator: every function of the current "
         "src/wasm.rs, re-translated on each run, is proved equal to the model (SRCW_*), and the interpreted wasm.rs is proved to compute HighwayHash, to agree with "
         "the interpreted portable.rs, and to write / restore the same 164 checkpoint bytes (SRCW_source_*).", "6 C04"),
 "C10": ("proof", "Theorems over the dispatcher model and the ladder regenerated from src/builder.rs (gen/Ladder.v): exhaustive over every configuration.", "6 C10"),
 "C16": ("proof", "Theorem over regenerated syntax facts (gen/SrcFacts.v), evaluated by the kernel.", "6 C16"),
 "C17": ("proof", "Facts theorem + the portable model has no target parameter; tie: Miri on big-endian / 32-bit targets.", "6 C17"),
 "C18": ("proof", "Size invariant + facts (partial); tie: counting allocator.", "6 C18"),
}
claimed = [p for p in sys.argv[1:]] or ["C01", "C02", "C05", "C06", "C07", "C08", "C09", "C11", "C12", "C13", "C14", "C15"]
NA_REASON = {
}
checks = []
for p in props:
    pid = p["id"]
    if pid not in claimed:
        continue
    cat, text, ref = T[pid]
    checks.append({
        "property_id": pid,
        "quick_cmd": "bin/check %s --tier quick" % pid,
        "thorough_cmd": "bin/check %s --tier thorough" % pid,
        "evidence_file": "/verif/evidence/%s.json" % pid,
        "replay_cmd_template": "bin/check %s --replay {path}" % pid,
        "engine": "coq-model+correspondence",
        "level_claimed": {"category": cat, "text": text, "design_ref": "DESIGN.md section " + ref},
        "level_note": NOTE,
        "technique": "machine-checked proof in Coq (executable model, refinement to an abstract logical state, verified bit-blaster); the model is tied to the source by a translator (source re-translated to deep-embedded syntax on every run, equality with the model proved) and by a differential correspondence check against the real crate",
    })
hooks_commits = []
hp = os.path.join(ROOT, "hooks_commits.txt")
if os.path.exists(hp):
    hooks_commits = [l.split()[0] for l in open(hp) if l.strip() and not l.startswith("#")]
m = {
    "version": 1,
    "setup_cmd": "bin/setup",
    "hooks": {"guard": "highway_verif",
              "enable": "RUSTFLAGS=\"--cfg highway_verif\" (set by lib/hw/common.py and bin/setup for every harness build)",
              "baseline_off_cmd": "cd /repo && cargo test --workspace --no-fail-fast --offline",
              "source_commits": hooks_commits, "add_only": True},
    "engines": [{"name": "coq-model+correspondence", "path": "/verif/coq", "serves_properties": claimed,
                 "kind_free_text": "Coq 8.16 development (model, spec, refinement proofs, property theorems) + extracted OCaml interpreter + Rust harnesses driven by bin/check"}],
    "checks": checks,
    "notes": "See DESIGN.md. known_findings.txt lists the three repaired defects (fixed: lines).",
    "not_applicable": [{"property_id": p["id"], "reason": NA_REASON.get(p["id"], "check not yet registered in this revision (under construction; DESIGN.md section 6 gives the plan)")}
                       for p in props if p["id"] not in claimed],
}
json.dump(m, open(os.path.join(ROOT, "MANIFEST.json"), "w"), indent=1)
print("claimed", len(checks), "not_applicable", len(m["not_applicable"]))
