#!/usr/bin/env python3
"""run_seeds.py [names...] [--all-checks] — apply each seeded change under /verif/seeded to /repo, run the check of the
property it breaks (or every check), undo it, and record what was reported in seeded/<name>/detection.json."""
import json, os, re, subprocess, sys, time
ROOT = os.path.dirname(os.path.dirname(os.path.abspath(__file__)))
names = [a for a in sys.argv[1:] if not a.startswith("--")] or sorted(os.listdir(os.path.join(ROOT, "seeded")))
all_checks = "--all-checks" in sys.argv
props = ["C%02d" % i for i in range(1, 19)]
for name in names:
    d = os.path.join(ROOT, "seeded", name)
    if not os.path.exists(os.path.join(d, "patch.diff")):
        continue
    meta = json.load(open(os.path.join(d, "meta.json")))
    pid = meta["property"]
    subprocess.run("git -C /repo checkout -- . && git -C /repo apply %s/patch.diff" % d, shell=True, check=True)
    res = {}
    # evidence files describe the unchanged tree: keep them out of the way while a seeded change is applied
    ev_dir = os.path.join(ROOT, "evidence")
    saved_ev = {f: open(os.path.join(ev_dir, f)).read() for f in os.listdir(ev_dir) if f.endswith(".json")}
    try:
        for p in (props if all_checks else [pid]):
            t0 = time.time()
            pr = subprocess.run(["bin/check", p, "--tier", "quick"], cwd=ROOT, stdout=subprocess.PIPE, stderr=subprocess.PIPE, text=True, timeout=3000)
            v = [l for l in pr.stdout.splitlines() if l.startswith("VIOLATION")]
            what = [l for l in pr.stderr.splitlines() if l.startswith("violation:")]
            res[p] = {"exit": pr.returncode, "violations": v[:3], "what": [w[:300] for w in what[:2]],
                      "with_failing_input": any("no-failing-input-found" not in l for l in v), "wall_s": round(time.time() - t0, 1)}
            print(name, p, pr.returncode, "concrete" if res[p]["with_failing_input"] else ("no-input" if v else "-"), flush=True)
    finally:
        subprocess.run("git -C /repo checkout -- .", shell=True)
        for f, txt in saved_ev.items():
            open(os.path.join(ev_dir, f), "w").write(txt)
    out = os.path.join(d, "detection.json")
    old = json.load(open(out)) if os.path.exists(out) else {}
    old.update(res)
    json.dump(old, open(out, "w"), indent=1)
