// rustlite.rs — translate the word-level kernel of src/portable.rs into the RustLite AST of
// coq/theories/Facts/RustLite.v.  The translation is syntax-directed: it resolves integer types (needed to pick the
// width of wrapping/checked operators and of casts) and desugars iterator loops over fixed-size arrays into index
// loops; it assigns no meaning.  Whatever it does not recognise becomes EUnsupported/SUnsupported, which the Coq
// interpreter evaluates to Fault.
use quote::ToTokens;
use std::collections::HashMap;
use std::fmt::Write as _;

#[derive(Clone, Copy, PartialEq, Debug)]
pub enum Ity {
    U8,
    U32,
    I32, // i32: the bit pattern of a u32; `+` is checked as a signed addition
    U64,
    Usz,
}
impl Ity {
    fn coq(self) -> &'static str {
        match self {
            Ity::U8 => "U8",
            Ity::U32 | Ity::I32 => "U32",
            Ity::U64 => "U64",
            Ity::Usz => "USZ",
        }
    }
    fn bits(self) -> u32 {
        match self {
            Ity::U8 => 8,
            Ity::U32 | Ity::I32 => 32,
            Ity::U64 | Ity::Usz => 64,
        }
    }
    fn of_name(s: &str) -> Option<Ity> {
        match s {
            "u8" => Some(Ity::U8),
            "u32" => Some(Ity::U32),
            "u64" => Some(Ity::U64),
            "usize" => Some(Ity::Usz),
            // signed integers are their bit patterns (only casts and from_le_bytes produce them in the translated code)
            "i32" => Some(Ity::I32),
            "i64" => Some(Ity::U64),
            _ => None,
        }
    }
}

#[derive(Clone, PartialEq, Debug)]
enum Ty {
    Int(Ity),
    Arr(Ity),        // fixed array or slice of scalars
    Idx,             // usize used as an index (loop variables, usize parameters)
    Tuple(Vec<Ity>), // result of a function returning a tuple of scalars
    Unit,
    Bool,
    OptSlice,        // Option<&[u8]>
    Vec,             // a 128-bit vector (the wrapper type or the raw SIMD type)
    TupVec(usize),   // a tuple of vectors
}

thread_local! {
    /// names of the types that are 128-bit vectors in the file being translated (wrapper and raw type)
    static VEC_TYS: std::cell::RefCell<Vec<String>> = std::cell::RefCell::new(Vec::new());
}
fn is_vec_ty_name(n: &str) -> bool {
    VEC_TYS.with(|v| v.borrow().iter().any(|x| x == n))
}

#[derive(Clone)]
struct Sig {
    params: Vec<(String, Ty)>,
    ret: Ty,
}

/// does the function carry, or contain anywhere in its body, a conditional-compilation attribute?  (The translation describes ONE
/// body; a `#[cfg(..)]` on the function, on a statement, a block, an expression or a local would make the compiled code differ
/// between build configurations without the translation showing it.)
pub struct CfgScan {
    pub found: Vec<String>,
}
impl<'ast> syn::visit::Visit<'ast> for CfgScan {
    fn visit_attribute(&mut self, a: &'ast syn::Attribute) {
        if a.path().is_ident("cfg") || a.path().is_ident("cfg_attr") {
            self.found.push(a.meta.to_token_stream().to_string());
        }
        syn::visit::visit_attribute(self, a);
    }
    fn visit_macro(&mut self, m: &'ast syn::Macro) {
        if m.path.is_ident("cfg") {
            self.found.push(format!("cfg!({})", m.tokens));
        }
        syn::visit::visit_macro(self, m);
    }
}
pub fn cfg_inside(attrs: &[syn::Attribute], block: &syn::Block) -> Vec<String> {
    use syn::visit::Visit;
    let mut sc = CfgScan { found: Vec::new() };
    for a in attrs {
        sc.visit_attribute(a);
    }
    sc.visit_block(block);
    sc.found
}

fn q(s: &str) -> String {
    format!("\"{}\"", s.replace('"', "\"\""))
}
fn toks<T: ToTokens>(t: &T) -> String {
    t.to_token_stream().to_string().split_whitespace().collect::<Vec<_>>().join(" ")
}

fn ty_of(t: &syn::Type, key_is_arr: bool) -> Option<Ty> {
    match t {
        syn::Type::Path(p) => {
            let name = p.path.segments.last()?.ident.to_string();
            if let Some(i) = Ity::of_name(&name) {
                return Some(if i == Ity::Usz { Ty::Idx } else { Ty::Int(i) });
            }
            if name == "Key" && key_is_arr {
                return Some(Ty::Arr(Ity::U64));
            }
            if name == "bool" {
                return Some(Ty::Bool);
            }
            if is_vec_ty_name(&name) {
                return Some(Ty::Vec);
            }
            if name == "Option" && toks(t).replace("'a ", "") == "Option < & [u8] >" {
                return Some(Ty::OptSlice);
            }
            None
        }
        syn::Type::Array(a) => match ty_of(&a.elem, key_is_arr)? {
            Ty::Int(i) => Some(Ty::Arr(i)),
            _ => None,
        },
        syn::Type::Slice(a) => match ty_of(&a.elem, key_is_arr)? {
            Ty::Int(i) => Some(Ty::Arr(i)),
            _ => None,
        },
        syn::Type::Reference(r) => ty_of(&r.elem, key_is_arr),
        syn::Type::Tuple(t) => {
            if t.elems.is_empty() {
                return Some(Ty::Unit);
            }
            if t.elems.iter().all(|e| ty_of(e, key_is_arr) == Some(Ty::Vec)) {
                return Some(Ty::TupVec(t.elems.len()));
            }
            let mut v = Vec::new();
            for e in &t.elems {
                match ty_of(e, key_is_arr)? {
                    Ty::Int(i) => v.push(i),
                    _ => return None,
                }
            }
            Some(Ty::Tuple(v))
        }
        syn::Type::Paren(p) => ty_of(&p.elem, key_is_arr),
        _ => None,
    }
}

fn arr_len(t: &syn::Type) -> Option<usize> {
    match t {
        syn::Type::Array(a) => {
            if let syn::Expr::Lit(l) = &a.len {
                if let syn::Lit::Int(i) = &l.lit {
                    return i.base10_parse::<usize>().ok();
                }
            }
            None
        }
        syn::Type::Reference(r) => arr_len(&r.elem),
        syn::Type::Paren(p) => arr_len(&p.elem),
        _ => None,
    }
}

#[derive(Clone, Copy, PartialEq)]
pub enum Owner {
    Hash,
    Wrap,
    Free,
}
/// description of a SIMD backend file: hasher type, vector wrapper type, raw vector type names
pub struct Multi {
    pub hash_ty: String,
    pub wrap_ty: String,
    pub vfields: Vec<String>,                       // vector fields of the hasher
    pub wrap_traits: HashMap<(String, String), String>, // (Trait, method) -> qualified name
    pub wrap_mut: std::collections::HashSet<String>,  // qualified names of wrapper methods taking &mut self
    pub foreign: Option<Foreign>,
    pub prim_prefix: String,                          // "wasm32::" (paths written out) or "neon::" (intrinsics imported with a glob)
    pub from_impls: HashMap<String, String>,          // argument type of an `impl From<T>` -> qualified name (when there are several)
    pub ret_raw: HashMap<String, String>,             // qualified function name -> declared return type, as written
    pub inner_ty: String,                             // the type wrapped by the tuple struct
    pub mod_prefix: String,                           // "" or "aarch64::": prefix of every function name of the file (its module path)
    pub take_ok: bool,                                // the file has `fn take<const N: usize>(data: &[u8]) -> [u8; N]` with the known body
}

/// another translated type whose methods a SIMD file calls on a temporary / freshly constructed object (PortableHash)
pub struct Foreign {
    pub ty: String,
    pub arrays: Vec<(String, usize)>,            // array fields: name, length (u64 elements)
    pub sub: (String, Vec<(String, usize)>),     // the sub-object field and its fields (length 0: a usize)
}

/// a field of the hasher that is itself a struct with translated methods (self.buffer : HashPacket)
pub struct SubObj {
    pub field: String,
    sigs: HashMap<String, Sig>,
    fields: Vec<String>,
}

impl SubObj {
    pub fn new(field: &str, file: &syn::File, ty: &str) -> SubObj {
        let mut sigs = HashMap::new();
        let mut fields = Vec::new();
        for it in &file.items {
            match it {
                syn::Item::Struct(st) if st.ident == ty => {
                    for f in &st.fields {
                        if let Some(id) = &f.ident {
                            fields.push(id.to_string());
                        }
                    }
                }
                syn::Item::Impl(im) if im.trait_.is_none() && toks(&im.self_ty) == ty => {
                    for ii in &im.items {
                        if let syn::ImplItem::Fn(f) = ii {
                            let mut params = Vec::new();
                            let mut ok = true;
                            for a in &f.sig.inputs {
                                if let syn::FnArg::Typed(t) = a {
                                    match (&*t.pat, ty_of(&t.ty, false)) {
                                        (syn::Pat::Ident(i), Some(ty)) => params.push((i.ident.to_string(), ty)),
                                        _ => ok = false,
                                    }
                                }
                            }
                            let ret = match &f.sig.output {
                                syn::ReturnType::Default => Some(Ty::Unit),
                                syn::ReturnType::Type(_, t) => ty_of(t, false),
                            };
                            if let (true, Some(ret)) = (ok, ret) {
                                sigs.insert(f.sig.ident.to_string(), Sig { params, ret });
                            }
                        }
                    }
                }
                _ => {}
            }
        }
        SubObj { field: field.to_string(), sigs, fields }
    }
}

struct Cx<'a> {
    self_ty: &'a str,
    sigs: &'a HashMap<String, Sig>,
    fields: &'a HashMap<String, (Ity, usize)>,
    sfields: &'a HashMap<String, Ity>,
    consts: &'a HashMap<String, u128>,
    ret_opt: bool,
    multi: Option<&'a Multi>,                  // a file with a hasher, a vector wrapper type and free functions
    owner: Owner,
    vvars: std::collections::HashSet<String>,   // local vector variables
    tupvars: std::collections::HashSet<String>, // local tuples of vectors
    vec_alias: HashMap<String, String>,         // let v = &mut self.<vector field>
    ret_tupv: bool,                             // the function returns a tuple of vectors: results go through %ret
    valias: HashMap<String, (String, String)>, // for &x in arr: x stands for arr[index variable]
    arr_alias: HashMap<String, String>,         // for a in [&x, &y]: a stands for the array x, then y
    self_alias: Option<String>,                 // let mut h = <Self> { .. }: h is self
    sub: &'a Option<SubObj>,
    chunks: HashMap<String, (String, u128)>, // let mut chunks = X.chunks_exact(n)
    vars: HashMap<String, Ty>,
    lens: HashMap<String, usize>,
    alias: HashMap<String, (String, String)>, // deref alias: name -> (array, index variable)
    tmp: usize,
    pre: Vec<String>, // statements hoisted out of the expression being translated
    views: std::collections::HashSet<String>,
    zips: HashMap<String, (String, String, String, String)>, // let z = dst[dlo..].iter_mut().zip(&src[slo..])
    ret_arr: bool,    // the function returns an array: `return e;` and the tail assign the variable %ret
    ret_scalar: Option<Ity>, // the function returns an integer and contains `return`: results go through %ret
    vtypes: HashMap<String, String>,             // written types of local vector variables
    ptr_alias: HashMap<String, (String, usize)>, // let ptr = a.as_ptr(): (array, byte offset)
}

impl<'a> Cx<'a> {
    fn fresh(&mut self, p: &str) -> String {
        self.tmp += 1;
        format!("%{}{}", p, self.tmp)
    }

    fn lit(e: &syn::Expr) -> Option<(u128, Option<Ity>)> {
        if let syn::Expr::Lit(l) = e {
            if let syn::Lit::Int(i) = &l.lit {
                let v = i.base10_parse::<u128>().ok()?;
                return Some((v, Ity::of_name(i.suffix())));
            }
        }
        None
    }

    // an array-valued place: local array, parameter, or self.<field>
    fn array_name(&self, e: &syn::Expr) -> Option<(String, Ity)> {
        match e {
            syn::Expr::Path(p) if p.path.segments.len() == 1 => {
                let n = p.path.segments[0].ident.to_string();
                if let Some(target) = self.arr_alias.get(&n) {
                    let t = self.elem_ty(target)?;
                    return Some((target.clone(), t));
                }
                match self.vars.get(&n) {
                    Some(Ty::Arr(i)) => Some((n, *i)),
                    _ => None,
                }
            }
            syn::Expr::Field(f) => {
                if let (syn::Expr::Path(b), syn::Member::Named(m)) = (&*f.base, &f.member) {
                    if b.path.is_ident("self") {
                        let n = m.to_string();
                        if let Some((i, _)) = self.fields.get(&n) {
                            return Some((format!("self.{}", n), *i));
                        }
                    } else if b.path.segments.len() == 1 {
                        // <object variable>.<array field>
                        let n = format!("{}.{}", b.path.segments[0].ident, m);
                        if let Some(Ty::Arr(i)) = self.vars.get(&n) {
                            return Some((n, *i));
                        }
                    }
                }
                None
            }
            syn::Expr::Reference(r) => self.array_name(&r.expr),
            syn::Expr::Paren(p) => self.array_name(&p.expr),
            _ => None,
        }
    }

    fn idx(&self, e: &syn::Expr) -> Option<String> {
        if let Some((v, _)) = Self::lit(e) {
            return Some(format!("(IConst {})", v));
        }
        if let syn::Expr::Path(p) = e {
            if p.path.segments.len() == 1 {
                let n = p.path.segments[0].ident.to_string();
                if self.vars.get(&n) == Some(&Ty::Idx) {
                    return Some(format!("(IVar {})", q(&n)));
                }
            }
        }
        None
    }

    fn unsupported(e: &dyn ToTokens) -> (String, Option<Ity>) {
        (format!("(EUnsupported {})", q(&toks(&e.to_token_stream()))), None)
    }

    // callee name of  Type::f(..) / Self::f(..)
    fn assoc_call(&self, c: &syn::ExprCall) -> Option<String> {
        if let syn::Expr::Path(p) = &*c.func {
            let segs: Vec<String> = p.path.segments.iter().map(|s| s.ident.to_string()).collect();
            if segs.len() == 2 && (segs[0] == self.self_ty || segs[0] == "Self") {
                return Some(segs[1].clone());
            }
        }
        None
    }

    /// translate a scalar expression; `expect` is the type the context asks for (used for unsuffixed literals)
    fn expr(&mut self, e: &syn::Expr, expect: Option<Ity>) -> (String, Option<Ity>) {
        match e {
            syn::Expr::Paren(p) => self.expr(&p.expr, expect),
            syn::Expr::Group(p) => self.expr(&p.expr, expect),
            syn::Expr::Lit(_) => match Self::lit(e) {
                Some((v, t)) => (format!("(ELit {})", v), t.or(expect)),
                None => Self::unsupported(e),
            },
            syn::Expr::Path(p) if p.path.segments.len() == 1 && self.valias.contains_key(&p.path.segments[0].ident.to_string()) => {
                let (a, i) = self.valias.get(&p.path.segments[0].ident.to_string()).cloned().unwrap();
                let t = self.elem_ty(&a);
                (format!("(EIdx {} (IVar {}))", q(&a), q(&i)), t)
            }
            syn::Expr::Path(p) if p.path.segments.len() == 1 => {
                let n = p.path.segments[0].ident.to_string();
                match self.vars.get(&n) {
                    Some(Ty::Int(i)) => (format!("(EVar {})", q(&n)), Some(*i)),
                    _ => match self.consts.get(&n) {
                        Some(v) => (format!("(ELit {})", v), Some(Ity::Usz)),
                        None => Self::unsupported(e),
                    },
                }
            }
            syn::Expr::Field(f) if toks(&f.base) == "self" => {
                if let syn::Member::Named(m) = &f.member {
                    if let Some(t) = self.sfields.get(&m.to_string()) {
                        return (format!("(EVar {})", q(&format!("self.{}", m))), Some(*t));
                    }
                }
                Self::unsupported(e)
            }
            syn::Expr::Unary(u) if matches!(u.op, syn::UnOp::Not(_)) => {
                let (x, t) = self.expr(&u.expr, expect);
                match t.or(expect) {
                    Some(t) => (format!("(ENot {} {})", t.coq(), x), Some(t)),
                    None => Self::unsupported(e),
                }
            }
            syn::Expr::Unary(u) => {
                if let syn::UnOp::Deref(_) = u.op {
                    if let syn::Expr::Path(p) = &*u.expr {
                        if p.path.segments.len() == 1 {
                            let n = p.path.segments[0].ident.to_string();
                            if let Some((a, i)) = self.alias.get(&n).cloned() {
                                let t = self.elem_ty(&a);
                                return (format!("(EIdx {} (IVar {}))", q(&a), q(&i)), t);
                            }
                        }
                    }
                }
                Self::unsupported(e)
            }
            syn::Expr::Index(ix) => {
                if let (Some((a, t)), Some(i)) = (self.array_name(&ix.expr), self.idx(&ix.index)) {
                    return (format!("(EIdx {} {})", q(&a), i), Some(t));
                }
                // <array-valued call>[k]
                if self.multi.is_some() && matches!(Self::peel(&ix.expr), syn::Expr::MethodCall(_) | syn::Expr::Call(_)) {
                    if let (Some((a, t)), Some(i)) = (self.array_call(&ix.expr), self.idx(&ix.index)) {
                        return (format!("(EIdx {} {})", q(&a), i), Some(t));
                    }
                }
                // a[<computed usize>]
                if let Some((a, t)) = self.array_name(&ix.expr) {
                    if !matches!(&*ix.index, syn::Expr::Range(_)) {
                        let (i, ti) = self.expr(&ix.index, Some(Ity::Usz));
                        if ti == Some(Ity::Usz) {
                            return (format!("(EIdxE {} {})", q(&a), i), Some(t));
                        }
                    }
                }
                Self::unsupported(e)
            }
            syn::Expr::Binary(b) => {
                use syn::BinOp::*;
                match &b.op {
                    BitAnd(_) | BitOr(_) | BitXor(_) | Add(_) | Sub(_) | Rem(_) => {
                        // the two operands have the same type; an unsuffixed literal takes the other's
                        let (l0, tl0) = self.expr(&b.left, expect);
                        let (r, tr) = self.expr(&b.right, tl0.or(expect));
                        let (l, tl) = if Self::lit(&b.left).is_some() { self.expr(&b.left, tr.or(expect)) } else { (l0, tl0) };
                        let t = if Self::lit(&b.left).is_some() { tr.or(tl) } else { tl.or(tr) };
                        let t = match t {
                            Some(t) => t,
                            None => return Self::unsupported(e),
                        };
                        let s = match &b.op {
                            BitAnd(_) => format!("(EAnd {} {})", l, r),
                            BitOr(_) => format!("(EOr {} {})", l, r),
                            BitXor(_) => format!("(EXor {} {})", l, r),
                            Add(_) if t == Ity::I32 => format!("(EAddS32 {} {})", l, r),
                            Sub(_) if t == Ity::I32 => return Self::unsupported(e),
                            Add(_) => format!("(EAdd {} {} {})", t.coq(), l, r),
                            Rem(_) => format!("(ERem {} {})", l, r),
                            _ => format!("(ESub {} {} {})", t.coq(), l, r),
                        };
                        (s, Some(t))
                    }
                    Shl(_) | Shr(_) => {
                        let (l, tl) = self.expr(&b.left, expect);
                        let t = match tl {
                            Some(t) => t,
                            None => return Self::unsupported(e),
                        };
                        let left = matches!(b.op, Shl(_));
                        if let Some((k, _)) = Self::lit(&b.right) {
                            if k as u32 >= t.bits() {
                                return Self::unsupported(e); // rejected by rustc
                            }
                            return (if left { format!("(EShlC {} {} {})", t.coq(), l, k) } else { format!("(EShrC {} {})", l, k) }, Some(t));
                        }
                        let (r, tr) = self.expr(&b.right, None);
                        if tr.is_none() {
                            return Self::unsupported(e);
                        }
                        (format!("({} {} {} {})", if left { "EShl" } else { "EShr" }, t.coq(), l, r), Some(t))
                    }
                    _ => Self::unsupported(e),
                }
            }
            syn::Expr::MethodCall(m) => {
                let name = m.method.to_string();
                match name.as_str() {
                    "wrapping_add" | "wrapping_mul" if m.args.len() == 1 => {
                        let (l, tl) = self.expr(&m.receiver, expect);
                        let (r, tr) = self.expr(&m.args[0], tl.or(expect));
                        match tl.or(tr) {
                            Some(t) => (format!("({} {} {} {})", if name == "wrapping_add" { "EWAdd" } else { "EWMul" }, t.coq(), l, r), Some(t)),
                            None => Self::unsupported(e),
                        }
                    }
                    "rotate_left" if m.args.len() == 1 => {
                        let (l, tl) = self.expr(&m.receiver, expect);
                        match (tl, Self::lit(&m.args[0])) {
                            (Some(t), Some((k, _))) if (k as u32) < t.bits() => (format!("(ERotl {} {} {})", t.coq(), l, k), Some(t)),
                            _ => Self::unsupported(e),
                        }
                    }
                    "min" if m.args.len() == 1 => {
                        let (a, ta) = self.expr(&m.receiver, expect);
                        let (b, tb) = self.expr(&m.args[0], ta.or(expect));
                        match ta.or(tb) {
                            Some(t) => (format!("(EMin {} {})", a, b), Some(t)),
                            None => Self::unsupported(e),
                        }
                    }
                    "len" if m.args.is_empty() && self.array_name(&m.receiver).is_some() => {
                        let (a, _) = self.array_name(&m.receiver).unwrap();
                        (format!("(ELen {})", q(&a)), Some(Ity::Usz))
                    }
                    // self.buffer.len(): a byte-level helper of HashPacket (internal.rs), given to the interpreter as an external
                    _ if self.sub.as_ref().map(|sb| toks(&m.receiver) == format!("self . {}", sb.field)).unwrap_or(false) => {
                        match self.sub_call(m) {
                            Some((txt, Ty::Int(i))) => {
                                let t = self.fresh("c");
                                self.pre.push(format!("SCallSub (Some {}) {}", q(&t), txt));
                                self.vars.insert(t.clone(), Ty::Int(i));
                                (format!("(EVar {})", q(&t)), Some(i))
                            }
                            Some((txt, Ty::Idx)) => {
                                let t = self.fresh("c");
                                self.pre.push(format!("SCallSub (Some {}) {}", q(&t), txt));
                                self.vars.insert(t.clone(), Ty::Int(Ity::Usz));
                                (format!("(EVar {})", q(&t)), Some(Ity::Usz))
                            }
                            _ => Self::unsupported(e),
                        }
                    }
                    _ => Self::unsupported(e),
                }
            }
            syn::Expr::Cast(c) => {
                let to = match ty_of(&c.ty, false) {
                    Some(Ty::Int(i)) => i,
                    Some(Ty::Idx) => Ity::Usz,
                    _ => return Self::unsupported(e),
                };
                let (x, ti) = self.expr(&c.expr, None);
                match ti {
                    Some(ti) if to.bits() <= ti.bits() => (format!("(ETrunc {} {})", to.coq(), x), Some(to)),
                    Some(_) => (format!("(EWiden {})", x), Some(to)),
                    None => Self::unsupported(e),
                }
            }
            syn::Expr::Call(c) if self.multi.is_some() && self.prim_of(c).map(|pn| pn.contains("extract_lane")).unwrap_or(false) => {
                // a scalar-valued SIMD primitive of vector arguments
                let name = self.prim_of(c).unwrap();
                let mut vs = Vec::new();
                for a in &c.args {
                    if !self.is_vec(a) {
                        return Self::unsupported(e);
                    }
                    let v = match self.vec_place(a) {
                        Some(p) => p,
                        None => {
                            let x = self.vx(a);
                            let tmp = self.fresh("v");
                            self.vvars.insert(tmp.clone());
                            self.pre.push(format!("SLetV {} {}", q(&tmp), x));
                            tmp
                        }
                    };
                    vs.push(q(&v));
                }
                (format!("(EVPrim {} [{}])", q(&name), vs.join("; ")), Some(Ity::U64))
            }
            syn::Expr::Call(c) if self.multi.is_some() && self.callee_of_call(c).is_some() => {
                let qn = self.callee_of_call(c).unwrap();
                let args: Vec<&syn::Expr> = c.args.iter().collect();
                match self.call(&qn, &args) {
                    Some((txt, Ty::Int(i))) => {
                        let tmp = self.fresh("c");
                        self.vars.insert(tmp.clone(), Ty::Int(i));
                        self.pre.push(format!("SCall (Some {}) {}", q(&tmp), txt));
                        (format!("(EVar {})", q(&tmp)), Some(i))
                    }
                    _ => Self::unsupported(e),
                }
            }
            syn::Expr::Call(c) => {
                // core::mem::size_of::<uN>()
                if c.args.is_empty() {
                    let t = toks(&c.func).replace(' ', "");
                    for (name, n) in [("u8", 1), ("u16", 2), ("u32", 4), ("u64", 8)] {
                        if t == format!("core::mem::size_of::<{}>", name) {
                            return (format!("(ELit {})", n), Some(Ity::Usz));
                        }
                    }
                }
                // u64::from(x)
                if let syn::Expr::Path(p) = &*c.func {
                    let segs: Vec<String> = p.path.segments.iter().map(|s| s.ident.to_string()).collect();
                    // uN::from_le_bytes(<array-valued call>), e.g. take::<8>(bytes)
                    if segs.len() == 2 && segs[1] == "from_le_bytes" && c.args.len() == 1 && !matches!(&c.args[0], syn::Expr::Array(_)) {
                        if let (Some(to), Some((a, Ity::U8))) = (Ity::of_name(&segs[0]), self.array_call(&c.args[0])) {
                            if self.lens.get(&a).map(|n| *n as u32 * 8 == to.bits()).unwrap_or(false) {
                                return (format!("(EFromLe {} {})", q(&a), to.bits() / 8), Some(to));
                            }
                        }
                    }
                    // uN::from_le_bytes([a[0], a[1], .., a[n-1]])
                    if segs.len() == 2 && segs[1] == "from_le_bytes" && c.args.len() == 1 {
                        if let (Some(to), syn::Expr::Array(arr)) = (Ity::of_name(&segs[0]), &c.args[0]) {
                            let mut name: Option<String> = None;
                            let mut ok = arr.elems.len() as u32 * 8 == to.bits();
                            for (k, el) in arr.elems.iter().enumerate() {
                                match el {
                                    syn::Expr::Index(ix) => match (self.array_name(&ix.expr), Self::lit(&ix.index)) {
                                        (Some((a, Ity::U8)), Some((v, _))) if v as usize == k && name.as_ref().map(|n| *n == a).unwrap_or(true) => name = Some(a),
                                        _ => ok = false,
                                    },
                                    _ => ok = false,
                                }
                            }
                            if let (true, Some(a)) = (ok, name) {
                                return (format!("(EFromLe {} {})", q(&a), arr.elems.len()), Some(to));
                            }
                        }
                    }
                    if segs.len() == 2 && segs[1] == "from" && c.args.len() == 1 {
                        if let Some(to) = Ity::of_name(&segs[0]) {
                            let (x, ti) = self.expr(&c.args[0], None);
                            if let Some(ti) = ti {
                                if ti.bits() <= to.bits() {
                                    return (format!("(EWiden {})", x), Some(to));
                                }
                            }
                        }
                    }
                }
                Self::unsupported(e)
            }
            _ => Self::unsupported(e),
        }
    }

    fn elem_ty(&self, a: &str) -> Option<Ity> {
        if let Some(f) = a.strip_prefix("self.") {
            return self.fields.get(f).map(|x| x.0);
        }
        match self.vars.get(a) {
            Some(Ty::Arr(i)) => Some(*i),
            _ => None,
        }
    }

    fn place(&mut self, e: &syn::Expr) -> Option<(String, String, Option<Ity>)> {
        // -> (place, the same place as an expression, type)
        match e {
            syn::Expr::Paren(p) => self.place(&p.expr),
            syn::Expr::Path(p) if p.path.segments.len() == 1 => {
                let n = p.path.segments[0].ident.to_string();
                match self.vars.get(&n) {
                    Some(Ty::Int(i)) => Some((format!("(PVar {})", q(&n)), format!("(EVar {})", q(&n)), Some(*i))),
                    _ => None,
                }
            }
            syn::Expr::Field(f) if toks(&f.base) == "self" => {
                if let syn::Member::Named(m) = &f.member {
                    if let Some(t) = self.sfields.get(&m.to_string()) {
                        let n = format!("self.{}", m);
                        return Some((format!("(PVar {})", q(&n)), format!("(EVar {})", q(&n)), Some(*t)));
                    }
                }
                None
            }
            syn::Expr::Unary(u) => {
                if let (syn::UnOp::Deref(_), syn::Expr::Path(p)) = (&u.op, &*u.expr) {
                    if p.path.segments.len() == 1 {
                        let n = p.path.segments[0].ident.to_string();
                        if let Some((a, i)) = self.alias.get(&n).cloned() {
                            let t = self.elem_ty(&a);
                            return Some((format!("(PIdx {} (IVar {}))", q(&a), q(&i)), format!("(EIdx {} (IVar {}))", q(&a), q(&i)), t));
                        }
                    }
                }
                None
            }
            syn::Expr::Index(ix) => {
                let (a, t) = self.array_name(&ix.expr)?;
                if let Some(i) = self.idx(&ix.index) {
                    return Some((format!("(PIdx {} {})", q(&a), i), format!("(EIdx {} {})", q(&a), i), Some(t)));
                }
                if matches!(&*ix.index, syn::Expr::Range(_)) {
                    return None;
                }
                let (i, ti) = self.expr(&ix.index, Some(Ity::Usz));
                if ti != Some(Ity::Usz) {
                    return None;
                }
                Some((format!("(PIdxE {} {})", q(&a), i), format!("(EIdxE {} {})", q(&a), i), Some(t)))
            }
            _ => None,
        }
    }

    /// a call of a function of this impl (translated or external): returns the SCall text without destination
    fn call(&mut self, name: &str, args: &[&syn::Expr]) -> Option<(String, Ty)> {
        let sig = self.sigs.get(name)?.clone();
        if sig.params.len() != args.len() {
            return None;
        }
        let mut out = Vec::new();
        let recv_mut = self.multi.map(|m| m.wrap_mut.contains(name)).unwrap_or(false);
        for (k, ((_, pt), a)) in sig.params.iter().zip(args).enumerate() {
            if k == 0 && recv_mut {
                // &mut self of a wrapper method: the vector is passed by reference
                out.push(format!("AVecRef {}", q(&self.vec_place(a)?)));
                continue;
            }
            match pt {
                Ty::Int(i) => {
                    let (x, _) = self.expr(a, Some(*i));
                    out.push(format!("AVal {}", x));
                }
                Ty::Idx if self.multi.is_some() && self.idx(a).is_none() => {
                    // a usize passed by value in a SIMD file: a scalar
                    let (x, _) = self.expr(a, Some(Ity::Usz));
                    out.push(format!("AVal {}", x));
                }
                Ty::Idx => out.push(format!("AK {}", self.idx(a)?)),
                Ty::Vec => {
                    let v = self.vx(a);
                    out.push(format!("AVec {}", v));
                }
                Ty::TupVec(_) => {
                    let t = self.tupv_arg(a)?;
                    out.push(format!("ATupV {}", q(&t)));
                }
                Ty::Arr(_) => {
                    if let Some((n, _)) = self.array_name(a) {
                        out.push(format!("AArr {}", q(&n)));
                    } else if let Some((n, _)) = self.array_call(a) {
                        out.push(format!("AArr {}", q(&n)));
                    } else {
                        return None;
                    }
                }
                _ => return None,
            }
        }
        Some((format!("{} [{}]", q(name), out.join("; ")), sig.ret.clone()))
    }

    /// an array-valued call used as an argument or initialiser: hoisted into a temporary
    fn array_call(&mut self, e: &syn::Expr) -> Option<(String, Ity)> {
        // &a[lo..hi] as an argument: a slice value
        if let Some((a, lo, hi, t)) = self.range_slice(e) {
            let tmp = self.fresh("a");
            self.pre.push(format!("SLetSlice {} {} {} {}", q(&tmp), q(&a), lo, hi));
            self.vars.insert(tmp.clone(), Ty::Arr(t));
            return Some((tmp, t));
        }
        let e = Self::peel(e);
        let e = match e {
            syn::Expr::Reference(r) => Self::peel(&r.expr),
            _ => e,
        };
        match e {
            // take::<N>(x): debug_assert!(x.len() >= N), then an unchecked read of N bytes
            syn::Expr::Call(c) if self.multi.map(|m| m.take_ok).unwrap_or(false) && toks(&c.func).replace(' ', "").starts_with("take::<") && c.args.len() == 1 => {
                let t = toks(&c.func).replace(' ', "");
                let n: usize = t.trim_start_matches("take::<").trim_end_matches('>').parse().ok()?;
                let (a, _) = self.array_name(&c.args[0])?;
                let tmp = self.fresh("k");
                self.pre.push(format!("SLetTake {} {} {}%nat", q(&tmp), q(&a), n));
                self.vars.insert(tmp.clone(), Ty::Arr(Ity::U8));
                self.lens.insert(tmp.clone(), n);
                Some((tmp, Ity::U8))
            }
            syn::Expr::Call(c) => {
                let name = self.assoc_call(c)?;
                let args: Vec<&syn::Expr> = c.args.iter().collect();
                let (txt, ret) = self.call(&name, &args)?;
                if let Ty::Arr(i) = ret {
                    let t = self.fresh("a");
                    self.pre.push(format!("SCall (Some {}) {}", q(&t), txt));
                    self.vars.insert(t.clone(), Ty::Arr(i));
                    return Some((t, i));
                }
                None
            }
            syn::Expr::MethodCall(m) if m.method == "to_le_bytes" && m.args.is_empty() => {
                let (x, t) = self.expr(&m.receiver, None);
                let t = t?;
                let tmp = self.fresh("a");
                self.pre.push(format!("SLetToLe {} {} {}", q(&tmp), x, t.bits() / 8));
                self.vars.insert(tmp.clone(), Ty::Arr(Ity::U8));
                self.lens.insert(tmp.clone(), (t.bits() / 8) as usize);
                Some((tmp, Ity::U8))
            }
            syn::Expr::MethodCall(m) if m.method == "remainder" && m.args.is_empty() => {
                // chunks.remainder()
                if let syn::Expr::Path(p) = &*m.receiver {
                    if p.path.segments.len() == 1 {
                        if let Some((d, n)) = self.chunks.get(&p.path.segments[0].ident.to_string()).cloned() {
                            let t = self.fresh("a");
                            self.pre.push(format!("SLetChunksRem {} {} {}", q(&t), q(&d), n));
                            self.vars.insert(t.clone(), Ty::Arr(Ity::U8));
                            return Some((t, Ity::U8));
                        }
                    }
                }
                None
            }
            syn::Expr::MethodCall(m) if self.multi.is_some() && self.is_vec(&m.receiver) => {
                let qn = self.qual(Owner::Wrap, &m.method.to_string());
                let mut args: Vec<&syn::Expr> = vec![&*m.receiver];
                args.extend(m.args.iter());
                match self.call(&qn, &args) {
                    Some((txt, Ty::Arr(i))) => {
                        let t = self.fresh("a");
                        self.pre.push(format!("SCall (Some {}) {}", q(&t), txt));
                        self.vars.insert(t.clone(), Ty::Arr(i));
                        Some((t, i))
                    }
                    _ => None,
                }
            }
            syn::Expr::MethodCall(m) => match self.sub_call(m) {
                Some((txt, Ty::Arr(i))) => {
                    let t = self.fresh("a");
                    self.pre.push(format!("SCallSub (Some {}) {}", q(&t), txt));
                    self.vars.insert(t.clone(), Ty::Arr(i));
                    Some((t, i))
                }
                _ => None,
            },
            _ => None,
        }
    }

    fn opt_bound(&mut self, e: &Option<Box<syn::Expr>>) -> String {
        match e {
            None => "None".into(),
            Some(x) => {
                let (t, _) = self.expr(x, Some(Ity::Usz));
                format!("(Some {})", t)
            }
        }
    }

    /// `a[lo..hi]` / `&a[lo..hi]` with a an array or slice variable -> (a, lo, hi, elem type)
    fn range_slice(&mut self, e: &syn::Expr) -> Option<(String, String, String, Ity)> {
        let e = match e {
            syn::Expr::Reference(r) => &*r.expr,
            syn::Expr::Paren(p) => &*p.expr,
            _ => e,
        };
        if let syn::Expr::Index(ix) = e {
            if let (Some((a, t)), syn::Expr::Range(r)) = (self.array_name(&ix.expr), &*ix.index) {
                if matches!(r.limits, syn::RangeLimits::HalfOpen(_)) {
                    let lo = self.opt_bound(&r.start);
                    let hi = self.opt_bound(&r.end);
                    return Some((a, lo, hi, t));
                }
            }
        }
        None
    }

    fn cond(&mut self, e: &syn::Expr) -> Option<String> {
        match e {
            syn::Expr::Paren(p) => return self.cond(&p.expr),
            syn::Expr::Unary(u) if matches!(u.op, syn::UnOp::Not(_)) => {
                let c = self.cond(&u.expr)?;
                return Some(format!("(CNot {})", c));
            }
            syn::Expr::MethodCall(m) if self.sub.as_ref().map(|sb| toks(&m.receiver) == format!("self . {}", sb.field)).unwrap_or(false) => {
                if let Some((txt, Ty::Bool)) = self.sub_call(m) {
                    let t = self.fresh("b");
                    self.pre.push(format!("SCallSub (Some {}) {}", q(&t), txt));
                    self.vars.insert(t.clone(), Ty::Int(Ity::Usz));
                    return Some(format!("(CNe (EVar {}) (ELit 0))", q(&t)));
                }
                return None;
            }
            syn::Expr::MethodCall(m) if m.method == "is_empty" && m.args.is_empty() => {
                let (a, _) = self.array_name(&m.receiver)?;
                return Some(format!("(CIsEmpty {})", q(&a)));
            }
            _ => {}
        }
        if let syn::Expr::Binary(b) = e {
            use syn::BinOp::*;
            // a.len() >= k  /  a.len() > k  with a literal k, in the SIMD files: decided on the length itself
            if self.multi.is_some() && matches!(&b.op, Ge(_) | Gt(_)) {
                if let (syn::Expr::MethodCall(l), Some((k, _))) = (&*b.left, Self::lit(&b.right)) {
                    if l.method == "len" && l.args.is_empty() {
                        if let Some((x, _)) = self.array_name(&l.receiver) {
                            let c = if matches!(&b.op, Ge(_)) { "CLenGe" } else { "CLenGtK" };
                            return Some(format!("({} {} {}%nat)", c, q(&x), k));
                        }
                    }
                }
            }
            let ge = matches!(&b.op, Ge(_));
            let name = match &b.op {
                Le(_) => "CLe",
                Ge(_) => "CLe",
                Ne(_) => "CNe",
                Eq(_) => "CEq",
                Gt(_) => "CGt",
                Lt(_) => "CLt",
                _ => return None,
            };
            // a.len() > b.len()
            if name == "CGt" {
                if let (syn::Expr::MethodCall(l), syn::Expr::MethodCall(r)) = (&*b.left, &*b.right) {
                    if l.method == "len" && r.method == "len" {
                        if let (Some((x, _)), Some((y, _))) = (self.array_name(&l.receiver), self.array_name(&r.receiver)) {
                            return Some(format!("(CLenGt {} {})", q(&x), q(&y)));
                        }
                    }
                }
            }
            let (l0, tl) = self.expr(&b.left, None);
            let (r, tr) = self.expr(&b.right, tl);
            let l = if tl.is_none() { self.expr(&b.left, tr).0 } else { l0 };
            if tl.or(tr).is_none() {
                return None;
            }
            if ge {
                return Some(format!("(CLe {} {})", r, l)); // a >= b  is  b <= a
            }
            return Some(format!("({} {} {})", name, l, r));
        }
        None
    }

    /// dst[dlo..].iter_mut().zip(&src[slo..])  ->  (dst, dlo, src, slo)
    fn zip_of(&mut self, e: &syn::Expr) -> Option<(String, String, String, String)> {
        if let syn::Expr::MethodCall(z) = e {
            if z.method == "zip" && z.args.len() == 1 {
                if let syn::Expr::MethodCall(im) = &*z.receiver {
                    if im.method == "iter_mut" && im.args.is_empty() {
                        let (dst, dlo) = match self.range_slice(&im.receiver) {
                            Some((a, lo, hi, _)) if hi == "None" => (a, lo),
                            Some(_) => return None,
                            None => (self.array_name(&im.receiver)?.0, "None".to_string()),
                        };
                        let (src, slo) = match self.range_slice(&z.args[0]) {
                            Some((a, lo, hi, _)) if hi == "None" => (a, lo),
                            Some(_) => return None,
                            None => match self.array_name(&z.args[0]) {
                                Some((a, _)) => (a, "None".to_string()),
                                None => (self.array_call(&z.args[0])?.0, "None".to_string()),
                            },
                        };
                        return Some((dst, dlo, src, slo));
                    }
                }
            }
        }
        None
    }

    /// self.<sub>.m(args)  ->  ("<sub>.m" [args] fmap, return type)
    fn sub_call(&mut self, m: &syn::ExprMethodCall) -> Option<(String, Ty)> {
        let sub = self.sub.as_ref()?;
        if toks(&m.receiver) != format!("self . {}", sub.field) {
            return None;
        }
        let sig = sub.sigs.get(&m.method.to_string())?.clone();
        if sig.params.len() != m.args.len() {
            return None;
        }
        let mut out = Vec::new();
        for ((_, pt), a) in sig.params.iter().zip(m.args.iter()) {
            match pt {
                Ty::Int(i) => {
                    let (x, _) = self.expr(a, Some(*i));
                    out.push(format!("AVal {}", x));
                }
                Ty::Arr(_) => {
                    if let Some((n, _)) = self.array_name(a) {
                        out.push(format!("AArr {}", q(&n)));
                    } else if let Some((n, _)) = self.array_call(a) {
                        out.push(format!("AArr {}", q(&n)));
                    } else {
                        return None;
                    }
                }
                _ => return None,
            }
        }
        let fmap: Vec<String> = sub.fields.iter().map(|f| format!("({}, {})", q(&format!("self.{}", f)), q(&format!("self.{}.{}", sub.field, f)))).collect();
        Some((format!("{} [{}] [{}]", q(&format!("{}.{}", sub.field, m.method)), out.join("; "), fmap.join("; ")), sig.ret.clone()))
    }

    // ------------------------------------------------------------------ vectors (SIMD backend files)
    /// strip `unsafe { e }`, parentheses and references around a single expression
    fn peel<'e>(e: &'e syn::Expr) -> &'e syn::Expr {
        match e {
            syn::Expr::Unsafe(u) if u.block.stmts.len() == 1 => match &u.block.stmts[0] {
                syn::Stmt::Expr(x, None) => Self::peel(x),
                _ => e,
            },
            syn::Expr::Paren(p) => Self::peel(&p.expr),
            syn::Expr::Group(p) => Self::peel(&p.expr),
            _ => e,
        }
    }

    /// the name of the SIMD primitive a call refers to: a `wasm32::..` path, or (NEON: intrinsics glob-imported) a bare name that is
    /// not a function of the file
    fn prim_of(&self, c: &syn::ExprCall) -> Option<String> {
        let m = self.multi?;
        let t = toks(&c.func).replace(' ', "");
        if m.prim_prefix == "wasm32::" {
            return if t.starts_with("wasm32::") { Some(t) } else { None };
        }
        if let syn::Expr::Path(p) = &*c.func {
            if p.path.segments.len() == 1 && !self.sigs.contains_key(&t) && !self.sigs.contains_key(&format!("{}{}", m.mod_prefix, t)) && t.starts_with('v') && t != "vec" {
                return Some(format!("{}{}", m.prim_prefix, t));
            }
        }
        None
    }

    /// result type of a NEON intrinsic, read off its name (vreinterpretq_A_B -> A; narrowing / widening ones listed)
    fn neon_ret(name: &str) -> Option<String> {
        let n = name.strip_prefix("neon::")?;
        let el = |s: &str| -> Option<String> {
            Some(match s {
                "u8" => "uint8x16_t",
                "u16" => "uint16x8_t",
                "u32" => "uint32x4_t",
                "s32" => "int32x4_t",
                "u64" => "uint64x2_t",
                _ => return None,
            }
            .to_string())
        };
        if let Some(rest) = n.strip_prefix("vreinterpretq_") {
            return el(rest.split('_').next()?);
        }
        match n {
            "vmovn_u64" | "vshrn_n_u64" => return Some("uint32x2_t".into()),
            "vmull_u32" => return Some("uint64x2_t".into()),
            _ => {}
        }
        el(n.rsplit('_').next()?)
    }

    /// the written type of a vector-valued expression, where it can be told (needed to pick among several `impl From<T>`)
    fn vty(&self, e: &syn::Expr) -> Option<String> {
        let m = self.multi?;
        let e = Self::peel(e);
        match e {
            syn::Expr::Reference(r) => self.vty(&r.expr),
            syn::Expr::Unary(u) if matches!(u.op, syn::UnOp::Deref(_)) => self.vty(&u.expr),
            syn::Expr::Field(f) if matches!(&f.member, syn::Member::Unnamed(i) if i.index == 0) => Some(m.inner_ty.clone()),
            syn::Expr::Path(p) if p.path.segments.len() == 1 => self.vtypes.get(&p.path.segments[0].ident.to_string()).cloned(),
            syn::Expr::Call(c) => {
                if let Some(pn) = self.prim_of(c) {
                    return Self::neon_ret(&pn);
                }
                let qn = self.callee_of_call(c)?;
                m.ret_raw.get(&qn).cloned()
            }
            _ => None,
        }
    }

    /// `X.as_ptr()`, `X.as_mut_ptr()`, a pointer variable, `<ptr>.offset(k)` / `.add(k)`: (array, byte offset)
    fn ptr_of(&self, e: &syn::Expr) -> Option<(String, usize)> {
        let e = Self::peel(e);
        match e {
            syn::Expr::Path(p) if p.path.segments.len() == 1 => self.ptr_alias.get(&p.path.segments[0].ident.to_string()).cloned(),
            syn::Expr::MethodCall(mc) if (mc.method == "as_ptr" || mc.method == "as_mut_ptr") && mc.args.is_empty() => {
                let (a, _) = self.array_name(&mc.receiver)?;
                Some((a, 0))
            }
            syn::Expr::MethodCall(mc) if (mc.method == "offset" || mc.method == "add") && mc.args.len() == 1 => {
                let (a, o) = self.ptr_of(&mc.receiver)?;
                let (k, _) = Self::lit(&mc.args[0])?;
                Some((a, o + k as usize))
            }
            _ => None,
        }
    }

    fn qual(&self, owner: Owner, name: &str) -> String {
        match (self.multi, owner) {
            (Some(m), Owner::Hash) => format!("{}{}::{}", m.mod_prefix, m.hash_ty, name),
            (Some(m), Owner::Wrap) => format!("{}{}::{}", m.mod_prefix, m.wrap_ty, name),
            _ => name.to_string(),
        }
    }

    fn vec_place(&self, e: &syn::Expr) -> Option<String> {
        // a vector-valued place: local vector, self.<vector field>, `self` / `self.0` inside the wrapper, aliases, x.0, *x
        let m = self.multi?;
        let e = Self::peel(e);
        match e {
            syn::Expr::Paren(p) => self.vec_place(&p.expr),
            syn::Expr::Group(p) => self.vec_place(&p.expr),
            syn::Expr::Reference(r) => self.vec_place(&r.expr),
            syn::Expr::Unary(u) if matches!(u.op, syn::UnOp::Deref(_)) => self.vec_place(&u.expr),
            syn::Expr::Path(p) if p.path.segments.len() == 1 => {
                let n = p.path.segments[0].ident.to_string();
                if let Some(t) = self.vec_alias.get(&n) {
                    return Some(t.clone());
                }
                if self.vvars.contains(&n) || (n == "self" && self.owner == Owner::Wrap) {
                    return Some(n);
                }
                None
            }
            syn::Expr::Field(f) => {
                if let syn::Member::Unnamed(i) = &f.member {
                    if i.index == 0 {
                        return self.vec_place(&f.base);
                    }
                }
                if let (syn::Expr::Path(b), syn::Member::Named(mm)) = (&*f.base, &f.member) {
                    if b.path.is_ident("self") && self.owner == Owner::Hash && m.vfields.contains(&mm.to_string()) {
                        return Some(format!("self.{}", mm));
                    }
                }
                None
            }
            _ => None,
        }
    }

    fn is_vec(&self, e: &syn::Expr) -> bool {
        let m = match self.multi {
            Some(m) => m,
            None => return false,
        };
        if self.vec_place(e).is_some() {
            return true;
        }
        let e = Self::peel(e);
        match e {
            syn::Expr::Paren(p) => self.is_vec(&p.expr),
            syn::Expr::Reference(r) => self.is_vec(&r.expr),
            syn::Expr::Unary(u) if matches!(u.op, syn::UnOp::Deref(_)) => self.is_vec(&u.expr),
            syn::Expr::Field(f) => matches!(&f.member, syn::Member::Unnamed(i) if i.index == 0) && self.is_vec(&f.base),
            syn::Expr::Binary(b) => self.is_vec(&b.left) || self.is_vec(&b.right),
            syn::Expr::Call(c) => {
                let t = toks(&c.func).replace(' ', "");
                if t == m.wrap_ty || t == format!("{}::from", m.wrap_ty) || t == "Self::from" {
                    return true;
                }
                self.callee_of_call(c).and_then(|n| self.sigs.get(&n).map(|s| s.ret == Ty::Vec)).unwrap_or(false)
                    || self.prim_of(c).map(|pn| !pn.contains("extract_lane") && !pn.starts_with("neon::vst1")).unwrap_or(false)
            }
            syn::Expr::MethodCall(mc) => {
                if self.is_vec(&mc.receiver) {
                    let n = self.qual(Owner::Wrap, &mc.method.to_string());
                    return self.sigs.get(&n).map(|s| s.ret == Ty::Vec).unwrap_or(false);
                }
                false
            }
            _ => false,
        }
    }

    /// qualified name of the function a path call refers to (multi mode)
    fn callee_of_call(&self, c: &syn::ExprCall) -> Option<String> {
        let m = self.multi?;
        if let syn::Expr::Path(p) = &*c.func {
            let segs: Vec<String> = p.path.segments.iter().map(|s| s.ident.to_string()).collect();
            if segs.len() == 1 {
                let pn = format!("{}{}", m.mod_prefix, segs[0]);
                if self.sigs.contains_key(&pn) {
                    return Some(pn);
                }
                return if self.sigs.contains_key(&segs[0]) { Some(segs[0].clone()) } else { None };
            }
            if segs.len() == 2 {
                let owner = if segs[0] == m.hash_ty || (segs[0] == "Self" && self.owner == Owner::Hash) {
                    Owner::Hash
                } else if segs[0] == m.wrap_ty || (segs[0] == "Self" && self.owner == Owner::Wrap) {
                    Owner::Wrap
                } else {
                    return None;
                };
                if owner == Owner::Wrap && segs[1] == "default" {
                    return m.wrap_traits.get(&("Default".to_string(), "default".to_string())).cloned();
                }
                let n = self.qual(owner, &segs[1]);
                return if self.sigs.contains_key(&n) { Some(n) } else { None };
            }
        }
        None
    }

    /// scalar argument of a SIMD primitive: a literal or a variable (anything else is named first)
    fn satom(&mut self, e: &syn::Expr) -> String {
        if let Some((v, _)) = Self::lit(e) {
            return format!("SALit {}", v);
        }
        let (x, t) = self.expr(e, None);
        if let Some(name) = x.strip_prefix("(EVar ").and_then(|r| r.strip_suffix(")")) {
            return format!("SAVar {}", name);
        }
        let tmp = self.fresh("s");
        self.vars.insert(tmp.clone(), Ty::Int(t.unwrap_or(Ity::U64)));
        self.pre.push(format!("SLet {} {}", q(&tmp), x));
        format!("SAVar {}", q(&tmp))
    }

    /// a vector-valued call of a function of the file: named, the name returned
    fn vec_call_tmp(&mut self, qualified: &str, args: Vec<String>) -> String {
        let tmp = self.fresh("v");
        self.vvars.insert(tmp.clone());
        self.pre.push(format!("SCall (Some {}) {} [{}]", q(&tmp), q(qualified), args.join("; ")));
        tmp
    }

    /// translate a vector-valued expression
    fn vx(&mut self, e: &syn::Expr) -> String {
        let m = match self.multi {
            Some(m) => m,
            None => return format!("(XV {})", q("?")),
        };
        if let Some(p) = self.vec_place(e) {
            return format!("(XV {})", q(&p));
        }
        let e = Self::peel(e);
        match e {
            syn::Expr::Paren(p) => self.vx(&p.expr),
            syn::Expr::Group(p) => self.vx(&p.expr),
            syn::Expr::Reference(r) => self.vx(&r.expr),
            syn::Expr::Unary(u) if matches!(u.op, syn::UnOp::Deref(_)) => self.vx(&u.expr),
            syn::Expr::Field(f) if matches!(&f.member, syn::Member::Unnamed(i) if i.index == 0) => self.vx(&f.base),
            syn::Expr::Binary(b) => {
                use syn::BinOp::*;
                let (tr, me) = match &b.op {
                    Add(_) => ("Add", "add"),
                    BitXor(_) => ("BitXor", "bitxor"),
                    BitOr(_) => ("BitOr", "bitor"),
                    BitAnd(_) => ("BitAnd", "bitand"),
                    _ => return format!("(XPrim {} [] [])", q(&format!("unsupported: {}", toks(e)))),
                };
                match m.wrap_traits.get(&(tr.to_string(), me.to_string())).cloned() {
                    Some(qn) => {
                        let a = self.vx(&b.left);
                        let c = self.vx(&b.right);
                        let t = self.vec_call_tmp(&qn, vec![format!("AVec {}", a), format!("AVec {}", c)]);
                        format!("(XV {})", q(&t))
                    }
                    None => format!("(XPrim {} [] [])", q(&format!("unsupported: {}", toks(e)))),
                }
            }
            syn::Expr::Call(c) => {
                let t = toks(&c.func).replace(' ', "");
                // the wrapper's tuple-struct constructor and From::from are the identity on the vector (the From impls are
                // shown to be identities by the VecLite tie of the same source)
                if t == m.wrap_ty && c.args.len() == 1 {
                    return self.vx(&c.args[0]);
                }
                if (t == format!("{}::from", m.wrap_ty) || t == "Self::from") && c.args.len() == 1 && !m.from_impls.is_empty() {
                    // several `impl From<T>`: the one for the written type of the argument
                    return match self.vty(&c.args[0]).and_then(|ty| m.from_impls.get(&ty).cloned()) {
                        Some(qn) => {
                            let a = self.vx(&c.args[0]);
                            let tmp = self.vec_call_tmp(&qn, vec![format!("AVec {}", a)]);
                            format!("(XV {})", q(&tmp))
                        }
                        None => format!("(XPrim {} [] [])", q(&format!("unsupported (type of the argument of from unknown): {}", toks(e)))),
                    };
                }
                if (t == format!("{}::from", m.wrap_ty) || t == "Self::from") && c.args.len() == 1 {
                    return match m.wrap_traits.get(&("From".to_string(), "from".to_string())).cloned() {
                        Some(qn) => {
                            let a = self.vx(&c.args[0]);
                            let tmp = self.vec_call_tmp(&qn, vec![format!("AVec {}", a)]);
                            format!("(XV {})", q(&tmp))
                        }
                        None => format!("(XPrim {} [] [])", q(&format!("unsupported: {}", toks(e)))),
                    };
                }
                if let Some(pn) = self.prim_of(c) {
                    // 16-byte load through a pointer into a byte array / 2-lane load from an array literal
                    if pn == "neon::vld1q_u8" && c.args.len() == 1 {
                        return match self.ptr_of(&c.args[0]) {
                            Some((a, off)) => format!("(XLoad16 {} {}%nat)", q(&a), off),
                            None => format!("(XPrim {} [] [])", q(&format!("unsupported load: {}", toks(e)))),
                        };
                    }
                    if pn == "neon::vld1q_u64" && c.args.len() == 1 {
                        if let syn::Expr::MethodCall(mc) = Self::peel(&c.args[0]) {
                            if let (true, syn::Expr::Array(arr)) = (mc.method == "as_ptr", Self::peel(&mc.receiver)) {
                                if arr.elems.len() == 2 {
                                    let ss: Vec<String> = arr.elems.iter().map(|x| self.satom(x)).collect();
                                    return format!("(XPrim \"neon::vld1q_u64::array\" [] [{}])", ss.join("; "));
                                }
                            }
                        }
                        return format!("(XPrim {} [] [])", q(&format!("unsupported load: {}", toks(e))));
                    }
                    let t = pn;
                    let mut vs = Vec::new();
                    let mut ss = Vec::new();
                    for a in &c.args {
                        if self.is_vec(a) {
                            vs.push(self.vx(a));
                        } else {
                            ss.push(self.satom(a));
                        }
                    }
                    return format!("(XPrim {} [{}] [{}])", q(&t), vs.join("; "), ss.join("; "));
                }
                if let Some(qn) = self.callee_of_call(c) {
                    let args: Vec<&syn::Expr> = c.args.iter().collect();
                    if let Some((txt, Ty::Vec)) = self.call(&qn, &args) {
                        let tmp = self.fresh("v");
                        self.vvars.insert(tmp.clone());
                        self.pre.push(format!("SCall (Some {}) {}", q(&tmp), txt));
                        return format!("(XV {})", q(&tmp));
                    }
                }
                format!("(XPrim {} [] [])", q(&format!("unsupported: {}", toks(e))))
            }
            syn::Expr::MethodCall(mc) if self.is_vec(&mc.receiver) => {
                let qn = self.qual(Owner::Wrap, &mc.method.to_string());
                let mut args: Vec<&syn::Expr> = vec![&*mc.receiver];
                args.extend(mc.args.iter());
                if let Some((txt, Ty::Vec)) = self.call(&qn, &args) {
                    let tmp = self.fresh("v");
                    self.vvars.insert(tmp.clone());
                    self.pre.push(format!("SCall (Some {}) {}", q(&tmp), txt));
                    return format!("(XV {})", q(&tmp));
                }
                format!("(XPrim {} [] [])", q(&format!("unsupported: {}", toks(e))))
            }
            _ => format!("(XPrim {} [] [])", q(&format!("unsupported: {}", toks(e)))),
        }
    }

    /// a tuple of vectors as an argument: a tuple variable, or a tuple literal named first
    fn tupv_arg(&mut self, e: &syn::Expr) -> Option<String> {
        match e {
            syn::Expr::Paren(p) => self.tupv_arg(&p.expr),
            syn::Expr::Path(p) if p.path.segments.len() == 1 && self.tupvars.contains(&p.path.segments[0].ident.to_string()) => {
                Some(p.path.segments[0].ident.to_string())
            }
            syn::Expr::Tuple(t) if t.elems.iter().all(|x| self.is_vec(x)) => {
                let es: Vec<String> = t.elems.iter().map(|x| self.vx(x)).collect();
                let tmp = self.fresh("t");
                self.tupvars.insert(tmp.clone());
                self.pre.push(format!("SLetTupV {} [{}]", q(&tmp), es.join("; ")));
                Some(tmp)
            }
            syn::Expr::Call(c) => {
                let qn = self.callee_of_call(c)?;
                let args: Vec<&syn::Expr> = c.args.iter().collect();
                if let Some((txt, Ty::TupVec(_))) = self.call(&qn, &args) {
                    let tmp = self.fresh("t");
                    self.tupvars.insert(tmp.clone());
                    self.pre.push(format!("SCall (Some {}) {}", q(&tmp), txt));
                    return Some(tmp);
                }
                None
            }
            _ => None,
        }
    }

    fn flush(&mut self, out: &mut Vec<String>, s: String) {
        out.append(&mut self.pre);
        out.push(s);
    }

    /// `%ret = <array expression>` (functions returning an array)
    fn set_ret(&mut self, e: &syn::Expr, out: &mut Vec<String>) {
        if let Some(t) = self.ret_scalar {
            let (x, _) = self.expr(e, Some(t));
            let st = format!("SLet \"%ret\" {}", x);
            self.flush(out, st);
            return;
        }
        if self.ret_tupv {
            match e {
                syn::Expr::Tuple(t) if t.elems.iter().all(|x| self.is_vec(x)) => {
                    let es: Vec<String> = t.elems.iter().map(|x| self.vx(x)).collect();
                    let st = format!("SLetTupV \"%ret\" [{}]", es.join("; "));
                    self.flush(out, st);
                }
                _ => out.push(format!("SUnsupported {}", q(&toks(e)))),
            }
            return;
        }
        match self.array_name(e) {
            Some((n, _)) => out.push(format!("SCopyArr \"%ret\" {}", q(&n))),
            None => out.push(format!("SUnsupported {}", q(&toks(e)))),
        }
    }

    fn block(&mut self, b: &syn::Block, out: &mut Vec<String>) -> Option<String> {
        self.stmts(&b.stmts, out)
    }

    fn stmts(&mut self, stmts: &[syn::Stmt], out: &mut Vec<String>) -> Option<String> {
        // returns the tail expression's translation (a `ret`), if the block has one
        let n = stmts.len();
        for (k, st) in stmts.iter().enumerate() {
            // if c { ..; return e; }  <rest>   in a function returning an array:  SIf c (..; %ret = e) (<rest>; %ret = tail)
            if self.ret_arr || self.ret_tupv || self.ret_scalar.is_some() {
                if let syn::Stmt::Expr(syn::Expr::If(i), _) = st {
                    if i.else_branch.is_none() {
                        if let Some(syn::Stmt::Expr(syn::Expr::Return(r), Some(_))) = i.then_branch.stmts.last() {
                            if let (Some(c), Some(rv)) = (self.cond(&i.cond), &r.expr) {
                                out.append(&mut self.pre);
                                let mut th = Vec::new();
                                let m = i.then_branch.stmts.len();
                                if self.stmts(&i.then_branch.stmts[..m - 1], &mut th).is_some() {
                                    th.push("SUnsupported \"value in statement position\"".into());
                                }
                                self.set_ret(rv, &mut th);
                                let mut el = Vec::new();
                                self.stmts(&stmts[k + 1..], &mut el);
                                out.append(&mut self.pre);
                                out.push(format!("SIf {} [{}] [{}]", c, th.join("; "), el.join("; ")));
                                return None;
                            }
                        }
                    }
                }
            }
            match st {
                syn::Stmt::Macro(m) if m.mac.path.is_ident("debug_assert") && m.mac.tokens.to_string().trim_start().starts_with("false") => {
                    out.push("SDebugAssertFalse".into())
                }
                syn::Stmt::Macro(m) if m.mac.path.is_ident("debug_assert") => {
                    let args: Result<syn::punctuated::Punctuated<syn::Expr, syn::token::Comma>, _> =
                        m.mac.parse_body_with(syn::punctuated::Punctuated::parse_terminated);
                    match args.ok().and_then(|a| a.first().cloned()).and_then(|c| self.cond(&c)) {
                        Some(c) => {
                            out.append(&mut self.pre);
                            out.push(format!("SDebugAssert {}", c));
                        }
                        None => out.push(format!("SUnsupported {}", q(&toks(m)))),
                    }
                }
                // Option-valued tails:  None  /  Some(x)  /  if c { ..; None } else { ..; Some(x) }
                syn::Stmt::Expr(e, None) if self.ret_opt && k + 1 == n => match e {
                    syn::Expr::Path(p) if p.path.is_ident("None") => out.push("SSetOpt \"%ret\" None".into()),
                    syn::Expr::Call(c) if toks(&c.func) == "Some" && c.args.len() == 1 => match self.array_name(&c.args[0]) {
                        Some((a, _)) => out.push(format!("SSetOpt \"%ret\" (Some {})", q(&a))),
                        None => out.push(format!("SUnsupported {}", q(&toks(e)))),
                    },
                    syn::Expr::If(i) => {
                        let c = self.cond(&i.cond);
                        out.append(&mut self.pre);
                        let mut th = Vec::new();
                        let mut el = Vec::new();
                        self.stmts(&i.then_branch.stmts, &mut th);
                        let ok = match &i.else_branch {
                            Some((_, eb)) => match &**eb {
                                syn::Expr::Block(bl) => {
                                    self.stmts(&bl.block.stmts, &mut el);
                                    true
                                }
                                _ => false,
                            },
                            None => false,
                        };
                        match (c, ok) {
                            (Some(c), true) => {
                                out.append(&mut self.pre);
                                out.push(format!("SIf {} [{}] [{}]", c, th.join("; "), el.join("; ")));
                            }
                            _ => out.push(format!("SUnsupported {}", q(&toks(e)))),
                        }
                    }
                    _ => out.push(format!("SUnsupported {}", q(&toks(e)))),
                },
                syn::Stmt::Expr(e, None) if (self.ret_arr || self.ret_tupv || self.ret_scalar.is_some()) && k + 1 == n && !matches!(e, syn::Expr::ForLoop(_) | syn::Expr::If(_)) => {
                    self.set_ret(e, out);
                }
                syn::Stmt::Local(l) => self.local(l, out),
                syn::Stmt::Expr(e, semi) => {
                    if semi.is_none() && k + 1 == n {
                        // a value-less tail (for / if / call returning unit) is a statement
                        if matches!(e, syn::Expr::ForLoop(_) | syn::Expr::If(_)) {
                            self.stmt_expr(e, out);
                        } else if self.multi.is_some() && matches!(Self::peel(e), syn::Expr::Assign(_) | syn::Expr::MethodCall(_)) && !self.returns_array_call(e) && self.stmt_vec(Self::peel(e), out) {
                            // a unit-valued tail:  self.0 = ..  /  self.add_assign(other)
                        } else {
                            return Some(self.ret(e, out));
                        }
                    } else {
                        self.stmt_expr(e, out);
                    }
                }
                other => out.push(format!("SUnsupported {}", q(&toks(other)))),
            }
        }
        None
    }

    /// `<object variable>.<sub-object field>` of a foreign object: (variable, fields of the sub-object)
    fn obj_sub_of(&self, e: &syn::Expr) -> Option<(String, Vec<(String, usize)>)> {
        let fo = self.multi?.foreign.as_ref()?;
        if let syn::Expr::Field(f) = e {
            if let (syn::Expr::Path(b), syn::Member::Named(m)) = (&*f.base, &f.member) {
                if b.path.segments.len() == 1 && *m == fo.sub.0 {
                    let x = b.path.segments[0].ident.to_string();
                    if fo.sub.1.iter().all(|(sf, _)| self.vars.contains_key(&format!("{}.{}.{}", x, fo.sub.0, sf))) {
                        return Some((x, fo.sub.1.clone()));
                    }
                }
            }
        }
        None
    }

    /// `<ForeignType> { field: x, .., sub: self.sub }.m(args)` returning an array: the method runs on a temporary object
    fn foreign_literal_call(&mut self, e: &syn::Expr, out: &mut Vec<String>) -> Option<String> {
        let m = self.multi?;
        let fo = m.foreign.as_ref()?;
        let mc = match e {
            syn::Expr::MethodCall(mc) => mc,
            _ => return None,
        };
        let st = match &*mc.receiver {
            syn::Expr::Struct(st) if toks(&st.path) == fo.ty && st.rest.is_none() => st,
            _ => return None,
        };
        let qn = format!("{}::{}", fo.ty, mc.method);
        let sig = self.sigs.get(&qn)?.clone();
        if !mc.args.is_empty() || !sig.params.is_empty() {
            return None;
        }
        let mut fmap = Vec::new();
        let mut seen = 0;
        for f in &st.fields {
            let name = match &f.member {
                syn::Member::Named(n) => n.to_string(),
                _ => return None,
            };
            if fo.arrays.iter().any(|(a, _)| *a == name) {
                let (src, _) = self.array_name(&f.expr)?;
                fmap.push(format!("({}, {})", q(&format!("self.{}", name)), q(&src)));
                seen += 1;
            } else if name == fo.sub.0 && toks(&f.expr) == format!("self . {}", fo.sub.0) {
                for (sf, _) in &fo.sub.1 {
                    let n = format!("self.{}.{}", fo.sub.0, sf);
                    fmap.push(format!("({}, {})", q(&n), q(&n)));
                }
                seen += 1;
            } else {
                return None;
            }
        }
        if seen != fo.arrays.len() + 1 {
            return None;
        }
        let tmp = self.fresh("r");
        match sig.ret {
            Ty::Arr(i) => {
                self.vars.insert(tmp.clone(), Ty::Arr(i));
            }
            _ => return None,
        }
        out.append(&mut self.pre);
        out.push(format!("SCallWith (Some {}) {} [] [{}]", q(&tmp), q(&qn), fmap.join("; ")));
        Some(format!("RVarArr {}", q(&tmp)))
    }

    /// is the expression a method call on a vector whose result is an array (as_arr)?
    fn returns_array_call(&self, e: &syn::Expr) -> bool {
        if let syn::Expr::MethodCall(mc) = Self::peel(e) {
            if self.is_vec(&mc.receiver) {
                let qn = self.qual(Owner::Wrap, &mc.method.to_string());
                return matches!(self.sigs.get(&qn).map(|s| &s.ret), Some(Ty::Arr(_)));
            }
        }
        false
    }

    fn ret(&mut self, e: &syn::Expr, out: &mut Vec<String>) -> String {
        if self.multi.is_some() {
            if let Some(r) = self.foreign_literal_call(e, out) {
                return r;
            }
            if self.returns_array_call(e) {
                if let Some((a, _)) = self.array_call(e) {
                    out.append(&mut self.pre);
                    return format!("RVarArr {}", q(&a));
                }
            }
        }
        if self.multi.is_some() {
            if self.is_vec(e) {
                let v = self.vx(e);
                out.append(&mut self.pre);
                return format!("RVec {}", v);
            }
        }
        if let syn::Expr::Path(p) = e {
            if p.path.segments.len() == 1 && Some(p.path.segments[0].ident.to_string()) == self.self_alias {
                return "RNone".into(); // the value under construction is self
            }
        }
        match e {
            syn::Expr::Array(a) => {
                let es: Vec<String> = a.elems.iter().map(|x| self.expr(x, None).0).collect();
                out.append(&mut self.pre);
                format!("RArr [{}]", es.join("; "))
            }
            syn::Expr::Tuple(t) => {
                let es: Vec<String> = t.elems.iter().map(|x| self.expr(x, None).0).collect();
                out.append(&mut self.pre);
                format!("RTuple [{}]", es.join("; "))
            }
            syn::Expr::Struct(s) if toks(&s.path) == self.self_ty || toks(&s.path) == "Self" => {
                // constructor: the fields of the new value are the fields of self
                for f in &s.fields {
                    let name = match &f.member {
                        syn::Member::Named(n) => n.to_string(),
                        _ => {
                            out.push(format!("SUnsupported {}", q(&toks(f))));
                            continue;
                        }
                    };
                    if self.multi.map(|m| m.vfields.contains(&name)).unwrap_or(false) {
                        let v = self.vx(&f.expr);
                        let st = format!("SLetV {} {}", q(&format!("self.{}", name)), v);
                        self.flush(out, st);
                    } else if self.fields.contains_key(&name) {
                        match &f.expr {
                            syn::Expr::Array(a) => {
                                let es: Vec<String> = a.elems.iter().map(|x| self.expr(x, None).0).collect();
                                let s = format!("SLetArr {} [{}]", q(&format!("self.{}", name)), es.join("; "));
                                self.flush(out, s);
                            }
                            other => match self.array_name(other) {
                                Some((n, _)) => out.push(format!("SCopyArr {} {}", q(&format!("self.{}", name)), q(&n))),
                                None => out.push(format!("SUnsupported {}", q(&toks(f)))),
                            },
                        }
                    } else if name == "buffer" && self.obj_sub_of(&f.expr).is_some() {
                        // buffer: <object variable>.buffer — the sub-object's fields, one by one
                        let (x, fo_sub) = self.obj_sub_of(&f.expr).unwrap();
                        for (sf, n) in &fo_sub {
                            if *n == 0 {
                                out.push(format!("SSet (PVar {}) (EVar {})", q(&format!("self.buffer.{}", sf)), q(&format!("{}.buffer.{}", x, sf))));
                            } else {
                                out.push(format!("SCopyArr {} {}", q(&format!("self.buffer.{}", sf)), q(&format!("{}.buffer.{}", x, sf))));
                            }
                        }
                    } else if name == "buffer" && toks(&f.expr) == "HashPacket :: default ()" {
                        // #[derive(Default)] on HashPacket { buf: [u8; 32], buf_index: usize }: zeroed array, index 0
                        out.push("SLetRepeat \"self.buffer.buf\" (ELit 0) 32".into());
                        out.push("SSet (PVar \"self.buffer.buf_index\") (ELit 0)".into());
                    } else {
                        out.push(format!("SUnsupported {}", q(&toks(f))));
                    }
                }
                if s.rest.is_some() {
                    out.push("SUnsupported \"..rest\"".into());
                }
                "RNone".into()
            }
            syn::Expr::Path(p) if p.path.segments.len() == 1 && matches!(self.vars.get(&p.path.segments[0].ident.to_string()), Some(Ty::Arr(_))) => {
                // returning a local array: element-wise
                let n = p.path.segments[0].ident.to_string();
                if Some(&n) == self.self_alias.as_ref() {
                    return "RNone".into();
                }
                match self.lens.get(&n) {
                    Some(len) if *len > 8 => format!("RVarArr {}", q(&n)),
                    Some(len) => format!("RArr [{}]", (0..*len).map(|i| format!("(EIdx {} (IConst {}))", q(&n), i)).collect::<Vec<_>>().join("; ")),
                    None => format!("RVal (EUnsupported {})", q(&toks(e))),
                }
            }
            // a.get(..n).unwrap_or(&a)
            syn::Expr::MethodCall(uo) if uo.method == "unwrap_or" && uo.args.len() == 1 => {
                if let syn::Expr::MethodCall(g) = &*uo.receiver {
                    if g.method == "get" && g.args.len() == 1 {
                        if let (Some((a, _)), Some((d, _)), syn::Expr::Range(r)) = (self.array_name(&g.receiver), self.array_name(&uo.args[0]), &g.args[0]) {
                            if let (None, Some(end), syn::RangeLimits::HalfOpen(_), true) = (&r.start, &r.end, &r.limits, a == d) {
                                let (n, _) = self.expr(end, Some(Ity::Usz));
                                out.append(&mut self.pre);
                                return format!("RPrefixOr {} {}", q(&a), n);
                            }
                        }
                    }
                }
                format!("RVal (EUnsupported {})", q(&toks(e)))
            }
            _ => {
                if let Some((a, _)) = self.array_name(e) {
                    return format!("RVarArr {}", q(&a));
                }
                if matches!(e, syn::Expr::Binary(_)) {
                    if let Some(c) = self.cond(e) {
                        out.append(&mut self.pre);
                        return format!("RCond {}", c);
                    }
                }
                let (x, _) = self.expr(e, None);
                out.append(&mut self.pre);
                format!("RVal {}", x)
            }
        }
    }

    fn local(&mut self, l: &syn::Local, out: &mut Vec<String>) {
        let init = match &l.init {
            Some(i) if i.diverge.is_none() => &*i.expr,
            _ => {
                out.push(format!("SUnsupported {}", q(&toks(l))));
                return;
            }
        };
        // pattern: ident, ident: type, or a tuple of idents
        let (pat, ann) = match &l.pat {
            syn::Pat::Type(t) => (&*t.pat, Some(&*t.ty)),
            p => (p, None),
        };
        match pat {
            syn::Pat::Ident(id) if id.by_ref.is_none() && id.subpat.is_none() && self.multi.is_some() && self.local_vec(&id.ident.to_string(), init, out) => {}
            syn::Pat::Ident(id) if id.by_ref.is_none() && id.subpat.is_none() => {
                let name = id.ident.to_string();
                let want = ann.and_then(|t| ty_of(t, false));
                // let mut chunks = X.chunks_exact(n);  — consumed by `for c in chunks.by_ref()` and `chunks.remainder()`
                if let syn::Expr::MethodCall(ce) = init {
                    if ce.method == "chunks_exact" && ce.args.len() == 1 {
                        let n = Self::lit(&ce.args[0]).map(|x| x.0).or_else(|| match &ce.args[0] {
                            syn::Expr::Path(p) if p.path.segments.len() == 1 => self.consts.get(&p.path.segments[0].ident.to_string()).copied(),
                            _ => None,
                        });
                        if let (Some((d, Ity::U8)), Some(n)) = (self.array_name(&ce.receiver), n) {
                            self.chunks.insert(name.clone(), (d, n));
                            return;
                        }
                    }
                }
                // [v; n]
                if let syn::Expr::Repeat(r) = init {
                    if let Some((n, _)) = Self::lit(&r.len) {
                        let et = match &want {
                            Some(Ty::Arr(i)) => Some(*i),
                            _ => None,
                        };
                        let (v, t) = self.expr(&r.expr, et);
                        if let Some(t) = et.or(t) {
                            self.vars.insert(name.clone(), Ty::Arr(t));
                            self.lens.insert(name.clone(), n as usize);
                            let s = format!("SLetRepeat {} {} {}", q(&name), v, n);
                            self.flush(out, s);
                            return;
                        }
                    }
                }
                // let x = &mut a[lo..hi];   — a mutable view
                if let syn::Expr::Reference(r) = init {
                    if r.mutability.is_some() {
                        if let Some((a, lo, hi, t)) = self.range_slice(&r.expr) {
                            self.vars.insert(name.clone(), Ty::Arr(t));
                            self.views.insert(name.clone());
                            let s = format!("SLetViewRange {} {} {} {}", q(&name), q(&a), lo, hi);
                            self.flush(out, s);
                            return;
                        }
                    }
                }
                // let mut h = Self { field: .., .. };   — the value under construction: its fields are the fields of self
                if let syn::Expr::Struct(st) = init {
                    if toks(&st.path) == self.self_ty || toks(&st.path) == "Self" {
                        let r = self.ret(init, out);
                        if r == "RNone" {
                            self.self_alias = Some(name.clone());
                            return;
                        }
                    }
                }
                // let x = a.get_mut(from..).unwrap_or_default();   — a mutable view of the tail of a
                if let syn::Expr::MethodCall(ud) = init {
                    if ud.method == "unwrap_or_default" && ud.args.is_empty() {
                        if let syn::Expr::MethodCall(gm) = &*ud.receiver {
                            if gm.method == "get_mut" && gm.args.len() == 1 {
                                if let (Some((a, t)), syn::Expr::Range(r)) = (self.array_name(&gm.receiver), &gm.args[0]) {
                                    if let (Some(from), None, syn::RangeLimits::HalfOpen(_)) = (&r.start, &r.end, &r.limits) {
                                        let (fx, _) = self.expr(from, Some(Ity::Usz));
                                        self.vars.insert(name.clone(), Ty::Arr(t));
                                        let s = format!("SLetViewFrom {} {} {}", q(&name), q(&a), fx);
                                        self.flush(out, s);
                                        return;
                                    }
                                }
                            }
                        }
                    }
                }
                // let x = &a[lo..hi];
                if let Some((a, lo, hi, t)) = self.range_slice(init) {
                    self.vars.insert(name.clone(), Ty::Arr(t));
                    let s = format!("SLetSlice {} {} {} {}", q(&name), q(&a), lo, hi);
                    self.flush(out, s);
                    return;
                }
                // let z = dst[..].iter_mut().zip(&src[..]);  — consumed by the for loop over z
                if let Some(z) = self.zip_of(init) {
                    self.zips.insert(name.clone(), z);
                    return;
                }
                // array literal
                if let syn::Expr::Array(a) = init {
                    let et = match &want {
                        Some(Ty::Arr(i)) => Some(*i),
                        _ => None,
                    };
                    let mut ty = et;
                    let es: Vec<String> = a
                        .elems
                        .iter()
                        .map(|x| {
                            let (s, t) = self.expr(x, et);
                            ty = ty.or(t);
                            s
                        })
                        .collect();
                    self.vars.insert(name.clone(), Ty::Arr(ty.unwrap_or(Ity::U64)));
                    self.lens.insert(name.clone(), es.len());
                    let s = format!("SLetArr {} [{}]", q(&name), es.join("; "));
                    self.flush(out, s);
                    return;
                }
                // call with an array or scalar result
                if let syn::Expr::Call(c) = init {
                    if let Some(f) = self.assoc_call(c) {
                        let args: Vec<&syn::Expr> = c.args.iter().collect();
                        if let Some((txt, ret)) = self.call(&f, &args) {
                            match ret {
                                Ty::Arr(_) | Ty::Int(_) => {
                                    if let Some(t) = ann {
                                        if let Some(n) = arr_len(t) {
                                            self.lens.insert(name.clone(), n);
                                        }
                                    }
                                    self.vars.insert(name.clone(), ret);
                                    let s = format!("SCall (Some {}) {}", q(&name), txt);
                                    self.flush(out, s);
                                    return;
                                }
                                _ => {}
                            }
                        }
                        self.pre.clear();
                        out.push(format!("SUnsupported {}", q(&toks(l))));
                        return;
                    }
                }
                let expect = match &want {
                    Some(Ty::Int(i)) => Some(*i),
                    _ => None,
                };
                let (x, t) = self.expr(init, expect);
                match expect.or(t) {
                    Some(t) => {
                        self.vars.insert(name.clone(), Ty::Int(t));
                        let s = format!("SLet {} {}", q(&name), x);
                        self.flush(out, s);
                    }
                    None => {
                        self.pre.clear();
                        out.push(format!("SUnsupported {}", q(&toks(l))));
                    }
                }
            }
            syn::Pat::Tuple(tp) if self.multi.is_some() && self.tupv_arg(init).is_some() => {
                // let (a, b) = <tuple of vectors>
                let src = self.tupv_arg(init).unwrap();
                let mut names = Vec::new();
                for p in &tp.elems {
                    match p {
                        syn::Pat::Ident(i) => {
                            names.push(i.ident.to_string());
                            self.vvars.insert(i.ident.to_string());
                        }
                        _ => names.push("_".into()),
                    }
                }
                let st = format!("SUntupV [{}] {}", names.iter().map(|n| q(n)).collect::<Vec<_>>().join("; "), q(&src));
                self.flush(out, st);
            }
            syn::Pat::Tuple(tp) => {
                // let (h, t) = a.split_at(mid);   /   let (h, t) = v.split_at_mut(mid) with v a view
                if let syn::Expr::MethodCall(m) = init {
                    if (m.method == "split_at" || m.method == "split_at_mut") && m.args.len() == 1 && tp.elems.len() == 2 {
                        let name_of = |p: &syn::Pat| match p {
                            syn::Pat::Ident(i) => Some(i.ident.to_string()),
                            syn::Pat::Wild(_) => Some("_".to_string()),
                            _ => None,
                        };
                        if let (Some((a, t)), Some(h), Some(tl)) = (self.array_name(&m.receiver), name_of(&tp.elems[0]), name_of(&tp.elems[1])) {
                            let (mx, _) = self.expr(&m.args[0], Some(Ity::Usz));
                            self.vars.insert(h.clone(), Ty::Arr(t));
                            self.vars.insert(tl.clone(), Ty::Arr(t));
                            let is_view = self.views.contains(&a);
                            if is_view != (m.method == "split_at_mut") {
                                self.pre.clear();
                                out.push(format!("SUnsupported {}", q(&toks(l))));
                                return;
                            }
                            if is_view {
                                self.views.insert(h.clone());
                                self.views.insert(tl.clone());
                            }
                            let s = format!("{} {} {} {} {}", if is_view { "SLetSplitView" } else { "SLetSplit" }, q(&h), q(&tl), q(&a), mx);
                            self.flush(out, s);
                            return;
                        }
                    }
                }
                if let syn::Expr::Call(c) = init {
                    if let Some(f) = self.assoc_call(c) {
                        let args: Vec<&syn::Expr> = c.args.iter().collect();
                        if let Some((txt, Ty::Tuple(ts))) = self.call(&f, &args) {
                            if ts.len() == tp.elems.len() {
                                let t = self.fresh("t");
                                let s = format!("SCall (Some {}) {}", q(&t), txt);
                                self.flush(out, s);
                                for (k, (p, ty)) in tp.elems.iter().zip(ts).enumerate() {
                                    if let syn::Pat::Ident(id) = p {
                                        let n = id.ident.to_string();
                                        self.vars.insert(n.clone(), Ty::Int(ty));
                                        out.push(format!("SLet {} (ETup {} {})", q(&n), q(&t), k));
                                    } else {
                                        out.push(format!("SUnsupported {}", q(&toks(p))));
                                    }
                                }
                                return;
                            }
                        }
                    }
                }
                self.pre.clear();
                out.push(format!("SUnsupported {}", q(&toks(l))));
            }
            _ => out.push(format!("SUnsupported {}", q(&toks(l)))),
        }
    }

    /// `let name = init` where init is vector-valued / a vector alias / a tuple of vectors / an array copy / a scalar call
    fn local_vec(&mut self, name: &str, init: &syn::Expr, out: &mut Vec<String>) -> bool {
        // let v = &mut self.<vector field>;
        if let syn::Expr::Reference(r) = init {
            if r.mutability.is_some() {
                if let Some(p) = self.vec_place(&r.expr) {
                    self.vec_alias.insert(name.to_string(), p);
                    return true;
                }
            }
        }
        // let x = <ForeignType>::f(args): a constructor of another translated type
        if let (Some(fo), syn::Expr::Call(c)) = (self.multi.and_then(|m| m.foreign.as_ref()), init) {
            if let syn::Expr::Path(pth) = &*c.func {
                let segs: Vec<String> = pth.path.segments.iter().map(|s| s.ident.to_string()).collect();
                if segs.len() == 2 && segs[0] == fo.ty {
                    let qn = format!("{}::{}", fo.ty, segs[1]);
                    let args: Vec<&syn::Expr> = c.args.iter().collect();
                    if let Some((txt, _)) = self.call(&qn, &args) {
                        let mut shape = Vec::new();
                        for (f, n) in &fo.arrays {
                            shape.push(format!("({}, {}%nat)", q(&format!("self.{}", f)), n));
                            self.vars.insert(format!("{}.{}", name, f), Ty::Arr(Ity::U64));
                            self.lens.insert(format!("{}.{}", name, f), *n);
                        }
                        for (f, n) in &fo.sub.1 {
                            shape.push(format!("({}, {}%nat)", q(&format!("self.{}.{}", fo.sub.0, f)), n));
                            if *n == 0 {
                                self.vars.insert(format!("{}.{}.{}", name, fo.sub.0, f), Ty::Int(Ity::Usz));
                            } else {
                                self.vars.insert(format!("{}.{}.{}", name, fo.sub.0, f), Ty::Arr(Ity::U8));
                                self.lens.insert(format!("{}.{}.{}", name, fo.sub.0, f), *n);
                            }
                        }
                        // txt is:  "name" [args]
                        let st = format!("SCallNew {} {} [{}]", q(name), txt, shape.join("; "));
                        self.flush(out, st);
                        return true;
                    }
                }
            }
        }
        // let x = if c { ..; v1 } else { ..; v2 };
        if let syn::Expr::If(i) = init {
            if let (Some((_, eb)), Some(syn::Stmt::Expr(tv, None))) = (&i.else_branch, i.then_branch.stmts.last()) {
                if let syn::Expr::Block(bl) = &**eb {
                    if let Some(syn::Stmt::Expr(ev, None)) = bl.block.stmts.last() {
                        if self.is_vec(tv) && self.is_vec(ev) {
                            if let Some(c) = self.cond(&i.cond) {
                                out.append(&mut self.pre);
                                let mut th = Vec::new();
                                let mut el = Vec::new();
                                let nt = i.then_branch.stmts.len();
                                let ne = bl.block.stmts.len();
                                self.stmts_plain(&i.then_branch.stmts[..nt - 1], &mut th);
                                let v1 = self.vx(tv);
                                th.append(&mut self.pre);
                                th.push(format!("SLetV {} {}", q(name), v1));
                                self.stmts_plain(&bl.block.stmts[..ne - 1], &mut el);
                                let v2 = self.vx(ev);
                                el.append(&mut self.pre);
                                el.push(format!("SLetV {} {}", q(name), v2));
                                self.vvars.insert(name.to_string());
                                out.push(format!("SIf {} [{}] [{}]", c, th.join("; "), el.join("; ")));
                                return true;
                            }
                        }
                    }
                }
            }
        }
        if let Some(pa) = self.ptr_of(init) {
            if matches!(Self::peel(init), syn::Expr::MethodCall(_)) {
                self.ptr_alias.insert(name.to_string(), pa);
                return true;
            }
        }
        if self.is_vec(init) {
            if let Some(t) = self.vty(init) {
                self.vtypes.insert(name.to_string(), t);
            }
            let v = self.vx(init);
            self.vvars.insert(name.to_string());
            let st = format!("SLetV {} {}", q(name), v);
            self.flush(out, st);
            return true;
        }
        if let syn::Expr::Call(c) = init {
            if let Some(qn) = self.callee_of_call(c) {
                let args: Vec<&syn::Expr> = c.args.iter().collect();
                match self.sigs.get(&qn).map(|s| s.ret.clone()) {
                    Some(Ty::TupVec(_)) => {
                        if let Some((txt, _)) = self.call(&qn, &args) {
                            self.tupvars.insert(name.to_string());
                            let st = format!("SCall (Some {}) {}", q(name), txt);
                            self.flush(out, st);
                            return true;
                        }
                    }
                    Some(Ty::Int(i)) => {
                        if let Some((txt, _)) = self.call(&qn, &args) {
                            self.vars.insert(name.to_string(), Ty::Int(i));
                            let st = format!("SCall (Some {}) {}", q(name), txt);
                            self.flush(out, st);
                            return true;
                        }
                    }
                    _ => {}
                }
            }
        }
        // let x = <vector>.as_arr();
        if self.returns_array_call(init) {
            if let Some((a, t)) = self.array_call(init) {
                self.vars.insert(name.to_string(), Ty::Arr(t));
                let st = format!("SCopyArr {} {}", q(name), q(&a));
                self.flush(out, st);
                return true;
            }
        }
        // let mut d = <array / slice variable>;
        if let syn::Expr::Path(_) = init {
            if let Some((a, t)) = self.array_name(init) {
                self.vars.insert(name.to_string(), Ty::Arr(t));
                out.push(format!("SCopyArr {} {}", q(name), q(&a)));
                return true;
            }
        }
        false
    }

    /// statements of a block, none of which may produce a value
    fn stmts_plain(&mut self, stmts: &[syn::Stmt], out: &mut Vec<String>) {
        if self.stmts(stmts, out).is_some() {
            out.push("SUnsupported \"value in statement position\"".into());
        }
    }

    /// statement forms that only occur in the SIMD files; true if handled
    fn stmt_vec(&mut self, e: &syn::Expr, out: &mut Vec<String>) -> bool {
        let m = match self.multi {
            Some(m) => m,
            None => return false,
        };
        match e {
            syn::Expr::Unsafe(u) => {
                self.stmts_plain(&u.block.stmts, out);
                true
            }
            syn::Expr::Call(c) if self.prim_of(c).map(|pn| pn == "neon::vst1q_u64").unwrap_or(false) && c.args.len() == 2 => {
                match self.ptr_of(&c.args[0]) {
                    Some((a, 0)) => {
                        let v = self.vx(&c.args[1]);
                        let st = format!("SStoreLanes {} {}", q(&a), v);
                        self.flush(out, st);
                    }
                    _ => out.push(format!("SUnsupported {}", q(&toks(e)))),
                }
                true
            }
            syn::Expr::Assign(a) => {
                if let Some(p) = self.vec_place(&a.left) {
                    let v = self.vx(&a.right);
                    let st = format!("SLetV {} {}", q(&p), v);
                    self.flush(out, st);
                    return true;
                }
                // data = &bytes[8..];
                if let (Some((l, _)), Some((a2, lo, hi, _))) = (self.array_name(&a.left), self.range_slice(&a.right)) {
                    if !matches!(&*a.left, syn::Expr::Index(_)) {
                        let st = format!("SLetSlice {} {} {} {}", q(&l), q(&a2), lo, hi);
                        self.flush(out, st);
                        return true;
                    }
                }
                false
            }
            syn::Expr::Binary(b) => {
                use syn::BinOp::*;
                let tm = match &b.op {
                    AddAssign(_) => ("AddAssign", "add_assign"),
                    SubAssign(_) => ("SubAssign", "sub_assign"),
                    BitXorAssign(_) => ("BitXorAssign", "bitxor_assign"),
                    BitOrAssign(_) => ("BitOrAssign", "bitor_assign"),
                    BitAndAssign(_) => ("BitAndAssign", "bitand_assign"),
                    _ => return false,
                };
                if let (Some(p), Some(qn)) = (self.vec_place(&b.left), m.wrap_traits.get(&(tm.0.to_string(), tm.1.to_string())).cloned()) {
                    let v = self.vx(&b.right);
                    let st = format!("SCall None {} [AVecRef {}; AVec {}]", q(&qn), q(&p), v);
                    self.flush(out, st);
                    return true;
                }
                false
            }
            syn::Expr::MethodCall(mc) if toks(&mc.receiver) == "self" => {
                let qn = self.qual(self.owner, &mc.method.to_string());
                let mut args: Vec<&syn::Expr> = Vec::new();
                if self.owner == Owner::Wrap {
                    args.push(&*mc.receiver);
                }
                args.extend(mc.args.iter());
                if let Some((txt, _)) = self.call(&qn, &args) {
                    let st = format!("SCall None {}", txt);
                    self.flush(out, st);
                    return true;
                }
                false
            }
            // if let Some(d) = a.get(..n) { body }
            syn::Expr::If(i) if matches!(&*i.cond, syn::Expr::Let(_)) && i.else_branch.is_none() => {
                if let syn::Expr::Let(l) = &*i.cond {
                    if let (syn::Pat::TupleStruct(ts), syn::Expr::MethodCall(g)) = (&*l.pat, &*l.expr) {
                        if toks(&ts.path) == "Some" && ts.elems.len() == 1 && g.method == "get" && g.args.len() == 1 {
                            if let (syn::Pat::Ident(x), Some((a, t)), syn::Expr::Range(r)) = (&ts.elems[0], self.array_name(&g.receiver), &g.args[0]) {
                                if let (None, Some(end), syn::RangeLimits::HalfOpen(_)) = (&r.start, &r.end, &r.limits) {
                                    if let Some((n, _)) = Self::lit(end) {
                                        let xs = x.ident.to_string();
                                        self.vars.insert(xs.clone(), Ty::Arr(t));
                                        self.lens.insert(xs.clone(), n as usize);
                                        let mut body = Vec::new();
                                        self.stmts_plain(&i.then_branch.stmts, &mut body);
                                        out.push(format!("SIfPrefix {} {} {} [{}]", q(&xs), q(&a), n, body.join("; ")));
                                        return true;
                                    }
                                }
                            }
                        }
                    }
                }
                false
            }
            _ => false,
        }
    }

    fn stmt_expr(&mut self, e: &syn::Expr, out: &mut Vec<String>) {
        if self.stmt_vec(e, out) {
            return;
        }
        match e {
            syn::Expr::Assign(a) if self.array_name(&a.left).is_some() && self.array_name(&a.right).is_some() && !matches!(&*a.left, syn::Expr::Index(_)) => {
                let (l, _) = self.array_name(&a.left).unwrap();
                let (r, _) = self.array_name(&a.right).unwrap();
                if self.views.contains(&l) == self.views.contains(&r) {
                    out.push(format!("SCopyArr {} {}", q(&l), q(&r)));
                    return;
                }
            }
            syn::Expr::Assign(a) => {
                if let Some((pl, _, t)) = self.place(&a.left) {
                    let (x, _) = self.expr(&a.right, t);
                    let s = format!("SSet {} {}", pl, x);
                    self.flush(out, s);
                    return;
                }
            }
            syn::Expr::Binary(b) => {
                use syn::BinOp::*;
                if let AddAssign(_) = &b.op {
                    if let Some((pl, pe, Some(t))) = self.place(&b.left) {
                        let (x, _) = self.expr(&b.right, Some(t));
                        let s = format!("SSet {} (EAdd {} {} {})", pl, t.coq(), pe, x);
                        self.flush(out, s);
                        return;
                    }
                }
                let op = match &b.op {
                    BitXorAssign(_) => Some("EXor"),
                    BitOrAssign(_) => Some("EOr"),
                    BitAndAssign(_) => Some("EAnd"),
                    _ => None,
                };
                if let Some(op) = op {
                    if let Some((pl, pe, t)) = self.place(&b.left) {
                        let (x, _) = self.expr(&b.right, t);
                        let s = format!("SSet {} ({} {} {})", pl, op, pe, x);
                        self.flush(out, s);
                        return;
                    }
                }
            }
            syn::Expr::ForLoop(f) => {
                if let Some(s) = self.for_loop(f) {
                    out.push(s);
                    return;
                }
            }
            syn::Expr::Call(c) => {
                if let Some(f) = self.assoc_call(c) {
                    let args: Vec<&syn::Expr> = c.args.iter().collect();
                    if let Some((txt, _)) = self.call(&f, &args) {
                        let s = format!("SCall None {}", txt);
                        self.flush(out, s);
                        return;
                    }
                }
            }
            syn::Expr::MethodCall(m)
                if (m.method == "clone_from_slice" || m.method == "copy_from_slice") && m.args.len() == 1 =>
            {
                let whole = |cx: &mut Self, e: &syn::Expr| {
                    cx.range_slice(e)
                        .or_else(|| cx.array_name(e).map(|(a, t)| (a, "None".to_string(), "None".to_string(), t)))
                        .or_else(|| cx.array_call(e).map(|(a, t)| (a, "None".to_string(), "None".to_string(), t)))
                };
                if let (Some((d, dlo, dhi, _)), Some((sx, slo, shi, _))) = (whole(self, &m.receiver), whole(self, &m.args[0])) {
                    let s = format!("SCopyRange {} {} {} {} {} {}", q(&d), dlo, dhi, q(&sx), slo, shi);
                    self.flush(out, s);
                    return;
                }
            }
            syn::Expr::MethodCall(m) if self.sub.as_ref().map(|sb| toks(&m.receiver) == format!("self . {}", sb.field)).unwrap_or(false) => {
                if let Some((txt, _)) = self.sub_call(m) {
                    let s = format!("SCallSub None {}", txt);
                    self.flush(out, s);
                    return;
                }
            }
            // if let Some(x) = self.<sub>.m(args) { body }
            syn::Expr::If(i) if matches!(&*i.cond, syn::Expr::Let(_)) && i.else_branch.is_none() => {
                if let syn::Expr::Let(l) = &*i.cond {
                    if let (syn::Pat::TupleStruct(ts), syn::Expr::MethodCall(m)) = (&*l.pat, &*l.expr) {
                        if toks(&ts.path) == "Some" && ts.elems.len() == 1 {
                            if let (syn::Pat::Ident(x), Some((txt, Ty::OptSlice))) = (&ts.elems[0], self.sub_call(m)) {
                                let o = self.fresh("o");
                                let xs = x.ident.to_string();
                                self.vars.insert(xs.clone(), Ty::Arr(Ity::U8));
                                let mut body = Vec::new();
                                let call = format!("SCallSub (Some {}) {}", q(&o), txt);
                                self.flush(out, call);
                                if self.block(&i.then_branch, &mut body).is_none() {
                                    out.push(format!("SIfSome {} {} [{}]", q(&o), q(&xs), body.join("; ")));
                                    return;
                                }
                            }
                        }
                    }
                }
            }
            syn::Expr::MethodCall(m) => {
                if toks(&m.receiver) == "self" || Some(toks(&m.receiver)) == self.self_alias {
                    let args: Vec<&syn::Expr> = m.args.iter().collect();
                    if let Some((txt, _)) = self.call(&m.method.to_string(), &args) {
                        let s = format!("SCall None {}", txt);
                        self.flush(out, s);
                        return;
                    }
                }
            }
            syn::Expr::If(i) if self.sub.is_some() || toks(&i.cond) != "! self . buffer . is_empty ()" => {
                if let Some(c) = self.cond(&i.cond) {
                    out.append(&mut self.pre); // statements hoisted out of the condition run before the if
                    let mut th = Vec::new();
                    let mut el = Vec::new();
                    let mut ok = self.block(&i.then_branch, &mut th).is_none();
                    match &i.else_branch {
                        None => {}
                        Some((_, eb)) => match &**eb {
                            syn::Expr::Block(bl) => ok = ok && self.block(&bl.block, &mut el).is_none(),
                            syn::Expr::If(_) => self.stmt_expr(eb, &mut el),
                            _ => ok = false,
                        },
                    }
                    if ok {
                        let s = format!("SIf {} [{}] [{}]", c, th.join("; "), el.join("; "));
                        self.flush(out, s);
                        return;
                    }
                }
            }
            syn::Expr::If(i) => {
                if toks(&i.cond) == "! self . buffer . is_empty ()" && i.else_branch.is_none() {
                    let mut body = Vec::new();
                    if self.block(&i.then_branch, &mut body).is_none() {
                        out.push(format!("SIfBufNonEmpty [{}]", body.join("; ")));
                        return;
                    }
                }
            }
            _ => {}
        }
        self.pre.clear();
        out.push(format!("SUnsupported {}", q(&toks(e))));
    }

    fn for_loop(&mut self, f: &syn::ExprForLoop) -> Option<String> {
        // for i in a..b
        if let (syn::Pat::Ident(id), syn::Expr::Range(r)) = (&*f.pat, &*f.expr) {
            if let (Some(lo), Some(hi), syn::RangeLimits::HalfOpen(_)) = (&r.start, &r.end, &r.limits) {
                if let (Some((lo, _)), Some((hi, _))) = (Self::lit(lo), Self::lit(hi)) {
                    let i = id.ident.to_string();
                    self.vars.insert(i.clone(), Ty::Idx);
                    let mut body = Vec::new();
                    if self.block(&f.body, &mut body).is_some() {
                        return None;
                    }
                    return Some(format!("SFor {} {} {} [{}]", q(&i), lo, hi, body.join("; ")));
                }
            }
        }
        // for a in [&x, &y, ..] { body }  — an array literal of references to arrays: the body once per element, in order
        if let (syn::Pat::Ident(v), syn::Expr::Array(arr)) = (&*f.pat, &*f.expr) {
            let mut names = Vec::new();
            for el in &arr.elems {
                match el {
                    syn::Expr::Reference(r) => match self.array_name(&r.expr) {
                        Some((n, t)) => names.push((n, t)),
                        None => return None,
                    },
                    _ => return None,
                }
            }
            let var = v.ident.to_string();
            let mut all = Vec::new();
            for (n, t) in names {
                // the loop variable is another name for the array
                let len = if let Some(fl) = n.strip_prefix("self.") { self.fields.get(fl).map(|x| x.1) } else { self.lens.get(&n).copied() }?;
                self.vars.insert(var.clone(), Ty::Arr(t));
                self.lens.insert(var.clone(), len);
                self.arr_alias.insert(var.clone(), n.clone());
                let mut body = Vec::new();
                let r = self.block(&f.body, &mut body);
                self.arr_alias.remove(&var);
                if r.is_some() {
                    return None;
                }
                all.extend(body);
            }
            return Some(all.join("; "));
        }
        // for &x in arr { body }  — x is a copy of each element
        if let syn::Pat::Reference(pr) = &*f.pat {
            if let syn::Pat::Ident(x) = &*pr.pat {
                if let Some((arr, _)) = self.array_name(&f.expr) {
                    let len = if let Some(fl) = arr.strip_prefix("self.") { self.fields.get(fl).map(|v| v.1) } else { self.lens.get(&arr).copied() }?;
                    let xs = x.ident.to_string();
                    let iv = format!("{}#i", xs);
                    self.vars.insert(iv.clone(), Ty::Idx);
                    self.valias.insert(xs.clone(), (arr.clone(), iv.clone()));
                    let mut body = Vec::new();
                    let r = self.block(&f.body, &mut body);
                    self.valias.remove(&xs);
                    if r.is_some() {
                        return None;
                    }
                    return Some(format!("SFor {} 0 {} [{}]", q(&iv), len, body.join("; ")));
                }
            }
        }
        // for c in chunks.by_ref() { body }
        if let (syn::Pat::Ident(c), syn::Expr::MethodCall(br)) = (&*f.pat, &*f.expr) {
            if br.method == "by_ref" && br.args.is_empty() {
                if let syn::Expr::Path(p) = &*br.receiver {
                    if p.path.segments.len() == 1 {
                        if let Some((d, n)) = self.chunks.get(&p.path.segments[0].ident.to_string()).cloned() {
                            let cs = c.ident.to_string();
                            self.vars.insert(cs.clone(), Ty::Arr(Ity::U8));
                            self.lens.insert(cs.clone(), n as usize);
                            let mut body = Vec::new();
                            if self.block(&f.body, &mut body).is_some() {
                                return None;
                            }
                            return Some(format!("SForAllChunks {} {} {} [{}]", q(&cs), q(&d), n, body.join("; ")));
                        }
                    }
                }
            }
        }
        // for (p, b) in z { *p = *b; }  with z a pending zip, or the zip written in place
        if let syn::Pat::Tuple(tp) = &*f.pat {
            if tp.elems.len() == 2 {
                let z = match &*f.expr {
                    syn::Expr::Path(p) if p.path.segments.len() == 1 => self.zips.get(&p.path.segments[0].ident.to_string()).cloned(),
                    other => self.zip_of(other),
                };
                if let (Some((dst, dlo, src, slo)), syn::Pat::Ident(a), syn::Pat::Ident(b)) = (z, &tp.elems[0], &tp.elems[1]) {
                    let body = toks(&f.body);
                    if body == format!("{{ * {} = * {} ; }}", a.ident, b.ident) {
                        let mut pre = std::mem::take(&mut self.pre);
                        pre.push(format!("SZipCopy {} {} {} {}", q(&dst), dlo, q(&src), slo));
                        return Some(pre.join("; "));
                    }
                    return None;
                }
                // for (x, dest) in d.chunks_exact(n).zip(arr.iter_mut()) { body }
                if let syn::Expr::MethodCall(z) = &*f.expr {
                    if z.method == "zip" && z.args.len() == 1 {
                        if let (syn::Expr::MethodCall(ce), syn::Expr::MethodCall(im)) = (&*z.receiver, &z.args[0]) {
                            if ce.method == "chunks_exact" && ce.args.len() == 1 && im.method == "iter_mut" && im.args.is_empty() {
                                if let (Some((d, Ity::U8)), Some((n, _)), Some((arr, _)), syn::Pat::Ident(x), syn::Pat::Ident(dest)) =
                                    (self.array_name(&ce.receiver), Self::lit(&ce.args[0]), self.array_name(&im.receiver), &tp.elems[0], &tp.elems[1])
                                {
                                    let cnt = if let Some(fl) = arr.strip_prefix("self.") { self.fields.get(fl).map(|v| v.1) } else { self.lens.get(&arr).copied() }?;
                                    let xs = x.ident.to_string();
                                    let kv = format!("{}#k", dest.ident);
                                    self.vars.insert(xs.clone(), Ty::Arr(Ity::U8));
                                    self.lens.insert(xs.clone(), n as usize);
                                    self.vars.insert(kv.clone(), Ty::Idx);
                                    self.alias.insert(dest.ident.to_string(), (arr.clone(), kv.clone()));
                                    let mut body = Vec::new();
                                    let r = self.block(&f.body, &mut body);
                                    self.alias.remove(&dest.ident.to_string());
                                    if r.is_some() {
                                        return None;
                                    }
                                    return Some(format!("SForChunks {} {} {} {} {} [{}]", q(&xs), q(&kv), q(&d), n, cnt, body.join("; ")));
                                }
                            }
                        }
                    }
                }
            }
        }
        // for x in arr.iter_mut()  /  for (i, x) in arr.iter().enumerate()
        if let syn::Expr::MethodCall(m) = &*f.expr {
            let (arr_expr, enumerate) = if m.method == "enumerate" && m.args.is_empty() {
                match &*m.receiver {
                    syn::Expr::MethodCall(m2) if (m2.method == "iter" || m2.method == "iter_mut") && m2.args.is_empty() => (&*m2.receiver, true),
                    _ => return None,
                }
            } else if (m.method == "iter_mut" || m.method == "iter") && m.args.is_empty() {
                (&*m.receiver, false)
            } else {
                return None;
            };
            let (arr, _) = self.array_name(arr_expr)?;
            let len = if let Some(f) = arr.strip_prefix("self.") { self.fields.get(f).map(|x| x.1) } else { self.lens.get(&arr).copied() }?;
            let (ivar, xvar) = match (&*f.pat, enumerate) {
                (syn::Pat::Tuple(t), true) if t.elems.len() == 2 => match (&t.elems[0], &t.elems[1]) {
                    (syn::Pat::Ident(a), syn::Pat::Ident(b)) => (a.ident.to_string(), b.ident.to_string()),
                    _ => return None,
                },
                (syn::Pat::Ident(x), false) => (format!("{}#i", x.ident), x.ident.to_string()),
                _ => return None,
            };
            self.vars.insert(ivar.clone(), Ty::Idx);
            self.alias.insert(xvar.clone(), (arr.clone(), ivar.clone()));
            let mut body = Vec::new();
            let r = self.block(&f.body, &mut body);
            self.alias.remove(&xvar);
            if r.is_some() {
                return None;
            }
            return Some(format!("SFor {} 0 {} [{}]", q(&ivar), len, body.join("; ")));
        }
        None
    }
}

/// Translate the listed functions of `impl <self_ty>` in `file`; emits a Coq file defining `src_fns`.
struct FnRef<'a> {
    sig: &'a syn::Signature,
    attrs: &'a [syn::Attribute],
    block: &'a syn::Block,
}

/// `free`: free functions of the file to translate as well (they take no self)
pub fn translate(file: &syn::File, rel: &str, self_ty: &str, wanted: &[&str], free: &[&str], externals: &[&str], consts_in: &[(&str, u128)], listname: &str, sub: Option<SubObj>) -> String {
    let mut consts: HashMap<String, u128> = consts_in.iter().map(|(k, v)| (k.to_string(), *v)).collect();
    for it in &file.items {
        if let syn::Item::Const(c) = it {
            if let syn::Expr::Lit(l) = &*c.expr {
                if let syn::Lit::Int(i) = &l.lit {
                    if let Ok(v) = i.base10_parse::<u128>() {
                        consts.insert(c.ident.to_string(), v);
                    }
                }
            }
        }
    }
    let mut sfields: HashMap<String, Ity> = HashMap::new();
    for it in &file.items {
        if let syn::Item::Struct(st) = it {
            if st.ident == self_ty {
                for f in &st.fields {
                    if let (Some(id), Some(t)) = (&f.ident, ty_of(&f.ty, false)) {
                        match t {
                            Ty::Int(i) => {
                                sfields.insert(id.to_string(), i);
                            }
                            Ty::Idx => {
                                sfields.insert(id.to_string(), Ity::Usz);
                            }
                            _ => {}
                        }
                    }
                }
            }
        }
    }
    // fields of the struct that are fixed arrays of scalars
    let mut fields: HashMap<String, (Ity, usize)> = HashMap::new();
    for it in &file.items {
        if let syn::Item::Struct(s) = it {
            if s.ident == self_ty {
                for f in &s.fields {
                    let n = arr_len(&f.ty).or_else(|| match &f.ty {
                        syn::Type::Array(a) => consts.get(&toks(&a.len)).map(|v| *v as usize),
                        _ => None,
                    });
                    if let (Some(id), Some(Ty::Arr(i)), Some(n)) = (&f.ident, ty_of(&f.ty, false), n) {
                        fields.insert(id.to_string(), (i, n));
                    }
                }
            }
        }
    }
    // signatures of every function of the inherent impl
    let mut sigs: HashMap<String, Sig> = HashMap::new();
    let mut bodies: Vec<FnRef> = Vec::new();
    let mut impl_cfgs: HashMap<String, Vec<String>> = HashMap::new(); // cfg attributes on the impl block a function sits in
    for it in &file.items {
        if let syn::Item::Impl(im) = it {
            if toks(&im.self_ty) != self_ty {
                continue;
            }
            // inherent functions; of the trait impls only HighwayHash::checkpoint (the other trait methods forward to inherent ones)
            let from_trait = im.trait_.as_ref().map(|(_, p, _)| p.segments.last().map(|s| s.ident.to_string()).unwrap_or_default());
            if let Some(t) = &from_trait {
                if t != "HighwayHash" {
                    continue;
                }
            }
            for ii in &im.items {
                if let syn::ImplItem::Fn(f) = ii {
                    if from_trait.is_some() && f.sig.ident != "checkpoint" {
                        continue;
                    }
                    let mut params = Vec::new();
                    let mut ok = true;
                    for a in &f.sig.inputs {
                        if let syn::FnArg::Typed(t) = a {
                            let n = match &*t.pat {
                                syn::Pat::Ident(i) => i.ident.to_string(),
                                _ => {
                                    ok = false;
                                    continue;
                                }
                            };
                            match ty_of(&t.ty, true) {
                                Some(ty) => params.push((n, ty)),
                                None => ok = false,
                            }
                        }
                    }
                    let ret = match &f.sig.output {
                        syn::ReturnType::Default => Some(Ty::Unit),
                        syn::ReturnType::Type(_, t) => {
                            if toks(t) == "Self" || toks(t) == self_ty {
                                Some(Ty::Unit)
                            } else {
                                ty_of(t, false)
                            }
                        }
                    };
                    if let (true, Some(ret)) = (ok, ret) {
                        sigs.insert(f.sig.ident.to_string(), Sig { params, ret });
                    }
                    bodies.push(FnRef { sig: &f.sig, attrs: &f.attrs, block: &f.block });
                    for a in &im.attrs {
                        if a.path().is_ident("cfg") || a.path().is_ident("cfg_attr") {
                            impl_cfgs.entry(f.sig.ident.to_string()).or_default().push(a.meta.to_token_stream().to_string());
                        }
                    }
                }
            }
        }
    }
    // free functions of the file
    for it in &file.items {
        if let syn::Item::Fn(f) = it {
            if !free.contains(&f.sig.ident.to_string().as_str()) {
                continue;
            }
            let mut params = Vec::new();
            let mut ok = true;
            for a in &f.sig.inputs {
                if let syn::FnArg::Typed(t) = a {
                    match (&*t.pat, ty_of(&t.ty, true)) {
                        (syn::Pat::Ident(i), Some(ty)) => params.push((i.ident.to_string(), ty)),
                        _ => ok = false,
                    }
                }
            }
            let ret = match &f.sig.output {
                syn::ReturnType::Default => Some(Ty::Unit),
                syn::ReturnType::Type(_, t) => ty_of(t, false),
            };
            if let (true, Some(ret)) = (ok, ret) {
                sigs.insert(f.sig.ident.to_string(), Sig { params, ret });
            }
            bodies.push(FnRef { sig: &f.sig, attrs: &f.attrs, block: &f.block });
        }
    }
    let mut out = String::new();
    let _ = writeln!(out, "(* GENERATED by tools/srcfacts (rustlite.rs) from {} — do not edit. *)", rel);
    let _ = writeln!(out, "From Coq Require Import String List NArith.\nFrom HW Require Import Word.\nFrom HW.Facts Require Import RustLite.\nImport ListNotations.\nLocal Open Scope string_scope.\nLocal Open Scope N_scope.\n");
    let mut names = Vec::new();
    let all_wanted: Vec<&str> = wanted.iter().chain(free.iter()).cloned().collect();
    for w in &all_wanted {
        let f = match bodies.iter().find(|f| f.sig.ident == w) {
            Some(f) => f,
            None => {
                let _ = writeln!(out, "Definition {}_{} : fndef := {{| f_params := []; f_body := [SUnsupported \"function not found\"]; f_ret := RNone |}}.\n", listname, w);
                names.push(w.to_string());
                continue;
            }
        };
        let sig = sigs.get(*w);
        let dup = bodies.iter().filter(|f| f.sig.ident == w).count() > 1;
        let mut cfgs = if free.contains(w) { cfg_inside(&[], f.block) } else { cfg_inside(f.attrs, f.block) };
        cfgs.extend(impl_cfgs.get(*w).cloned().unwrap_or_default());
        let mut cx = Cx { self_ty, sigs: &sigs, fields: &fields, sfields: &sfields, consts: &consts, ret_opt: false, multi: None, owner: Owner::Hash, vvars: Default::default(), tupvars: Default::default(), vec_alias: HashMap::new(), ret_tupv: false, valias: HashMap::new(), arr_alias: HashMap::new(), self_alias: None, sub: &sub, chunks: HashMap::new(), vars: HashMap::new(), lens: HashMap::new(), alias: HashMap::new(), tmp: 0, pre: Vec::new(), views: std::collections::HashSet::new(), zips: HashMap::new(), ret_arr: false, ret_scalar: None, vtypes: HashMap::new(), ptr_alias: HashMap::new() };
        let mut params = Vec::new();
        let mut body: Vec<String> = Vec::new();
        match sig {
            Some(sig) => {
                for ((n, t), a) in sig.params.iter().zip(f.sig.inputs.iter().filter(|a| matches!(a, syn::FnArg::Typed(_)))) {
                    let kind = match t {
                        Ty::Int(_) => "KVal",
                        Ty::Arr(_) => "KArr",
                        Ty::Idx => "KIdx",
                        _ => "KVal",
                    };
                    cx.vars.insert(n.clone(), t.clone());
                    if let syn::FnArg::Typed(pt) = a {
                        if let Some(len) = arr_len(&pt.ty) {
                            cx.lens.insert(n.clone(), len);
                        } else if toks(&pt.ty) == "Key" {
                            cx.lens.insert(n.clone(), 4);
                        }
                    }
                    params.push(format!("({}, {})", q(n), kind));
                }
            }
            None => body.push("SUnsupported \"signature outside the fragment\"".into()),
        }
        if dup {
            body.push("SUnsupported \"several functions of this name in the impl (conditional compilation?)\"".into());
        }
        for c in &cfgs {
            body.push(format!("SUnsupported {}", q(&format!("conditional compilation inside the function: {}", c))));
        }
        // a function that returns an array and contains `return`: results go through the variable %ret
        let has_return = toks(&f.block).contains("return ");
        cx.ret_arr = has_return && matches!(sig.map(|s| &s.ret), Some(Ty::Arr(_)));
        cx.ret_opt = matches!(sig.map(|s| &s.ret), Some(Ty::OptSlice));
        cx.ret_scalar = match sig.map(|s| &s.ret) {
            Some(Ty::Int(i)) if has_return => Some(*i),
            _ => None,
        };
        let ret = if cx.ret_opt {
            cx.block(&f.block, &mut body);
            "RVar \"%ret\"".to_string()
        } else if cx.ret_scalar.is_some() {
            cx.block(&f.block, &mut body);
            "RVal (EVar \"%ret\")".to_string()
        } else if cx.ret_arr {
            cx.block(&f.block, &mut body);
            "RVarArr \"%ret\"".to_string()
        } else {
            cx.block(&f.block, &mut body).unwrap_or_else(|| "RNone".into())
        };
        let _ = writeln!(out, "(* {} :: {} *)", rel, toks(&f.sig));
        let _ = writeln!(out, "Definition {}_{} : fndef :=\n  {{| f_params := [{}];\n     f_body := [\n       {}];\n     f_ret := {} |}}.\n", listname, w, params.join("; "), body.join(";\n       "), ret);
        names.push(w.to_string());
    }
    let _ = writeln!(out, "Definition {}_fns : list (string * fndef) :=\n  [{}].\n", listname, names.iter().map(|n| format!("({}, {}_{})", q(n), listname, n)).collect::<Vec<_>>().join(";\n   "));
    // the functions the translated ones call but that are not translated (must be exactly the declared externals)
    let _ = writeln!(out, "Definition {}_externals : list string := [{}].", listname, externals.iter().map(|e| q(e)).collect::<Vec<_>>().join("; "));
    out
}


/// One function of a SIMD backend file, with the impl it sits in.
struct MFn<'a> {
    qname: String,
    owner: Owner,
    f_sig: &'a syn::Signature,
    attrs: &'a [syn::Attribute],
    block: &'a syn::Block,
    impl_cfgs: Vec<String>,
}

/// Translate a SIMD backend file (hasher struct + vector wrapper type + free helper functions) into RustLite.
/// Functions are keyed by qualified names: "<Hash>::f", "<Wrap>::f", "<Wrap>::<Trait>::f", "f".
pub fn translate_multi(file: &syn::File, rel: &str, mod_prefix: &str, prim_prefix: &str, hash_ty: &str, wrap_ty: &str, raw_tys: &[&str], wanted_hash: &[&str], skip_wrap: &[&str], externals: &[&str], ext_file: Option<&syn::File>, foreign: Option<(Foreign, &[(&str, &[(&str, usize)], Option<usize>)])>, consts_in: &[(&str, u128)], listname: &str, sub: Option<SubObj>) -> String {
    let consts: HashMap<String, u128> = consts_in.iter().map(|(k, v)| (k.to_string(), *v)).collect();
    let set_vec_tys = |with_self: bool| {
        VEC_TYS.with(|v| {
            let mut v = v.borrow_mut();
            v.clear();
            v.push(wrap_ty.to_string());
            for r in raw_tys {
                v.push(r.to_string());
            }
            if with_self {
                v.push("Self".to_string());
            }
        })
    };
    set_vec_tys(false);
    // vector fields of the hasher
    let mut vfields = Vec::new();
    for it in &file.items {
        if let syn::Item::Struct(st) = it {
            if st.ident == hash_ty {
                for f in &st.fields {
                    if let (Some(id), Some(Ty::Vec)) = (&f.ident, ty_of(&f.ty, false)) {
                        vfields.push(id.to_string());
                    }
                }
            }
        }
    }
    // how many `impl From<T> for <wrapper>`; the wrapped type; the unchecked-read helper `take`
    let mut n_from = 0;
    let mut inner_ty = String::new();
    let mut take_ok = false;
    for it in &file.items {
        match it {
            syn::Item::Impl(im) if toks(&im.self_ty) == wrap_ty => {
                if let Some((_, p, _)) = &im.trait_ {
                    if p.segments.last().map(|s| s.ident == "From").unwrap_or(false) {
                        n_from += 1;
                    }
                }
            }
            syn::Item::Struct(st) if st.ident == wrap_ty => {
                if let Some(f) = st.fields.iter().next() {
                    inner_ty = toks(&f.ty).replace(' ', "");
                }
            }
            syn::Item::Fn(f) if f.sig.ident == "take" => {
                take_ok = format!("{} {}", toks(&f.sig), toks(&f.block))
                    == "fn take < const N : usize > (data : & [u8]) -> [u8 ; N] { debug_assert ! (data . len () >= N) ; unsafe { * (data . as_ptr () as * const [u8 ; N]) } }";
            }
            _ => {}
        }
    }
    let mut from_impls: HashMap<String, String> = HashMap::new();
    let mut ret_raw: HashMap<String, String> = HashMap::new();
    // every function of the file
    let mut fns: Vec<MFn> = Vec::new();
    let mut wrap_traits: HashMap<(String, String), String> = HashMap::new();
    for it in &file.items {
        match it {
            syn::Item::Fn(f) if f.attrs.iter().any(|a| a.path().is_ident("cfg") && a.meta.to_token_stream().to_string().replace(' ', "") == "cfg(highway_verif)") => {} // hook: absent with the guard off
            syn::Item::Fn(f) if f.sig.ident == "take" && take_ok => {} // read as the statement SLetTake at its call sites
            syn::Item::Fn(f) => fns.push(MFn { qname: format!("{}{}", mod_prefix, f.sig.ident), owner: Owner::Free, f_sig: &f.sig, attrs: &f.attrs, block: &f.block, impl_cfgs: Vec::new() }),
            syn::Item::Impl(im) => {
                let st = toks(&im.self_ty);
                let owner = if st == hash_ty {
                    Owner::Hash
                } else if st == wrap_ty {
                    Owner::Wrap
                } else {
                    continue;
                };
                let tr = im.trait_.as_ref().map(|(_, p, _)| p.segments.last().map(|s| s.ident.to_string()).unwrap_or_default());
                let cfgs: Vec<String> = im.attrs.iter().filter(|a| a.path().is_ident("cfg") || a.path().is_ident("cfg_attr")).map(|a| a.meta.to_token_stream().to_string()).collect();
                for ii in &im.items {
                    if let syn::ImplItem::Fn(f) = ii {
                        let name = f.sig.ident.to_string();
                        let qname = match (&tr, owner) {
                            (None, Owner::Hash) => format!("{}{}::{}", mod_prefix, hash_ty, name),
                            (None, _) => format!("{}{}::{}", mod_prefix, wrap_ty, name),
                            // the trait impls of the hasher forward to the inherent functions (FactsC05) — except checkpoint, written in the impl
                            (Some(t), Owner::Hash) if t == "HighwayHash" && name == "checkpoint" => format!("{}{}::{}", mod_prefix, hash_ty, name),
                            (Some(_), Owner::Hash) => continue,
                            (Some(t), _) => {
                                if skip_wrap.contains(&t.as_str()) {
                                    continue;
                                }
                                if t == "From" && n_from > 1 {
                                    // several From impls: named by the argument type
                                    let arg = im.trait_.as_ref().and_then(|(_, p, _)| p.segments.last()).map(|sg| match &sg.arguments {
                                        syn::PathArguments::AngleBracketed(a) => toks(&a.args).replace(' ', ""),
                                        _ => String::new(),
                                    }).unwrap_or_default();
                                    let qn = format!("{}{}::From<{}>::{}", mod_prefix, wrap_ty, arg, name);
                                    from_impls.insert(arg, qn.clone());
                                    qn
                                } else {
                                    let qn = format!("{}{}::{}::{}", mod_prefix, wrap_ty, t, name);
                                    wrap_traits.insert((t.clone(), name.clone()), qn.clone());
                                    qn
                                }
                            }
                        };
                        if owner == Owner::Hash && !wanted_hash.contains(&name.as_str()) {
                            continue;
                        }
                        if owner == Owner::Wrap && tr.is_none() && skip_wrap.contains(&name.as_str()) {
                            continue;
                        }
                        fns.push(MFn { qname, owner, f_sig: &f.sig, attrs: &f.attrs, block: &f.block, impl_cfgs: cfgs.clone() });
                    }
                }
            }
            _ => {}
        }
    }
    // signatures
    let mut sigs: HashMap<String, Sig> = HashMap::new();
    let mut wrap_mut = std::collections::HashSet::new();
    let mut tuple_pats: HashMap<String, Vec<(String, Vec<String>)>> = HashMap::new();
    for mf in &fns {
        set_vec_tys(mf.owner == Owner::Wrap);
        let mut params = Vec::new();
        let mut ok = true;
        let mut k = 0;
        for a in &mf.f_sig.inputs {
            match a {
                syn::FnArg::Receiver(r) => {
                    if mf.owner == Owner::Wrap {
                        params.push(("self".to_string(), Ty::Vec));
                        if r.mutability.is_some() && r.reference.is_some() {
                            wrap_mut.insert(mf.qname.clone());
                        }
                    }
                }
                syn::FnArg::Typed(t) => {
                    let ty = ty_of(&t.ty, true);
                    match (&*t.pat, ty) {
                        (syn::Pat::Ident(i), Some(ty)) => params.push((i.ident.to_string(), ty)),
                        (syn::Pat::Tuple(tp), Some(Ty::TupVec(n))) if tp.elems.len() == n => {
                            let pn = format!("%p{}", k);
                            let mut names = Vec::new();
                            for e in &tp.elems {
                                match e {
                                    syn::Pat::Ident(i) => names.push(i.ident.to_string()),
                                    _ => names.push("_".into()),
                                }
                            }
                            tuple_pats.entry(mf.qname.clone()).or_default().push((pn.clone(), names));
                            params.push((pn, Ty::TupVec(n)));
                        }
                        _ => ok = false,
                    }
                    k += 1;
                }
            }
        }
        if let syn::ReturnType::Type(_, t) = &mf.f_sig.output {
            ret_raw.insert(mf.qname.clone(), toks(t).replace(' ', ""));
        }
        let ret = match &mf.f_sig.output {
            syn::ReturnType::Default => Some(Ty::Unit),
            syn::ReturnType::Type(_, t) => {
                if mf.owner == Owner::Hash && (toks(t) == "Self" || toks(t) == hash_ty) {
                    Some(Ty::Unit)
                } else {
                    ty_of(t, false)
                }
            }
        };
        if let (true, Some(ret)) = (ok, ret) {
            sigs.insert(mf.qname.clone(), Sig { params, ret });
        }
    }
    set_vec_tys(false);
    // free functions of other files that the translated ones call: their signatures; their meaning is the interpreter's [ext]
    if let Some(ef) = ext_file {
        for it in &ef.items {
            if let syn::Item::Fn(f) = it {
                let n = f.sig.ident.to_string();
                if !externals.contains(&n.as_str()) {
                    continue;
                }
                let mut params = Vec::new();
                let mut ok = true;
                for a in &f.sig.inputs {
                    if let syn::FnArg::Typed(t) = a {
                        match (&*t.pat, ty_of(&t.ty, false)) {
                            (syn::Pat::Ident(i), Some(ty)) => params.push((i.ident.to_string(), ty)),
                            _ => ok = false,
                        }
                    }
                }
                let ret = match &f.sig.output {
                    syn::ReturnType::Default => Some(Ty::Unit),
                    syn::ReturnType::Type(_, t) => ty_of(t, false),
                };
                if let (true, Some(ret)) = (ok, ret) {
                    sigs.insert(n, Sig { params, ret });
                }
            }
        }
    }
    // methods of the foreign type the file calls: name, array parameters (name, length), length of the array result
    let mut foreign_desc = None;
    if let Some((fo, methods)) = foreign {
        for (mname, params, ret) in methods {
            let ps: Vec<(String, Ty)> = params.iter().map(|(n, _)| (n.to_string(), Ty::Arr(Ity::U8))).collect();
            let r = match ret {
                Some(_) => Ty::Arr(Ity::U8),
                None => Ty::Unit,
            };
            sigs.insert(format!("{}::{}", fo.ty, mname), Sig { params: ps, ret: r });
        }
        foreign_desc = Some(fo);
    }
    let multi = Multi { hash_ty: hash_ty.to_string(), wrap_ty: wrap_ty.to_string(), vfields, wrap_traits, wrap_mut, foreign: foreign_desc, prim_prefix: prim_prefix.to_string(), mod_prefix: mod_prefix.to_string(), from_impls, ret_raw, inner_ty, take_ok };
    let fields: HashMap<String, (Ity, usize)> = HashMap::new();
    let sfields: HashMap<String, Ity> = HashMap::new();
    let mut out = String::new();
    let _ = writeln!(out, "(* GENERATED by tools/srcfacts (rustlite.rs, translate_multi) from {} — do not edit. *)", rel);
    let _ = writeln!(out, "From Coq Require Import String List NArith.\nFrom HW Require Import Word.\nFrom HW.Facts Require Import RustLite.\nImport ListNotations.\nLocal Open Scope string_scope.\nLocal Open Scope N_scope.\n");
    let mut names: Vec<(String, String)> = Vec::new();
    for w in wanted_hash {
        let qn = format!("{}{}::{}", mod_prefix, hash_ty, w);
        if !fns.iter().any(|f| f.qname == qn) {
            let dn = format!("{}_{}", listname, qn.trim_start_matches(mod_prefix).replace("::", "_"));
            let _ = writeln!(out, "Definition {} : fndef := {{| f_params := []; f_body := [SUnsupported \"function not found\"]; f_ret := RNone |}}.\n", dn);
            names.push((qn, dn));
        }
    }
    let mut seen = std::collections::HashSet::new();
    for mf in &fns {
        let dn = format!("{}_{}", listname, mf.qname.trim_start_matches(mod_prefix).replace("::", "_").replace('<', "_").replace('>', ""));
        let dup = fns.iter().filter(|f| f.qname == mf.qname).count() > 1;
        if !seen.insert(mf.qname.clone()) {
            continue;
        }
        set_vec_tys(mf.owner == Owner::Wrap);
        let sig = sigs.get(&mf.qname);
        let mut cfgs = cfg_inside(mf.attrs, mf.block);
        cfgs.extend(mf.impl_cfgs.iter().cloned());
        let self_ty = if mf.owner == Owner::Wrap { wrap_ty } else { hash_ty };
        let mut cx = Cx { self_ty, sigs: &sigs, fields: &fields, sfields: &sfields, consts: &consts, ret_opt: false, multi: Some(&multi), owner: mf.owner, vvars: Default::default(), tupvars: Default::default(), vec_alias: HashMap::new(), ret_tupv: false, valias: HashMap::new(), arr_alias: HashMap::new(), self_alias: None, sub: &sub, chunks: HashMap::new(), vars: HashMap::new(), lens: HashMap::new(), alias: HashMap::new(), tmp: 0, pre: Vec::new(), views: std::collections::HashSet::new(), zips: HashMap::new(), ret_arr: false, ret_scalar: None, vtypes: HashMap::new(), ptr_alias: HashMap::new() };
        let mut params = Vec::new();
        let mut body: Vec<String> = Vec::new();
        match sig {
            Some(sig) => {
                let typed: Vec<&syn::FnArg> = mf.f_sig.inputs.iter().collect();
                for (n, t) in sig.params.iter() {
                    let kind = match t {
                        Ty::Int(_) => "KVal",
                        Ty::Arr(_) => "KArr",
                        Ty::Idx => "KVal", // a usize passed by value
                        Ty::Vec => "KVec",
                        Ty::TupVec(_) => "KTupV",
                        _ => "KVal",
                    };
                    match t {
                        Ty::Vec => {
                            cx.vvars.insert(n.clone());
                        }
                        Ty::TupVec(_) => {
                            cx.tupvars.insert(n.clone());
                        }
                        Ty::Idx => {
                            cx.vars.insert(n.clone(), Ty::Int(Ity::Usz));
                        }
                        _ => {
                            cx.vars.insert(n.clone(), t.clone());
                        }
                    }
                    params.push(format!("({}, {})", q(n), kind));
                }
                for a in typed {
                    if let syn::FnArg::Typed(pt) = a {
                        if let syn::Pat::Ident(i) = &*pt.pat {
                            if let Some(len) = arr_len(&pt.ty) {
                                cx.lens.insert(i.ident.to_string(), len);
                            } else if toks(&pt.ty) == "Key" {
                                cx.lens.insert(i.ident.to_string(), 4);
                            }
                        }
                    }
                }
                for (pn, ns) in tuple_pats.get(&mf.qname).cloned().unwrap_or_default() {
                    for n in &ns {
                        cx.vvars.insert(n.clone());
                    }
                    body.push(format!("SUntupV [{}] {}", ns.iter().map(|n| q(n)).collect::<Vec<_>>().join("; "), q(&pn)));
                }
            }
            None => body.push("SUnsupported \"signature outside the fragment\"".into()),
        }
        if dup {
            body.push("SUnsupported \"several functions of this name (conditional compilation?)\"".into());
        }
        for c in &cfgs {
            body.push(format!("SUnsupported {}", q(&format!("conditional compilation: {}", c))));
        }
        let has_return = toks(mf.block).contains("return ");
        cx.ret_arr = has_return && matches!(sig.map(|s| &s.ret), Some(Ty::Arr(_)));
        cx.ret_tupv = matches!(sig.map(|s| &s.ret), Some(Ty::TupVec(_)));
        let ret = if cx.ret_tupv {
            cx.block(mf.block, &mut body);
            "RVar \"%ret\"".to_string()
        } else if cx.ret_arr {
            cx.block(mf.block, &mut body);
            "RVarArr \"%ret\"".to_string()
        } else {
            cx.block(mf.block, &mut body).unwrap_or_else(|| "RNone".into())
        };
        let _ = writeln!(out, "(* {} :: {} :: {} *)", rel, mf.qname, toks(mf.f_sig));
        let _ = writeln!(out, "Definition {} : fndef :=\n  {{| f_params := [{}];\n     f_body := [\n       {}];\n     f_ret := {} |}}.\n", dn, params.join("; "), body.join(";\n       "), ret);
        names.push((mf.qname.clone(), dn));
    }
    set_vec_tys(false);
    let _ = writeln!(out, "Definition {}_fns : list (string * fndef) :=\n  [{}].\n", listname, names.iter().map(|(n, d)| format!("({}, {})", q(n), d)).collect::<Vec<_>>().join(";\n   "));
    let _ = writeln!(out, "Definition {}_externals : list string := [{}].", listname, externals.iter().map(|e| q(e)).collect::<Vec<_>>().join("; "));
    out
}
