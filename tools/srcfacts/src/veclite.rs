// veclite.rs — translate the SIMD kernels and the vector wrapper types into the VecLite AST of
// coq/theories/Facts/VecLite.v (conventions are described there).  Purely syntactic; constructs outside the fragment
// become XUnsupported / VUnsupported, which the Coq interpreter evaluates to Fault.
use quote::ToTokens;
use std::collections::{HashMap, HashSet};
use std::fmt::Write as _;

fn q(s: &str) -> String {
    format!("\"{}\"", s.replace('"', "\"\""))
}
fn toks<T: ToTokens>(t: &T) -> String {
    t.to_token_stream().to_string().split_whitespace().collect::<Vec<_>>().join(" ")
}

#[derive(Clone)]
struct FnInfo {
    qual: String,         // qualified name
    recv: Option<bool>,   // Some(true) = &mut self, Some(false) = &self / self by value, None = no receiver
    ret_wrap: bool,       // returns the wrapper type
    ret_unit: bool,
}

struct World<'a> {
    hash_ty: &'a str,
    wrap_ty: &'a str,
    fields: Vec<String>,                          // vector fields of the hash struct, in order
    hash_fns: HashMap<String, FnInfo>,            // inherent fns of the hash struct
    wrap_fns: HashMap<String, FnInfo>,            // inherent fns of the wrapper
    wrap_traits: HashMap<(String, String), FnInfo>, // (Trait, method) implemented for the wrapper
    free_fns: HashMap<String, FnInfo>,
}

struct Cx<'a> {
    w: &'a World<'a>,
    in_wrap: bool,              // translating a wrapper fn (self is the vector)
    wrap_vars: HashSet<String>, // locals of wrapper kind
    sty: HashMap<String, String>, // scalar locals: type name
    alias: HashMap<String, String>,
    tmp: usize,
    expect: Option<String>, // integer type the context asks for (for unsuffixed literals)
    ptrs: HashMap<String, String>, // let p = arr.as_mut_ptr().cast::<__m128i>();  p -> arr
}

fn is_int_ty(s: &str) -> bool {
    matches!(s, "u8" | "u16" | "u32" | "u64" | "usize" | "i8" | "i16" | "i32" | "i64" | "isize")
}

impl<'a> Cx<'a> {
    fn ty_is_wrap(&self, t: &syn::Type) -> bool {
        match t {
            syn::Type::Path(p) => {
                let n = p.path.segments.last().map(|s| s.ident.to_string()).unwrap_or_default();
                n == self.w.wrap_ty || (n == "Self" && self.in_wrap)
            }
            syn::Type::Reference(r) => self.ty_is_wrap(&r.elem),
            syn::Type::Paren(p) => self.ty_is_wrap(&p.elem),
            _ => false,
        }
    }

    fn lit(e: &syn::Expr) -> Option<(u128, String)> {
        if let syn::Expr::Lit(l) = e {
            if let syn::Lit::Int(i) = &l.lit {
                return Some((i.base10_parse::<u128>().ok()?, i.suffix().to_string()));
            }
        }
        None
    }

    fn is_wrap(&self, e: &syn::Expr) -> bool {
        match e {
            syn::Expr::Paren(p) => self.is_wrap(&p.expr),
            syn::Expr::Group(p) => self.is_wrap(&p.expr),
            syn::Expr::Reference(r) => self.is_wrap(&r.expr),
            syn::Expr::Unary(u) => matches!(u.op, syn::UnOp::Deref(_)) && self.is_wrap(&u.expr),
            syn::Expr::Path(p) if p.path.segments.len() == 1 => {
                let n = p.path.segments[0].ident.to_string();
                if let Some(t) = self.alias.get(&n) {
                    return t.starts_with("self.") || self.wrap_vars.contains(t);
                }
                (n == "self" && self.in_wrap) || self.wrap_vars.contains(&n)
            }
            syn::Expr::Field(f) => {
                if let (syn::Expr::Path(b), syn::Member::Named(m)) = (&*f.base, &f.member) {
                    return b.path.is_ident("self") && !self.in_wrap && self.w.fields.contains(&m.to_string());
                }
                false
            }
            syn::Expr::Binary(b) => self.is_wrap(&b.left) || self.is_wrap(&b.right),
            syn::Expr::Call(c) => {
                if let syn::Expr::Path(p) = &*c.func {
                    let segs: Vec<String> = p.path.segments.iter().map(|s| s.ident.to_string()).collect();
                    if segs.len() == 1 && segs[0] == self.w.wrap_ty {
                        return true;
                    }
                    if segs.len() == 2 && (segs[0] == self.w.wrap_ty || (segs[0] == "Self" && self.in_wrap)) {
                        if segs[1] == "from" || segs[1] == "default" {
                            return true;
                        }
                        return self.w.wrap_fns.get(&segs[1]).map(|f| f.ret_wrap).unwrap_or(false);
                    }
                    if segs.len() == 2 && (segs[0] == self.w.hash_ty || (segs[0] == "Self" && !self.in_wrap)) {
                        return self.w.hash_fns.get(&segs[1]).map(|f| f.ret_wrap).unwrap_or(false);
                    }
                }
                false
            }
            syn::Expr::MethodCall(m) => {
                if self.is_wrap(&m.receiver) {
                    return self.w.wrap_fns.get(&m.method.to_string()).map(|f| f.ret_wrap).unwrap_or(false);
                }
                false
            }
            syn::Expr::Unsafe(u) => match u.block.stmts.last() {
                Some(syn::Stmt::Expr(e, None)) => self.is_wrap(e),
                _ => false,
            },
            _ => false,
        }
    }

    fn scalar_ty(&self, e: &syn::Expr) -> Option<String> {
        match e {
            syn::Expr::Paren(p) => self.scalar_ty(&p.expr),
            syn::Expr::Group(p) => self.scalar_ty(&p.expr),
            syn::Expr::Lit(_) => Self::lit(e).and_then(|(_, s)| if s.is_empty() { None } else { Some(s) }),
            syn::Expr::Path(p) if p.path.segments.len() == 1 => self.sty.get(&p.path.segments[0].ident.to_string()).cloned(),
            syn::Expr::Cast(c) => Some(toks(&c.ty)),
            syn::Expr::Binary(b) => self.scalar_ty(&b.left).or_else(|| self.scalar_ty(&b.right)),
            syn::Expr::Unary(u) => self.scalar_ty(&u.expr),
            syn::Expr::MethodCall(m) if m.method == "len" => Some("usize".into()),
            _ => None,
        }
    }

    fn unsupported(e: &dyn ToTokens) -> String {
        format!("(XUnsupported {})", q(&toks(&e.to_token_stream())))
    }

    fn place_name(&self, e: &syn::Expr) -> Option<String> {
        match e {
            syn::Expr::Paren(p) => self.place_name(&p.expr),
            syn::Expr::Unary(u) if matches!(u.op, syn::UnOp::Deref(_)) => self.place_name(&u.expr),
            syn::Expr::Path(p) if p.path.segments.len() == 1 => {
                let n = p.path.segments[0].ident.to_string();
                Some(self.alias.get(&n).cloned().unwrap_or(n))
            }
            syn::Expr::Field(f) => {
                if let syn::Expr::Path(b) = &*f.base {
                    if b.path.is_ident("self") {
                        match &f.member {
                            syn::Member::Named(m) if !self.in_wrap => return Some(format!("self.{}", m)),
                            syn::Member::Unnamed(i) if self.in_wrap && i.index == 0 => return Some("self".into()),
                            _ => {}
                        }
                    }
                }
                // x.0 on a wrapper place
                if let syn::Member::Unnamed(i) = &f.member {
                    if i.index == 0 {
                        return self.place_name(&f.base);
                    }
                }
                None
            }
            _ => None,
        }
    }

    fn args(&mut self, a: &syn::punctuated::Punctuated<syn::Expr, syn::token::Comma>) -> Vec<String> {
        a.iter().map(|x| self.expr(x)).collect()
    }

    fn expr(&mut self, e: &syn::Expr) -> String {
        match e {
            syn::Expr::Paren(p) => self.expr(&p.expr),
            syn::Expr::Group(p) => self.expr(&p.expr),
            syn::Expr::Reference(r) => self.expr(&r.expr),
            syn::Expr::Unsafe(u) => {
                if u.block.stmts.len() == 1 {
                    if let syn::Stmt::Expr(x, None) = &u.block.stmts[0] {
                        return self.expr(x);
                    }
                }
                Self::unsupported(e)
            }
            syn::Expr::Lit(_) => match Self::lit(e) {
                Some((v, _)) => format!("(XLit {})", v),
                None => Self::unsupported(e),
            },
            syn::Expr::Array(a) => {
                let mut v = Vec::new();
                for x in &a.elems {
                    match Self::lit(x) {
                        Some((k, _)) => v.push(k.to_string()),
                        None => {
                            // an array of computed elements: a tuple of its elements
                            let es: Vec<String> = a.elems.iter().map(|x| self.expr(x)).collect();
                            return format!("(XTup [{}])", es.join("; "));
                        }
                    }
                }
                format!("(XBytes [{}])", v.join("; "))
            }
            syn::Expr::Tuple(t) => {
                let es: Vec<String> = t.elems.iter().map(|x| self.expr(x)).collect();
                format!("(XTup [{}])", es.join("; "))
            }
            syn::Expr::Path(_) | syn::Expr::Field(_) => match self.place_name(e) {
                Some(n) => format!("(XVar {})", q(&n)),
                None => {
                    // <wrapper-valued expression>.0 : the wrapper is its vector
                    if let syn::Expr::Field(f) = e {
                        if let syn::Member::Unnamed(i) = &f.member {
                            if i.index == 0 && self.is_wrap(&f.base) {
                                return self.expr(&f.base);
                            }
                        }
                    }
                    Self::unsupported(e)
                }
            },
            syn::Expr::Unary(u) => match u.op {
                syn::UnOp::Deref(_) => self.expr(&u.expr),
                syn::UnOp::Not(_) if toks(&u.expr) == "self . buffer . is_empty ()" => format!("(XApp \"not_bool\" [{}])", self.expr(&u.expr)),
                syn::UnOp::Not(_) => match self.scalar_ty(&u.expr).or_else(|| self.expect.clone()) {
                    Some(t) if is_int_ty(&t) => format!("(XApp {} [{}])", q(&format!("not_{}", t)), self.expr(&u.expr)),
                    _ => Self::unsupported(e),
                },
                _ => Self::unsupported(e),
            },
            syn::Expr::Cast(c) => {
                let t = toks(&c.ty);
                if is_int_ty(&t) {
                    format!("(XApp {} [{}])", q(&format!("as_{}", t)), self.expr(&c.expr))
                } else {
                    Self::unsupported(e)
                }
            }
            syn::Expr::Binary(b) => {
                use syn::BinOp::*;
                if self.is_wrap(&b.left) || self.is_wrap(&b.right) {
                    let (tr, m) = match &b.op {
                        Add(_) => ("Add", "add"),
                        BitXor(_) => ("BitXor", "bitxor"),
                        BitOr(_) => ("BitOr", "bitor"),
                        BitAnd(_) => ("BitAnd", "bitand"),
                        _ => return Self::unsupported(e),
                    };
                    match self.w.wrap_traits.get(&(tr.to_string(), m.to_string())) {
                        Some(f) => format!("(XApp {} [{}; {}])", q(&f.qual), self.expr(&b.left), self.expr(&b.right)),
                        None => Self::unsupported(e),
                    }
                } else {
                    let op = match &b.op {
                        Add(_) => "add",
                        Sub(_) => "sub",
                        BitAnd(_) => "and",
                        BitOr(_) => "or",
                        BitXor(_) => "xor",
                        Shl(_) => "shl",
                        Shr(_) => "shr",
                        _ => return Self::unsupported(e),
                    };
                    match self.scalar_ty(&b.left).or_else(|| self.scalar_ty(&b.right)).or_else(|| self.expect.clone()) {
                        Some(t) if is_int_ty(&t) => {
                            let saved = self.expect.replace(t.clone());
                            let l = self.expr(&b.left);
                            let r = self.expr(&b.right);
                            self.expect = saved;
                            format!("(XApp {} [{}; {}])", q(&format!("{}_{}", op, t)), l, r)
                        }
                        _ => Self::unsupported(e),
                    }
                }
            }
            syn::Expr::Macro(m) => {
                let name = m.mac.path.segments.last().map(|s| s.ident.to_string()).unwrap_or_default();
                let args: Result<syn::punctuated::Punctuated<syn::Expr, syn::token::Comma>, _> =
                    m.mac.parse_body_with(syn::punctuated::Punctuated::parse_terminated);
                match args {
                    Ok(a) => {
                        let es = self.args(&a);
                        format!("(XApp {} [{}])", q(&format!("{}!", name)), es.join("; "))
                    }
                    Err(_) => Self::unsupported(e),
                }
            }
            syn::Expr::Call(c) => {
                if let syn::Expr::Path(p) = &*c.func {
                    let segs: Vec<String> = p.path.segments.iter().map(|s| s.ident.to_string()).collect();
                    // tuple-struct constructor of the wrapper: identity
                    if segs.len() == 1 && segs[0] == self.w.wrap_ty && c.args.len() == 1 {
                        return self.expr(&c.args[0]);
                    }
                    if segs.len() == 2 && (segs[0] == self.w.wrap_ty || (segs[0] == "Self" && self.in_wrap)) {
                        let es = self.args(&c.args);
                        if segs[1] == "from" {
                            return format!("(XApp \"From::from\" [{}])", es.join("; "));
                        }
                        if segs[1] == "default" {
                            if let Some(f) = self.w.wrap_traits.get(&("Default".to_string(), "default".to_string())) {
                                return format!("(XApp {} [])", q(&f.qual));
                            }
                        }
                        if let Some(f) = self.w.wrap_fns.get(&segs[1]) {
                            return format!("(XApp {} [{}])", q(&f.qual), es.join("; "));
                        }
                        return Self::unsupported(e);
                    }
                    if segs.len() == 2 && (segs[0] == self.w.hash_ty || (segs[0] == "Self" && !self.in_wrap)) {
                        let es = self.args(&c.args);
                        // translated or not, the name is the qualified one (an untranslated one is a primitive given by the model)
                        return format!("(XApp {} [{}])", q(&format!("{}::{}", self.w.hash_ty, segs[1])), es.join("; "));
                    }
                    if segs.len() == 1 {
                        let es = self.args(&c.args);
                        return format!("(XApp {} [{}])", q(&segs[0]), es.join("; "));
                    }
                    if segs.len() >= 2 && segs[segs.len() - 2] == "wasm32" {
                        // a Wasm SIMD intrinsic, const generic arguments included in the primitive's name
                        let es = self.args(&c.args);
                        let last = p.path.segments.last().unwrap();
                        let name = format!("wasm32::{}", toks(last).replace(' ', ""));
                        return format!("(XApp {} [{}])", q(&name), es.join("; "));
                    }
                }
                Self::unsupported(e)
            }
            syn::Expr::Repeat(r) => match (Self::lit(&r.expr), Self::lit(&r.len)) {
                (Some((v, _)), Some((n, _))) => format!("(XApp \"array_repeat\" [(XLit {}); (XLit {})])", v, n),
                _ => Self::unsupported(e),
            },
            syn::Expr::MethodCall(m) => {
                let name = m.method.to_string();
                if toks(&m.receiver) == "self . buffer" && m.args.is_empty() && (name == "len" || name == "as_slice" || name == "is_empty") {
                    return format!("(XApp {} [])", q(&format!("buffer.{}", name)));
                }
                if name == "as_ptr" && m.args.is_empty() {
                    // a pointer to a local array is the array: loads through it read its bytes
                    return self.expr(&m.receiver);
                }
                if self.is_wrap(&m.receiver) {
                    if let Some(f) = self.w.wrap_fns.get(&name) {
                        let mut es = vec![self.expr(&m.receiver)];
                        es.extend(self.args(&m.args));
                        return format!("(XApp {} [{}])", q(&f.qual), es.join("; "));
                    }
                }
                Self::unsupported(e)
            }
            _ => Self::unsupported(e),
        }
    }

    fn self_call(&mut self, m: &syn::ExprMethodCall) -> Option<String> {
        // self.f(args) where f is a &mut self method of the hash struct: rebinds the fields
        if toks(&m.receiver) != "self" || self.in_wrap {
            return None;
        }
        let f = self.w.hash_fns.get(&m.method.to_string())?.clone();
        if f.recv != Some(true) || !f.ret_unit {
            return None;
        }
        let fields: Vec<String> = self.w.fields.iter().map(|x| format!("self.{}", x)).collect();
        let mut es: Vec<String> = fields.iter().map(|x| format!("(XVar {})", q(x))).collect();
        es.extend(self.args(&m.args));
        Some(format!("VLetTuple [{}] (XApp {} [{}])", fields.iter().map(|x| q(x)).collect::<Vec<_>>().join("; "), q(&f.qual), es.join("; ")))
    }

    // `if c { .. }` without else and `for _ in 0..N { .. }` whose bodies only rebind the receiver's fields (calls of
    // `&mut self` methods, assignments to self.<field>): a body that declares a local would need Rust's block scoping,
    // which the flat VecLite environment does not have, so it is left outside the fragment.
    fn nested(&mut self, e: &syn::Expr) -> Option<String> {
        let (head, body) = match e {
            syn::Expr::If(i) if i.else_branch.is_none() => (format!("VIf {}", self.expr(&i.cond)), &i.then_branch),
            syn::Expr::ForLoop(f) => {
                let pat_ok = match &*f.pat {
                    syn::Pat::Wild(_) => true,
                    syn::Pat::Ident(id) => id.ident.to_string().starts_with('_'),
                    _ => false,
                };
                let n = match &*f.expr {
                    syn::Expr::Range(r) if matches!(r.limits, syn::RangeLimits::HalfOpen(_)) => match (r.start.as_deref().and_then(Self::lit), r.end.as_deref().and_then(Self::lit)) {
                        (Some((0, _)), Some((n, _))) if n <= 64 => Some(n),
                        _ => None,
                    },
                    _ => None,
                };
                match (pat_ok, n) {
                    (true, Some(n)) => (format!("VRepeat {}", n), &f.body),
                    _ => return Some(format!("VUnsupported {}", q(&toks(e)))),
                }
            }
            _ => return None,
        };
        let mut inner = Vec::new();
        let tail = self.block(body, &mut inner);
        let ok = tail.is_none() && inner.iter().all(|s| s.starts_with("VLetTuple [\"self.") || s.starts_with("VLet \"self."));
        if !ok {
            return Some(format!("VUnsupported {}", q(&toks(e))));
        }
        Some(format!("{} [{}]", head, inner.join("; ")))
    }

    // _mm_storel_epi64(addr_of_mut!(r).cast::<__m128i>(), v)  and  _mm_storeu_si128(<ptr into a local [u64; n]>, v):
    // a store through a pointer to a local is read as rebinding the local (the primitive gets the old value, the offset
    // in units of the pointee __m128i, and the vector; an offset outside the array is a Fault)
    fn store(&mut self, e: &syn::Expr) -> Option<String> {
        let c = match e { syn::Expr::Call(c) => c, _ => return None };
        let f = toks(&c.func).replace(' ', "");
        if (f != "_mm_storel_epi64" && f != "_mm_storeu_si128") || c.args.len() != 2 {
            return None;
        }
        let dst = toks(&c.args[0]).replace(' ', "");
        let v = self.expr(&c.args[1]);
        let target: Option<(String, u128)> = if let Some(n) = dst.strip_prefix("core::ptr::addr_of_mut!(").and_then(|r| r.strip_suffix(").cast::<__m128i>()")) {
            Some((n.to_string(), 0))
        } else if let Some(n) = dst.strip_suffix(".as_mut_ptr().cast::<__m128i>()") {
            Some((n.to_string(), 0))
        } else if let Some(a) = self.ptrs.get(&dst) {
            Some((a.clone(), 0))
        } else if let Some((p, k)) = dst.strip_suffix(')').and_then(|r| r.split_once(".add(")) {
            match (self.ptrs.get(p), k.parse::<u128>()) { (Some(a), Ok(k)) => Some((a.clone(), k)), _ => None }
        } else {
            None
        };
        match target {
            Some((n, k)) if n.chars().all(|ch| ch.is_alphanumeric() || ch == '_') && self.sty.contains_key(&n) =>
                Some(format!("VLet {} (XApp {} [(XVar {}); (XLit {}); {}])", q(&n), q(&f), q(&n), k, v)),
            _ => Some(format!("VUnsupported {}", q(&toks(e)))),
        }
    }

    fn block(&mut self, b: &syn::Block, out: &mut Vec<String>) -> Option<String> {
        let n = b.stmts.len();
        for (k, st) in b.stmts.iter().enumerate() {
            match st {
                syn::Stmt::Local(l) => self.local(l, out),
                syn::Stmt::Expr(e, semi) => {
                    let tail = semi.is_none() && k + 1 == n;
                    if let syn::Expr::Unsafe(u) = e {
                        // unsafe { ... } as a statement or tail: descend
                        let r = self.block(&u.block, out);
                        if tail {
                            return r;
                        }
                        continue;
                    }
                    if let syn::Expr::MethodCall(m) = e {
                        if let Some(s) = self.self_call(m) {
                            out.push(s);
                            continue;
                        }
                        // x.op_assign(y) on a wrapper place inside the wrapper's trait impls:  self.add_assign(other)
                        if self.in_wrap && toks(&m.receiver) == "self" {
                            if let Some(f) = self.w.wrap_fns.get(&m.method.to_string()).cloned() {
                                if f.recv == Some(true) && f.ret_unit {
                                    let mut es = vec!["(XVar \"self\")".to_string()];
                                    es.extend(self.args(&m.args));
                                    out.push(format!("VLet \"self\" (XApp {} [{}])", q(&f.qual), es.join("; ")));
                                    continue;
                                }
                            }
                        }
                    }
                    if let Some(st) = self.nested(e) {
                        out.push(st);
                        continue;
                    }
                    if let Some(st) = self.store(e) {
                        out.push(st);
                        continue;
                    }
                    match e {
                        syn::Expr::Assign(a) => {
                            if let Some(p) = self.place_name(&a.left) {
                                let x = self.expr(&a.right);
                                out.push(format!("VLet {} {}", q(&p), x));
                                continue;
                            }
                            out.push(format!("VUnsupported {}", q(&toks(e))));
                        }
                        syn::Expr::Binary(b2) => {
                            use syn::BinOp::*;
                            let tm = match &b2.op {
                                AddAssign(_) => Some(("AddAssign", "add_assign")),
                                SubAssign(_) => Some(("SubAssign", "sub_assign")),
                                BitXorAssign(_) => Some(("BitXorAssign", "bitxor_assign")),
                                BitOrAssign(_) => Some(("BitOrAssign", "bitor_assign")),
                                BitAndAssign(_) => Some(("BitAndAssign", "bitand_assign")),
                                _ => None,
                            };
                            if let (Some((tr, m)), Some(p)) = (tm, self.place_name(&b2.left)) {
                                if self.is_wrap(&b2.left) {
                                    if let Some(f) = self.w.wrap_traits.get(&(tr.to_string(), m.to_string())).cloned() {
                                        let x = self.expr(&b2.right);
                                        out.push(format!("VLet {} (XApp {} [(XVar {}); {}])", q(&p), q(&f.qual), q(&p), x));
                                        continue;
                                    }
                                }
                            }
                            if tail {
                                return Some(self.expr(e));
                            }
                            out.push(format!("VUnsupported {}", q(&toks(e))));
                        }
                        _ => {
                            if tail {
                                return Some(self.expr(e));
                            }
                            out.push(format!("VUnsupported {}", q(&toks(e))));
                        }
                    }
                }
                other => out.push(format!("VUnsupported {}", q(&toks(other)))),
            }
        }
        None
    }

    fn local(&mut self, l: &syn::Local, out: &mut Vec<String>) {
        let init = match &l.init {
            Some(i) if i.diverge.is_none() => &*i.expr,
            _ => {
                out.push(format!("VUnsupported {}", q(&toks(l))));
                return;
            }
        };
        let (pat, ann) = match &l.pat {
            syn::Pat::Type(t) => (&*t.pat, Some(&*t.ty)),
            p => (p, None),
        };
        match pat {
            syn::Pat::Ident(id) => {
                let name = id.ident.to_string();
                // let p = arr.as_mut_ptr().cast::<__m128i>();  — a pointer to a local array (see store)
                if let Some(a) = toks(init).replace(' ', "").strip_suffix(".as_mut_ptr().cast::<__m128i>()") {
                    if self.sty.contains_key(a) {
                        self.ptrs.insert(name, a.to_string());
                        return;
                    }
                }
                // let v = &mut self.field;  — an alias
                if let syn::Expr::Reference(r) = init {
                    if let Some(p) = self.place_name(&r.expr) {
                        if p.starts_with("self.") {
                            self.alias.insert(name, p);
                            return;
                        }
                    }
                }
                if self.is_wrap(init) || ann.map(|t| self.ty_is_wrap(t)).unwrap_or(false) {
                    self.wrap_vars.insert(name.clone());
                } else if let Some(t) = ann.map(|t| toks(t)).or_else(|| self.scalar_ty(init)) {
                    self.sty.insert(name.clone(), t);
                }
                let x = self.expr(init);
                out.push(format!("VLet {} {}", q(&name), x));
            }
            syn::Pat::Tuple(tp) => {
                let mut names = Vec::new();
                for p in &tp.elems {
                    if let syn::Pat::Ident(id) = p {
                        names.push(id.ident.to_string());
                    } else {
                        out.push(format!("VUnsupported {}", q(&toks(l))));
                        return;
                    }
                }
                // tuples in the kernels are tuples of wrappers
                for n in &names {
                    self.wrap_vars.insert(n.clone());
                }
                let x = self.expr(init);
                out.push(format!("VLetTuple [{}] {}", names.iter().map(|n| q(n)).collect::<Vec<_>>().join("; "), x));
            }
            _ => out.push(format!("VUnsupported {}", q(&toks(l)))),
        }
    }
}

fn fn_info(f_sig: &syn::Signature, qual: String, wrap_ty: &str, in_wrap: bool) -> FnInfo {
    let recv = f_sig.inputs.iter().find_map(|a| match a {
        syn::FnArg::Receiver(r) => Some(r.mutability.is_some() && r.reference.is_some()),
        _ => None,
    });
    let (ret_wrap, ret_unit) = match &f_sig.output {
        syn::ReturnType::Default => (false, true),
        syn::ReturnType::Type(_, t) => {
            let s = toks(t);
            (s == wrap_ty || (s == "Self" && in_wrap), false)
        }
    };
    FnInfo { qual, recv, ret_wrap, ret_unit }
}

/// files: parsed source files; emits `Definition <defname> : list (string * vfn)`.
pub fn translate(files: &[(&str, &syn::File)], hash_ty: &str, wrap_ty: &str, wanted: &[&str], defname: &str) -> String {
    // the hash struct's vector fields
    let mut fields = Vec::new();
    for (_, file) in files {
        for it in &file.items {
            if let syn::Item::Struct(s) = it {
                if s.ident == hash_ty {
                    for f in &s.fields {
                        if let (Some(id), true) = (&f.ident, toks(&f.ty) == wrap_ty) {
                            fields.push(id.to_string());
                        }
                    }
                }
            }
        }
    }
    let mut w = World { hash_ty, wrap_ty, fields, hash_fns: HashMap::new(), wrap_fns: HashMap::new(), wrap_traits: HashMap::new(), free_fns: HashMap::new() };
    // collect functions
    enum Owner {
        Hash,
        Wrap,
        WrapTrait(String),
        Free,
    }
    let mut todo: Vec<(Owner, String, &syn::Signature, &syn::Block, &[syn::Attribute])> = Vec::new();
    for (_, file) in files {
        for it in &file.items {
            match it {
                syn::Item::Impl(im) => {
                    let ty = toks(&im.self_ty);
                    let tr = im.trait_.as_ref().map(|(_, p, _)| p.segments.last().map(|s| s.ident.to_string()).unwrap_or_default());
                    let tr_full = im.trait_.as_ref().map(|(_, p, _)| toks(p).replace(' ', ""));
                    for ii in &im.items {
                        if let syn::ImplItem::Fn(f) = ii {
                            let name = f.sig.ident.to_string();
                            if ty == hash_ty && tr.is_none() {
                                let qual = format!("{}::{}", hash_ty, name);
                                w.hash_fns.insert(name.clone(), fn_info(&f.sig, qual.clone(), wrap_ty, false));
                                if wanted.contains(&name.as_str()) {
                                    todo.push((Owner::Hash, qual, &f.sig, &f.block, &f.attrs[..]));
                                }
                            } else if ty == wrap_ty && tr.is_none() {
                                let qual = format!("{}::{}", wrap_ty, name);
                                w.wrap_fns.insert(name.clone(), fn_info(&f.sig, qual.clone(), wrap_ty, true));
                                todo.push((Owner::Wrap, qual, &f.sig, &f.block, &f.attrs[..]));
                            } else if ty == wrap_ty {
                                let t = tr.clone().unwrap();
                                if t == "Debug" {
                                    continue;
                                }
                                let qual = if t == "From" { format!("{}::{}::{}", wrap_ty, tr_full.clone().unwrap(), name) } else { format!("{}::{}::{}", wrap_ty, t, name) };
                                if t != "From" {
                                    w.wrap_traits.insert((t.clone(), name.clone()), fn_info(&f.sig, qual.clone(), wrap_ty, true));
                                }
                                todo.push((Owner::WrapTrait(t), qual, &f.sig, &f.block, &f.attrs[..]));
                            }
                        }
                    }
                }
                syn::Item::Fn(f) => {
                    let name = f.sig.ident.to_string();
                    if wanted.contains(&name.as_str()) {
                        w.free_fns.insert(name.clone(), fn_info(&f.sig, name.clone(), wrap_ty, false));
                        todo.push((Owner::Free, name, &f.sig, &f.block, &f.attrs[..]));
                    }
                }
                _ => {}
            }
        }
    }
    let mut out = String::new();
    let srcs: Vec<&str> = files.iter().map(|f| f.0).collect();
    let _ = writeln!(out, "(* GENERATED by tools/srcfacts (veclite.rs) from {} — do not edit. *)", srcs.join(", "));
    let _ = writeln!(out, "From Coq Require Import String List NArith.\nFrom HW.Facts Require Import VecLite.\nImport ListNotations.\nLocal Open Scope string_scope.\nLocal Open Scope N_scope.\n");
    let mut entries = Vec::new();
    let mut from_impls = Vec::new();
    for (k, (owner, qual, sig, block, fattrs)) in todo.iter().enumerate() {
        let in_wrap = matches!(owner, Owner::Wrap | Owner::WrapTrait(_));
        let mut cx = Cx { w: &w, in_wrap, wrap_vars: HashSet::new(), sty: HashMap::new(), alias: HashMap::new(), tmp: 0, expect: None, ptrs: HashMap::new() };
        let mut params: Vec<String> = Vec::new();
        let mut body: Vec<String> = Vec::new();
        let mut recv_mut = false;
        for a in &sig.inputs {
            match a {
                syn::FnArg::Receiver(r) => {
                    recv_mut = r.mutability.is_some() && r.reference.is_some();
                    if in_wrap {
                        params.push("self".into());
                    } else {
                        for f in &w.fields {
                            params.push(format!("self.{}", f));
                        }
                    }
                }
                syn::FnArg::Typed(t) => match &*t.pat {
                    syn::Pat::Ident(id) => {
                        let n = id.ident.to_string();
                        if cx.ty_is_wrap(&t.ty) {
                            cx.wrap_vars.insert(n.clone());
                        } else {
                            cx.sty.insert(n.clone(), toks(&t.ty));
                        }
                        params.push(n);
                    }
                    syn::Pat::Tuple(tp) => {
                        cx.tmp += 1;
                        let p = format!("%p{}", cx.tmp);
                        let mut names = Vec::new();
                        for e in &tp.elems {
                            if let syn::Pat::Ident(id) = e {
                                names.push(id.ident.to_string());
                                cx.wrap_vars.insert(id.ident.to_string());
                            }
                        }
                        body.push(format!("VLetTuple [{}] (XVar {})", names.iter().map(|n| q(n)).collect::<Vec<_>>().join("; "), q(&p)));
                        params.push(p);
                    }
                    other => body.push(format!("VUnsupported {}", q(&toks(other)))),
                },
            }
        }
        // one body per name, no conditional compilation inside: otherwise the translation would not describe every build
        if todo.iter().filter(|t| t.1 == *qual).count() > 1 {
            body.push("VUnsupported \"several functions of this name (conditional compilation?)\"".into());
        }
        for c in crate::rustlite::cfg_inside(fattrs, block) {
            body.push(format!("VUnsupported {}", q(&format!("conditional compilation inside the function: {}", c))));
        }
        let tail = cx.block(block, &mut body);
        let unit = matches!(sig.output, syn::ReturnType::Default);
        let ret = if recv_mut && unit {
            if in_wrap {
                "(XVar \"self\")".to_string()
            } else {
                format!("(XTup [{}])", w.fields.iter().map(|f| format!("(XVar {})", q(&format!("self.{}", f)))).collect::<Vec<_>>().join("; "))
            }
        } else if recv_mut {
            // a value AND a mutated receiver: the pair (value, fields)
            match tail {
                Some(t) if !in_wrap => format!("(XTup [{}; (XTup [{}])])", t, w.fields.iter().map(|f| format!("(XVar {})", q(&format!("self.{}", f)))).collect::<Vec<_>>().join("; ")),
                _ => format!("(XUnsupported {})", q("&mut self method returning a value")),
            }
        } else {
            tail.unwrap_or_else(|| "(XTup [])".to_string())
        };
        let _ = k;
        entries.push(format!("(* {} *)\n   ({},\n    {{| vf_params := [{}];\n        vf_body := [\n          {}];\n        vf_ret := {} |}})", toks(*sig), q(qual), params.iter().map(|p| q(p)).collect::<Vec<_>>().join("; "), body.join(";\n          "), ret));
        if let Owner::WrapTrait(t) = owner {
            if t == "From" {
                from_impls.push(q(qual));
            }
        }
    }
    let _ = writeln!(out, "Definition {} : list (string * vfn) :=\n  [{}].\n", defname, entries.join(";\n   "));
    let _ = writeln!(out, "Definition {}_from_impls : list string := [{}].", defname, from_impls.join("; "));
    out
}
