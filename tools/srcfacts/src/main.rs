// srcfacts — re-reads /repo/src and Cargo.toml with `syn` and regenerates the Gallina data files
//   gen/SrcFacts.v  (per-file syntactic inventory: unsafe constructs, identifiers, casts, statics, macros, cfg keys,
//                    module uses; crate attributes; Cargo features and dependencies; selected impl bodies)
//   gen/Ladder.v    (the selection ladders of HighwayHasher::new / from_checkpoint, the Option-returning constructors
//                    of SseHash / AvxHash, and the per-method dispatch tables, as data)
//   gen/MemSig.v    (per function of the SIMD files: the ordered memory-touching constructs)
// A file is rewritten only when its content changes.  Anything in a region the tool must interpret but does not
// understand becomes `Unsupported "..."`, which makes the dependent theorem fail.
mod rustlite;
mod veclite;
use proc_macro2::{TokenStream, TokenTree};
use quote::ToTokens;
use std::collections::BTreeSet;
use std::fmt::Write as _;
use syn::visit::Visit;

fn coq_str(s: &str) -> String {
    format!("\"{}\"", s.replace('"', "\"\""))
}
fn coq_list(items: &[String]) -> String {
    if items.is_empty() {
        "[]".to_string()
    } else {
        format!("[{}]", items.join("; "))
    }
}
fn norm_tokens(ts: &TokenStream) -> String {
    // token text with single spaces, independent of formatting
    fn go(ts: TokenStream, out: &mut Vec<String>) {
        for t in ts {
            match t {
                TokenTree::Group(g) => {
                    let (o, c) = match g.delimiter() {
                        proc_macro2::Delimiter::Parenthesis => ("(", ")"),
                        proc_macro2::Delimiter::Brace => ("{", "}"),
                        proc_macro2::Delimiter::Bracket => ("[", "]"),
                        proc_macro2::Delimiter::None => ("", ""),
                    };
                    if !o.is_empty() {
                        out.push(o.to_string());
                    }
                    go(g.stream(), out);
                    if !c.is_empty() {
                        out.push(c.to_string());
                    }
                }
                other => out.push(other.to_string()),
            }
        }
    }
    let mut v = Vec::new();
    go(ts.clone(), &mut v);
    v.join(" ")
}

fn is_cfg_test(attrs: &[syn::Attribute]) -> bool {
    attrs.iter().any(|a| a.path().is_ident("cfg") && norm_tokens(&a.meta.to_token_stream()).contains("test"))
}

#[derive(Default)]
struct FileFacts {
    unsafe_items: Vec<(String, usize)>,
    uses: BTreeSet<String>,
    macros: BTreeSet<String>,
    idents: BTreeSet<String>,
    casts: Vec<(String, String)>,
    statics: Vec<String>,
    cfg_keys: BTreeSet<String>,
    cfg_values: BTreeSet<(String, String)>, // key = "value" inside cfg / cfg! / cfg_attr / target_feature(enable); ("detected", f) for is_x86_feature_detected!(f)
    macro_defs: Vec<(String, Vec<String>)>,
    inner_attrs: Vec<String>,
    lints: Vec<String>,
    stdpaths: BTreeSet<String>,
    trait_impls: Vec<(String, String)>, // (last segment of the trait path, self type) of every trait impl written out in the file
}

struct Scan<'a> {
    f: &'a mut FileFacts,
}

fn collect_cfg_keys(ts: TokenStream, out: &mut BTreeSet<String>) {
    for t in ts {
        match t {
            TokenTree::Ident(i) => {
                out.insert(i.to_string());
            }
            TokenTree::Group(g) => collect_cfg_keys(g.stream(), out),
            _ => {}
        }
    }
}
/// `key = "value"` pairs inside a token stream (cfg predicates at any depth)
fn collect_cfg_values(ts: TokenStream, out: &mut BTreeSet<(String, String)>) {
    let toks: Vec<TokenTree> = ts.into_iter().collect();
    for (i, t) in toks.iter().enumerate() {
        match t {
            TokenTree::Group(g) => collect_cfg_values(g.stream(), out),
            TokenTree::Ident(id) => {
                if let (Some(TokenTree::Punct(p)), Some(TokenTree::Literal(l))) = (toks.get(i + 1), toks.get(i + 2)) {
                    if p.as_char() == '=' {
                        out.insert((id.to_string(), l.to_string().trim_matches('"').to_string()));
                    }
                }
            }
            _ => {}
        }
    }
}
/// paths rooted in std / core / alloc inside a token stream (macro bodies and arguments): `std :: a :: b`
fn collect_stdpaths_tokens(ts: TokenStream, out: &mut BTreeSet<String>) {
    let toks: Vec<TokenTree> = ts.into_iter().collect();
    let mut i = 0;
    while i < toks.len() {
        if let TokenTree::Group(g) = &toks[i] {
            collect_stdpaths_tokens(g.stream(), out);
        }
        if let TokenTree::Ident(id) = &toks[i] {
            let root = id.to_string();
            if root == "std" || root == "core" || root == "alloc" {
                let mut path = vec![root];
                let mut j = i + 1;
                loop {
                    let colon = |k: usize| matches!(toks.get(k), Some(TokenTree::Punct(p)) if p.as_char() == ':');
                    if colon(j) && colon(j + 1) {
                        if let Some(TokenTree::Ident(n)) = toks.get(j + 2) {
                            path.push(n.to_string());
                            j += 3;
                            continue;
                        }
                    }
                    break;
                }
                if path.len() > 1 {
                    out.insert(path.join("::"));
                }
                i = j;
                continue;
            }
        }
        i += 1;
    }
}
fn collect_idents_tokens(ts: TokenStream, out: &mut BTreeSet<String>) {
    for t in ts {
        match t {
            TokenTree::Ident(i) => {
                out.insert(i.to_string());
            }
            TokenTree::Group(g) => collect_idents_tokens(g.stream(), out),
            _ => {}
        }
    }
}

impl<'a> Scan<'a> {
    fn attrs(&mut self, attrs: &[syn::Attribute]) {
        for a in attrs {
            let p = a.path();
            let text = norm_tokens(&a.meta.to_token_stream());
            if p.is_ident("cfg") || p.is_ident("cfg_attr") {
                collect_cfg_keys(a.meta.to_token_stream(), &mut self.f.cfg_keys);
            }
            if p.is_ident("cfg") || p.is_ident("cfg_attr") || p.is_ident("target_feature") {
                collect_cfg_values(a.meta.to_token_stream(), &mut self.f.cfg_values);
            }
            if p.is_ident("allow") || p.is_ident("expect") || p.is_ident("warn") || p.is_ident("deny") || p.is_ident("forbid") || p.is_ident("cfg_attr") {
                self.f.lints.push(text.clone());
            }
            for k in ["no_mangle", "export_name", "link_section", "link_name", "unsafe", "naked", "global_allocator"] {
                if p.is_ident(k) {
                    self.f.unsafe_items.push((format!("attr:{}", k), a.pound_token.span.start().line));
                }
            }
            if text.contains("unsafe_code") && (p.is_ident("allow") || p.is_ident("expect") || p.is_ident("cfg_attr")) {
                self.f.unsafe_items.push(("allow_unsafe_code".into(), a.pound_token.span.start().line));
            }
        }
    }
}

impl<'a, 'ast> Visit<'ast> for Scan<'a> {
    fn visit_item_mod(&mut self, i: &'ast syn::ItemMod) {
        if is_cfg_test(&i.attrs) {
            return;
        }
        self.attrs(&i.attrs);
        if i.unsafety.is_some() {
            self.f.unsafe_items.push(("unsafe_mod".into(), i.mod_token.span.start().line));
        }
        syn::visit::visit_item_mod(self, i);
    }
    fn visit_item_fn(&mut self, i: &'ast syn::ItemFn) {
        if is_cfg_test(&i.attrs) {
            return;
        }
        self.attrs(&i.attrs);
        if i.sig.unsafety.is_some() {
            self.f.unsafe_items.push(("unsafe_fn".into(), i.sig.fn_token.span.start().line));
        }
        syn::visit::visit_item_fn(self, i);
    }
    fn visit_impl_item_fn(&mut self, i: &'ast syn::ImplItemFn) {
        self.attrs(&i.attrs);
        if i.sig.unsafety.is_some() {
            self.f.unsafe_items.push(("unsafe_fn".into(), i.sig.fn_token.span.start().line));
        }
        syn::visit::visit_impl_item_fn(self, i);
    }
    fn visit_trait_item_fn(&mut self, i: &'ast syn::TraitItemFn) {
        self.attrs(&i.attrs);
        if i.sig.unsafety.is_some() {
            self.f.unsafe_items.push(("unsafe_fn".into(), i.sig.fn_token.span.start().line));
        }
        syn::visit::visit_trait_item_fn(self, i);
    }
    fn visit_item_impl(&mut self, i: &'ast syn::ItemImpl) {
        if is_cfg_test(&i.attrs) {
            return;
        }
        self.attrs(&i.attrs);
        if i.unsafety.is_some() {
            self.f.unsafe_items.push(("unsafe_impl".into(), i.impl_token.span.start().line));
        }
        if let Some((_, p, _)) = &i.trait_ {
            let last = p.segments.last().map(|s| s.ident.to_string()).unwrap_or_default();
            self.f.trait_impls.push((last, norm_tokens(&i.self_ty.to_token_stream())));
        }
        syn::visit::visit_item_impl(self, i);
    }
    fn visit_item_trait(&mut self, i: &'ast syn::ItemTrait) {
        self.attrs(&i.attrs);
        if i.unsafety.is_some() {
            self.f.unsafe_items.push(("unsafe_trait".into(), i.trait_token.span.start().line));
        }
        syn::visit::visit_item_trait(self, i);
    }
    fn visit_item_foreign_mod(&mut self, i: &'ast syn::ItemForeignMod) {
        self.f.unsafe_items.push(("extern_block".into(), i.abi.extern_token.span.start().line));
        syn::visit::visit_item_foreign_mod(self, i);
    }
    fn visit_expr_unsafe(&mut self, i: &'ast syn::ExprUnsafe) {
        self.f.unsafe_items.push(("unsafe_block".into(), i.unsafe_token.span.start().line));
        syn::visit::visit_expr_unsafe(self, i);
    }
    fn visit_item_static(&mut self, i: &'ast syn::ItemStatic) {
        self.f.statics.push(format!("static {}{}", if matches!(i.mutability, syn::StaticMutability::Mut(_)) { "mut " } else { "" }, i.ident));
        syn::visit::visit_item_static(self, i);
    }
    fn visit_item_struct(&mut self, i: &'ast syn::ItemStruct) {
        self.attrs(&i.attrs);
        syn::visit::visit_item_struct(self, i);
    }
    fn visit_item_union(&mut self, i: &'ast syn::ItemUnion) {
        self.attrs(&i.attrs);
        self.f.idents.insert("union".into());
        syn::visit::visit_item_union(self, i);
    }
    fn visit_item_use(&mut self, i: &'ast syn::ItemUse) {
        self.attrs(&i.attrs);
        fn walk(t: &syn::UseTree, prefix: &[String], uses: &mut BTreeSet<String>, idents: &mut BTreeSet<String>) {
            match t {
                syn::UseTree::Path(p) => {
                    let mut np = prefix.to_vec();
                    np.push(p.ident.to_string());
                    idents.insert(p.ident.to_string());
                    walk(&p.tree, &np, uses, idents);
                }
                syn::UseTree::Name(n) => {
                    idents.insert(n.ident.to_string());
                    let mut np = prefix.to_vec();
                    np.push(n.ident.to_string());
                    uses.insert(np.join("::"));
                }
                syn::UseTree::Rename(n) => {
                    idents.insert(n.ident.to_string());
                    let mut np = prefix.to_vec();
                    np.push(n.ident.to_string());
                    uses.insert(np.join("::"));
                }
                syn::UseTree::Glob(_) => {
                    let mut np = prefix.to_vec();
                    np.push("*".into());
                    uses.insert(np.join("::"));
                }
                syn::UseTree::Group(g) => {
                    for it in &g.items {
                        walk(it, prefix, uses, idents);
                    }
                }
            }
        }
        walk(&i.tree, &[], &mut self.f.uses, &mut self.f.idents);
        let std_uses: Vec<String> = self.f.uses.iter().filter(|u| u.starts_with("std::") || u.starts_with("core::") || u.starts_with("alloc::")).cloned().collect();
        self.f.stdpaths.extend(std_uses);
    }
    fn visit_item_extern_crate(&mut self, i: &'ast syn::ItemExternCrate) {
        self.f.idents.insert(format!("extern_crate_{}", i.ident));
    }
    fn visit_path(&mut self, p: &'ast syn::Path) {
        for s in &p.segments {
            self.f.idents.insert(s.ident.to_string());
        }
        if p.segments.len() >= 2 && (p.segments[0].ident == "std" || p.segments[0].ident == "core" || p.segments[0].ident == "alloc") {
            let v: Vec<String> = p.segments.iter().map(|s| s.ident.to_string()).collect();
            self.f.stdpaths.insert(v.join("::"));
        }
        if p.segments.len() >= 2 && p.segments[0].ident == "crate" {
            let v: Vec<String> = p.segments.iter().map(|s| s.ident.to_string()).collect();
            self.f.uses.insert(v.join("::"));
        }
        syn::visit::visit_path(self, p);
    }
    fn visit_expr_method_call(&mut self, m: &'ast syn::ExprMethodCall) {
        self.f.idents.insert(m.method.to_string());
        syn::visit::visit_expr_method_call(self, m);
    }
    fn visit_expr_cast(&mut self, c: &'ast syn::ExprCast) {
        self.f.casts.push((norm_tokens(&c.expr.to_token_stream()), norm_tokens(&c.ty.to_token_stream())));
        syn::visit::visit_expr_cast(self, c);
    }
    fn visit_attribute(&mut self, a: &'ast syn::Attribute) {
        // every attribute, wherever it sits (items, statements, blocks, expressions, fields)
        let p = a.path();
        if p.is_ident("cfg") || p.is_ident("cfg_attr") || p.is_ident("target_feature") {
            collect_cfg_values(a.meta.to_token_stream(), &mut self.f.cfg_values);
        }
        syn::visit::visit_attribute(self, a);
    }
    fn visit_macro(&mut self, m: &'ast syn::Macro) {
        let name = m.path.segments.last().map(|s| s.ident.to_string()).unwrap_or_default();
        self.f.macros.insert(name.clone());
        if name == "cfg" {
            collect_cfg_keys(m.tokens.clone(), &mut self.f.cfg_keys);
            collect_cfg_values(m.tokens.clone(), &mut self.f.cfg_values);
        }
        if name.starts_with("is_") && name.ends_with("_feature_detected") {
            for t in m.tokens.clone() {
                if let TokenTree::Literal(l) = t {
                    self.f.cfg_values.insert(("detected".to_string(), l.to_string().trim_matches('"').to_string()));
                }
            }
        }
        // identifiers inside macro arguments are code too (debug_assert!, write!, ...)
        collect_idents_tokens(m.tokens.clone(), &mut self.f.idents);
        collect_stdpaths_tokens(m.tokens.clone(), &mut self.f.stdpaths);
        {
            let v: Vec<String> = m.path.segments.iter().map(|s| s.ident.to_string()).collect();
            if v.len() > 1 && (v[0] == "std" || v[0] == "core" || v[0] == "alloc") {
                self.f.stdpaths.insert(v.join("::"));
            }
        }
        if norm_tokens(&m.tokens).split(' ').any(|t| t == "unsafe") {
            self.f.unsafe_items.push((format!("unsafe_in_macro_call:{}", name), m.bang_token.span.start().line));
        }
        syn::visit::visit_macro(self, m);
    }
    fn visit_item_macro(&mut self, i: &'ast syn::ItemMacro) {
        if i.mac.path.is_ident("macro_rules") {
            let name = i.ident.as_ref().map(|x| x.to_string()).unwrap_or_default();
            let body: Vec<String> = norm_tokens(&i.mac.tokens).split(' ').map(|s| s.to_string()).collect();
            if body.iter().any(|t| t == "unsafe") {
                self.f.unsafe_items.push((format!("unsafe_in_macro_rules:{}", name), i.mac.bang_token.span.start().line));
            }
            let mut ids = BTreeSet::new();
            collect_idents_tokens(i.mac.tokens.clone(), &mut ids);
            self.f.idents.extend(ids);
            collect_stdpaths_tokens(i.mac.tokens.clone(), &mut self.f.stdpaths);
            self.f.macro_defs.push((name, body));
        } else {
            self.visit_macro(&i.mac);
        }
    }
}

// ------------------------------------------------------------------------------------------ ladder extraction
fn meta_to_pred(ts: TokenStream) -> String {
    // cfg predicate -> Coq term of type cpred
    let toks: Vec<TokenTree> = ts.into_iter().collect();
    fn parse_list(ts: TokenStream) -> Vec<String> {
        let mut items = Vec::new();
        let mut cur: Vec<TokenTree> = Vec::new();
        for t in ts {
            match &t {
                TokenTree::Punct(p) if p.as_char() == ',' => {
                    if !cur.is_empty() {
                        items.push(meta_to_pred(cur.drain(..).collect()));
                    }
                }
                _ => cur.push(t),
            }
        }
        if !cur.is_empty() {
            items.push(meta_to_pred(cur.into_iter().collect()));
        }
        items
    }
    match toks.as_slice() {
        [TokenTree::Ident(i), TokenTree::Group(g)] => {
            let items = parse_list(g.stream());
            match i.to_string().as_str() {
                "not" if items.len() == 1 => format!("(PNot {})", items[0]),
                "all" => format!("(PAll {})", coq_list(&items)),
                "any" => format!("(PAny {})", coq_list(&items)),
                other => format!("(PUnsupported {})", coq_str(other)),
            }
        }
        [TokenTree::Ident(i), TokenTree::Punct(p), TokenTree::Literal(l)] if p.as_char() == '=' => {
            let v = l.to_string().trim_matches('"').to_string();
            match i.to_string().as_str() {
                "target_arch" => format!("(PArch {})", coq_str(&v)),
                "target_feature" => format!("(PTf {})", coq_str(&v)),
                "target_family" => format!("(PFamily {})", coq_str(&v)),
                "feature" => format!("(PFeat {})", coq_str(&v)),
                other => format!("(PUnsupported {})", coq_str(&format!("{}={}", other, v))),
            }
        }
        _ => format!("(PUnsupported {})", coq_str(&norm_tokens(&toks.iter().cloned().collect()))),
    }
}
fn cfg_of_attrs(attrs: &[syn::Attribute]) -> Option<String> {
    for a in attrs {
        if a.path().is_ident("cfg") {
            if let syn::Meta::List(l) = &a.meta {
                return Some(meta_to_pred(l.tokens.clone()));
            }
        }
    }
    None
}

fn strip_expr(e: &syn::Expr) -> &syn::Expr {
    match e {
        syn::Expr::Unsafe(u) if u.block.stmts.len() == 1 => {
            if let syn::Stmt::Expr(inner, None) = &u.block.stmts[0] {
                return strip_expr(inner);
            }
            e
        }
        syn::Expr::Paren(p) => strip_expr(&p.expr),
        syn::Expr::Group(g) => strip_expr(&g.expr),
        _ => e,
    }
}
fn call_path(e: &syn::Expr) -> Option<(String, Vec<syn::Expr>)> {
    if let syn::Expr::Call(c) = strip_expr(e) {
        if let syn::Expr::Path(p) = &*c.func {
            let name: Vec<String> = p.path.segments.iter().map(|s| s.ident.to_string()).collect();
            return Some((name.join("::"), c.args.iter().cloned().collect()));
        }
    }
    None
}

struct LadderCtx {
    binds: Vec<(String, String)>, // let name = ManuallyDrop::new(<ctor call>) -> (name, ctor path)
}

fn cond_of(e: &syn::Expr) -> String {
    if let syn::Expr::Macro(m) = strip_expr(e) {
        let name = m.mac.path.segments.last().map(|s| s.ident.to_string()).unwrap_or_default();
        if name == "cfg" {
            return format!("(CCfg {})", meta_to_pred(m.mac.tokens.clone()));
        }
        if name == "is_x86_feature_detected" {
            let v = norm_tokens(&m.mac.tokens).trim_matches('"').to_string();
            return format!("(CDetect {})", coq_str(&v));
        }
    }
    format!("(CUnsupported {})", coq_str(&norm_tokens(&e.to_token_stream())))
}

fn result_of(e: &syn::Expr, ctx: &LadderCtx) -> Option<String> {
    // HighwayHasher { tag: N, inner: HighwayChoices { field } }   |  Some(ctor(..)) | None
    match strip_expr(e) {
        syn::Expr::Struct(s) if s.path.segments.last().map(|x| x.ident == "HighwayHasher").unwrap_or(false) => {
            let mut tag = None;
            let mut field = None;
            for f in &s.fields {
                if let syn::Member::Named(n) = &f.member {
                    if n == "tag" {
                        tag = Some(norm_tokens(&f.expr.to_token_stream()));
                    } else if n == "inner" {
                        if let syn::Expr::Struct(inner) = strip_expr(&f.expr) {
                            if inner.fields.len() == 1 {
                                let fv = &inner.fields[0];
                                if let syn::Member::Named(fname) = &fv.member {
                                    let value = norm_tokens(&fv.expr.to_token_stream());
                                    field = Some((fname.to_string(), value));
                                }
                            }
                        }
                    }
                }
            }
            match (tag, field) {
                (Some(t), Some((fname, value))) => {
                    let ctor = ctx.binds.iter().rev().find(|(n, _)| *n == value).map(|(_, c)| c.clone())
                        .unwrap_or_else(|| format!("?{}", value));
                    let tagn = t.trim_end_matches("u8").trim().to_string();
                    Some(format!("(SReturn {} {} {})", if tagn.chars().all(|c| c.is_ascii_digit()) { tagn } else { "99".into() }, coq_str(&fname), coq_str(&ctor)))
                }
                _ => None,
            }
        }
        syn::Expr::Call(_) => {
            if let Some((p, args)) = call_path(e) {
                if p == "Some" && args.len() == 1 {
                    if let Some((ctor, _)) = call_path(&args[0]) {
                        return Some(format!("(SSome {})", coq_str(&ctor)));
                    }
                }
            }
            None
        }
        syn::Expr::Path(p) if p.path.is_ident("None") => Some("SNone".to_string()),
        _ => None,
    }
}

fn stmts_of_block(b: &syn::Block, ctx: &mut LadderCtx) -> Vec<String> {
    let mut out = Vec::new();
    for st in &b.stmts {
        match st {
            syn::Stmt::Local(l) => {
                let name = norm_tokens(&l.pat.to_token_stream());
                if let Some(init) = &l.init {
                    if let Some((p, args)) = call_path(&init.expr) {
                        if p.ends_with("ManuallyDrop::new") && args.len() == 1 {
                            if let Some((ctor, _)) = call_path(&args[0]) {
                                ctx.binds.push((name, ctor));
                                continue;
                            }
                        }
                    }
                    // `let _key = key;` / `let _ = data;` : harmless moves
                    let rhs = norm_tokens(&init.expr.to_token_stream());
                    if name.starts_with('_') && (rhs == "key" || rhs == "data") {
                        continue;
                    }
                }
                out.push(format!("(SUnsupported {})", coq_str(&norm_tokens(&st.to_token_stream()))));
            }
            syn::Stmt::Expr(e, _semi) => out.push(stmt_of_expr(e, ctx)),
            syn::Stmt::Item(_) => out.push(format!("(SUnsupported {})", coq_str("item"))),
            syn::Stmt::Macro(m) => out.push(format!("(SUnsupported {})", coq_str(&norm_tokens(&m.to_token_stream())))),
        }
    }
    out
}

fn attrs_of_expr(e: &syn::Expr) -> &[syn::Attribute] {
    match e {
        syn::Expr::Block(b) => &b.attrs,
        syn::Expr::If(i) => &i.attrs,
        syn::Expr::Return(r) => &r.attrs,
        syn::Expr::Struct(s) => &s.attrs,
        _ => &[],
    }
}

fn stmt_of_expr(e: &syn::Expr, ctx: &mut LadderCtx) -> String {
    let cfg = cfg_of_attrs(attrs_of_expr(e));
    let inner = match e {
        syn::Expr::Block(b) => {
            let body = stmts_of_block(&b.block, ctx);
            format!("(SBlock {})", coq_list(&body))
        }
        syn::Expr::If(i) => {
            let c = cond_of(&i.cond);
            let t = stmts_of_block(&i.then_branch, ctx);
            let el = match &i.else_branch {
                Some((_, eb)) => match &**eb {
                    syn::Expr::Block(b) => stmts_of_block(&b.block, ctx),
                    other => vec![stmt_of_expr(other, ctx)],
                },
                None => vec![],
            };
            format!("(SIf {} {} {})", c, coq_list(&t), coq_list(&el))
        }
        syn::Expr::Return(r) => match r.expr.as_ref().and_then(|x| result_of(x, ctx)) {
            Some(s) => s,
            None => format!("(SUnsupported {})", coq_str(&norm_tokens(&e.to_token_stream()))),
        },
        other => match result_of(other, ctx) {
            Some(s) => s,
            None => format!("(SUnsupported {})", coq_str(&norm_tokens(&other.to_token_stream()))),
        },
    };
    match cfg {
        Some(p) => format!("(SCfg {} {})", p, coq_list(&[inner])),
        None => inner,
    }
}

fn ladder_of_fn(f: &syn::ImplItemFn) -> String {
    let mut ctx = LadderCtx { binds: Vec::new() };
    coq_list(&stmts_of_block(&f.block, &mut ctx))
}

// dispatch table of a method:  match self.tag { #[cfg(p)] N => <expr>, ..., _ => unreachable }
fn dispatch_of_fn(f: &syn::ImplItemFn) -> Option<String> {
    struct Find<'a> {
        found: Option<&'a syn::ExprMatch>,
    }
    impl<'a> Visit<'a> for Find<'a> {
        fn visit_expr_match(&mut self, m: &'a syn::ExprMatch) {
            if self.found.is_none() {
                self.found = Some(m);
            }
        }
    }
    let mut fd = Find { found: None };
    fd.visit_block(&f.block);
    let m = fd.found?;
    let scrut = norm_tokens(&m.expr.to_token_stream());
    let mut arms = Vec::new();
    for a in &m.arms {
        let cfg = cfg_of_attrs(&a.attrs).unwrap_or_else(|| "(PAll [])".to_string());
        let pat = norm_tokens(&a.pat.to_token_stream());
        let body = norm_tokens(&a.body.to_token_stream());
        // union field read in the body: `inner . <field>`
        let toks: Vec<&str> = body.split(' ').collect();
        let mut field = String::new();
        for w in toks.windows(3) {
            if w[0] == "inner" && w[1] == "." {
                field = w[2].to_string();
            }
        }
        // the callee: a path like `AvxHash :: finalize64` or a method `. append (`
        let mut callee = String::new();
        for w in toks.windows(4) {
            if w[1] == ":" && w[2] == ":" && w[0].chars().next().map(|c| c.is_uppercase()).unwrap_or(false) {
                callee = format!("{}::{}", w[0], w[3]);
                break;
            }
        }
        if callee.is_empty() {
            for (i, w) in toks.iter().enumerate() {
                if *w == "." && i + 2 < toks.len() && toks[i + 2] == "(" && toks[i + 1] != "inner" {
                    callee = format!(".{}", toks[i + 1]);
                }
            }
        }
        let unreachable = body.contains("unreachable_unchecked");
        arms.push(format!("({}, {}, {}, {}, {})", cfg, coq_str(&pat), coq_str(&field), coq_str(&callee), if unreachable { "true" } else { "false" }));
    }
    Some(format!("({}, {})", coq_str(&scrut), coq_list(&arms)))
}

// ------------------------------------------------------------------------------------------ memory signature
const MEM_NAMES: &[&str] = &[
    "_mm_loadu_si128", "_mm_load_si128", "_mm_loadl_epi64", "_mm_maskload_epi32", "_mm256_loadu_si256", "_mm256_load_si256",
    "_mm256_maskload_epi32", "_mm_lddqu_si128", "_mm_storeu_si128", "_mm_store_si128", "_mm_storel_epi64", "_mm256_storeu_si256",
    "_mm256_store_si256", "_mm_stream_load_si128", "_mm_loadu_si64", "_mm_loadu_si32", "_mm_load_sd", "_mm_loadu_pd", "_mm_loadu_ps",
    "vld1q_u8", "vld1q_u64", "vld1q_u32", "vld1_u8", "vld1_u64", "vst1q_u64", "vst1q_u8", "vld1q_dup_u32", "vld1q_lane_u32",
    "as_ptr", "as_mut_ptr", "cast", "add", "offset", "sub", "get_unchecked", "get_unchecked_mut", "from_raw_parts", "from_raw_parts_mut",
    "transmute", "transmute_copy", "read", "read_unaligned", "read_volatile", "write_unaligned", "copy_nonoverlapping", "copy",
    "addr_of", "addr_of_mut", "v128_load", "v128_load64_zero", "v128_store",
    // crate functions that read caller memory: their call sites are part of the signature
    "data_to_lanes", "load_multiple_of_four", "remainder", "take", "unordered_load3", "le_u64", "inner", "as_slice",
];
struct MemScan {
    out: Vec<String>,
}
impl<'ast> Visit<'ast> for MemScan {
    fn visit_expr_call(&mut self, c: &'ast syn::ExprCall) {
        if let syn::Expr::Path(p) = &*c.func {
            if let Some(last) = p.path.segments.last() {
                let n = last.ident.to_string();
                if MEM_NAMES.contains(&n.as_str()) {
                    let arg0 = c.args.first().map(|a| norm_tokens(&a.to_token_stream())).unwrap_or_default();
                    self.out.push(format!("{}({})", n, arg0));
                }
            }
        }
        syn::visit::visit_expr_call(self, c);
    }
    fn visit_expr_method_call(&mut self, m: &'ast syn::ExprMethodCall) {
        let n = m.method.to_string();
        if MEM_NAMES.contains(&n.as_str()) {
            let recv = norm_tokens(&m.receiver.to_token_stream());
            let arg0 = m.args.first().map(|a| norm_tokens(&a.to_token_stream())).unwrap_or_default();
            let tf = m.turbofish.as_ref().map(|t| norm_tokens(&t.to_token_stream())).unwrap_or_default();
            self.out.push(format!("{} .{}{}({})", recv, n, tf, arg0));
        }
        syn::visit::visit_expr_method_call(self, m);
    }
    fn visit_expr_unary(&mut self, u: &'ast syn::ExprUnary) {
        if matches!(u.op, syn::UnOp::Deref(_)) {
            let inner = norm_tokens(&u.expr.to_token_stream());
            if inner.contains("as * const") || inner.contains("as * mut") || inner.contains("ptr") {
                self.out.push(format!("deref({})", inner));
            }
        }
        syn::visit::visit_expr_unary(self, u);
    }
    fn visit_expr_index(&mut self, i: &'ast syn::ExprIndex) {
        // slicing of caller data: &bytes[a..]
        let idx = norm_tokens(&i.index.to_token_stream());
        if idx.contains("..") {
            self.out.push(format!("slice {} [{}]", norm_tokens(&i.expr.to_token_stream()), idx));
        }
        syn::visit::visit_expr_index(self, i);
    }
    fn visit_macro(&mut self, m: &'ast syn::Macro) {
        let name = m.path.segments.last().map(|s| s.ident.to_string()).unwrap_or_default();
        if name == "addr_of_mut" || name == "addr_of" {
            self.out.push(format!("{}!({})", name, norm_tokens(&m.tokens)));
        }
    }
}

fn write_if_changed(path: &str, content: &str) {
    if std::fs::read_to_string(path).map(|c| c == content).unwrap_or(false) {
        return;
    }
    std::fs::write(path, content).expect("write gen file");
}

fn main() {
    let args: Vec<String> = std::env::args().collect();
    let repo = args.get(1).cloned().unwrap_or_else(|| "/repo".into());
    let out_dir = args.get(2).cloned().unwrap_or_else(|| "/verif/coq/gen".into());
    let src = format!("{}/src", repo);
    let mut files: Vec<String> = Vec::new();
    fn walk(d: &str, out: &mut Vec<String>) {
        let mut ents: Vec<_> = std::fs::read_dir(d).expect("read src").filter_map(|e| e.ok()).collect();
        ents.sort_by_key(|e| e.path());
        for e in ents {
            let p = e.path();
            if p.is_dir() {
                walk(p.to_str().unwrap(), out);
            } else if p.extension().map(|x| x == "rs").unwrap_or(false) {
                out.push(p.to_str().unwrap().to_string());
            }
        }
    }
    walk(&src, &mut files);

    let mut facts_v = String::new();
    let _ = writeln!(facts_v, "(* GENERATED by tools/srcfacts from {}/src and Cargo.toml — do not edit. *)", repo);
    let _ = writeln!(facts_v, "From Coq Require Import String List NArith.\nFrom HW.Facts Require Import FactTypes.\nImport ListNotations.\nLocal Open Scope string_scope.\n");
    let mut ladder_v = String::new();
    let _ = writeln!(ladder_v, "(* GENERATED by tools/srcfacts from {}/src/builder.rs, x86/sse.rs, x86/avx.rs — do not edit. *)", repo);
    let _ = writeln!(ladder_v, "From Coq Require Import String List NArith.\nFrom HW.Facts Require Import FactTypes.\nImport ListNotations.\nLocal Open Scope string_scope.\n");
    let mut mem_v = String::new();
    let _ = writeln!(mem_v, "(* GENERATED by tools/srcfacts: per function, the ordered memory-touching constructs — do not edit. *)");
    let _ = writeln!(mem_v, "From Coq Require Import String List.\nImport ListNotations.\nLocal Open Scope string_scope.\n");
    let mut file_names = Vec::new();
    let mut mem_entries: Vec<String> = Vec::new();
    let mut impl_bodies: Vec<String> = Vec::new();
    let mut trait_impl_methods: Vec<String> = Vec::new(); // (type, trait, methods written out in the impl)
    let mut trait_defs: Vec<String> = Vec::new();         // (trait, method, body tokens; "" for a required method)
    let mut mod_decls: Vec<String> = Vec::new();
    let mut parse_errors: Vec<String> = Vec::new();

    for path in &files {
        let rel = path.strip_prefix(&format!("{}/", repo)).unwrap_or(path).to_string();
        let text = std::fs::read_to_string(path).expect("read");
        let file = match syn::parse_file(&text) {
            Ok(f) => f,
            Err(e) => {
                parse_errors.push(format!("{}: {}", rel, e));
                continue;
            }
        };
        if rel == "src/portable.rs" {
            let packet_file = std::fs::read_to_string(format!("{}/src/internal.rs", repo)).ok().and_then(|t| syn::parse_file(&t).ok());
            let sub = packet_file.as_ref().map(|pf| rustlite::SubObj::new("buffer", pf, "HashPacket"));
            let v = rustlite::translate(
                &file,
                &rel,
                "PortableHash",
                &["new", "zipper_merge_and_add", "update", "permute", "permute_and_update", "module_reduction", "rotate_32_by",
                  "update_lanes", "data_to_lanes", "remainder", "update_remainder", "finalize64", "finalize128", "finalize256", "append", "checkpoint", "from_checkpoint"],
                &[],
                &[],
                &[("PACKET_SIZE", 32)],
                "src",
                sub,
            );
            write_if_changed(&format!("{}/SrcPortable.v", out_dir), &v);
        }
        if rel == "src/wasm.rs" {
            let packet_file = std::fs::read_to_string(format!("{}/src/internal.rs", repo)).ok().and_then(|t| syn::parse_file(&t).ok());
            let sub = packet_file.as_ref().map(|pf| rustlite::SubObj::new("buffer", pf, "HashPacket"));
            let v = rustlite::translate_multi(
                &file,
                &rel,
                "",
                "wasm32::",
                "WasmHash",
                "V2x64U",
                &["v128"],
                &["new", "zipper_merge", "update", "permute_and_update", "finalize64", "finalize128", "finalize256", "modular_reduction",
                  "load_multiple_of_four", "remainder", "update_remainder", "rotate_32_by", "data_to_lanes", "append", "checkpoint", "from_checkpoint"],
                &["Debug", "fmt"],
                &["unordered_load3"],
                packet_file.as_ref(),
                Some((
                    rustlite::Foreign {
                        ty: "PortableHash".into(),
                        arrays: vec![("v0".into(), 4), ("v1".into(), 4), ("mul0".into(), 4), ("mul1".into(), 4)],
                        sub: ("buffer".into(), vec![("buf".into(), 32), ("buf_index".into(), 0)]),
                    },
                    &[("checkpoint", &[], Some(164)), ("from_checkpoint", &[("data", 164)], None)],
                )),
                &[("PACKET_SIZE", 32)],
                "wsrc",
                sub,
            );
            write_if_changed(&format!("{}/SrcWasmFull.v", out_dir), &v);
        }
        if rel == "src/aarch64.rs" {
            let packet_file = std::fs::read_to_string(format!("{}/src/internal.rs", repo)).ok().and_then(|t| syn::parse_file(&t).ok());
            let sub = packet_file.as_ref().map(|pf| rustlite::SubObj::new("buffer", pf, "HashPacket"));
            let v = rustlite::translate_multi(
                &file,
                &rel,
                "aarch64::",
                "neon::",
                "NeonHash",
                "V2x64U",
                &["uint64x2_t", "uint32x4_t", "int32x4_t", "uint16x8_t", "uint8x16_t", "uint32x2_t"],
                &["force_new", "zipper_merge", "update", "permute_and_update", "finalize64", "finalize128", "finalize256", "modular_reduction",
                  "load_multiple_of_four", "remainder", "update_remainder", "rotate_32_by", "data_to_lanes", "append", "checkpoint", "force_from_checkpoint"],
                &["Debug", "fmt"],
                &["unordered_load3"],
                packet_file.as_ref(),
                Some((
                    rustlite::Foreign {
                        ty: "PortableHash".into(),
                        arrays: vec![("v0".into(), 4), ("v1".into(), 4), ("mul0".into(), 4), ("mul1".into(), 4)],
                        sub: ("buffer".into(), vec![("buf".into(), 32), ("buf_index".into(), 0)]),
                    },
                    &[("checkpoint", &[], Some(164)), ("from_checkpoint", &[("data", 164)], None)],
                )),
                &[("PACKET_SIZE", 32)],
                "nsrc",
                sub,
            );
            write_if_changed(&format!("{}/SrcNeonFull.v", out_dir), &v);
        }
        if rel == "src/internal.rs" {
            let v = rustlite::translate(&file, &rel, "HashPacket", &["len", "is_empty", "as_slice", "inner", "fill", "set_to"], &["unordered_load3"], &[], &[], "pkt", None);
            write_if_changed(&format!("{}/SrcPacket.v", out_dir), &v);
        }
        let mut ff = FileFacts::default();
        for a in &file.attrs {
            if a.path().is_ident("doc") {
                continue;
            }
            ff.inner_attrs.push(norm_tokens(&a.meta.to_token_stream()));
            let t = norm_tokens(&a.meta.to_token_stream());
            if a.path().is_ident("allow") && t.contains("unsafe_code") {
                ff.unsafe_items.push(("allow_unsafe_code".into(), a.pound_token.span.start().line));
            }
        }
        {
            let mut sc = Scan { f: &mut ff };
            sc.visit_file(&file);
        }
        // mod declarations (for the cfg of each module) in lib.rs / mod.rs
        for it in &file.items {
            if let syn::Item::Mod(m) = it {
                if m.content.is_none() {
                    let cfg = cfg_of_attrs(&m.attrs).unwrap_or_else(|| "(PAll [])".into());
                    mod_decls.push(format!("({}, {}, {})", coq_str(&rel), coq_str(&m.ident.to_string()), cfg));
                }
            }
        }
        // trait definitions: which methods are provided, and with what body
        for it in &file.items {
            if let syn::Item::Trait(t) = it {
                for ti in &t.items {
                    if let syn::TraitItem::Fn(f) = ti {
                        let body = f.default.as_ref().map(|b| norm_tokens(&b.to_token_stream())).unwrap_or_default();
                        trait_defs.push(format!("({}, {}, {})", coq_str(&t.ident.to_string()), coq_str(&f.sig.ident.to_string()), coq_str(&body)));
                    }
                }
            }
        }
        // ladders, dispatch tables, selected bodies, memory signature
        for it in &file.items {
            if let syn::Item::Impl(im) = it {
                if is_cfg_test(&im.attrs) {
                    continue;
                }
                let ty = norm_tokens(&im.self_ty.to_token_stream());
                let tr = im.trait_.as_ref().map(|(_, p, _)| norm_tokens(&p.to_token_stream())).unwrap_or_default();
                if !tr.is_empty() {
                    let ms: Vec<String> = im.items.iter().filter_map(|ii| if let syn::ImplItem::Fn(f) = ii { Some(coq_str(&f.sig.ident.to_string())) } else { None }).collect();
                    trait_impl_methods.push(format!("({}, {}, {})", coq_str(&ty), coq_str(&tr), coq_list(&ms)));
                }
                for ii in &im.items {
                    if let syn::ImplItem::Fn(f) = ii {
                        let name = f.sig.ident.to_string();
                        let mut ms = MemScan { out: Vec::new() };
                        ms.visit_block(&f.block);
                        if rel.contains("x86/") || rel.ends_with("builder.rs") {
                            let items: Vec<String> = ms.out.iter().map(|s| coq_str(s)).collect();
                            mem_entries.push(format!("({}, {})", coq_str(&format!("{}::{}::{}", rel, if tr.is_empty() { ty.clone() } else { format!("<{} as {}>", ty, tr) }, name)), coq_list(&items)));
                        }
                        let want_body = (tr == "Default" && name == "default") || name == "build_hasher" || (tr.is_empty() && name == "append");
                        if want_body {
                            impl_bodies.push(format!("({}, {}, {}, {})", coq_str(&ty), coq_str(&tr), coq_str(&name), coq_str(&norm_tokens(&f.block.to_token_stream()))));
                        }
                        if ty == "HighwayHasher" && tr.is_empty() && (name == "new" || name == "from_checkpoint") {
                            let _ = writeln!(ladder_v, "Definition gen_ladder_{} : list stmt := {}.\n", name, ladder_of_fn(f));
                        }
                        if (ty == "SseHash" || ty == "AvxHash") && tr.is_empty() && (name == "new" || name == "from_checkpoint") {
                            let _ = writeln!(ladder_v, "Definition gen_safe_{}_{} : list stmt := {}.\n", ty, name, ladder_of_fn(f));
                        }
                        if ty == "HighwayHasher" && (tr.is_empty() || tr == "Clone" || tr == "Debug") {
                            if let Some(d) = dispatch_of_fn(f) {
                                let key = if tr.is_empty() { name.clone() } else { format!("{}_{}", tr, name) };
                                let _ = writeln!(ladder_v, "Definition gen_dispatch_{} : string * list (cpred * string * string * string * bool) := {}.\n", key, d);
                            }
                        }
                    }
                }
                // derive(Default) on a struct is reported through the attribute list below
            }
            if let syn::Item::Fn(f) = it {
                let mut ms = MemScan { out: Vec::new() };
                ms.visit_block(&f.block);
                if rel.contains("x86/") {
                    let items: Vec<String> = ms.out.iter().map(|s| coq_str(s)).collect();
                    mem_entries.push(format!("({}, {})", coq_str(&format!("{}::{}", rel, f.sig.ident)), coq_list(&items)));
                }
            }
            if let syn::Item::Struct(s) = it {
                for a in &s.attrs {
                    if a.path().is_ident("derive") || a.path().is_ident("repr") {
                        impl_bodies.push(format!("({}, {}, {}, {})", coq_str(&s.ident.to_string()), coq_str("attr"), coq_str(&a.path().segments[0].ident.to_string()), coq_str(&norm_tokens(&a.meta.to_token_stream()))));
                    }
                }
            }
        }
        let id = rel.replace('/', "_").replace('.', "_");
        file_names.push(format!("f_{}", id));
        let _ = writeln!(facts_v, "Definition f_{} : file_facts := {{|", id);
        let _ = writeln!(facts_v, "  ff_path := {};", coq_str(&rel));
        let _ = writeln!(facts_v, "  ff_inner_attrs := {};", coq_list(&ff.inner_attrs.iter().map(|s| coq_str(s)).collect::<Vec<_>>()));
        let _ = writeln!(facts_v, "  ff_unsafe := {};", coq_list(&ff.unsafe_items.iter().map(|(k, l)| format!("({}, {}%N)", coq_str(k), l)).collect::<Vec<_>>()));
        let _ = writeln!(facts_v, "  ff_lints := {};", coq_list(&ff.lints.iter().map(|s| coq_str(s)).collect::<Vec<_>>()));
        let _ = writeln!(facts_v, "  ff_uses := {};", coq_list(&ff.uses.iter().map(|s| coq_str(s)).collect::<Vec<_>>()));
        let _ = writeln!(facts_v, "  ff_macros := {};", coq_list(&ff.macros.iter().map(|s| coq_str(s)).collect::<Vec<_>>()));
        let _ = writeln!(facts_v, "  ff_idents := {};", coq_list(&ff.idents.iter().map(|s| coq_str(s)).collect::<Vec<_>>()));
        let _ = writeln!(facts_v, "  ff_casts := {};", coq_list(&ff.casts.iter().map(|(e, t)| format!("({}, {})", coq_str(e), coq_str(t))).collect::<Vec<_>>()));
        let _ = writeln!(facts_v, "  ff_statics := {};", coq_list(&ff.statics.iter().map(|s| coq_str(s)).collect::<Vec<_>>()));
        let _ = writeln!(facts_v, "  ff_cfg_keys := {};", coq_list(&ff.cfg_keys.iter().map(|s| coq_str(s)).collect::<Vec<_>>()));
        let _ = writeln!(facts_v, "  ff_cfg_values := {};", coq_list(&ff.cfg_values.iter().map(|(k, v)| format!("({}, {})", coq_str(k), coq_str(v))).collect::<Vec<_>>()));
        let _ = writeln!(facts_v, "  ff_stdpaths := {};", coq_list(&ff.stdpaths.iter().map(|s| coq_str(s)).collect::<Vec<_>>()));
        let _ = writeln!(facts_v, "  ff_trait_impls := {};", coq_list(&ff.trait_impls.iter().map(|(t, ty)| format!("({}, {})", coq_str(t), coq_str(ty))).collect::<Vec<_>>()));
        let _ = writeln!(facts_v, "  ff_macro_defs := {} |}}.\n", coq_list(&ff.macro_defs.iter().map(|(n, b)| format!("({}, {})", coq_str(n), coq_list(&b.iter().map(|s| coq_str(s)).collect::<Vec<_>>()))).collect::<Vec<_>>()));
    }
    let _ = writeln!(facts_v, "Definition all_files : list file_facts := {}.\n", coq_list(&file_names));
    let _ = writeln!(facts_v, "Definition mod_decls : list (string * string * cpred) := {}.\n", coq_list(&mod_decls));
    let _ = writeln!(facts_v, "Definition impl_bodies : list (string * string * string * string) := {}.\n", coq_list(&impl_bodies));
    let _ = writeln!(facts_v, "Definition trait_impl_methods : list (string * string * list string) := {}.\n", coq_list(&trait_impl_methods));
    let _ = writeln!(facts_v, "Definition trait_defs : list (string * string * string) := {}.\n", coq_list(&trait_defs));
    let _ = writeln!(facts_v, "Definition parse_errors : list string := {}.\n", coq_list(&parse_errors.iter().map(|s| coq_str(s)).collect::<Vec<_>>()));

    // Cargo.toml: [features], [dependencies] (non-dev)
    let cargo = std::fs::read_to_string(format!("{}/Cargo.toml", repo)).unwrap_or_default();
    let mut section = String::new();
    let mut features = Vec::new();
    let mut deps = Vec::new();
    let mut other_dep_sections = Vec::new();
    for line in cargo.lines() {
        let l = line.trim();
        if l.starts_with('[') {
            section = l.trim_matches(|c| c == '[' || c == ']').to_string();
            if section.contains("dependencies") && section != "dependencies" && !section.contains("dev-dependencies") {
                other_dep_sections.push(section.clone());
            }
            continue;
        }
        if l.is_empty() || l.starts_with('#') {
            continue;
        }
        if let Some((k, v)) = l.split_once('=') {
            if section == "features" {
                features.push(format!("({}, {})", coq_str(k.trim()), coq_str(&v.split_whitespace().collect::<String>())));
            } else if section == "dependencies" || section == "build-dependencies" || (section.contains("dependencies") && !section.contains("dev-dependencies")) {
                deps.push(format!("({}, {})", coq_str(&section), coq_str(k.trim())));
            }
        }
    }
    let _ = writeln!(facts_v, "Definition cargo_features : list (string * string) := {}.", coq_list(&features));
    let _ = writeln!(facts_v, "Definition cargo_deps : list (string * string) := {}.", coq_list(&deps));
    let _ = writeln!(facts_v, "Definition cargo_has_build_script : bool := {}.", if std::path::Path::new(&format!("{}/build.rs", repo)).exists() || cargo.contains("build =") { "true" } else { "false" });

    let _ = writeln!(mem_v, "Definition gen_memsig : list (string * list string) := {}.", coq_list(&mem_entries));

    std::fs::create_dir_all(&out_dir).ok();
    // the SIMD kernels and their vector wrapper types, as VecLite abstract syntax
    let parse = |rel: &str| std::fs::read_to_string(format!("{}/{}", repo, rel)).ok().and_then(|t| syn::parse_file(&t).ok());
    let kernel = ["zipper_merge", "update", "permute", "permute_and_update", "modular_reduction", "rotate_32_by", "update_remainder", "_mm_slli_si128_8", "_mm_mul_epu32", "_mm_srli_epi64", "_mm_srl_epi32", "_mm_sll_epi32"];
    if let (Some(a), Some(b)) = (parse("src/x86/sse.rs"), parse("src/x86/v2x64u.rs")) {
        // for SSE also the three finalize functions (their `if` / `for` / store-through-pointer shapes are in the fragment)
        let mut kernel_sse = kernel.to_vec();
        kernel_sse.extend(["finalize64", "finalize128", "finalize256"]);
        let v = veclite::translate(&[("src/x86/sse.rs", &a), ("src/x86/v2x64u.rs", &b)], "SseHash", "V2x64U", &kernel_sse, "src_sse");
        write_if_changed(&format!("{}/SrcSse.v", out_dir), &v);
    }
    if let (Some(a), Some(b)) = (parse("src/x86/avx.rs"), parse("src/x86/v4x64u.rs")) {
        let v = veclite::translate(&[("src/x86/avx.rs", &a), ("src/x86/v4x64u.rs", &b)], "AvxHash", "V4x64U", &kernel, "src_avx");
        write_if_changed(&format!("{}/SrcAvx.v", out_dir), &v);
    }
    if let Some(a) = parse("src/aarch64.rs") {
        let v = veclite::translate(&[("src/aarch64.rs", &a)], "NeonHash", "V2x64U", &kernel, "src_neon");
        write_if_changed(&format!("{}/SrcNeon.v", out_dir), &v);
    }
    if let Some(a) = parse("src/wasm.rs") {
        let v = veclite::translate(&[("src/wasm.rs", &a)], "WasmHash", "V2x64U", &kernel, "src_wasm");
        write_if_changed(&format!("{}/SrcWasm.v", out_dir), &v);
    }
    write_if_changed(&format!("{}/SrcFacts.v", out_dir), &facts_v);
    write_if_changed(&format!("{}/Ladder.v", out_dir), &ladder_v);
    write_if_changed(&format!("{}/MemSig.v", out_dir), &mem_v);
}
