(* History.v — the operation language shared by the model and the Rust harnesses, and its
   interpreter.  [run] is the function the extracted OCaml driver executes; the harness executes the
   same script against the real crate; transcripts must be equal line by line. *)
From Coq Require Import NArith List Lia Bool Arith.
From HW Require Import Word Chunks Packet Mem X86 Portable Sse Avx Neon Wasm Dispatch.
Import ListNotations.
Local Open Scope nat_scope.

(* BP PortableHash, BS SseHash, BA AvxHash, BN NeonHash, BW WasmHash, BD HighwayHasher,
   BB HighwayBuildHasher::new(key).build_hasher() *)
Inductive backend := BP | BS | BA | BN | BW | BD | BB.

(* a live hasher value *)
Inductive hasher := HPlain (h : hcore) | HDisp (d : dstate).

Inductive op :=
| ONew (r : nat) (b : backend) (force : bool) (k : lanes)       (* T::new(Key(k)) / unsafe T::force_new *)
| ODefault (r : nat) (b : backend)                              (* T::default() *)
| ORestore (r : nat) (b : backend) (force : bool) (c : list N)  (* T::from_checkpoint(c) / force_from_checkpoint *)
| ORestoreFrom (r : nat) (b : backend) (force : bool) (r2 : nat)(* from_checkpoint(reg[r2].checkpoint()) *)
| OClone (r r2 : nat)                                           (* reg[r] = reg[r2].clone() *)
| OCloneFrom (r r2 : nat)                                       (* reg[r].clone_from(&reg[r2]): same hasher type, r <> r2 *)
| OAppend (r : nat) (d : list N)                                (* HighwayHash::append *)
| OWrite (r : nat) (d : list N)                                 (* io::Write::write -> Ok(n) *)
| OWriteAll (r : nat) (d : list N)                              (* io::Write::write_all -> Ok(()) *)
| OIoCopy (r : nat) (d : list N)                                (* io::copy(&mut &d[..], hasher) -> Ok(n) *)
| OHWrite (r : nat) (d : list N)                                (* core::hash::Hasher::write *)
| OFlush (r : nat)                                              (* io::Write::flush *)
| OFinish (r : nat)                                             (* Hasher::finish(&self) *)
| OCkpt (r : nat)                                               (* checkpoint(&self) *)
| ODebug (r : nat)                                              (* format!("{:?}") into a stack sink *)
| OFin (w : width) (r : nat)                                    (* finalize64/128/256(self): consumes reg[r] *)
| OHash (w : width) (r : nat) (d : list N).                     (* hash64/128/256(self, d): consumes reg[r] *)

Inductive out :=
| OutDigest (ws : list N)       (* "D64 .." / "D128 .. .." / "D256 .. .. .. .." *)
| OutCk (bs : list N)           (* "CK <hex328>" *)
| OutW (n : N)                  (* "W n" *)
| OutFin (x : N)                (* "FIN <hex16>" *)
| OutTag (t : N)                (* "TAG t" *)
| OutOk                         (* "OK" *)
| OutNone                       (* "NONE": an Option-returning constructor declined *)
| OutPanic                      (* "PANIC" *)
| OutFault                      (* "FAULT": never printed by a correct implementation *)
| OutIll.                       (* ill-formed script (absent register / backend not on this arch) *)

(* environment of a run: build profile, build configuration, address of the caller's data slices *)
Record env := { e_prof : profile; e_cfg : config; e_addr : N }.

Definition regs := list (nat * hasher).
Fixpoint lookup (rs : regs) (r : nat) : option hasher :=
  match rs with [] => None | (k, h) :: rs => if Nat.eqb k r then Some h else lookup rs r end.
Fixpoint remove (rs : regs) (r : nat) : regs :=
  match rs with [] => [] | (k, h) :: rs => if Nat.eqb k r then remove rs r else (k, h) :: remove rs r end.
Definition store (rs : regs) (r : nat) (h : hasher) : regs := (r, h) :: remove rs r.

Definition some_plain {A} (f : A -> hcore) (x : res A) : res (option hasher) :=
  do a <- x ;; Ok (Some (HPlain (f a))).
Definition opt_plain {A} (f : A -> hcore) (x : res (option A)) : res (option hasher) :=
  do a <- x ;; Ok (match a with Some a => Some (HPlain (f a)) | None => None end).
Definition some_disp (x : res dstate) : res (option hasher) := do d <- x ;; Ok (Some (HDisp d)).

(* constructors *)
Definition h_new (e : env) (b : backend) (force : bool) (k : lanes) : res (option hasher) :=
  match b with
  | BP => Ok (Some (HPlain (CP (p_new k))))
  | BS => if force then some_plain CS (s_force_new k) else opt_plain CS (s_new (e_cfg e) k)
  | BA => if force then some_plain CA (a_force_new k) else opt_plain CA (a_new (e_cfg e) k)
  | BN => Ok (Some (HPlain (CN (n_force_new k))))
  | BW => Ok (Some (HPlain (CW (w_new k))))
  | BD | BB => some_disp (d_new (e_cfg e) k)          (* hash.rs: build_hasher = HighwayHasher::new(self.key) *)
  end.
Definition h_default (e : env) (b : backend) : res (option hasher) :=
  match b with
  | BP => Ok (Some (HPlain (CP p_default)))
  | BS => some_plain CS s_default
  | BA => some_plain CA a_default
  | BN => Ok (Some (HPlain (CN n_default)))
  | BW => Ok (Some (HPlain (CW w_default)))
  | BD | BB => some_disp (d_new (e_cfg e) key0)        (* builder.rs: Default = new(Key::default()) *)
  end.
Definition h_restore (e : env) (b : backend) (force : bool) (c : list N) : res (option hasher) :=
  let prof := e_prof e in
  match b with
  | BP => some_plain CP (p_from_checkpoint prof c)
  | BS => if force then some_plain CS (s_force_from_checkpoint prof c)
          else opt_plain CS (s_from_checkpoint prof (e_cfg e) c)
  | BA => if force then some_plain CA (a_force_from_checkpoint prof c)
          else opt_plain CA (a_from_checkpoint prof (e_cfg e) c)
  | BN => some_plain CN (n_force_from_checkpoint prof c)
  | BW => some_plain CW (w_from_checkpoint prof c)
  | BD => some_disp (d_from_checkpoint prof (e_cfg e) c)
  | BB => Panic                                        (* no such operation; generators never emit it *)
  end.

(* methods *)
Definition h_append (e : env) (h : hasher) (d : list N) : res hasher :=
  match h with
  | HPlain c => do c' <- c_append (e_prof e) (e_addr e) c d ;; Ok (HPlain c')
  | HDisp s => do s' <- d_append (e_prof e) (e_cfg e) (e_addr e) s d ;; Ok (HDisp s')
  end.
Definition h_checkpoint (e : env) (h : hasher) : res (list N) :=
  match h with
  | HPlain c => c_checkpoint (e_prof e) c
  | HDisp s => d_checkpoint (e_prof e) (e_cfg e) s
  end.
Definition h_finalize (e : env) (w : width) (h : hasher) : res (list N) :=
  match h with
  | HPlain c => c_finalize (e_prof e) w c
  | HDisp s => d_finalize (e_prof e) (e_cfg e) w s
  end.
(* Clone: derived (field-wise) for the concrete hashers; per-arm for the dispatcher *)
Definition h_clone (e : env) (h : hasher) : res hasher :=
  match h with
  | HPlain c => Ok (HPlain c)
  | HDisp s => do s' <- d_clone (e_cfg e) s ;; Ok (HDisp s')
  end.
(* Debug: derived for the concrete hashers; the dispatcher prints its tag *)
Definition h_debug (e : env) (h : hasher) : res out :=
  match h with
  | HPlain _ => Ok OutOk
  | HDisp s => do t <- d_debug (e_cfg e) s ;; Ok (OutTag t)
  end.

(* macros.rs: impl_hasher!  finish(&self) = HighwayHash::finalize64(self.clone()) *)
Definition h_finish (e : env) (h : hasher) : res N :=
  do c <- h_clone e h ;; do d <- h_finalize e W64 c ;; Ok (nth0 d 0).

(* the two values are hashers of the same Rust type *)
Definition same_type (a b : hasher) : bool :=
  match a, b with
  | HPlain (CP _), HPlain (CP _) | HPlain (CS _), HPlain (CS _) | HPlain (CA _), HPlain (CA _)
  | HPlain (CN _), HPlain (CN _) | HPlain (CW _), HPlain (CW _) | HDisp _, HDisp _ => true
  | _, _ => false
  end.

Definition of_res {A} (rs : regs) (r : res A) (k : A -> regs * list out) : regs * list out * bool :=
  match r with
  | Ok a => (k a, true)
  | Panic => ((rs, [OutPanic]), false)
  | Fault => ((rs, [OutFault]), false)
  end.

(* one step: new register file, output lines, and whether the history continues (a panic ends it:
   the harness catches the unwind at history level) *)
Definition step (e : env) (rs : regs) (o : op) : regs * list out * bool :=
  let ill := ((rs, [OutIll]), false) in
  let with_reg r (k : hasher -> regs * list out * bool) :=
    match lookup rs r with Some h => k h | None => ill end in
  let ctor r (x : res (option hasher)) :=
    of_res rs x (fun oh => match oh with Some h => (store rs r h, [OutOk]) | None => (rs, [OutNone]) end) in
  (* macros.rs: impl_write!  write(&mut self, bytes) = { append(bytes); Ok(bytes.len()) } *)
  let appending r d (o : list out) :=
    with_reg r (fun h => of_res rs (h_append e h d) (fun h' => (store rs r h', o))) in
  match o with
  | ONew r b force k => ctor r (h_new e b force k)
  | ODefault r b => ctor r (h_default e b)
  | ORestore r b force c => ctor r (h_restore e b force c)
  | ORestoreFrom r b force r2 =>
      with_reg r2 (fun h2 => match h_checkpoint e h2 with
                             | Ok c => ctor r (h_restore e b force c)
                             | Panic => ((rs, [OutPanic]), false)
                             | Fault => ((rs, [OutFault]), false) end)
  | OClone r r2 => with_reg r2 (fun h => of_res rs (h_clone e h) (fun h' => (store rs r h', [OutOk])))
  | OCloneFrom r r2 =>
      (* Clone::clone_from: the derived / default implementation is  *self = source.clone()  *)
      with_reg r (fun h1 => with_reg r2 (fun h2 =>
        if Nat.eqb r r2 || negb (same_type h1 h2) then ill
        else of_res rs (h_clone e h2) (fun h' => (store rs r h', [OutOk]))))
  | OAppend r d => appending r d [OutOk]
  | OWrite r d => appending r d [OutW (N.of_nat (length d))]
  | OWriteAll r d => appending r d [OutOk]
  | OIoCopy r d => appending r d [OutW (N.of_nat (length d))]
  | OHWrite r d => appending r d [OutOk]
  | OFlush r => with_reg r (fun _ => ((rs, [OutOk]), true))
  | OFinish r => with_reg r (fun h => of_res rs (h_finish e h) (fun x => (rs, [OutFin x])))
  | OCkpt r => with_reg r (fun h => of_res rs (h_checkpoint e h) (fun c => (rs, [OutCk c])))
  | ODebug r => with_reg r (fun h => of_res rs (h_debug e h) (fun o => (rs, [o])))
  | OFin w r => with_reg r (fun h => of_res rs (h_finalize e w h) (fun d => (remove rs r, [OutDigest d])))
  | OHash w r d =>
      with_reg r (fun h => of_res rs (do h' <- h_append e h d ;; h_finalize e w h')
                                  (fun x => (remove rs r, [OutDigest x])))
  end.

Fixpoint run_from (e : env) (rs : regs) (h : list op) : list out :=
  match h with
  | [] => []
  | o :: h' => let '(rs', outs, continue) := step e rs o in
               if continue then outs ++ run_from e rs' h' else outs
  end.
Definition run (e : env) (h : list op) : list out := run_from e [] h.
