(* Packet.v — model of src/internal.rs: HashPacket (32-byte pending buffer + fill index) and
   unordered_load3.  Written function by function after the Rust text; every construct that can
   panic carries its condition (per build profile). *)
From Coq Require Import NArith List Lia Bool Arith.
From HW Require Import Word.
Import ListNotations.
Local Open Scope nat_scope.

(* internal.rs:16  pub const PACKET_SIZE: usize = 32; *)
Definition PACKET_SIZE : nat := 32.

(* internal.rs:23-28  struct HashPacket { buf: [u8; 32], buf_index: usize }
   [buf] always has length 32 (it is an array); [idx] is a usize. *)
Record packet := { buf : list N; idx : nat }.

(* #[derive(Default)] *)
Definition packet_default : packet := {| buf := repeat 0%N 32; idx := 0 |}.

(* internal.rs:31-33 len, 36-38 is_empty *)
Definition plen (p : packet) : nat := idx p.
Definition is_empty (p : packet) : bool := Nat.eqb (idx p) 0.

(* internal.rs:41-44
     debug_assert!(self.buf_index <= self.buf.len());
     self.buf.get(..self.buf_index).unwrap_or(&self.buf) *)
Definition as_slice (prof : profile) (p : packet) : res (list N) :=
  if dbg prof && (32 <? idx p) then Panic
  else Ok (if idx p <=? 32 then firstn (idx p) (buf p) else buf p).

(* internal.rs:47-49 *)
Definition inner (p : packet) : list N := buf p.

(* internal.rs:52-64
     let dest = self.buf.get_mut(self.buf_index..).unwrap_or_default();
     if dest.len() > data.len() { dest[..data.len()].copy_from_slice(data); self.buf_index += data.len(); None }
     else { let (head, tail) = data.split_at(dest.len()); dest.copy_from_slice(head);
            self.buf_index = PACKET_SIZE; Some(tail) }
   No panic: both slice operations have exactly matching lengths by the branch conditions. *)
Definition fill (p : packet) (data : list N) : packet * option (list N) :=
  let dlen := if idx p <=? 32 then 32 - idx p else 0 in
  if length data <? dlen then
    ({| buf := firstn (idx p) (buf p) ++ data ++ skipn (idx p + length data) (buf p);
        idx := idx p + length data |}, None)
  else
    ({| buf := if idx p <=? 32 then firstn (idx p) (buf p) ++ firstn dlen data else buf p;
        idx := 32 |}, Some (skipn dlen data)).

(* internal.rs:67-76
     debug_assert!(data.len() < PACKET_SIZE);
     self.buf_index = data.len();
     if !data.is_empty() { self.buf[..data.len()].copy_from_slice(data); }
   The slice index panics in every profile when data.len() > 32; the stale tail of buf is kept. *)
Definition set_to (prof : profile) (p : packet) (data : list N) : res packet :=
  if dbg prof && negb (length data <? 32) then Panic
  else if 32 <? length data then Panic
  else Ok {| buf := data ++ skipn (length data) (buf p); idx := length data |}.

(* internal.rs:6-16  unordered_load3(from)  (u64 arithmetic with +, no overflow possible: three
   disjoint byte positions).  from[size_mod4 - 1] would panic for a non-empty slice whose length is a
   multiple of 4: usize underflow (ovf) or index out of range. *)
Definition unordered_load3 (prof : profile) (from : list N) : res N :=
  match from with
  | [] => Ok 0%N
  | _ =>
      let m := Nat.modulo (length from) 4 in
      if Nat.eqb m 0 then Panic
      else Ok (nth0 from 0 + N.shiftl (nth0 from (Nat.div2 m)) 8 + N.shiftl (nth0 from (m - 1)) 16)%N
  end.
