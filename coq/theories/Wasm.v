(* Wasm.v — executable model of src/wasm.rs (WasmHash and its V2x64U), function by function, with the
   wasm32 simd128 intrinsics it uses (after the WebAssembly SIMD specification).
   A v128 is (lane 0, lane 1) of its u64x2 view; lane 0 holds bytes 0..7.  NOTE the crate's
   V2x64U::new(hi, low) = u64x2(hi, low) puts `hi` in lane 0: every lane index, shuffle table and
   replace_lane index below is mirrored relative to SSE/NEON. *)
From Coq Require Import NArith List Lia Bool Arith.
From HW Require Import Word Chunks Packet Mem Stream X86 Portable.
Import ListNotations.
Local Open Scope N_scope.

(* ---- intrinsics *)
Definition w_u64x2 (a0 a1 : N) : V128 := (t64 a0, t64 a1).
Definition w_u32x4 (a0 a1 a2 a3 : N) : V128 := of_e32 a0 a1 a2 a3.
Definition u64x2_extract_lane (i : N) (v : V128) : N := if i =? 0 then t64 (fst v) else t64 (snd v).
Definition u64x2_add : V128 -> V128 -> V128 := v2map2 add64.
Definition u64x2_mul : V128 -> V128 -> V128 := v2map2 mul64.
Definition u64x2_shr (a : V128) (amt : N) : V128 := v2map (fun x => N.shiftr (t64 x) (N.land amt 63)) a.
Definition u32x4_shl (a : V128) (amt : N) : V128 := map32 (fun x => t32 (N.shiftl x (N.land amt 31))) a.
Definition u32x4_shr (a : V128) (amt : N) : V128 := map32 (fun x => N.shiftr x (N.land amt 31)) a.
Definition v128_and : V128 -> V128 -> V128 := v2map2 N.land.
Definition v128_or : V128 -> V128 -> V128 := v2map2 N.lor.
Definition v128_xor : V128 -> V128 -> V128 := v2map2 N.lxor.
(* v128_andnot(a, b) = a AND NOT b *)
Definition v128_andnot (a b : V128) : V128 := v2map2 (fun x y => N.land x (N.lxor (t64 y) M64)) a b.
(* u8x16_shuffle<I0..I15>(a, b): out.b[i] = (a ++ b).b[I_i] *)
Definition u8x16_shuffle (idx : list nat) (a b : V128) : V128 :=
  let ab := bytes_of_v128 a ++ bytes_of_v128 b in v128_of_bytes (map (nth0 ab) idx).
(* u32x4_shuffle<I0..I3>(a, b) *)
Definition u32x4_shuffle (i0 i1 i2 i3 : N) (a b : V128) : V128 :=
  let sel i := if i <? 4 then e32 a i else e32 b (i - 4) in of_e32 (sel i0) (sel i1) (sel i2) (sel i3).
(* u64x2_shuffle<I0, I1>(a, b) *)
Definition u64x2_shuffle (i0 i1 : N) (a b : V128) : V128 :=
  let sel i := match i with 0 => fst a | 1 => snd a | 2 => fst b | _ => snd b end in (t64 (sel i0), t64 (sel i1)).
(* i32x4_replace_lane::<1>(v, x) *)
Definition i32x4_replace_lane_1 (v : V128) (x : N) : V128 := (t64 (mk64 (lo32 (fst v)) (t32 x)), t64 (snd v)).

(* ---- wasm.rs helper functions named after the x86 intrinsics they emulate *)
Definition w_mm_mul_epu32 (a b : V128) : V128 :=
  let mask := w_u32x4 0xFFFFFFFF 0 0xFFFFFFFF 0 in
  u64x2_mul (v128_and a mask) (v128_and b mask).
Definition w_mm_srli_epi64 (a : V128) (amt : N) : V128 := u64x2_shr a amt.
Definition w_mm_srl_epi32 (a : V128) (amt : N) : V128 := u32x4_shr a amt.
Definition w_mm_sll_epi32 (a : V128) (amt : N) : V128 := u32x4_shl a amt.
Definition w_mm_slli_si128_8 (a : V128) : V128 := u64x2_shuffle 1 2 a (w_u64x2 0 0).

(* ---- V2x64U (wasm.rs:363-440) *)
Definition WV2_new (hi low : N) : V128 := w_u64x2 hi low.
Definition WV2_zeroed : V128 := WV2_new 0 0.
Definition WV2_as_arr (v : V128) : N * N :=
  let hi := u64x2_extract_lane 0 v in let lo := u64x2_extract_lane 1 v in (lo, hi).
Definition WV2_rotate_by_32 (v : V128) : V128 := u32x4_shuffle 1 0 3 2 v v.
Definition WV2_and_not (v neg_mask : V128) : V128 := v128_andnot v neg_mask.

(* le_u64(x): x[0..8] by indexing — panics if x has fewer than 8 bytes *)
Definition w_le_u64 (x : list N) : res N :=
  if (length x <? 8)%nat then Panic else Ok (le_bytes (sub x 0 8)).

(* wasm.rs:11-21 *)
Record wcore := { w_v0L : V128; w_v0H : V128; w_v1L : V128; w_v1H : V128;
                  w_mul0L : V128; w_mul0H : V128; w_mul1L : V128; w_mul1H : V128 }.
Record wstate := { w_core : wcore; w_buffer : packet }.

(* wasm.rs: new *)
Definition w_new (key : lanes) : wstate :=
  let init0L := WV2_new 0xa4093822299f31d0 0xdbe6d5d5fe4cce2f in
  let init0H := WV2_new 0x243f6a8885a308d3 0x13198a2e03707344 in
  let init1L := WV2_new 0xc0acf169b5f18a8c 0x3bd39e10cb0ef593 in
  let init1H := WV2_new 0x452821e638d01377 0xbe5466cf34e90c6c in
  let keyL := WV2_new (lane1 key) (lane0 key) in
  let keyH := WV2_new (lane3 key) (lane2 key) in
  {| w_core := {| w_v0L := v128_xor keyL init0L; w_v0H := v128_xor keyH init0H;
                  w_v1L := v128_xor (WV2_rotate_by_32 keyL) init1L;
                  w_v1H := v128_xor (WV2_rotate_by_32 keyH) init1H;
                  w_mul0L := init0L; w_mul0H := init0H; w_mul1L := init1L; w_mul1H := init1H |};
     w_buffer := packet_default |}.

(* wasm.rs: zipper_merge — the mirrored table *)
Definition w_zipper_table : list nat := [3; 12; 2; 5; 1; 14; 0; 15; 11; 4; 10; 13; 6; 9; 7; 8]%nat.
Definition w_zipper_merge (v : V128) : V128 := u8x16_shuffle w_zipper_table v v.

(* wasm.rs: update *)
Definition w_update (s : wcore) (packetH packetL : V128) : wcore :=
  let v1L' := u64x2_add (w_v1L s) packetL in
  let v1H' := u64x2_add (w_v1H s) packetH in
  let v1L' := u64x2_add v1L' (w_mul0L s) in
  let v1H' := u64x2_add v1H' (w_mul0H s) in
  let mul0L' := v128_xor (w_mul0L s) (w_mm_mul_epu32 v1L' (WV2_rotate_by_32 (w_v0L s))) in
  let mul0H' := v128_xor (w_mul0H s) (w_mm_mul_epu32 v1H' (w_mm_srli_epi64 (w_v0H s) 32)) in
  let v0L' := u64x2_add (w_v0L s) (w_mul1L s) in
  let v0H' := u64x2_add (w_v0H s) (w_mul1H s) in
  let mul1L' := v128_xor (w_mul1L s) (w_mm_mul_epu32 v0L' (WV2_rotate_by_32 v1L')) in
  let mul1H' := v128_xor (w_mul1H s) (w_mm_mul_epu32 v0H' (w_mm_srli_epi64 v1H' 32)) in
  let v0L' := u64x2_add v0L' (w_zipper_merge v1L') in
  let v0H' := u64x2_add v0H' (w_zipper_merge v1H') in
  let v1L' := u64x2_add v1L' (w_zipper_merge v0L') in
  let v1H' := u64x2_add v1H' (w_zipper_merge v0H') in
  {| w_v0L := v0L'; w_v0H := v0H'; w_v1L := v1L'; w_v1H := v1H';
     w_mul0L := mul0L'; w_mul0H := mul0H'; w_mul1L := mul1L'; w_mul1H := mul1H' |}.

Definition w_permute_and_update (s : wcore) : wcore :=
  let low := WV2_rotate_by_32 (w_v0L s) in
  let high := WV2_rotate_by_32 (w_v0H s) in
  w_update s low high.

(* wasm.rs: modular_reduction *)
Definition w_modular_reduction (x init : V128) : V128 :=
  let zero := WV2_zeroed in
  let sign_bit128 := i32x4_replace_lane_1 zero 0x80000000 in
  let top_bits2 := w_mm_srli_epi64 x 62 in
  let shifted1_unmasked := u64x2_add x x in
  let top_bits1 := w_mm_srli_epi64 x 63 in
  let shifted2 := u64x2_add shifted1_unmasked shifted1_unmasked in
  let new_low_bits2 := w_mm_slli_si128_8 top_bits2 in
  let shifted1 := WV2_and_not shifted1_unmasked sign_bit128 in
  let new_low_bits1 := w_mm_slli_si128_8 top_bits1 in
  v128_xor (v128_xor (v128_xor (v128_xor init shifted2) new_low_bits2) shifted1) new_low_bits1.

(* wasm.rs: load_multiple_of_four(bytes) — safe code: slices, no raw loads *)
Definition w_load_multiple_of_four (bytes : list N) : res V128 :=
  let mask4 := WV2_new 0 0xFFFFFFFF in
  do r <- (if (8 <=? length bytes)%nat then
             do lo <- w_le_u64 bytes ;;
             Ok (WV2_new 0 lo, w_mm_slli_si128_8 mask4, skipn 8 bytes)
           else Ok (WV2_new 0 0, mask4, bytes)) ;;
  let '(ret, mask4, data) := r in
  if (4 <=? length data)%nat then
    let last4 := le_bytes (sub data 0 4) in
    Ok (v128_or ret (v128_and (w_u32x4 last4 last4 last4 last4) mask4))
  else Ok ret.

(* wasm.rs: remainder *)
Definition w_remainder (prof : profile) (bytes : list N) : res (V128 * V128) :=
  let size_mod32 := length bytes in
  let size_mod4 := Nat.modulo size_mod32 4 in
  let jump := (size_mod32 - size_mod4)%nat in
  if (32 <? size_mod32)%nat then (if dbg prof then Panic else Ok (WV2_zeroed, WV2_zeroed))
  else if (16 <=? size_mod32)%nat then
    do packetLL <- w_le_u64 bytes ;;
    do packetLH <- w_le_u64 (skipn 8 bytes) ;;
    let packetL := WV2_new packetLH packetLL in
    do packett <- w_load_multiple_of_four (skipn 16 bytes) ;;
    (* &bytes[(size_mod32 & !3) + size_mod4 - 4..] then remainder[0..3] *)
    let rem := skipn (jump + size_mod4 - 4) bytes in
    do _ <- guard (length rem <? 4)%nat ;;
    let last4 := le_bytes (sub rem 0 4) in
    Ok (i32x4_replace_lane_1 packett last4, packetL)
  else
    let rem := skipn jump bytes in
    do packetL <- w_load_multiple_of_four bytes ;;
    do last4 <- unordered_load3 prof rem ;;
    Ok (WV2_new 0 last4, packetL).

(* wasm.rs: rotate_32_by(count: u32):  32 - count  panics on underflow with overflow checks *)
Definition w_rotate_32_by (prof : profile) (s : wcore) (count : N) : res wcore :=
  let count_left := count in
  do count_right <- (if count <=? 32 then Ok (32 - count)
                     else if ovf prof then Panic else Ok (t32 (32 + 4294967296 - count))) ;;
  let rot v := v128_or (w_mm_sll_epi32 v count_left) (w_mm_srl_epi32 v count_right) in
  Ok {| w_v0L := w_v0L s; w_v0H := w_v0H s; w_v1L := rot (w_v1L s); w_v1H := rot (w_v1H s);
        w_mul0L := w_mul0L s; w_mul0H := w_mul0H s; w_mul1L := w_mul1L s; w_mul1H := w_mul1H s |}.

(* wasm.rs: update_remainder *)
Definition w_update_remainder (prof : profile) (s : wstate) : res wcore :=
  let size := t32 (N.of_nat (plen (w_buffer s))) in            (* as i32 *)
  let vsize_mod32 := w_u32x4 size size size size in
  let c := w_core s in
  let c := {| w_v0L := u64x2_add (w_v0L c) vsize_mod32; w_v0H := u64x2_add (w_v0H c) vsize_mod32;
              w_v1L := w_v1L c; w_v1H := w_v1H c; w_mul0L := w_mul0L c; w_mul0H := w_mul0H c;
              w_mul1L := w_mul1L c; w_mul1H := w_mul1H c |} in
  do c <- w_rotate_32_by prof c size ;;
  do sl <- as_slice prof (w_buffer s) ;;
  do p <- w_remainder prof sl ;;
  Ok (w_update c (fst p) (snd p)).

(* wasm.rs: data_to_lanes — chunks_exact(8).zip(lanes) with le_u64 *)
Definition w_data_to_lanes (packet : list N) : V128 * V128 :=
  let l := p_data_to_lanes packet in
  (WV2_new (lane3 l) (lane2 l), WV2_new (lane1 l) (lane0 l)).

(* update(data_to_lanes(packet)): safe code, no raw loads — the address is irrelevant *)
Definition w_step (c : wcore) (packet : mem) : res wcore :=
  let p := w_data_to_lanes (mbytes packet) in Ok (w_update c (fst p) (snd p)).

(* wasm.rs: append — the shared text of Stream.v *)
Definition w_append_at (prof : profile) (addr : N) (s : wstate) (data : list N) : res wstate :=
  do r <- g_append w_step 0 prof addr (w_core s) (w_buffer s) data ;;
  Ok {| w_core := fst r; w_buffer := snd r |}.

Definition w_append (prof : profile) (s : wstate) (data : list N) : res wstate := w_append_at prof 0 s data.

Definition w_pre_finalize (prof : profile) (s : wstate) : res wcore :=
  if negb (is_empty (w_buffer s)) then w_update_remainder prof s else Ok (w_core s).

Definition w_finalize64 (prof : profile) (s : wstate) : res N :=
  do c <- w_pre_finalize prof s ;;
  let c := iter 4 w_permute_and_update c in
  let sum0 := u64x2_add (w_v0L c) (w_mul0L c) in
  let sum1 := u64x2_add (w_v1L c) (w_mul1L c) in
  Ok (u64x2_extract_lane 1 (u64x2_add sum0 sum1)).

Definition w_finalize128 (prof : profile) (s : wstate) : res (N * N) :=
  do c <- w_pre_finalize prof s ;;
  let c := iter 6 w_permute_and_update c in
  let sum0 := u64x2_add (w_v0L c) (w_mul0L c) in
  let sum1 := u64x2_add (w_v1H c) (w_mul1H c) in
  let hash := u64x2_add sum0 sum1 in
  Ok (u64x2_extract_lane 1 hash, u64x2_extract_lane 0 hash).

Definition w_finalize256 (prof : profile) (s : wstate) : res lanes :=
  do c <- w_pre_finalize prof s ;;
  let c := iter 10 w_permute_and_update c in
  let sum0L := u64x2_add (w_v0L c) (w_mul0L c) in
  let sum1L := u64x2_add (w_v1L c) (w_mul1L c) in
  let sum0H := u64x2_add (w_v0H c) (w_mul0H c) in
  let sum1H := u64x2_add (w_v1H c) (w_mul1H c) in
  let hashL := w_modular_reduction sum1L sum0L in
  let hashH := w_modular_reduction sum1H sum0H in
  Ok (u64x2_extract_lane 1 hashL, u64x2_extract_lane 0 hashL,
      u64x2_extract_lane 1 hashH, u64x2_extract_lane 0 hashH).

Definition w_to_portable (s : wstate) : pstate :=
  let c := w_core s in
  let cat (l h : V128) : lanes := let a := WV2_as_arr l in let b := WV2_as_arr h in (fst a, snd a, fst b, snd b) in
  {| core := {| v0 := cat (w_v0L c) (w_v0H c); v1 := cat (w_v1L c) (w_v1H c);
                mul0 := cat (w_mul0L c) (w_mul0H c); mul1 := cat (w_mul1L c) (w_mul1H c) |};
     buffer := w_buffer s |}.
Definition w_checkpoint (prof : profile) (s : wstate) : res (list N) := p_checkpoint prof (w_to_portable s).

Definition w_of_portable (p : pstate) : wstate :=
  let c := core p in
  let lo (l : lanes) := WV2_new (lane1 l) (lane0 l) in
  let hi (l : lanes) := WV2_new (lane3 l) (lane2 l) in
  {| w_core := {| w_v0L := lo (v0 c); w_v0H := hi (v0 c); w_v1L := lo (v1 c); w_v1H := hi (v1 c);
                  w_mul0L := lo (mul0 c); w_mul0H := hi (mul0 c); w_mul1L := lo (mul1 c); w_mul1H := hi (mul1 c) |};
     w_buffer := buffer p |}.
Definition w_from_checkpoint (prof : profile) (data : list N) : res wstate :=
  do p <- p_from_checkpoint prof data ;; Ok (w_of_portable p).

Definition w_default : wstate := w_new key0.
