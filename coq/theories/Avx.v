(* Avx.v — executable model of src/x86/avx.rs (AvxHash) and src/x86/v4x64u.rs, function by function. *)
From Coq Require Import NArith List Lia Bool Arith.
From HW Require Import Word Chunks Packet Mem Stream X86 Portable Sse.
Import ListNotations.
Local Open Scope N_scope.

(* avx.rs:13-19 *)
Record acore := { a_v0 : V256; a_v1 : V256; a_mul0 : V256; a_mul1 : V256 }.
Record astate := { a_core : acore; a_buffer : packet }.

(* v4x64u.rs *)
Definition V4_new (highest high low lowest : N) : V256 := mm256_set_epi64x highest high low lowest.
Definition V4_as_arr (v : V256) : lanes := map4 t64 v.                      (* _mm256_storeu_si256 *)
Definition V4_rotate_by_32 (v : V256) : V256 := mm256_shuffle_epi32 v mm_shuffle_2301.
Definition V4_shr_by_32 (v : V256) : V256 := mm256_srli_epi64 v 32.
Definition V4_mul_low32 (v x : V256) : V256 := mm256_mul_epu32 v x.
Definition V4_and_not (v neg_mask : V256) : V256 := mm256_andnot_si256 neg_mask v.

(* AvxHash is a 32-aligned struct whose four __m256i fields precede the packet buffer *)
Definition A_BUF_ADDR : N := 0.

(* avx.rs: force_new — one ALIGNED 32-byte load from the Key object (Key is repr(align(32))) *)
Definition a_force_new (key : lanes) : res astate :=
  let mul0 := V4_new 0x243f6a8885a308d3 0x13198a2e03707344 0xa4093822299f31d0 0xdbe6d5d5fe4cce2f in
  let mul1 := V4_new 0x452821e638d01377 0xbe5466cf34e90c6c 0xc0acf169b5f18a8c 0x3bd39e10cb0ef593 in
  do k <- mm256_load_si256 (key_obj (key_bytes key)) 0 ;;
  Ok {| a_core := {| a_v0 := mm256_xor_si256 k mul0;
                     a_v1 := mm256_xor_si256 (V4_rotate_by_32 k) mul1;
                     a_mul0 := mul0; a_mul1 := mul1 |};
        a_buffer := packet_default |}.

(* avx.rs: zipper_merge *)
Definition a_zipper_merge (v : V256) : V256 :=
  let hi := 0x070806090D0A040B in let lo := 0x000F010E05020C03 in
  mm256_shuffle_epi8 v (V4_new hi lo hi lo).

(* avx.rs: update *)
Definition a_update (s : acore) (packet : V256) : acore :=
  let v1 := mm256_add_epi64 (a_v1 s) packet in
  let v1 := mm256_add_epi64 v1 (a_mul0 s) in
  let mul0 := mm256_xor_si256 (a_mul0 s) (V4_mul_low32 v1 (V4_shr_by_32 (a_v0 s))) in
  let v0 := mm256_add_epi64 (a_v0 s) (a_mul1 s) in
  let mul1 := mm256_xor_si256 (a_mul1 s) (V4_mul_low32 v0 (V4_shr_by_32 v1)) in
  let v0 := mm256_add_epi64 v0 (a_zipper_merge v1) in
  let v1 := mm256_add_epi64 v1 (a_zipper_merge v0) in
  {| a_v0 := v0; a_v1 := v1; a_mul0 := mul0; a_mul1 := mul1 |}.

(* avx.rs: permute — permutevar8x32 with the index vector of the source *)
Definition a_permute (v : V256) : V256 :=
  let indices := V4_new 0x0000000200000003 0x0000000000000001 0x0000000600000007 0x0000000400000005 in
  mm256_permutevar8x32_epi32 v indices.
Definition a_permute_and_update (s : acore) : acore := a_update s (a_permute (a_v0 s)).

(* avx.rs: modular_reduction(x, init) *)
Definition a_modular_reduction (x init : V256) : V256 :=
  let top_bits2 := mm256_srli_epi64 x 62 in
  let ones := mm256_cmpeq_epi64 x x in
  let shifted1_unmasked := mm256_add_epi64 x x in
  let top_bits1 := mm256_srli_epi64 x 63 in
  let upper_8bytes := mm256_slli_si256_8 ones in
  let shifted2 := mm256_add_epi64 shifted1_unmasked shifted1_unmasked in
  let upper_bit_of_128 := mm256_slli_epi64 upper_8bytes 63 in
  let zero := mm256_setzero_si256 in
  let new_low_bits2 := mm256_unpacklo_epi64 zero top_bits2 in
  let shifted1 := V4_and_not shifted1_unmasked upper_bit_of_128 in
  let new_low_bits1 := mm256_unpacklo_epi64 zero top_bits1 in
  mm256_xor_si256 (mm256_xor_si256 (mm256_xor_si256 (mm256_xor_si256 init shifted2) new_low_bits2) shifted1) new_low_bits1.

(* avx.rs: data_to_lanes — one unaligned 32-byte load *)
Definition a_data_to_lanes (packet : mem) : res V256 := mm256_loadu_si256 packet 0.

(* avx.rs: remainder(bytes) — bytes is always the hasher's own buffer.as_slice() *)
Definition a_remainder (prof : profile) (bytes : mem) : res V256 :=
  let size_mod32 := mlen bytes in
  let size256 := mm256_broadcastd_epi32 (mm_cvtsi64_si128 (N.of_nat size_mod32)) in
  let size_mod4 := Nat.modulo size_mod32 4 in
  let jump := (size_mod32 - size_mod4)%nat in
  let size := mm256_castsi256_si128 size256 in
  if Nat.odd (size_mod32 / 16) then
    do packetL <- mm_load_si128 bytes 0 ;;                                   (* ALIGNED 16-byte load *)
    let int_mask := mm_cmpgt_epi32 size (mm_set_epi32 31 27 23 19) in
    do int_lanes <- mm_maskload_epi32 bytes 16 int_mask ;;
    do rem <- mslice_from bytes (jump + size_mod4 - 4) ;;
    do _ <- guard (mlen rem <? 4)%nat ;;
    let last4 := le_bytes (sub (mbytes rem) 0 4) in
    let packetH := mm_insert_epi32_3 int_lanes last4 in
    Ok (mm256_set_m128i packetH packetL)
  else
    let int_mask := mm_cmpgt_epi32 size (mm_set_epi32 15 11 7 3) in
    do packetL <- mm_maskload_epi32 bytes 0 int_mask ;;
    do rem <- mslice_from bytes jump ;;
    do last3 <- unordered_load3 prof (mbytes rem) ;;
    let packetH := mm_cvtsi64_si128 last3 in
    Ok (mm256_set_m128i packetH packetL).

(* avx.rs: update_remainder *)
Definition a_update_remainder (prof : profile) (s : astate) : res acore :=
  let size := N.of_nat (plen (a_buffer s)) in
  let size256 := mm256_broadcastd_epi32 (mm_cvtsi64_si128 size) in
  let c := a_core s in
  let v0 := mm256_add_epi64 (a_v0 c) size256 in
  let shifted_left := mm256_sllv_epi32 (a_v1 c) size256 in
  let tip := mm256_broadcastd_epi32 (mm_cvtsi32_si128 32) in
  let shifted_right := mm256_srlv_epi32 (a_v1 c) (mm256_sub_epi32 tip size256) in
  let v1 := mm256_or_si256 shifted_left shifted_right in
  let c := {| a_v0 := v0; a_v1 := v1; a_mul0 := a_mul0 c; a_mul1 := a_mul1 c |} in
  do sl <- as_slice prof (a_buffer s) ;;
  do packet <- a_remainder prof (self_buf A_BUF_ADDR sl) ;;
  Ok (a_update c packet).

(* update(data_to_lanes(packet)) *)
Definition a_step (c : acore) (packet : mem) : res acore :=
  do p <- a_data_to_lanes packet ;; Ok (a_update c p).

(* avx.rs: append — the shared text of Stream.v *)
Definition a_append (prof : profile) (addr : N) (s : astate) (data : list N) : res astate :=
  do r <- g_append a_step A_BUF_ADDR prof addr (a_core s) (a_buffer s) data ;;
  Ok {| a_core := fst r; a_buffer := snd r |}.

Definition a_pre_finalize (prof : profile) (s : astate) : res acore :=
  if negb (is_empty (a_buffer s)) then a_update_remainder prof s else Ok (a_core s).

Definition a_finalize64 (prof : profile) (s : astate) : res N :=
  do c <- a_pre_finalize prof s ;;
  let c := iter 4 a_permute_and_update c in
  let sum0 := mm256_castsi256_si128 (mm256_add_epi64 (a_v0 c) (a_mul0 c)) in
  let sum1 := mm256_castsi256_si128 (mm256_add_epi64 (a_v1 c) (a_mul1 c)) in
  Ok (t64 (fst (mm_add_epi64 sum0 sum1))).

Definition a_finalize128 (prof : profile) (s : astate) : res (N * N) :=
  do c <- a_pre_finalize prof s ;;
  let c := iter 6 a_permute_and_update c in
  let sum0 := mm256_castsi256_si128 (mm256_add_epi64 (a_v0 c) (a_mul0 c)) in
  let sum1 := mm256_extracti128_si256_1 (mm256_add_epi64 (a_v1 c) (a_mul1 c)) in
  Ok (V2_as_arr (mm_add_epi64 sum0 sum1)).

Definition a_finalize256 (prof : profile) (s : astate) : res lanes :=
  do c <- a_pre_finalize prof s ;;
  let c := iter 10 a_permute_and_update c in
  let sum0 := mm256_add_epi64 (a_v0 c) (a_mul0 c) in
  let sum1 := mm256_add_epi64 (a_v1 c) (a_mul1 c) in
  Ok (V4_as_arr (a_modular_reduction sum1 sum0)).

(* avx.rs: checkpoint *)
Definition a_to_portable (s : astate) : pstate :=
  let c := a_core s in
  {| core := {| v0 := V4_as_arr (a_v0 c); v1 := V4_as_arr (a_v1 c);
                mul0 := V4_as_arr (a_mul0 c); mul1 := V4_as_arr (a_mul1 c) |};
     buffer := a_buffer s |}.
Definition a_checkpoint (prof : profile) (s : astate) : res (list N) := p_checkpoint prof (a_to_portable s).

(* avx.rs: force_from_checkpoint *)
Definition a_of_portable (p : pstate) : astate :=
  let c := core p in
  let pack (l : lanes) := V4_new (lane3 l) (lane2 l) (lane1 l) (lane0 l) in
  {| a_core := {| a_v0 := pack (v0 c); a_v1 := pack (v1 c); a_mul0 := pack (mul0 c); a_mul1 := pack (mul1 c) |};
     a_buffer := buffer p |}.
Definition a_force_from_checkpoint (prof : profile) (data : list N) : res astate :=
  do p <- p_from_checkpoint prof data ;; Ok (a_of_portable p).

Definition a_default : res astate := a_force_new key0.
