(* Extract.v — extraction of the executable model to OCaml.
   ExtrOcamlBasic only: bool, option, unit, list, prod, sumbool, sumor map to OCaml's own types;
   no Extract Constant; N / positive / nat / Z stay the extracted inductives. *)
From Coq Require Import ExtrOcamlBasic.
From HW Require Import Word Dispatch History Spec.
Extraction Language OCaml.
Extraction "../ocaml/model.ml" run prof_dev prof_release HH.
