(* Extract.v — extraction of the executable model to OCaml.
   ExtrOcamlBasic only: bool, option, unit, list, prod, sumbool, sumor map to OCaml's own types;
   no Extract Constant; N / positive / nat / Z stay the extracted inductives. *)
From Coq Require Import ExtrOcamlBasic.
From HW Require Import Word Mem X86 Dispatch History Spec.
Extraction Language OCaml.
Extraction "../ocaml/model.ml" run prof_dev prof_release HH to_le_bytes
  mm_add_epi64 mm_mul_epu32 mm_andnot_si128 mm_srli_epi64 mm_shuffle_epi32 mm_shuffle_epi8 mm_insert_epi32_3 mm_slli_si128_8
  mm_sll_epi32 mm_srl_epi32 mm_cmpgt_epi32 mm_set1_epi32 mm_cvtsi64_si128 mm_maskload_epi32
  mm256_add_epi64 mm256_mul_epu32 mm256_andnot_si256 mm256_shuffle_epi8 mm256_shuffle_epi32 mm256_permutevar8x32_epi32
  mm256_sllv_epi32 mm256_srlv_epi32 mm256_sub_epi32 mm256_unpacklo_epi64 mm256_cmpeq_epi64 mm256_srli_epi64 mm256_slli_epi64
  mm256_slli_si256_8 mm256_broadcastd_epi32.
