(* Neon.v — executable model of src/aarch64.rs (NeonHash and its V2x64U), function by function,
   with the NEON intrinsics it uses (after the Arm ARM pseudocode).  A uint64x2_t is its two 64-bit
   lanes (lane 0, lane 1); reinterpret casts are identities on the 128 bits. *)
From Coq Require Import NArith ZArith List Lia Bool Arith.
From HW Require Import Word Chunks Packet Mem Stream X86 Portable.
Import ListNotations.
Local Open Scope N_scope.

(* ---- intrinsics (V128 = (lane0, lane1); e32 / of_e32 / bytes_of_v128 / v128_of_bytes from X86.v
        are plain little-endian views of the 128 bits and are reused) *)
Definition vaddq_u64 : V128 -> V128 -> V128 := v2map2 add64.
Definition vandq_u64 : V128 -> V128 -> V128 := v2map2 N.land.
Definition vorrq_u64 : V128 -> V128 -> V128 := v2map2 N.lor.
Definition veorq_u64 : V128 -> V128 -> V128 := v2map2 N.lxor.
(* vbicq_u64(a, b) = a AND NOT b *)
Definition vbicq_u64 (a b : V128) : V128 := v2map2 (fun x y => N.land x (N.lxor (t64 y) M64)) a b.
Definition vdupq_n_u64 (x : N) : V128 := (t64 x, t64 x).
Definition vdupq_n_u32 (x : N) : V128 := of_e32 x x x x.
(* vmovn_u64: low 32 bits of each lane; vshrn_n_u64(a, 32): bits 32..63 of each lane *)
Definition vmovn_u64 (a : V128) : N * N := (lo32 (fst a), lo32 (snd a)).
Definition vshrn_n_u64_32 (a : V128) : N * N := (lo32 (hi32 (fst a)), lo32 (hi32 (snd a))).
(* vmull_u32: 32x32 -> 64 per lane *)
Definition vmull_u32 (a b : N * N) : V128 := (mul64 (fst a) (fst b), mul64 (snd a) (snd b)).
Definition vshrq_n_u64 (a : V128) (n : N) : V128 := v2map (fun x => N.shiftr (t64 x) n) a.
(* vqtbl1q_u8(t, idx): out.b[i] = idx.b[i] < 16 ? t.b[idx.b[i]] : 0 *)
Definition vqtbl1q_u8 (t idx : list N) : V128 :=
  v128_of_bytes (map (fun c => if c <? 16 then nth0 t (N.to_nat c) else 0) idx).
(* vrev64q_u32: swap the 32-bit halves of each 64-bit lane *)
Definition vrev64q_u32 (a : V128) : V128 := of_e32 (e32 a 1) (e32 a 0) (e32 a 3) (e32 a 2).
(* vsetq_lane_u32(x, v, 3) *)
Definition vsetq_lane_u32_3 (x : N) (v : V128) : V128 := (t64 (fst v), t64 (mk64 (lo32 (snd v)) (t32 x))).
(* vextq_u8(a, b, 8): bytes 8..15 of a then bytes 0..7 of b *)
Definition vextq_u8_8 (a b : V128) : V128 := (t64 (snd a), t64 (fst b)).
(* vshlq_u32(a, b): USHL — per 32-bit lane, shift by the signed low byte of b's lane:
   positive = left (>= 32 gives 0), negative = logical right (<= -32 gives 0) *)
Definition sbyte (x : N) : Z := let b := N.land x 0xff in if 127 <? b then (Z.of_N b - 256)%Z else Z.of_N b.
Definition ushl32 (x c : N) : N :=
  let s := sbyte c in
  if (0 <=? s)%Z then (if (32 <=? s)%Z then 0 else t32 (N.shiftl x (Z.to_N s)))
  else (if (s <=? -32)%Z then 0 else N.shiftr x (Z.to_N (- s))).
Definition vshlq_u32 : V128 -> V128 -> V128 := zip32 ushl32.
(* vld1q_u8 / vld1q_u64 (no alignment requirement) *)
Definition vld1q_u8 (m : mem) (off : nat) : res V128 := do b <- load m off 16 1 ;; Ok (v128_of_bytes b).

(* ---- V2x64U (aarch64.rs:339-406) *)
Definition NV2_new (hi low : N) : V128 := (t64 low, t64 hi).      (* vld1q_u64([low, hi]) *)
Definition NV2_as_arr (v : V128) : N * N := (t64 (fst v), t64 (snd v)).
Definition NV2_rotate_by_32 (v : V128) : V128 := vrev64q_u32 v.
Definition NV2_and_not (v neg_mask : V128) : V128 := vbicq_u64 v neg_mask.
Definition n_slli_si128_8 (a : V128) : V128 := vextq_u8_8 (0, 0) a.   (* _mm_slli_si128_8 *)

(* aarch64.rs:11-21 *)
Record ncore := { n_v0L : V128; n_v0H : V128; n_v1L : V128; n_v1H : V128;
                  n_mul0L : V128; n_mul0H : V128; n_mul1L : V128; n_mul1H : V128 }.
Record nstate := { n_core : ncore; n_buffer : packet }.
Definition N_BUF_ADDR : N := 16.

(* aarch64.rs: force_new — the key is read through Index, no memory intrinsic *)
Definition n_force_new (key : lanes) : nstate :=
  let init0L := NV2_new 0xa4093822299f31d0 0xdbe6d5d5fe4cce2f in
  let init0H := NV2_new 0x243f6a8885a308d3 0x13198a2e03707344 in
  let init1L := NV2_new 0xc0acf169b5f18a8c 0x3bd39e10cb0ef593 in
  let init1H := NV2_new 0x452821e638d01377 0xbe5466cf34e90c6c in
  let keyL := NV2_new (lane1 key) (lane0 key) in
  let keyH := NV2_new (lane3 key) (lane2 key) in
  {| n_core := {| n_v0L := veorq_u64 keyL init0L; n_v0H := veorq_u64 keyH init0H;
                  n_v1L := veorq_u64 (NV2_rotate_by_32 keyL) init1L;
                  n_v1H := veorq_u64 (NV2_rotate_by_32 keyH) init1H;
                  n_mul0L := init0L; n_mul0H := init0H; n_mul1L := init1L; n_mul1H := init1H |};
     n_buffer := packet_default |}.

(* aarch64.rs: zipper_merge — vqtbl1q_u8 with the position table *)
Definition n_zipper_table : list N := [3; 12; 2; 5; 14; 1; 15; 0; 11; 4; 10; 13; 9; 6; 8; 7].
Definition n_zipper_merge (v : V128) : V128 := vqtbl1q_u8 (bytes_of_v128 v) n_zipper_table.

(* aarch64.rs: update *)
Definition n_update (s : ncore) (packetH packetL : V128) : ncore :=
  let v1L' := vaddq_u64 (n_v1L s) packetL in
  let v1H' := vaddq_u64 (n_v1H s) packetH in
  let v1L' := vaddq_u64 v1L' (n_mul0L s) in
  let v1H' := vaddq_u64 v1H' (n_mul0H s) in
  let mul0L' := veorq_u64 (n_mul0L s) (vmull_u32 (vmovn_u64 v1L') (vshrn_n_u64_32 (n_v0L s))) in
  let mul0H' := veorq_u64 (n_mul0H s) (vmull_u32 (vmovn_u64 v1H') (vshrn_n_u64_32 (n_v0H s))) in
  let v0L' := vaddq_u64 (n_v0L s) (n_mul1L s) in
  let v0H' := vaddq_u64 (n_v0H s) (n_mul1H s) in
  let mul1L' := veorq_u64 (n_mul1L s) (vmull_u32 (vmovn_u64 v0L') (vshrn_n_u64_32 v1L')) in
  let mul1H' := veorq_u64 (n_mul1H s) (vmull_u32 (vmovn_u64 v0H') (vshrn_n_u64_32 v1H')) in
  let v0L' := vaddq_u64 v0L' (n_zipper_merge v1L') in
  let v0H' := vaddq_u64 v0H' (n_zipper_merge v1H') in
  let v1L' := vaddq_u64 v1L' (n_zipper_merge v0L') in
  let v1H' := vaddq_u64 v1H' (n_zipper_merge v0H') in
  {| n_v0L := v0L'; n_v0H := v0H'; n_v1L := v1L'; n_v1H := v1H';
     n_mul0L := mul0L'; n_mul0H := mul0H'; n_mul1L := mul1L'; n_mul1H := mul1H' |}.

Definition n_permute_and_update (s : ncore) : ncore :=
  let low := NV2_rotate_by_32 (n_v0L s) in
  let high := NV2_rotate_by_32 (n_v0H s) in
  n_update s low high.

(* aarch64.rs: modular_reduction *)
Definition n_modular_reduction (x init : V128) : V128 :=
  let zero := vdupq_n_u32 0 in
  let sign_bit128 := vsetq_lane_u32_3 0x80000000 zero in
  let top_bits2 := vshrq_n_u64 x 62 in
  let shifted1_unmasked := vaddq_u64 x x in
  let top_bits1 := vshrq_n_u64 x 63 in
  let shifted2 := vaddq_u64 shifted1_unmasked shifted1_unmasked in
  let new_low_bits2 := n_slli_si128_8 top_bits2 in
  let shifted1 := NV2_and_not shifted1_unmasked sign_bit128 in
  let new_low_bits1 := n_slli_si128_8 top_bits1 in
  veorq_u64 (veorq_u64 (veorq_u64 (veorq_u64 init shifted2) new_low_bits2) shifted1) new_low_bits1.

(* aarch64.rs: take::<N>(data): debug_assert!(data.len() >= N); then an unchecked raw read of N bytes *)
Definition n_take (prof : profile) (n : nat) (data : mem) : res (list N) :=
  do _ <- guard (dbg prof && (mlen data <? n)%nat) ;;
  load data 0 n 1.

(* aarch64.rs: load_multiple_of_four(bytes, size) *)
Definition n_load_multiple_of_four (prof : profile) (bytes : mem) (size : nat) : res V128 :=
  let mask4 := NV2_new 0 0xFFFFFFFF in
  do r <- (if (8 <=? mlen bytes)%nat then
             do d <- mslice_from bytes 8 ;;
             do lo <- n_take prof 8 bytes ;;
             Ok (NV2_new 0 (le_bytes lo), n_slli_si128_8 mask4, d)
           else Ok (NV2_new 0 0, mask4, bytes)) ;;
  let '(ret, mask4, data) := r in
  if Nat.odd (size / 4) then                       (* size & 4 != 0 *)
    do l4 <- n_take prof 4 data ;;
    Ok (vorrq_u64 ret (vandq_u64 (vdupq_n_u32 (le_bytes l4)) mask4))
  else Ok ret.

(* aarch64.rs: remainder *)
Definition n_remainder (prof : profile) (bytes : mem) : res (V128 * V128) :=
  let size_mod32 := mlen bytes in
  let size_mod4 := Nat.modulo size_mod32 4 in
  let jump := (size_mod32 - size_mod4)%nat in
  if Nat.odd (size_mod32 / 16) then
    do packetL <- vld1q_u8 bytes 0 ;;
    do hi <- mslice_from bytes 16 ;;
    do packett <- n_load_multiple_of_four prof hi size_mod32 ;;
    do rem <- mslice_from bytes (jump + size_mod4 - 4) ;;
    do _ <- guard (mlen rem <? 4)%nat ;;
    let last4 := le_bytes (sub (mbytes rem) 0 4) in
    Ok (vsetq_lane_u32_3 last4 packett, packetL)
  else
    do rem <- mslice_from bytes jump ;;
    do packetL <- n_load_multiple_of_four prof bytes size_mod32 ;;
    do last4 <- unordered_load3 prof (mbytes rem) ;;
    Ok (NV2_new 0 last4, packetL).

(* aarch64.rs: rotate_32_by(count: i32): counts  c  and  c + (!32 + 1) = c - 32  (i32 wrapping add:
   `+` on i32 panics on overflow with overflow checks; c - 32 never overflows for 0 <= c <= 2^31-1) *)
Definition n_rotate_32_by (s : ncore) (count : N) : ncore :=
  let count_left := vdupq_n_u32 (t32 count) in
  let count_right := vdupq_n_u32 (t32 (count + 4294967296 - 32)) in
  let rot v := vorrq_u64 (vshlq_u32 v count_left) (vshlq_u32 v count_right) in
  {| n_v0L := n_v0L s; n_v0H := n_v0H s; n_v1L := rot (n_v1L s); n_v1H := rot (n_v1H s);
     n_mul0L := n_mul0L s; n_mul0H := n_mul0H s; n_mul1L := n_mul1L s; n_mul1H := n_mul1H s |}.

(* aarch64.rs: update_remainder *)
Definition n_update_remainder (prof : profile) (s : nstate) : res ncore :=
  let size := N.of_nat (plen (n_buffer s)) in
  let vsize_mod32 := vdupq_n_u32 (t32 size) in
  let c := n_core s in
  let c := {| n_v0L := vaddq_u64 (n_v0L c) vsize_mod32; n_v0H := vaddq_u64 (n_v0H c) vsize_mod32;
              n_v1L := n_v1L c; n_v1H := n_v1H c; n_mul0L := n_mul0L c; n_mul0H := n_mul0H c;
              n_mul1L := n_mul1L c; n_mul1H := n_mul1H c |} in
  let c := n_rotate_32_by c size in
  do sl <- as_slice prof (n_buffer s) ;;
  do p <- n_remainder prof (self_buf N_BUF_ADDR sl) ;;
  Ok (n_update c (fst p) (snd p)).

(* aarch64.rs: data_to_lanes — vld1q_u8(ptr), vld1q_u8(ptr.offset(16)) *)
Definition n_data_to_lanes (packet : mem) : res (V128 * V128) :=
  do packetL <- vld1q_u8 packet 0 ;;
  do packetH <- vld1q_u8 packet 16 ;;
  Ok (packetH, packetL).

(* update(data_to_lanes(packet)) *)
Definition n_step (c : ncore) (packet : mem) : res ncore :=
  do p <- n_data_to_lanes packet ;; Ok (n_update c (fst p) (snd p)).

(* aarch64.rs: append — the shared text of Stream.v *)
Definition n_append (prof : profile) (addr : N) (s : nstate) (data : list N) : res nstate :=
  do r <- g_append n_step N_BUF_ADDR prof addr (n_core s) (n_buffer s) data ;;
  Ok {| n_core := fst r; n_buffer := snd r |}.

Definition n_pre_finalize (prof : profile) (s : nstate) : res ncore :=
  if negb (is_empty (n_buffer s)) then n_update_remainder prof s else Ok (n_core s).

Definition n_finalize64 (prof : profile) (s : nstate) : res N :=
  do c <- n_pre_finalize prof s ;;
  let c := iter 4 n_permute_and_update c in
  let sum0 := vaddq_u64 (n_v0L c) (n_mul0L c) in
  let sum1 := vaddq_u64 (n_v1L c) (n_mul1L c) in
  Ok (fst (NV2_as_arr (vaddq_u64 sum0 sum1))).

Definition n_finalize128 (prof : profile) (s : nstate) : res (N * N) :=
  do c <- n_pre_finalize prof s ;;
  let c := iter 6 n_permute_and_update c in
  let sum0 := vaddq_u64 (n_v0L c) (n_mul0L c) in
  let sum1 := vaddq_u64 (n_v1H c) (n_mul1H c) in
  Ok (NV2_as_arr (vaddq_u64 sum0 sum1)).

Definition n_finalize256 (prof : profile) (s : nstate) : res lanes :=
  do c <- n_pre_finalize prof s ;;
  let c := iter 10 n_permute_and_update c in
  let sum0L := vaddq_u64 (n_v0L c) (n_mul0L c) in
  let sum1L := vaddq_u64 (n_v1L c) (n_mul1L c) in
  let sum0H := vaddq_u64 (n_v0H c) (n_mul0H c) in
  let sum1H := vaddq_u64 (n_v1H c) (n_mul1H c) in
  let hashL := NV2_as_arr (n_modular_reduction sum1L sum0L) in
  let hashH := NV2_as_arr (n_modular_reduction sum1H sum0H) in
  Ok (fst hashL, snd hashL, fst hashH, snd hashH).

Definition n_to_portable (s : nstate) : pstate :=
  let c := n_core s in
  let cat (l h : V128) : lanes := let a := NV2_as_arr l in let b := NV2_as_arr h in (fst a, snd a, fst b, snd b) in
  {| core := {| v0 := cat (n_v0L c) (n_v0H c); v1 := cat (n_v1L c) (n_v1H c);
                mul0 := cat (n_mul0L c) (n_mul0H c); mul1 := cat (n_mul1L c) (n_mul1H c) |};
     buffer := n_buffer s |}.
Definition n_checkpoint (prof : profile) (s : nstate) : res (list N) := p_checkpoint prof (n_to_portable s).

Definition n_of_portable (p : pstate) : nstate :=
  let c := core p in
  let lo (l : lanes) := NV2_new (lane1 l) (lane0 l) in
  let hi (l : lanes) := NV2_new (lane3 l) (lane2 l) in
  {| n_core := {| n_v0L := lo (v0 c); n_v0H := hi (v0 c); n_v1L := lo (v1 c); n_v1H := hi (v1 c);
                  n_mul0L := lo (mul0 c); n_mul0H := hi (mul0 c); n_mul1L := lo (mul1 c); n_mul1H := hi (mul1 c) |};
     n_buffer := buffer p |}.
Definition n_force_from_checkpoint (prof : profile) (data : list N) : res nstate :=
  do p <- p_from_checkpoint prof data ;; Ok (n_of_portable p).

Definition n_default : nstate := n_force_new key0.
