(* Sse.v — executable model of src/x86/sse.rs (SseHash) and src/x86/v2x64u.rs, function by function. *)
From Coq Require Import NArith List Lia Bool Arith.
From HW Require Import Word Chunks Packet Mem Stream X86 Portable.
Import ListNotations.
Local Open Scope N_scope.

(* sse.rs:13-23 *)
Record score := { v0L : V128; v0H : V128; v1L : V128; v1H : V128;
                  mul0L : V128; mul0H : V128; mul1L : V128; mul1H : V128 }.
Record sstate := { s_core : score; s_buffer : packet }.

(* v2x64u.rs *)
Definition V2_new (hi lo : N) : V128 := mm_set_epi64x hi lo.
Definition V2_as_arr (v : V128) : N * N := (t64 (fst v), t64 (snd v)).       (* _mm_storeu_si128 into [u64;2] *)
Definition mm_shuffle_2301 : N := 0xB1.                                     (* _mm_shuffle!(2,3,0,1) *)
Definition V2_rotate_by_32 (v : V128) : V128 := mm_shuffle_epi32 v mm_shuffle_2301.
Definition V2_and_not (v neg_mask : V128) : V128 := mm_andnot_si128 neg_mask v.

(* the address of the hasher's own packet buffer (mod 32): SseHash is a 16-aligned struct *)
Definition S_BUF_ADDR : N := 16.

(* sse.rs: force_new — the key is read with two unaligned 16-byte loads from the Key object *)
Definition key_bytes (key : lanes) : list N := flat_map (to_le_bytes 8) (lanes_list key).
Definition s_force_new (key : lanes) : res sstate :=
  let init0L := V2_new 0xa4093822299f31d0 0xdbe6d5d5fe4cce2f in
  let init0H := V2_new 0x243f6a8885a308d3 0x13198a2e03707344 in
  let init1L := V2_new 0xc0acf169b5f18a8c 0x3bd39e10cb0ef593 in
  let init1H := V2_new 0x452821e638d01377 0xbe5466cf34e90c6c in
  let km := key_obj (key_bytes key) in
  do keyL <- mm_loadu_si128 km 0 ;;
  do keyH <- mm_loadu_si128 km 16 ;;
  Ok {| s_core := {| v0L := mm_xor_si128 keyL init0L; v0H := mm_xor_si128 keyH init0H;
                     v1L := mm_xor_si128 (V2_rotate_by_32 keyL) init1L;
                     v1H := mm_xor_si128 (V2_rotate_by_32 keyH) init1H;
                     mul0L := init0L; mul0H := init0H; mul1L := init1L; mul1H := init1H |};
        s_buffer := packet_default |}.

(* sse.rs: zipper_merge — pshufb with V2x64U::new(0x070806090D0A040B, 0x000F010E05020C03) *)
Definition s_zipper_merge (v : V128) : V128 :=
  mm_shuffle_epi8 v (V2_new 0x070806090D0A040B 0x000F010E05020C03).

(* sse.rs: update(&mut self, (packetH, packetL)) *)
Definition s_update (s : score) (packetH packetL : V128) : score :=
  let v1L' := mm_add_epi64 (v1L s) packetL in
  let v1H' := mm_add_epi64 (v1H s) packetH in
  let v1L' := mm_add_epi64 v1L' (mul0L s) in
  let v1H' := mm_add_epi64 v1H' (mul0H s) in
  let mul0L' := mm_xor_si128 (mul0L s) (mm_mul_epu32 v1L' (V2_rotate_by_32 (v0L s))) in
  let mul0H' := mm_xor_si128 (mul0H s) (mm_mul_epu32 v1H' (mm_srli_epi64 (v0H s) 32)) in
  let v0L' := mm_add_epi64 (v0L s) (mul1L s) in
  let v0H' := mm_add_epi64 (v0H s) (mul1H s) in
  let mul1L' := mm_xor_si128 (mul1L s) (mm_mul_epu32 v0L' (V2_rotate_by_32 v1L')) in
  let mul1H' := mm_xor_si128 (mul1H s) (mm_mul_epu32 v0H' (mm_srli_epi64 v1H' 32)) in
  let v0L' := mm_add_epi64 v0L' (s_zipper_merge v1L') in
  let v0H' := mm_add_epi64 v0H' (s_zipper_merge v1H') in
  let v1L' := mm_add_epi64 v1L' (s_zipper_merge v0L') in
  let v1H' := mm_add_epi64 v1H' (s_zipper_merge v0H') in
  {| v0L := v0L'; v0H := v0H'; v1L := v1L'; v1H := v1H';
     mul0L := mul0L'; mul0H := mul0H'; mul1L := mul1L'; mul1H := mul1H' |}.

(* sse.rs: permute_and_update — note update((low, high)) binds (packetH, packetL) := (low, high) *)
Definition s_permute_and_update (s : score) : score :=
  let low := V2_rotate_by_32 (v0L s) in
  let high := V2_rotate_by_32 (v0H s) in
  s_update s low high.

(* sse.rs: modular_reduction(x, init) *)
Definition s_modular_reduction (x init : V128) : V128 :=
  let zero := mm_setzero_si128 in
  let sign_bit128 := mm_insert_epi32_3 zero 0x80000000 in
  let top_bits2 := mm_srli_epi64 x 62 in
  let shifted1_unmasked := mm_add_epi64 x x in
  let top_bits1 := mm_srli_epi64 x 63 in
  let shifted2 := mm_add_epi64 shifted1_unmasked shifted1_unmasked in
  let new_low_bits2 := mm_slli_si128_8 top_bits2 in
  let shifted1 := V2_and_not shifted1_unmasked sign_bit128 in
  let new_low_bits1 := mm_slli_si128_8 top_bits1 in
  mm_xor_si128 (mm_xor_si128 (mm_xor_si128 (mm_xor_si128 init shifted2) new_low_bits2) shifted1) new_low_bits1.

(* sse.rs: load_multiple_of_four(bytes) *)
Definition s_load_multiple_of_four (prof : profile) (bytes : mem) : res V128 :=
  let mask4 := mm_cvtsi64_si128 0xFFFFFFFF in
  do r <- (if (8 <=? mlen bytes)%nat then
             do d <- mslice_from bytes 8 ;;
             do v <- mm_loadl_epi64 bytes 0 ;;
             Ok (v, mm_slli_si128_8 mask4, d)
           else Ok (V2_new 0 0, mask4, bytes)) ;;
  let '(ret, mask4, data) := r in
  if (4 <=? mlen data)%nat then            (* data.get(..4) *)
    let last4 := le_bytes (sub (mbytes data) 0 4) in
    Ok (mm_or_si128 ret (mm_and_si128 (mm_set1_epi32 last4) mask4))
  else Ok ret.

(* sse.rs: remainder(bytes) -> (packetH, packetL) *)
Definition s_remainder (prof : profile) (bytes : mem) : res (V128 * V128) :=
  let size_mod32 := mlen bytes in
  let size_mod4 := Nat.modulo size_mod32 4 in
  let jump := (size_mod32 - size_mod4)%nat in
  if Nat.odd (size_mod32 / 16) then
    do packetL <- mm_loadu_si128 bytes 0 ;;
    do hi <- mslice_from bytes 16 ;;
    do packett <- s_load_multiple_of_four prof hi ;;
    (* &bytes[(size_mod32 & !3) + size_mod4 - 4..]; then remainder[0..3] *)
    do rem <- mslice_from bytes (jump + size_mod4 - 4) ;;
    do _ <- guard (mlen rem <? 4)%nat ;;
    let last4 := le_bytes (sub (mbytes rem) 0 4) in
    Ok (mm_insert_epi32_3 packett last4, packetL)
  else
    do rem <- mslice_from bytes jump ;;
    do packetL <- s_load_multiple_of_four prof bytes ;;
    do last4 <- unordered_load3 prof (mbytes rem) ;;
    Ok (mm_cvtsi64_si128 last4, packetL).

(* sse.rs: rotate_32_by(&mut self, count: i64):  32 - count is i64 arithmetic (never overflows for
   a count that came from a usize <= 2^63); a negative result is a huge unsigned shift count *)
Definition i64_sub_32 (count : N) : N := t64 (32 + 18446744073709551616 - t64 count).
Definition s_rotate_32_by (s : score) (count : N) : score :=
  let count_left := mm_cvtsi64_si128 count in
  let count_right := mm_cvtsi64_si128 (i64_sub_32 count) in
  let rot v := mm_or_si128 (mm_sll_epi32 v count_left) (mm_srl_epi32 v count_right) in
  {| v0L := v0L s; v0H := v0H s; v1L := rot (v1L s); v1H := rot (v1H s);
     mul0L := mul0L s; mul0H := mul0H s; mul1L := mul1L s; mul1H := mul1H s |}.

(* sse.rs: update_remainder *)
Definition s_update_remainder (prof : profile) (s : sstate) : res score :=
  let size := N.of_nat (plen (s_buffer s)) in
  let vsize_mod32 := mm_set1_epi32 (t32 size) in          (* size as i32 *)
  let c := s_core s in
  let c := {| v0L := mm_add_epi64 (v0L c) vsize_mod32; v0H := mm_add_epi64 (v0H c) vsize_mod32;
              v1L := v1L c; v1H := v1H c; mul0L := mul0L c; mul0H := mul0H c;
              mul1L := mul1L c; mul1H := mul1H c |} in
  let c := s_rotate_32_by c size in
  do sl <- as_slice prof (s_buffer s) ;;
  do p <- s_remainder prof (self_buf S_BUF_ADDR sl) ;;
  Ok (s_update c (fst p) (snd p)).

(* sse.rs: data_to_lanes(packet) -> (packetH, packetL): two unaligned 16-byte loads *)
Definition s_data_to_lanes (packet : mem) : res (V128 * V128) :=
  do packetL <- mm_loadu_si128 packet 0 ;;
  do packetH <- mm_loadu_si128 packet 16 ;;
  Ok (packetH, packetL).

(* update(data_to_lanes(packet)) *)
Definition s_step (c : score) (packet : mem) : res score :=
  do p <- s_data_to_lanes packet ;; Ok (s_update c (fst p) (snd p)).

(* sse.rs: append — the shared text of Stream.v *)
Definition s_append (prof : profile) (addr : N) (s : sstate) (data : list N) : res sstate :=
  do r <- g_append s_step S_BUF_ADDR prof addr (s_core s) (s_buffer s) data ;;
  Ok {| s_core := fst r; s_buffer := snd r |}.

Definition s_pre_finalize (prof : profile) (s : sstate) : res score :=
  if negb (is_empty (s_buffer s)) then s_update_remainder prof s else Ok (s_core s).

(* sse.rs: finalize64 — _mm_storel_epi64 of the sum *)
Definition s_finalize64 (prof : profile) (s : sstate) : res N :=
  do c <- s_pre_finalize prof s ;;
  let c := iter 4 s_permute_and_update c in
  let sum0 := mm_add_epi64 (v0L c) (mul0L c) in
  let sum1 := mm_add_epi64 (v1L c) (mul1L c) in
  let hash := mm_add_epi64 sum0 sum1 in
  Ok (t64 (fst hash)).

Definition s_finalize128 (prof : profile) (s : sstate) : res (N * N) :=
  do c <- s_pre_finalize prof s ;;
  let c := iter 6 s_permute_and_update c in
  let sum0 := mm_add_epi64 (v0L c) (mul0L c) in
  let sum1 := mm_add_epi64 (v1H c) (mul1H c) in
  Ok (V2_as_arr (mm_add_epi64 sum0 sum1)).

Definition s_finalize256 (prof : profile) (s : sstate) : res lanes :=
  do c <- s_pre_finalize prof s ;;
  let c := iter 10 s_permute_and_update c in
  let sum0L := mm_add_epi64 (v0L c) (mul0L c) in
  let sum1L := mm_add_epi64 (v1L c) (mul1L c) in
  let sum0H := mm_add_epi64 (v0H c) (mul0H c) in
  let sum1H := mm_add_epi64 (v1H c) (mul1H c) in
  let hashL := V2_as_arr (s_modular_reduction sum1L sum0L) in
  let hashH := V2_as_arr (s_modular_reduction sum1H sum0H) in
  Ok (fst hashL, snd hashL, fst hashH, snd hashH).

(* sse.rs: checkpoint — re-packs the lanes into a PortableHash and calls its checkpoint *)
Definition s_to_portable (s : sstate) : pstate :=
  let c := s_core s in
  let cat (l h : V128) : lanes := let a := V2_as_arr l in let b := V2_as_arr h in (fst a, snd a, fst b, snd b) in
  {| core := {| v0 := cat (v0L c) (v0H c); v1 := cat (v1L c) (v1H c);
                mul0 := cat (mul0L c) (mul0H c); mul1 := cat (mul1L c) (mul1H c) |};
     buffer := s_buffer s |}.
Definition s_checkpoint (prof : profile) (s : sstate) : res (list N) := p_checkpoint prof (s_to_portable s).

(* sse.rs: force_from_checkpoint *)
Definition s_of_portable (p : pstate) : sstate :=
  let c := core p in
  let lo (l : lanes) := V2_new (lane1 l) (lane0 l) in
  let hi (l : lanes) := V2_new (lane3 l) (lane2 l) in
  {| s_core := {| v0L := lo (v0 c); v0H := hi (v0 c); v1L := lo (v1 c); v1H := hi (v1 c);
                  mul0L := lo (mul0 c); mul0H := hi (mul0 c); mul1L := lo (mul1 c); mul1H := hi (mul1 c) |};
     s_buffer := buffer p |}.
Definition s_force_from_checkpoint (prof : profile) (data : list N) : res sstate :=
  do p <- p_from_checkpoint prof data ;; Ok (s_of_portable p).

(* Default (after the fix): unsafe { SseHash::force_new(Key::default()) } *)
Definition s_default : res sstate := s_force_new key0.
