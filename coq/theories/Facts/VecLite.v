(* VecLite.v — deep embedding of the straight-line vector code in which the SIMD kernels (src/x86/sse.rs + v2x64u.rs,
   src/x86/avx.rs + v4x64u.rs, src/aarch64.rs, src/wasm.rs) are written, and its interpreter.

   tools/srcfacts (veclite.rs) translates the current text of the kernel functions and of the vector wrapper types'
   operators into [vfn] values (gen/SrcSse.v, ...).  The translation is purely syntactic, under three conventions
   that make every function a pure one:
     - a method of the hasher struct taking `&mut self` receives the struct's vector fields as leading parameters
       (named "self.<field>") and returns the tuple of those fields; a call `self.f(args)` rebinds all of them;
     - a method of the wrapper type taking `&mut self` (add_assign ...) receives "self" and returns the new "self";
       `a += b` is  a := <Type>::AddAssign::add_assign(a, b);
     - the wrapper's tuple-struct constructor, `.0`, `&`, `*` and `unsafe { }` are dropped (a wrapper IS its vector).
   Operator overloading and method calls are resolved to qualified names ("V2x64U::Add::add", inherent methods
   before trait methods, as rustc does).  A name that is not a translated function is a primitive: an intrinsic,
   an integer operation or cast, or a byte-level helper; primitives get their meaning from the table [prim] given to
   the interpreter (the intrinsic models of X86.v / Neon.v / Wasm.v).  An unknown primitive or an ill-typed
   application evaluates to [Fault]. *)
From Coq Require Import NArith List String Bool Arith.
From HW Require Import Word X86.
Import ListNotations.
Local Open Scope N_scope.

Inductive vval :=
| XN (n : N)                  (* integer (bit pattern) *)
| X2 (v : V128)               (* 128-bit vector, as two 64-bit lanes *)
| X4 (v : V256)               (* 256-bit vector, as four 64-bit lanes *)
| XP (v : N * N)              (* 64-bit vector of two 32-bit lanes (NEON uint32x2_t) *)
| XB (l : list N)             (* bytes *)
| XT (l : list vval).         (* tuple *)

Inductive vx :=
| XVar (x : string)
| XLit (n : N)
| XBytes (l : list N)                 (* array literal of integers *)
| XApp (f : string) (args : list vx)
| XTup (es : list vx)
| XUnsupported (s : string).

Inductive vstmt :=
| VLet (x : string) (e : vx)
| VLetTuple (xs : list string) (e : vx)
| VIf (c : vx) (t : list vstmt)            (* if c { t }  — no else; t only rebinds variables that already exist *)
| VRepeat (n : nat) (b : list vstmt)       (* for _ in 0..n { b } *)
| VUnsupported (s : string).

Record vfn := { vf_params : list string; vf_body : list vstmt; vf_ret : vx }.

Definition venv := list (string * vval).
Fixpoint vlookup (e : venv) (x : string) : option vval :=
  match e with [] => None | (y, v) :: e' => if String.eqb y x then Some v else vlookup e' x end.
Fixpoint vfind (fns : list (string * vfn)) (f : string) : option vfn :=
  match fns with [] => None | (g, d) :: fns' => if String.eqb g f then Some d else vfind fns' f end.
Fixpoint vbind (ps : list string) (vs : list vval) : option venv :=
  match ps, vs with
  | [], [] => Some []
  | p :: ps', v :: vs' => match vbind ps' vs' with Some e => Some ((p, v) :: e) | None => None end
  | _, _ => None
  end.

Section Interp.
  Variable prim : string -> list vval -> option (res vval).
  Variable fns : list (string * vfn).

  (* application of a translated function or primitive to values; [ev] evaluates expressions one level down *)
  Definition vapp (ev : venv -> vx -> res vval) (f : string) (vs : list vval) : res vval :=
    match vfind fns f with
    | Some d =>
        match vbind (vf_params d) vs with
        | Some env0 =>
            do env1 <- (fix block (b : list vstmt) (env : venv) {struct b} : res venv :=
                          match b with
                          | [] => Ok env
                          | s :: b' =>
                              do env' <- (fix stmt (s : vstmt) (env : venv) {struct s} : res venv :=
                                            match s with
                                            | VLet x e1 => do v <- ev env e1 ;; Ok ((x, v) :: env)
                                            | VLetTuple xs e1 =>
                                                do v <- ev env e1 ;;
                                                match v with
                                                | XT l => match vbind xs l with Some bs => Ok (bs ++ env) | None => Fault end
                                                | _ => Fault
                                                end
                                            | VIf c t =>
                                                do v <- ev env c ;;
                                                match v with
                                                | XN 0 => Ok env
                                                | XN 1 => (fix blk (l : list vstmt) (env : venv) {struct l} : res venv :=
                                                             match l with [] => Ok env | a :: l' => do e1 <- stmt a env ;; blk l' e1 end) t env
                                                | _ => Fault
                                                end
                                            | VRepeat k t =>
                                                (fix rep (k : nat) (env : venv) {struct k} : res venv :=
                                                   match k with
                                                   | O => Ok env
                                                   | S k' =>
                                                       do e1 <- (fix blk (l : list vstmt) (env : venv) {struct l} : res venv :=
                                                                   match l with [] => Ok env | a :: l' => do e1 <- stmt a env ;; blk l' e1 end) t env ;;
                                                       rep k' e1
                                                   end) k env
                                            | VUnsupported _ => Fault
                                            end) s env ;;
                              block b' env'
                          end) (vf_body d) env0 ;;
            ev env1 (vf_ret d)
        | None => Fault
        end
    | None => match prim f vs with Some r => r | None => Fault end
    end.

  Fixpoint veval (fuel : nat) (env : venv) (e : vx) {struct fuel} : res vval :=
    match fuel with
    | O => Fault
    | S n =>
        match e with
        | XVar x => match vlookup env x with Some v => Ok v | None => Fault end
        | XLit k => Ok (XN k)
        | XBytes l => Ok (XB l)
        | XTup es =>
            do vs <- (fix go (l : list vx) : res (list vval) :=
                        match l with [] => Ok [] | a :: l' => do v <- veval n env a ;; do vs <- go l' ;; Ok (v :: vs) end) es ;;
            Ok (XT vs)
        | XApp f args =>
            do vs <- (fix go (l : list vx) : res (list vval) :=
                        match l with [] => Ok [] | a :: l' => do v <- veval n env a ;; do vs <- go l' ;; Ok (v :: vs) end) args ;;
            vapp (veval n) f vs
        | XUnsupported _ => Fault
        end
    end.

  (* calling a translated function on values *)
  Definition vcall (fuel : nat) (f : string) (vs : list vval) : res vval :=
    match fuel with O => Fault | S n => vapp (veval n) f vs end.
End Interp.
