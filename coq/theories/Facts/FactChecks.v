(* FactChecks.v — the decision procedures evaluated (by the kernel) on the regenerated source facts.
   Each is a boolean function with a lemma saying what `true` means. *)
From Coq Require Import String Ascii List NArith Bool.
From HW Require Import Dispatch.
From HW.Facts Require Import FactTypes.
Import ListNotations.
Local Open Scope string_scope.

Definition find_file (fs : list file_facts) (path : string) : option file_facts :=
  find (fun f => String.eqb (ff_path f) path) fs.

Definition disjoint (a b : list string) : bool := negb (existsb (fun x => mem_str x b) a).
Definition subset (a b : list string) : bool := forallb (fun x => mem_str x b) a.

(* ---------------------------------------------------------------- module closure (C16 / C17) *)
Fixpoint split_colons (s : string) (acc : string) : list string :=
  match s with
  | EmptyString => [acc]
  | String ":"%char (String ":"%char rest) => acc :: split_colons rest ""
  | String c rest => split_colons rest (acc ++ String c "")
  end.

(* crate modules (first path segment after `crate`) a file refers to *)
Definition crate_modules (f : file_facts) : list string :=
  flat_map (fun u => match split_colons u "" with
                     | "crate" :: m :: _ => [m]
                     | _ => [] end) (ff_uses f).

(* names re-exported from the crate root, mapped to their modules (lib.rs: pub use crate::m::Name) *)
Definition reexports (lib : file_facts) : list (string * string) :=
  flat_map (fun u => match split_colons u "" with
                     | "crate" :: m :: n :: _ => [(n, m)]
                     | _ => [] end) (ff_uses lib).

Definition module_file (m : string) : string := "src/" ++ m ++ ".rs".

Definition resolve (lib : file_facts) (m : string) : string :=
  match find (fun p => String.eqb (fst p) m) (reexports lib) with
  | Some (_, real) => real
  | None => m
  end.

Fixpoint closure (fuel : nat) (fs : list file_facts) (lib : file_facts) (todo seen : list string) : list string :=
  match fuel with
  | O => seen
  | S fuel =>
      match todo with
      | [] => seen
      | p :: rest =>
          if mem_str p seen then closure fuel fs lib rest seen
          else match find_file fs p with
               | Some f => closure fuel fs lib (map (fun m => module_file (resolve lib m)) (crate_modules f) ++ rest) (p :: seen)
               | None => closure fuel fs lib rest (p :: seen)      (* a module with no file of that name: reported by the caller *)
               end
      end
  end.

(* ---------------------------------------------------------------- C16: no unsafe on the portable path *)
Definition portable_roots : list string := ["src/portable.rs"; "src/internal.rs"; "src/key.rs"; "src/traits.rs"].
Definition named_portable_files : list string :=
  ["src/lib.rs"; "src/portable.rs"; "src/internal.rs"; "src/key.rs"; "src/traits.rs"; "src/macros.rs"; "src/hash.rs"].
(* macros that may be invoked on the portable path: the crate's own adapter macros (defined in
   macros.rs, itself scanned) and core/std macros that expand to safe code *)
Definition safe_macros : list string :=
  ["debug_assert"; "debug_assert_eq"; "impl_write"; "impl_hasher"; "cfg"; "matches"; "write"; "unreachable"; "panic"; "assert"].

(* everything the portable hasher executes: the closure of its modules under `crate::` references; plus the
   files the property names (lib.rs and hash.rs are checked as files: they re-export / instantiate the
   dispatcher by design, which is not part of the portable path) *)
Definition portable_path (fs : list file_facts) (lib : file_facts) : list string :=
  let cl := closure 64 fs lib portable_roots [] in
  cl ++ filter (fun p => negb (mem_str p cl)) named_portable_files.

Definition file_safe (f : file_facts) : bool :=
  match ff_unsafe f with [] => true | _ => false end
  && subset (ff_macros f) safe_macros
  && negb (existsb (fun a => String.eqb a "allow ( unsafe_code )") (ff_inner_attrs f)).

Definition lib_denies_unsafe (lib : file_facts) : bool :=
  existsb (fun a => String.eqb a "deny ( unsafe_code )" || String.eqb a "forbid ( unsafe_code )") (ff_inner_attrs lib).

Definition portable_path_safe (fs : list file_facts) : bool :=
  match find_file fs "src/lib.rs" with
  | None => false
  | Some lib =>
      lib_denies_unsafe lib
      && forallb (fun p => match find_file fs p with Some f => file_safe f | None => false end) (portable_path fs lib)
      && forallb (fun p => mem_str p (portable_path fs lib)) named_portable_files
  end.

Lemma portable_path_safe_spec fs : portable_path_safe fs = true ->
  exists lib, find_file fs "src/lib.rs" = Some lib /\ lib_denies_unsafe lib = true /\
  forall p, In p (portable_path fs lib) -> exists f, find_file fs p = Some f /\ ff_unsafe f = [] /\ subset (ff_macros f) safe_macros = true.
Proof.
  unfold portable_path_safe. destruct (find_file fs "src/lib.rs") as [lib|]; [|discriminate].
  intros H. apply andb_true_iff in H as [H _]. apply andb_true_iff in H as [Hl Hf].
  exists lib. split; [reflexivity|]. split; [exact Hl|]. intros p Hp.
  rewrite forallb_forall in Hf. specialize (Hf p Hp). destruct (find_file fs p) as [f|]; [|discriminate].
  exists f. split; [reflexivity|]. unfold file_safe in Hf.
  apply andb_true_iff in Hf as [Hf _]. apply andb_true_iff in Hf as [Hu Hm].
  split; [destruct (ff_unsafe f); [reflexivity|discriminate]|exact Hm].
Qed.

(* ---------------------------------------------------------------- C17: byte order / word size *)
Definition endian_sensitive : list string :=
  ["from_ne_bytes"; "to_ne_bytes"; "to_be"; "to_le"; "from_be"; "from_le"; "to_be_bytes"; "from_be_bytes"; "swap_bytes";
   "transmute"; "transmute_copy"; "read_unaligned"; "from_raw_parts"; "from_raw_parts_mut"; "as_ptr"; "as_mut_ptr"; "align_to";
   "align_to_mut"; "isize"; "usize_from_ne"; "bytemuck"; "NativeEndian"; "reverse_bits"; "count_ones_ptr"; "size_of_val"].
Definition target_cfg_keys : list string := ["target_endian"; "target_pointer_width"; "target_has_atomic"].

(* the audited `as` casts of the portable path: all of them widen, or truncate a value already < 2^32,
   or go between u64 and the halves of a lane *)
Definition audited_casts : list (string * list (string * string)) :=
  [("src/portable.rs", [("self . buffer . len ( )", "u32"); ("len", "usize"); ("* lane", "u32"); ("( * lane > > 32 )", "u32");
                        ("bytes . len ( )", "u64"); ("self . buffer . len ( )", "u64")]);
   ("src/internal.rs", []); ("src/key.rs", []); ("src/traits.rs", []); ("src/macros.rs", []); ("src/hash.rs", []); ("src/lib.rs", [])].

Definition cast_eqb (a b : string * string) : bool := String.eqb (fst a) (fst b) && String.eqb (snd a) (snd b).
Fixpoint casts_eqb (a b : list (string * string)) : bool :=
  match a, b with
  | [], [] => true
  | x :: a', y :: b' => cast_eqb x y && casts_eqb a' b'
  | _, _ => false
  end.

Definition file_endian_neutral (f : file_facts) : bool :=
  disjoint (ff_idents f) endian_sensitive
  && disjoint (ff_cfg_keys f) target_cfg_keys
  && match find (fun p => String.eqb (fst p) (ff_path f)) audited_casts with
     | Some (_, cs) => casts_eqb (ff_casts f) cs
     | None => match ff_casts f with [] => true | _ => false end
     end.

Definition endian_neutral (fs : list file_facts) : bool :=
  match find_file fs "src/lib.rs" with
  | None => false
  | Some lib =>
      forallb (fun p => match find_file fs p with Some f => file_endian_neutral f | None => false end) (portable_path fs lib)
      && match find_file fs "src/portable.rs" with
         | Some f => mem_str "from_le_bytes" (ff_idents f) && mem_str "to_le_bytes" (ff_idents f)
         | None => false end
  end.

(* ---------------------------------------------------------------- C18: allocation-capable constructs *)
Definition alloc_idents : list string :=
  ["Vec"; "vec"; "Box"; "String"; "format"; "to_vec"; "to_owned"; "to_string"; "Rc"; "Arc"; "collections"; "Cow"; "with_capacity";
   "alloc"; "BTreeMap"; "BTreeSet"; "HashMap"; "HashSet"; "VecDeque"; "LinkedList"; "BinaryHeap"; "into_boxed_slice"; "boxed";
   "ToString"; "ToOwned"; "extern_crate_alloc"; "into_vec"; "concat"; "join"; "repeat"; "collect"; "BufWriter"; "BufReader"; "read_to_end";
   "read_to_string"; "CString"; "OsString"; "PathBuf"; "thread"; "spawn"; "println"; "eprintln"; "print"; "dbg"].

(* every use of the standard library goes through a module that neither allocates nor holds process state:
   core/std::{arch, ops, hash, io (Write, Result), fmt, mem, hint, default, ptr}; nothing from alloc:: *)
Definition std_modules_allowed : list string := ["arch"; "ops"; "hash"; "io"; "fmt"; "mem"; "hint"; "default"; "ptr"].
Definition std_items_denied : list string :=
  ["BufWriter"; "BufReader"; "LineWriter"; "stdout"; "stderr"; "stdin"; "Read"; "Cursor"; "Error"; "format"; "take"; "replace_with"].
Definition stdpath_ok (p : string) : bool :=
  match split_colons p "" with
  | root :: m :: rest => (String.eqb root "core" || String.eqb root "std") && mem_str m std_modules_allowed
                         && disjoint rest std_items_denied
  | _ => false
  end.
Definition std_use_ok (fs : list file_facts) : bool := forallb (fun f => forallb stdpath_ok (ff_stdpaths f)) fs.

Definition no_alloc (fs : list file_facts) (feats deps : list (string * string)) (build_script : bool) : bool :=
  forallb (fun f => disjoint (ff_idents f) alloc_idents && disjoint (ff_macros f) alloc_idents) fs
  && std_use_ok fs
  && match deps with [] => true | _ => false end
  && negb build_script
  && forallb (fun p => (String.eqb (fst p) "default" && String.eqb (snd p) "[""std""]") || (String.eqb (fst p) "std" && String.eqb (snd p) "[]")) feats.

(* ---------------------------------------------------------------- C15: hidden global state *)
Definition global_state_idents : list string :=
  ["thread_local"; "lazy_static"; "AtomicUsize"; "AtomicBool"; "AtomicU8"; "AtomicU16"; "AtomicU32"; "AtomicU64"; "AtomicPtr"; "AtomicIsize";
   "Cell"; "RefCell"; "UnsafeCell"; "Mutex"; "RwLock"; "OnceLock"; "OnceCell"; "LazyLock"; "LazyCell"; "Once"; "SyncUnsafeCell"; "static_mut_refs";
   "Ordering"; "atomic"; "env"; "getenv"; "SystemTime"; "Instant"; "RandomState"; "random"; "getrandom"].

Definition no_global_state (fs : list file_facts) (deps : list (string * string)) : bool :=
  forallb (fun f => match ff_statics f with [] => true | _ => false end
                    && disjoint (ff_idents f) global_state_idents && disjoint (ff_macros f) global_state_idents) fs
  && std_use_ok fs
  && match deps with [] => true | _ => false end.

(* ---------------------------------------------------------------- C07: shape of the Default impls *)
Definition expected_defaults : list (string * string) :=
  [("PortableHash", "{ PortableHash : : new ( Key : : default ( ) ) }");
   ("SseHash", "{ unsafe { SseHash : : force_new ( Key : : default ( ) ) } }");
   ("AvxHash", "{ unsafe { AvxHash : : force_new ( Key : : default ( ) ) } }");
   ("NeonHash", "{ unsafe { NeonHash : : force_new ( Key : : default ( ) ) } }");
   ("WasmHash", "{ WasmHash : : new ( Key : : default ( ) ) }");
   ("HighwayHasher", "{ HighwayHasher : : new ( Key : : default ( ) ) }")].

Definition body_of (bodies : list (string * string * string * string)) (ty tr fn : string) : option string :=
  match find (fun b => let '(t, r, f, _) := b in String.eqb t ty && String.eqb r tr && String.eqb f fn) bodies with
  | Some (_, _, _, body) => Some body
  | None => None
  end.

Definition defaults_ok (bodies : list (string * string * string * string)) : bool :=
  forallb (fun p => match body_of bodies (fst p) "Default" "default" with Some b => String.eqb b (snd p) | None => false end) expected_defaults
  && match body_of bodies "HighwayBuildHasher" "BuildHasher" "build_hasher" with
     | Some b => String.eqb b "{ HighwayHasher : : new ( self . key ) }" | None => false end
  && match body_of bodies "Key" "attr" "repr" with Some b => String.eqb b "repr ( align ( 32 ) )" | None => false end.

(* ---------------------------------------------------------------- C10: the ladders and the dispatch tables *)
Definition field_name (ch : choice) : string :=
  match ch with ChPortable => "portable" | ChAvx => "avx" | ChSse => "sse" | ChNeon => "neon" | ChWasm => "wasm" end.
Definition ctor_new (ch : choice) : string :=
  match ch with ChPortable => "PortableHash::new" | ChAvx => "AvxHash::force_new" | ChSse => "SseHash::force_new"
              | ChNeon => "NeonHash::force_new" | ChWasm => "WasmHash::new" end.
Definition ctor_restore (ch : choice) : string :=
  match ch with ChPortable => "PortableHash::from_checkpoint" | ChAvx => "AvxHash::force_from_checkpoint"
              | ChSse => "SseHash::force_from_checkpoint" | ChNeon => "NeonHash::force_from_checkpoint"
              | ChWasm => "WasmHash::from_checkpoint" end.

Definition outcome_eqb (a b : outcome) : bool :=
  match a, b with
  | ORet t f c, ORet t' f' c' => N.eqb t t' && String.eqb f f' && String.eqb c c'
  | OSome c, OSome c' => String.eqb c c'
  | ONone, ONone | OFall, OFall => true
  | _, _ => false
  end.

(* a configuration the crate can be compiled for: the portable arm is the fall-through, so on x86_64 the
   ladder may fall through its first block; elsewhere exactly one block is compiled in *)
Definition ladder_matches (c : config) (gen_new gen_restore : list stmt) : bool :=
  let ch := ladder c in
  outcome_eqb (run_ladder c gen_new) (ORet (tag_of_choice ch) (field_name ch) (ctor_new ch))
  && outcome_eqb (run_ladder c gen_restore) (ORet (tag_of_choice ch) (field_name ch) (ctor_restore ch)).

Definition safe_ctor_matches (c : config) (det : bool) (gen : list stmt) (ctor : string) : bool :=
  outcome_eqb (run_ladder c gen) (if c_std c && det then OSome ctor else ONone).

(* dispatch table: for the tag the ladder selects, exactly the first enabled arm with that tag reads the
   matching union field and calls the matching backend; arms for other tags may or may not be compiled in *)
Definition backend_type (ch : choice) : string :=
  match ch with ChPortable => "PortableHash" | ChAvx => "AvxHash" | ChSse => "SseHash" | ChNeon => "NeonHash" | ChWasm => "WasmHash" end.

Fixpoint n_of_digits (s : string) (acc : N) : option N :=
  match s with
  | EmptyString => Some acc
  | String ch rest =>
      let d := Ascii.nat_of_ascii ch in
      if Nat.leb 48 d && Nat.leb d 57 then n_of_digits rest (acc * 10 + N.of_nat (d - 48)) else None
  end.

Definition arm_lookup (c : config) (arms : list (cpred * string * string * string * bool)) (tag : N) : option (string * string * bool) :=
  let fix go l :=
    match l with
    | [] => None
    | (p, pat, field, callee, unreach) :: l' =>
        match eval_pred c p with
        | Some true =>
            if String.eqb pat "_" then Some (field, callee, unreach)
            else match n_of_digits pat 0 with
                 | Some t => if N.eqb t tag then Some (field, callee, unreach) else go l'
                 | None => Some ("?", "?", true)
                 end
        | Some false => go l'
        | None => Some ("?", "?", true)
        end
    end in go arms.

(* callee check: either `Type::method` with the backend's type, or a method call `.method` on the field *)
Definition dispatch_matches (c : config) (method : string) (table : string * list (cpred * string * string * string * bool)) : bool :=
  let ch := ladder c in
  match arm_lookup c (snd table) (tag_of_choice ch) with
  | Some (field, callee, unreach) =>
      negb unreach && String.eqb field (field_name ch)
      && (String.eqb callee (backend_type ch ++ "::" ++ method) || String.eqb callee ("." ++ method))
  | None => false
  end
  && (String.eqb (fst table) "self . tag" || String.eqb (fst table) "tag").

(* ---- the configuration space (C10): every cfg predicate, cfg!(), target_feature(enable = ..) and run-time detection in the
   source mentions only the features, architectures and cargo features the model's [config] has a field for; a predicate on
   anything else (say target_feature = "avx512vl") would select code in builds the 256 modelled configurations do not
   distinguish *)
Definition cfg_space : list (string * list string) :=
  [("target_feature", ["sse4.1"; "avx2"; "simd128"]); ("feature", ["std"]); ("target_arch", ["x86_64"; "aarch64"]);
   ("target_family", ["wasm"]); ("detected", ["sse4.1"; "avx2"]); ("enable", ["sse4.1"; "avx2"])].
Fixpoint cfg_lookup (k : string) (t : list (string * list string)) : option (list string) :=
  match t with [] => None | (k', vs) :: t' => if String.eqb k k' then Some vs else cfg_lookup k t' end.
Definition cfg_pair_ok (kv : string * string) : bool :=
  match cfg_lookup (fst kv) cfg_space with Some vs => mem_str (snd kv) vs | None => false end.
(* the verification hook of src/aarch64.rs is guarded by the bare flag highway_verif (no value): not a key = "value" pair *)
Definition cfg_space_ok (fs : list file_facts) : bool := forallb (fun f => forallb cfg_pair_ok (ff_cfg_values f)) fs.

