(* RustLite.v — a deep embedding of the fragment of Rust in which the word-level kernel of src/portable.rs is
   written, and its interpreter.  tools/srcfacts translates the *current* text of those functions into values of
   [fndef] (gen/SrcPortable.v, regenerated on every run); Refine/SourceTie.v proves that interpreting them gives
   exactly the hand-written model of Portable.v.  The translator only maps syntax to syntax (it resolves integer
   types, nothing else); what the syntax means is defined here, in Coq.

   Fragment: u8/u32/u64/usize scalars, fixed arrays of scalars, `self.<field>[i]` places, let, assignment (with
   ^= and |= desugared), `for i in a..b` with literal bounds (iter_mut()/enumerate() loops over fixed arrays are
   desugared to index loops by the translator), calls of functions of the same file (scalars by value, arrays by
   reference: copy-in/copy-out, exact for safe Rust because &mut is exclusive), wrapping and checked arithmetic,
   shifts by literal and by run-time amounts (checked when overflow checks are on), rotate_left by a literal,
   integer casts.  Anything else is translated to [EUnsupported]/[SUnsupported], which evaluate to [Fault], so a
   theorem about a function that leaves the fragment can no longer be proved. *)
From Coq Require Import NArith List String Bool Arith.
From HW Require Import Word X86 Wasm Neon.
Import ListNotations.
Local Open Scope N_scope.

Inductive ity := U8 | U32 | U64 | USZ.
Definition bits (t : ity) : N := match t with U8 => 8 | U32 => 32 | U64 => 64 | USZ => 64 end.
Definition mask (t : ity) : N := match t with U8 => M8 | U32 => M32 | U64 => M64 | USZ => M64 end.

Inductive idx := IConst (n : nat) | IVar (x : string).

Inductive expr :=
| ELit (n : N)
| EVar (x : string)
| EIdx (a : string) (i : idx)
| EAnd (a b : expr) | EOr (a b : expr) | EXor (a b : expr)
| EShlC (t : ity) (a : expr) (k : N)       (* a << literal   (the compiler rejects k >= width) *)
| EShrC (a : expr) (k : N)                 (* a >> literal *)
| EShl (t : ity) (a b : expr)              (* a << b, b computed at run time *)
| EShr (t : ity) (a b : expr)
| EAdd (t : ity) (a b : expr)              (* a + b: panics on overflow when overflow checks are on, else wraps *)
| ESub (t : ity) (a b : expr)
| EWAdd (t : ity) (a b : expr)             (* a.wrapping_add(b) *)
| EWMul (t : ity) (a b : expr)             (* a.wrapping_mul(b) *)
| ERotl (t : ity) (a : expr) (k : N)       (* a.rotate_left(literal) *)
| ETrunc (t : ity) (a : expr)              (* a as <narrower or equal> *)
| EWiden (a : expr)                        (* u64::from(a), a as <wider>: unsigned, value unchanged *)
| ETup (x : string) (k : nat)              (* k-th component of the tuple bound by  let (a, b) = f(..) *)
| ELen (a : string)                        (* a.len() of an array / slice *)
| ENot (t : ity) (a : expr)                (* !a *)
| EIdxE (a : string) (i : expr)            (* a[i], i a computed usize *)
| EFromLe (a : string) (n : nat)           (* uN::from_le_bytes([a[0], a[1], .., a[n-1]]) *)
| EMin (a b : expr)                        (* a.min(b) *)
| ERem (a b : expr)                        (* a % b  (panics when b = 0) *)
| EAddS32 (a b : expr)                     (* a + b on i32 (bit patterns): panics on signed overflow when the profile checks *)
| EVPrim (f : string) (vs : list string)   (* a scalar-valued SIMD primitive applied to vector variables (extract_lane) *)
| EUnsupported (s : string).

(* 128-bit vector expressions: a variable / field, or a SIMD primitive applied to vectors and to scalar atoms.  Calls of
   functions of the file (wrapper methods, operators, helpers) are statements; the translator names their results. *)
Inductive sarg := SALit (n : N) | SAVar (x : string).
Inductive vexpr := XV (x : string) | XPrim (f : string) (vs : list vexpr) (ss : list sarg)
| XLoad16 (a : string) (off : nat).   (* 16 bytes read through a raw pointer into the byte array a, at byte offset off (no alignment
                                         requirement: vld1q_u8); reading outside the array is undefined behaviour: Fault *)

Inductive place := PVar (x : string) | PIdx (a : string) (i : idx) | PIdxE (a : string) (i : expr).
Inductive cond :=
| CNe (a b : expr) | CEq (a b : expr) | CGt (a b : expr) | CLt (a b : expr)
| CLenGt (a b : string)                    (* a.len() > b.len() *)
| CLe (a b : expr)
| CIsEmpty (a : string)                    (* a.is_empty() *)
| CLenGe (a : string) (k : nat)            (* a.len() >= k, k a literal *)
| CLenGtK (a : string) (k : nat)           (* a.len() > k, k a literal *)
| CNot (c : cond).
Inductive arg := AVal (e : expr) | AArr (a : string) | AK (i : idx)
| AVec (e : vexpr)              (* a vector by value *)
| AVecRef (x : string)          (* &mut <vector variable or field>: copied back after the call *)
| ATupV (x : string).           (* a tuple of vectors held in a variable *)

Inductive stmt :=
| SLet (x : string) (e : expr)
| SLetArr (x : string) (es : list expr)                 (* let x = [e0, e1, ..]  (also: field: [..] of a struct literal) *)
| SCopyArr (x y : string)                               (* x = y for arrays *)
| SSet (p : place) (e : expr)
| SFor (i : string) (lo hi : nat) (body : list stmt)
| SCall (dst : option string) (f : string) (args : list arg)
| SIfBufNonEmpty (body : list stmt)                     (* if !self.buffer.is_empty() { body } *)
| SIf (c : cond) (th el : list stmt)
| SDebugAssertFalse                                     (* debug_assert!(false, ..) *)
| SLetRepeat (x : string) (v : expr) (n : nat)          (* let x = [v; n] *)
| SLetSlice (x : string) (a : string) (lo hi : option expr)        (* let x = &a[lo..hi] *)
| SCopyRange (dst : string) (dlo dhi : option expr) (src : string) (slo shi : option expr)
                                                        (* dst[dlo..dhi].clone_from_slice / copy_from_slice(&src[slo..shi]) *)
| SZipCopy (dst : string) (dlo : option expr) (src : string) (slo : option expr)
                                                        (* for (p, b) in dst[dlo..].iter_mut().zip(&src[slo..]) { *p = *b } *)
| SForChunks (x k : string) (d : string) (n cnt : nat) (body : list stmt)
                                                        (* for (x, dest) in d.chunks_exact(n).zip(<array of cnt>.iter_mut()) { body }:
                                                           x is bound to the k-th chunk, the index variable k stands for dest *)
| SDebugAssert (c : cond)                               (* debug_assert!(c, ..) *)
| SLetViewFrom (x : string) (a : string) (from : expr)  (* let x = a.get_mut(from..).unwrap_or_default() *)
| SLetSplit (h t : string) (a : string) (mid : expr)    (* let (h, t) = a.split_at(mid) *)
| SSetOpt (x : string) (src : option string)            (* x = None / x = Some(src) *)
| SLetViewRange (x : string) (a : string) (lo hi : option expr)   (* let x = &mut a[lo..hi] *)
| SLetSplitView (h t : string) (v : string) (mid : expr)          (* let (h, t) = v.split_at_mut(mid), v a view *)
| SLetToLe (x : string) (e : expr) (n : nat)                      (* x = e.to_le_bytes(), n bytes *)
| SCallSub (dst : option string) (f : string) (args : list arg) (fmap : list (string * string))
      (* dst = self.<sub>.f(args): the callee runs on the fields of the sub-object; fmap pairs each callee name ("self.buf") with
         the caller's name of the same field ("self.buffer.buf") *)
| SForAllChunks (x : string) (d : string) (n : nat) (body : list stmt)
      (* let mut chunks = d.chunks_exact(n); for x in chunks.by_ref() { body } *)
| SLetChunksRem (x : string) (d : string) (n : nat)     (* x = chunks.remainder() of d.chunks_exact(n) *)
| SIfSome (o : string) (x : string) (body : list stmt)  (* if let Some(x) = o { body } *)
| SLetV (x : string) (e : vexpr)                        (* x = <vector expression>  (let, assignment, self.0 = ..) *)
| SLetTupV (x : string) (es : list vexpr)               (* x = (v1, v2, ..) *)
| SUntupV (xs : list string) (src : string)             (* let (a, b) = src / a tuple pattern parameter *)
| SIfPrefix (x : string) (a : string) (n : nat) (body : list stmt)   (* if let Some(x) = a.get(..n) { body } *)
| SStoreLanes (a : string) (e : vexpr)                  (* vst1q_u64(a.as_mut_ptr(), e): the two 64-bit lanes into the array a *)
| SLetTake (x : string) (a : string) (n : nat)          (* x = take::<n>(a): debug_assert!(a.len() >= n), then an unchecked read of n bytes *)
| SCallWith (dst : option string) (f : string) (args : list arg) (fmap : list (string * string))
      (* dst = T { field: x, .. }.f(args), T another translated type: the callee runs on a temporary object whose fields
         (callee names, "self.v0") are the caller's variables / fields named in fmap *)
| SCallNew (x : string) (f : string) (args : list arg) (shape : list (string * nat))
      (* let x = T::f(args), f a constructor of another translated type: the callee runs on an object with zeroed fields (shape:
         field name, array length — 0 for a scalar); afterwards the object's fields are the variables "x.<field>" *)
| SUnsupported (s : string).

Inductive ret := RNone | RVal (e : expr) | RArr (es : list expr) | RTuple (es : list expr) | RVarArr (x : string)
| RVar (x : string)                        (* whatever value the variable holds (Option results) *)
| RCond (c : cond)                         (* a bool, as 1 / 0 *)
| RPrefixOr (a : string) (n : expr)        (* a.get(..n).unwrap_or(&a) *)
| RVec (e : vexpr).                        (* a vector *)
Inductive pkind := KVal | KArr | KIdx | KVec | KTupV.
Record fndef := { f_params : list (string * pkind); f_body : list stmt; f_ret : ret }.

Inductive val :=
| VN (n : N) | VA (l : list N) | VK (k : nat) | VT (l : list N)
| VV (a : string) (off len : nat)          (* a mutable view  &mut a[off .. off+len]  of an array variable *)
| VO (o : option (list N))                 (* Option<&[u8]> *)
| VX (v : V128)                            (* a 128-bit vector *)
| VTV (l : list V128).                     (* a tuple of vectors *)
Definition env := list (string * val).

Fixpoint lookup (e : env) (x : string) : option val :=
  match e with [] => None | (y, v) :: e' => if String.eqb y x then Some v else lookup e' x end.
Fixpoint upd (e : env) (x : string) (v : val) : env :=
  match e with
  | [] => [(x, v)]
  | (y, w) :: e' => if String.eqb y x then (y, v) :: e' else (y, w) :: upd e' x v
  end.
Fixpoint set_nth (l : list N) (i : nat) (x : N) : list N :=
  match l, i with
  | [], _ => []
  | _ :: l', O => x :: l'
  | y :: l', S i' => y :: set_nth l' i' x
  end.
Fixpoint nth_opt (l : list N) (i : nat) : option N :=
  match l, i with [], _ => None | x :: _, O => Some x | _ :: l', S i' => nth_opt l' i' end.

(* a name is a field of self iff it starts with "self." *)
Definition is_self (x : string) : bool := String.eqb (substring 0 5 x) "self.".

(* the two scopes: the hasher's fields, and the frame of the running function *)
Record state := { genv : env; lenv : env }.
Definition get (s : state) (x : string) : option val := if is_self x then lookup (genv s) x else lookup (lenv s) x.
Definition put (s : state) (x : string) (v : val) : state :=
  if is_self x then {| genv := upd (genv s) x v; lenv := lenv s |} else {| genv := genv s; lenv := upd (lenv s) x v |}.

Definition len_of (s : state) (x : string) : option nat :=
  match get s x with
  | Some (VA l) => Some (List.length l)
  | Some (VV _ _ n) => Some n
  | _ => None
  end.

Definition eval_idx (s : state) (i : idx) : res nat :=
  match i with
  | IConst n => Ok n
  | IVar x => match get s x with Some (VK k) => Ok k | _ => Fault end
  end.

Definition shl_chk (p : profile) (t : ity) (a b : N) : res N :=
  if ovf p && (bits t <=? b) then Panic else Ok (N.land (N.shiftl a (N.land b (bits t - 1))) (mask t)).
Definition shr_chk (p : profile) (t : ity) (a b : N) : res N :=
  if ovf p && (bits t <=? b) then Panic else Ok (N.shiftr a (N.land b (bits t - 1))).
Definition add_chk (p : profile) (t : ity) (a b : N) : res N :=
  if ovf p && (mask t <? a + b) then Panic else Ok (N.land (a + b) (mask t)).
Definition sub_chk (p : profile) (t : ity) (a b : N) : res N :=
  if b <=? a then Ok (a - b) else if ovf p then Panic else Ok (N.land (a + (mask t + 1) - b) (mask t)).
(* i32 addition on bit patterns: both non-negative and the sum reaches 2^31, or both negative and the sum falls below -2^31 *)
Definition sadd32_chk (p : profile) (a b : N) : res N :=
  let a := N.land a M32 in let b := N.land b M32 in
  let neg x := 2147483648 <=? x in
  let bad := (negb (neg a) && negb (neg b) && (2147483648 <=? a + b)) || (neg a && neg b && (a + b <? 6442450944)) in
  if ovf p && bad then Panic else Ok (N.land (a + b) M32).
Definition rotl (t : ity) (a k : N) : N := N.lor (N.land (N.shiftl a k) (mask t)) (N.shiftr a (bits t - k)).

Local Open Scope string_scope.
(* SIMD primitives: the Wasm SIMD operations used by src/wasm.rs, by their path with const generic arguments; meanings from Wasm.v *)
Definition vprim (f : string) (vs : list V128) (ss : list N) : option V128 :=
  let is x := String.eqb f x in
  match vs, ss with
  | [a; b], [] =>
      if is "wasm32::u64x2_add" then Some (u64x2_add a b) else if is "wasm32::u64x2_mul" then Some (u64x2_mul a b)
      else if is "wasm32::u64x2_sub" then Some (v2map2 (fun x y => t64 (x + 18446744073709551616 - y)) a b)
      else if is "wasm32::v128_and" then Some (v128_and a b) else if is "wasm32::v128_or" then Some (v128_or a b)
      else if is "wasm32::v128_xor" then Some (v128_xor a b) else if is "wasm32::v128_andnot" then Some (v128_andnot a b)
      else if is "wasm32::u8x16_shuffle::<3,12,2,5,1,14,0,15,11,4,10,13,6,9,7,8>"
           then Some (u8x16_shuffle [3; 12; 2; 5; 1; 14; 0; 15; 11; 4; 10; 13; 6; 9; 7; 8]%nat a b)
      else if is "wasm32::u32x4_shuffle::<1,0,3,2>" then Some (u32x4_shuffle 1 0 3 2 a b)
      else if is "wasm32::u64x2_shuffle::<1,2>" then Some (u64x2_shuffle 1 2 a b)
      else if is "neon::vaddq_u64" then Some (vaddq_u64 a b) else if is "neon::vandq_u64" then Some (vandq_u64 a b)
      else if is "neon::vorrq_u64" then Some (vorrq_u64 a b) else if is "neon::veorq_u64" then Some (veorq_u64 a b)
      else if is "neon::vbicq_u64" then Some (vbicq_u64 a b) else if is "neon::vmull_u32" then Some (vmull_u32 a b)
      else if is "neon::vshlq_u32" then Some (vshlq_u32 a b)
      else if is "neon::vqtbl1q_u8" then Some (vqtbl1q_u8 (bytes_of_v128 a) (bytes_of_v128 b))
      else None
  | [a; b], [k] => if is "neon::vextq_u8" then (if N.eqb k 8 then Some (vextq_u8_8 a b) else None) else None
  | [a], [] =>
      if is "neon::vmovn_u64" then Some (vmovn_u64 a) else if is "neon::vrev64q_u32" then Some (vrev64q_u32 a)
      else if is "neon::vreinterpretq_u8_u64" then Some a else if is "neon::vreinterpretq_u64_u8" then Some a
      else if is "neon::vreinterpretq_u32_u64" then Some a else if is "neon::vreinterpretq_u64_u32" then Some a
      else if is "neon::vreinterpretq_u64_s32" then Some a else if is "neon::vreinterpretq_u64_u16" then Some a
      else None
  | [a], [x; k] => if is "neon::vsetq_lane_u32" then (if N.eqb k 3 then Some (vsetq_lane_u32_3 x a) else None) else None
  | [], [x] =>
      if is "neon::vdupq_n_u64" then Some (vdupq_n_u64 x) else if is "neon::vdupq_n_u32" then Some (vdupq_n_u32 x)
      else if is "neon::vdupq_n_s32" then Some (vdupq_n_u32 x) else if is "neon::vdupq_n_u8" then Some (of_e32 (x * 16843009) (x * 16843009) (x * 16843009) (x * 16843009))
      else None
  | [a], [k] =>
      if is "wasm32::u64x2_shr" then Some (u64x2_shr a k) else if is "wasm32::u32x4_shl" then Some (u32x4_shl a k)
      else if is "wasm32::u32x4_shr" then Some (u32x4_shr a k)
      else if is "wasm32::i32x4_replace_lane::<1>" then Some (i32x4_replace_lane_1 a k)
      else if is "neon::vshrq_n_u64" then Some (vshrq_n_u64 a k)
      else if is "neon::vshrn_n_u64" then (if N.eqb k 32 then Some (vshrn_n_u64_32 a) else None)
      else None
  | [], [x; y] => if is "wasm32::u64x2" then Some (w_u64x2 x y)
                  else if is "neon::vld1q_u64::array" then Some (t64 x, t64 y) else None
  | [], [a0; a1; a2; a3] => if is "wasm32::u32x4" then Some (w_u32x4 a0 a1 a2 a3)
                            else if is "wasm32::i32x4" then Some (w_u32x4 a0 a1 a2 a3) else None
  | _, _ => None
  end.
Definition sprim (f : string) (vs : list V128) : option N :=
  match vs with
  | [a] => if String.eqb f "wasm32::u64x2_extract_lane::<0>" then Some (u64x2_extract_lane 0 a)
           else if String.eqb f "wasm32::u64x2_extract_lane::<1>" then Some (u64x2_extract_lane 1 a) else None
  | _ => None
  end.

Local Close Scope string_scope.
Definition eval_sarg (s : state) (a : sarg) : res N :=
  match a with
  | SALit n => Ok n
  | SAVar x => match get s x with Some (VN n) => Ok n | _ => Fault end
  end.
Fixpoint eval_sargs (s : state) (l : list sarg) : res (list N) :=
  match l with [] => Ok [] | a :: l' => do x <- eval_sarg s a ;; do xs <- eval_sargs s l' ;; Ok (x :: xs) end.
Fixpoint evalv (s : state) (e : vexpr) : res V128 :=
  match e with
  | XV x => match get s x with Some (VX v) => Ok v | _ => Fault end
  | XPrim f vs ss =>
      do xs <- (fix go (l : list vexpr) : res (list V128) :=
                  match l with [] => Ok [] | a :: l' => do v <- evalv s a ;; do r <- go l' ;; Ok (v :: r) end) vs ;;
      do ns <- eval_sargs s ss ;;
      match vprim f xs ns with Some v => Ok v | None => Fault end
  | XLoad16 a off =>
      match get s a with
      | Some (VA l) => if (off + 16 <=? List.length l)%nat then Ok (v128_of_bytes (sub l off 16)) else Fault
      | _ => Fault
      end
  end.
Fixpoint evalv_list (s : state) (l : list vexpr) : res (list V128) :=
  match l with [] => Ok [] | a :: l' => do v <- evalv s a ;; do r <- evalv_list s l' ;; Ok (v :: r) end.
Fixpoint get_vecs (s : state) (l : list string) : res (list V128) :=
  match l with
  | [] => Ok []
  | x :: l' => match get s x with Some (VX v) => do r <- get_vecs s l' ;; Ok (v :: r) | _ => Fault end
  end.

Fixpoint eval (p : profile) (s : state) (e : expr) : res N :=
  match e with
  | ELit n => Ok n
  | EVar x => match get s x with Some (VN n) => Ok n | _ => Fault end
  | EIdx a i =>
      do k <- eval_idx s i ;;
      match get s a with
      | Some (VA l) => match nth_opt l k with Some x => Ok x | None => Panic end     (* index out of bounds *)
      | _ => Fault
      end
  | EAnd a b => do x <- eval p s a ;; do y <- eval p s b ;; Ok (N.land x y)
  | EOr a b => do x <- eval p s a ;; do y <- eval p s b ;; Ok (N.lor x y)
  | EXor a b => do x <- eval p s a ;; do y <- eval p s b ;; Ok (N.lxor x y)
  | EShlC t a k => do x <- eval p s a ;; Ok (N.land (N.shiftl x k) (mask t))
  | EShrC a k => do x <- eval p s a ;; Ok (N.shiftr x k)
  | EShl t a b => do x <- eval p s a ;; do y <- eval p s b ;; shl_chk p t x y
  | EShr t a b => do x <- eval p s a ;; do y <- eval p s b ;; shr_chk p t x y
  | EAdd t a b => do x <- eval p s a ;; do y <- eval p s b ;; add_chk p t x y
  | ESub t a b => do x <- eval p s a ;; do y <- eval p s b ;; sub_chk p t x y
  | EWAdd t a b => do x <- eval p s a ;; do y <- eval p s b ;; Ok (N.land (x + y) (mask t))
  | EWMul t a b => do x <- eval p s a ;; do y <- eval p s b ;; Ok (N.land (x * y) (mask t))
  | ERotl t a k => do x <- eval p s a ;; Ok (rotl t x k)
  | ETrunc t a => do x <- eval p s a ;; Ok (N.land x (mask t))
  | EWiden a => eval p s a
  | ETup x k => match get s x with Some (VT l) => match nth_opt l k with Some v => Ok v | None => Fault end | _ => Fault end
  | ELen a => match len_of s a with Some n => Ok (N.of_nat n) | None => Fault end
  | ENot t a => do x <- eval p s a ;; Ok (N.lxor (N.land x (mask t)) (mask t))
  | EIdxE a i =>
      do k <- eval p s i ;;
      match get s a with
      | Some (VA l) => match nth_opt l (N.to_nat k) with Some x => Ok x | None => Panic end
      | _ => Fault
      end
  | EMin a b => do x <- eval p s a ;; do y <- eval p s b ;; Ok (N.min x y)
  | ERem a b => do x <- eval p s a ;; do y <- eval p s b ;; if y =? 0 then Panic else Ok (x mod y)
  | EAddS32 a b => do x <- eval p s a ;; do y <- eval p s b ;; sadd32_chk p x y
  | EVPrim f vs => do xs <- get_vecs s vs ;; match sprim f xs with Some n => Ok n | None => Fault end
  | EFromLe a n =>
      match get s a with
      | Some (VA l) => if (n <=? List.length l)%nat then Ok (le_bytes (firstn n l)) else Panic     (* a[k] out of bounds *)
      | _ => Fault
      end
  | EUnsupported _ => Fault
  end.

Fixpoint eval_list (p : profile) (s : state) (es : list expr) : res (list N) :=
  match es with
  | [] => Ok []
  | e :: es' => do x <- eval p s e ;; do xs <- eval_list p s es' ;; Ok (x :: xs)
  end.

Definition assign (p : profile) (s : state) (pl : place) (x : N) : res state :=
  match pl with
  | PVar v => Ok (put s v (VN x))
  | PIdx a i =>
      do k <- eval_idx s i ;;
      match get s a with
      | Some (VA l) => if (k <? List.length l)%nat then Ok (put s a (VA (set_nth l k x))) else Panic
      | _ => Fault
      end
  | PIdxE a i =>
      do kn <- eval p s i ;;
      match get s a with
      | Some (VA l) => if (N.to_nat kn <? List.length l)%nat then Ok (put s a (VA (set_nth l (N.to_nat kn) x))) else Panic
      | _ => Fault
      end
  end.

Fixpoint eval_cond (p : profile) (s : state) (c : cond) : res bool :=
  match c with
  | CNe a b => do x <- eval p s a ;; do y <- eval p s b ;; Ok (negb (x =? y))
  | CEq a b => do x <- eval p s a ;; do y <- eval p s b ;; Ok (x =? y)
  | CGt a b => do x <- eval p s a ;; do y <- eval p s b ;; Ok (y <? x)
  | CLt a b => do x <- eval p s a ;; do y <- eval p s b ;; Ok (x <? y)
  | CLe a b => do x <- eval p s a ;; do y <- eval p s b ;; Ok (x <=? y)
  | CLenGt a b => match len_of s a, len_of s b with
                  | Some la, Some lb => Ok (lb <? la)%nat
                  | _, _ => Fault
                  end
  | CIsEmpty a => match len_of s a with Some n => Ok (Nat.eqb n 0) | None => Fault end
  | CLenGe a k => match len_of s a with Some n => Ok (k <=? n)%nat | None => Fault end
  | CLenGtK a k => match len_of s a with Some n => Ok (k <? n)%nat | None => Fault end
  | CNot c' => do x <- eval_cond p s c' ;; Ok (negb x)
  end.

(* bounds of a range a[lo..hi] over a sequence of length len: Rust panics unless lo <= hi <= len *)
Definition eval_bound (p : profile) (s : state) (o : option expr) (dflt : nat) : res nat :=
  match o with None => Ok dflt | Some e => do x <- eval p s e ;; Ok (N.to_nat x) end.
Definition range_of (p : profile) (s : state) (lo hi : option expr) (len : nat) : res (nat * nat) :=
  do l <- eval_bound p s lo 0%nat ;;
  do h <- eval_bound p s hi len ;;
  if (l <=? h)%nat && (h <=? len)%nat then Ok (l, h) else Panic.
Fixpoint write_at (l : list N) (off : nat) (src : list N) : list N :=
  match src with [] => l | x :: src' => write_at (set_nth l off x) (S off) src' end.

Definition eval_arg (p : profile) (s : state) (a : arg) : res val :=
  match a with
  | AVal e => do x <- eval p s e ;; Ok (VN x)
  | AArr x => match get s x with Some (VA l) => Ok (VA l) | _ => Fault end
  | AK i => do k <- eval_idx s i ;; Ok (VK k)
  | AVec e => do v <- evalv s e ;; Ok (VX v)
  | AVecRef x => match get s x with Some (VX v) => Ok (VX v) | _ => Fault end
  | ATupV x => match get s x with Some (VTV l) => Ok (VTV l) | _ => Fault end
  end.
Fixpoint eval_args (p : profile) (s : state) (l : list arg) : res (list val) :=
  match l with [] => Ok [] | a :: l' => do v <- eval_arg p s a ;; do vs <- eval_args p s l' ;; Ok (v :: vs) end.

(* frame of a call: parameter names bound to the argument values *)
Fixpoint bind_params (ps : list (string * pkind)) (vs : list val) : res env :=
  match ps, vs with
  | [], [] => Ok []
  | (x, KVal) :: ps', VN n :: vs' => do e <- bind_params ps' vs' ;; Ok ((x, VN n) :: e)
  | (x, KArr) :: ps', VA l :: vs' => do e <- bind_params ps' vs' ;; Ok ((x, VA l) :: e)
  | (x, KIdx) :: ps', VK k :: vs' => do e <- bind_params ps' vs' ;; Ok ((x, VK k) :: e)
  | (x, KVec) :: ps', VX v :: vs' => do e <- bind_params ps' vs' ;; Ok ((x, VX v) :: e)
  | (x, KTupV) :: ps', VTV l :: vs' => do e <- bind_params ps' vs' ;; Ok ((x, VTV l) :: e)
  | _, _ => Fault
  end.
(* final values of the parameters, in order (arrays passed by reference are copied back to the caller) *)
Fixpoint param_values (ps : list (string * pkind)) (callee : env) : list (option val) :=
  match ps with [] => [] | (x, _) :: ps' => lookup callee x :: param_values ps' callee end.

Fixpoint find_fn (fns : list (string * fndef)) (f : string) : option fndef :=
  match fns with [] => None | (g, d) :: fns' => if String.eqb g f then Some d else find_fn fns' f end.

(* the whole chunks of l, in order (fuel: the length of l suffices) *)
Fixpoint chunk_loop {St : Type} (n : nat) (step : list N -> St -> res St) (fuel : nat) (l : list N) (s : St) : res St :=
  match fuel with
  | O => Ok s
  | S k => if (n <=? List.length l)%nat && (0 <? n)%nat
           then do s' <- step (firstn n l) s ;; chunk_loop n step k (skipn n l) s'
           else Ok s
  end.
Fixpoint chunk_rem (n : nat) (fuel : nat) (l : list N) : list N :=
  match fuel with
  | O => l
  | S k => if (n <=? List.length l)%nat && (0 <? n)%nat then chunk_rem n k (skipn n l) else l
  end.
(* fields of a sub-object, under the callee's names; and back *)
Fixpoint sub_env (g : env) (fmap : list (string * string)) : option env :=
  match fmap with
  | [] => Some []
  | (callee, caller) :: m =>
      match lookup g caller, sub_env g m with
      | Some v, Some e => Some ((callee, v) :: e)
      | _, _ => None
      end
  end.
Fixpoint merge_back (g : env) (sub : env) (fmap : list (string * string)) : env :=
  match fmap with
  | [] => g
  | (callee, caller) :: m =>
      merge_back (match lookup sub callee with Some v => upd g caller v | None => g end) sub m
  end.

(* an object of another type: built from the caller's variables / zeroed; its fields bound to "x.<field>" afterwards *)
Fixpoint with_env (s : state) (fmap : list (string * string)) : option env :=
  match fmap with
  | [] => Some []
  | (callee, caller) :: m =>
      match get s caller, with_env s m with
      | Some v, Some e => Some ((callee, v) :: e)
      | _, _ => None
      end
  end.
Definition zero_env (shape : list (string * nat)) : env :=
  map (fun nk => (fst nk, match snd nk with O => VN 0 | k => VA (repeat 0 k) end)) shape.
Fixpoint bind_obj (s : state) (x : string) (g : env) : state :=
  match g with
  | [] => s
  | (n, v) :: g' => bind_obj (put s (x ++ substring 4 (String.length n - 4) n)%string v) x g'      (* "self.v0" -> "x.v0" *)
  end.

Section Exec.
  Variable p : profile.
  (* calls, provided by the level below (fuel): name, fields of self, argument values
     -> new fields of self, final values of the parameters, result *)
  Variable call : string -> env -> list val -> res (env * list (option val) * option val).

  Fixpoint copy_out (s : state) (args : list arg) (finals : list (option val)) : state :=
    match args, finals with
    | AArr a :: args', Some (VA l) :: finals' => copy_out (put s a (VA l)) args' finals'
    | AVecRef a :: args', Some (VX v) :: finals' => copy_out (put s a (VX v)) args' finals'
    | _ :: args', _ :: finals' => copy_out s args' finals'
    | _, _ => s
    end.

  Fixpoint exec (st : stmt) (s : state) {struct st} : res state :=
    match st with
    | SLet x e => do v <- eval p s e ;; Ok (put s x (VN v))
    | SLetArr x es => do vs <- eval_list p s es ;; Ok (put s x (VA vs))
    | SCopyArr x y => match get s y with
                      | Some (VA l) => Ok (put s x (VA l))
                      | Some (VV a o n) => Ok (put s x (VV a o n))        (* x = y for views *)
                      | _ => Fault
                      end
    | SSet pl e => do v <- eval p s e ;; assign p s pl v
    | SFor i lo hi body =>
        (fix loop (ks : list nat) (s : state) : res state :=
           match ks with
           | [] => Ok s
           | k :: ks' =>
               do s' <- (fix block (b : list stmt) (s : state) : res state :=
                           match b with [] => Ok s | st' :: b' => do s1 <- exec st' s ;; block b' s1 end)
                        body (put s i (VK k)) ;;
               loop ks' s'
           end) (seq lo (hi - lo)) s
    | SCall dst f args =>
        do vs <- eval_args p s args ;;
        do r <- call f (genv s) vs ;;
        let '(g', finals, rv) := r in
        let s2 := copy_out {| genv := g'; lenv := lenv s |} args finals in
        match dst, rv with
        | None, _ => Ok s2
        | Some x, Some v => Ok (put s2 x v)
        | Some _, None => Fault
        end
    | SIfBufNonEmpty body =>
        (* HashPacket::is_empty is  self.buf_index == 0  (tied separately: pkt_is_empty) *)
        match lookup (genv s) "self.buffer.buf_index" with
        | Some (VN 0) => Ok s
        | Some (VN _) =>
            (fix block (b : list stmt) (s : state) : res state :=
               match b with [] => Ok s | st' :: b' => do s1 <- exec st' s ;; block b' s1 end) body s
        | _ => Fault
        end
    | SIf c th el =>
        do bq <- eval_cond p s c ;;
        (fix block (b : list stmt) (s : state) : res state :=
           match b with [] => Ok s | st' :: b' => do s1 <- exec st' s ;; block b' s1 end) (if bq then th else el) s
    | SDebugAssertFalse => if dbg p then Panic else Ok s
    | SLetRepeat x v n => do y <- eval p s v ;; Ok (put s x (VA (repeat y n)))
    | SLetSlice x a lo hi =>
        match get s a with
        | Some (VA l) =>
            do r <- range_of p s lo hi (List.length l) ;;
            Ok (put s x (VA (match lo with
                             | None => firstn (snd r) l                       (* a[..hi] *)
                             | Some _ => firstn (snd r - fst r) (skipn (fst r) l)
                             end)))
        | _ => Fault
        end
    | SCopyRange dst dlo dhi src slo shi =>
        match get s dst, get s src with
        | Some (VV a off vlen), Some (VA ls) =>
            (* the destination is a view of the array a: the bytes land in a *)
            match get s a with
            | Some (VA la) =>
                do rd <- range_of p s dlo dhi vlen ;;
                do rs <- range_of p s slo shi (List.length ls) ;;
                if Nat.eqb (snd rd - fst rd) (snd rs - fst rs)
                then Ok (put s a (VA (write_at la (off + fst rd) (firstn (snd rs - fst rs) (skipn (fst rs) ls)))))
                else Panic
            | _ => Fault
            end
        | Some (VA ld), Some (VA ls) =>
            do rd <- range_of p s dlo dhi (List.length ld) ;;
            do rs <- range_of p s slo shi (List.length ls) ;;
            if Nat.eqb (snd rd - fst rd) (snd rs - fst rs)
            then Ok (put s dst (VA (write_at ld (fst rd) (firstn (snd rs - fst rs) (skipn (fst rs) ls)))))
            else Panic                                               (* source slice length does not match destination *)
        | _, _ => Fault
        end
    | SZipCopy dst dlo src slo =>
        match get s dst, get s src with
        | Some (VV a off vlen), Some (VA ls) =>
            match get s a with
            | Some (VA la) =>
                do rd <- range_of p s dlo None vlen ;;
                do rs <- range_of p s slo None (List.length ls) ;;
                Ok (put s a (VA (write_at la (off + fst rd)
                                          (firstn (Nat.min (snd rd - fst rd) (snd rs - fst rs)) (skipn (fst rs) ls)))))
            | _ => Fault
            end
        | Some (VA ld), Some (VA ls) =>
            do rd <- range_of p s dlo None (List.length ld) ;;
            do rs <- range_of p s slo None (List.length ls) ;;
            Ok (put s dst (VA (write_at ld (fst rd) (firstn (Nat.min (snd rd - fst rd) (snd rs - fst rs)) (skipn (fst rs) ls)))))
        | _, _ => Fault
        end
    | SForChunks x k d n cnt body =>
        match get s d with
        | Some (VA l) =>
            (fix loop (ks : list nat) (s : state) : res state :=
               match ks with
               | [] => Ok s
               | j :: ks' =>
                   if (n * S j <=? List.length l)%nat then
                     do s' <- (fix block (b : list stmt) (s : state) : res state :=
                                 match b with [] => Ok s | st' :: b' => do s1 <- exec st' s ;; block b' s1 end)
                              body (put (put s k (VK j)) x (VA (firstn n (skipn (n * j) l)))) ;;
                     loop ks' s'
                   else Ok s
               end) (seq 0 cnt) s
        | _ => Fault
        end
    | SDebugAssert c => do bq <- eval_cond p s c ;; if dbg p && negb bq then Panic else Ok s
    | SLetViewFrom x a from =>
        do f <- eval p s from ;;
        match get s a with
        | Some (VA l) =>
            (* get_mut(from..) is None when from > len; unwrap_or_default() then gives the empty slice *)
            if (N.to_nat f <=? List.length l)%nat then Ok (put s x (VV a (N.to_nat f) (List.length l - N.to_nat f)))
            else Ok (put s x (VV a 0 0))
        | _ => Fault
        end
    | SLetSplit h t a mid =>
        do m <- eval p s mid ;;
        match get s a with
        | Some (VA l) =>
            if (N.to_nat m <=? List.length l)%nat
            then Ok (put (put s h (VA (firstn (N.to_nat m) l))) t (VA (skipn (N.to_nat m) l)))
            else Panic                                               (* mid > len *)
        | _ => Fault
        end
    | SSetOpt x src =>
        match src with
        | None => Ok (put s x (VO None))
        | Some y => match get s y with Some (VA l) => Ok (put s x (VO (Some l))) | _ => Fault end
        end
    | SLetViewRange x a lo hi =>
        match get s a with
        | Some (VA l) => do r <- range_of p s lo hi (List.length l) ;; Ok (put s x (VV a (fst r) (snd r - fst r)))
        | _ => Fault
        end
    | SLetSplitView h t v mid =>
        do m <- eval p s mid ;;
        match get s v with
        | Some (VV a off len) =>
            if (N.to_nat m <=? len)%nat
            then Ok (put (put s h (VV a off (N.to_nat m))) t (VV a (off + N.to_nat m) (len - N.to_nat m)))
            else Panic                                               (* mid > len *)
        | _ => Fault
        end
    | SLetToLe x e n => do v <- eval p s e ;; Ok (put s x (VA (to_le_bytes n v)))
    | SCallSub dst f args fmap =>
        do vs <- eval_args p s args ;;
        match sub_env (genv s) fmap with
        | Some g0 =>
            do r <- call f g0 vs ;;
            let '(g', finals, rv) := r in
            let s2 := copy_out {| genv := merge_back (genv s) g' fmap; lenv := lenv s |} args finals in
            match dst, rv with
            | None, _ => Ok s2
            | Some x, Some v => Ok (put s2 x v)
            | Some _, None => Fault
            end
        | None => Fault
        end
    | SForAllChunks x d n body =>
        match get s d with
        | Some (VA l) =>
            chunk_loop n (fun c s0 =>
                            (fix block (b : list stmt) (s : state) : res state :=
                               match b with [] => Ok s | st' :: b' => do s1 <- exec st' s ;; block b' s1 end)
                            body (put s0 x (VA c))) (List.length l) l s
        | _ => Fault
        end
    | SLetChunksRem x d n =>
        match get s d with
        | Some (VA l) => Ok (put s x (VA (chunk_rem n (List.length l) l)))
        | _ => Fault
        end
    | SIfSome o x body =>
        match get s o with
        | Some (VO None) => Ok s
        | Some (VO (Some l)) =>
            (fix block (b : list stmt) (s : state) : res state :=
               match b with [] => Ok s | st' :: b' => do s1 <- exec st' s ;; block b' s1 end) body (put s x (VA l))
        | _ => Fault
        end
    | SLetV x e => do v <- evalv s e ;; Ok (put s x (VX v))
    | SLetTupV x es => do vs <- evalv_list s es ;; Ok (put s x (VTV vs))
    | SUntupV xs src =>
        match get s src with
        | Some (VTV l) =>
            (fix bindall (xs : list string) (l : list V128) (s : state) : res state :=
               match xs, l with
               | [], [] => Ok s
               | x :: xs', v :: l' => bindall xs' l' (put s x (VX v))
               | _, _ => Fault
               end) xs l s
        | _ => Fault
        end
    | SIfPrefix x a n body =>
        match get s a with
        | Some (VA l) =>
            if (n <=? List.length l)%nat then
              (fix block (b : list stmt) (s : state) : res state :=
                 match b with [] => Ok s | st' :: b' => do s1 <- exec st' s ;; block b' s1 end) body (put s x (VA (firstn n l)))
            else Ok s
        | _ => Fault
        end
    | SStoreLanes a e => do v <- evalv s e ;; Ok (put s a (VA [t64 (fst v); t64 (snd v)]))
    | SLetTake x a n =>
        match get s a with
        | Some (VA l) =>
            if (List.length l <? n)%nat then (if dbg p then Panic else Fault)      (* debug_assert / undefined behaviour *)
            else Ok (put s x (VA (firstn n l)))
        | _ => Fault
        end
    | SCallWith dst f args fmap =>
        do vs <- eval_args p s args ;;
        match with_env s fmap with
        | Some g0 =>
            do r <- call f g0 vs ;;
            let '(_, finals, rv) := r in
            let s2 := copy_out s args finals in
            match dst, rv with
            | None, _ => Ok s2
            | Some x, Some v => Ok (put s2 x v)
            | Some _, None => Fault
            end
        | None => Fault
        end
    | SCallNew x f args shape =>
        do vs <- eval_args p s args ;;
        do r <- call f (zero_env shape) vs ;;
        let '(g', finals, _) := r in
        Ok (bind_obj (copy_out s args finals) x g')
    | SUnsupported _ => Fault
    end.

  Fixpoint exec_block (b : list stmt) (s : state) : res state :=
    match b with [] => Ok s | st :: b' => do s1 <- exec st s ;; exec_block b' s1 end.

  Definition eval_ret (s : state) (r : ret) : res (option val) :=
    match r with
    | RNone => Ok None
    | RVal e => do x <- eval p s e ;; Ok (Some (VN x))
    | RArr es => do xs <- eval_list p s es ;; Ok (Some (VA xs))
    | RTuple es => do xs <- eval_list p s es ;; Ok (Some (VT xs))
    | RVarArr x => match get s x with Some (VA l) => Ok (Some (VA l)) | _ => Fault end
    | RVar x => match get s x with Some v => Ok (Some v) | None => Fault end
    | RCond c => do bq <- eval_cond p s c ;; Ok (Some (VN (if bq then 1 else 0)))
    | RVec e => do v <- evalv s e ;; Ok (Some (VX v))
    | RPrefixOr a n =>
        do k <- eval p s n ;;
        match get s a with
        | Some (VA l) => Ok (Some (VA (if (N.to_nat k <=? List.length l)%nat then firstn (N.to_nat k) l else l)))
        | _ => Fault
        end
    end.

  Definition run_fn (d : fndef) (g : env) (vs : list val) : res (env * list (option val) * option val) :=
    do fr <- bind_params (f_params d) vs ;;
    do s <- exec_block (f_body d) {| genv := g; lenv := fr |} ;;
    do rv <- eval_ret s (f_ret d) ;;
    Ok (genv s, param_values (f_params d) (lenv s), rv).
End Exec.

(* functions outside the translated fragment (byte-level helpers) are given by [ext]; translated functions are looked
   up in [fns]; the call depth is bounded by fuel (exhaustion = Fault, excluded by the theorems) *)
Section Calls.
  Variable p : profile.
  Variable ext : string -> env -> list val -> option (res (env * list (option val) * option val)).
  Variable fns : list (string * fndef).
  Fixpoint call_fn (fuel : nat) (f : string) (g : env) (vs : list val) : res (env * list (option val) * option val) :=
    match fuel with
    | O => Fault
    | S n =>
        match ext f g vs with
        | Some r => r
        | None => match find_fn fns f with
                  | Some d => run_fn p (call_fn n) d g vs
                  | None => Fault
                  end
        end
    end.
End Calls.

