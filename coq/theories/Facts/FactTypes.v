(* FactTypes.v — the data model of the regenerated source facts (gen/SrcFacts.v, gen/Ladder.v) and the
   interpreter of the extracted selection ladders. *)
From Coq Require Import String List NArith Bool.
From HW Require Import Dispatch.
Import ListNotations.
Local Open Scope string_scope.

Record file_facts := {
  ff_path : string;
  ff_inner_attrs : list string;
  ff_unsafe : list (string * N);          (* kind, line *)
  ff_lints : list string;
  ff_uses : list string;                  (* `use` paths and `crate::..` paths *)
  ff_macros : list string;                (* macro names invoked outside #[cfg(test)] *)
  ff_idents : list string;                (* every path segment / method name / identifier in macro arguments *)
  ff_casts : list (string * string);      (* `expr as ty` *)
  ff_statics : list string;
  ff_cfg_keys : list string;
  ff_cfg_values : list (string * string);   (* key = "value" in cfg / cfg! / cfg_attr / target_feature(enable = ..); ("detected", f) for is_*_feature_detected!(f) *)
  ff_stdpaths : list string;
  ff_trait_impls : list (string * string);   (* (last segment of the trait path, self type) of every trait impl written out in the file *)              (* every path rooted in std / core / alloc, incl. inside macro bodies and arguments *)
  ff_macro_defs : list (string * list string)
}.

(* cfg predicates *)
Inductive cpred :=
| PArch (a : string) | PTf (f : string) | PFamily (f : string) | PFeat (f : string)
| PNot (p : cpred) | PAll (l : list cpred) | PAny (l : list cpred) | PUnsupported (s : string).

Inductive cond := CCfg (p : cpred) | CDetect (f : string) | CUnsupported (s : string).

Inductive stmt :=
| SCfg (p : cpred) (body : list stmt)
| SBlock (body : list stmt)
| SIf (c : cond) (t e : list stmt)
| SReturn (tag : N) (field ctor : string)
| SSome (ctor : string)
| SNone
| SUnsupported (s : string).

Definition arch_name (a : arch) : string :=
  match a with X86_64 => "x86_64" | AArch64 => "aarch64" | Wasm32 => "wasm32" | OtherArch => "other" end.

(* evaluation of a cfg predicate under a configuration; None = something the tool did not understand *)
Fixpoint eval_pred (c : config) (p : cpred) : option bool :=
  match p with
  | PArch a => Some (String.eqb a (arch_name (c_arch c)))
  | PTf f => if String.eqb f "avx2" then Some (tf_avx2 c)
             else if String.eqb f "sse4.1" then Some (tf_sse41 c)
             else if String.eqb f "simd128" then Some (c_simd128 c) else None
  | PFamily f => if String.eqb f "wasm" then Some (arch_eqb (c_arch c) Wasm32) else None
  | PFeat f => if String.eqb f "std" then Some (c_std c) else None
  | PNot q => option_map negb (eval_pred c q)
  | PAll l => fold_right (fun q acc => match eval_pred c q, acc with Some a, Some b => Some (a && b) | _, _ => None end) (Some true) l
  | PAny l => fold_right (fun q acc => match eval_pred c q, acc with Some a, Some b => Some (a || b) | _, _ => None end) (Some false) l
  | PUnsupported _ => None
  end.

Definition eval_cond (c : config) (k : cond) : option bool :=
  match k with
  | CCfg p => eval_pred c p
  | CDetect f => if String.eqb f "avx2" then Some (det_avx2 c) else if String.eqb f "sse4.1" then Some (det_sse41 c) else None
  | CUnsupported _ => None
  end.

(* outcome of running a ladder *)
Inductive outcome := ORet (tag : N) (field ctor : string) | OSome (ctor : string) | ONone | OFall | OBad.

Fixpoint run_stmt (c : config) (s : stmt) {struct s} : outcome :=
  let fix run_list (l : list stmt) : outcome :=
    match l with
    | [] => OFall
    | x :: l' => match run_stmt c x with OFall => run_list l' | o => o end
    end in
  match s with
  | SCfg p body => match eval_pred c p with Some true => run_list body | Some false => OFall | None => OBad end
  | SBlock body => run_list body
  | SIf k t e => match eval_cond c k with Some true => run_list t | Some false => run_list e | None => OBad end
  | SReturn tag f ct => ORet tag f ct
  | SSome ct => OSome ct
  | SNone => ONone
  | SUnsupported _ => OBad
  end.
Fixpoint run_ladder (c : config) (l : list stmt) : outcome :=
  match l with
  | [] => OFall
  | x :: l' => match run_stmt c x with OFall => run_ladder c l' | o => o end
  end.

(* "for every configuration" is proved by case analysis on the seven fields (4 x 2^6 = 256 cases) *)
Ltac all_configs c :=
  let a := fresh "a" in let b1 := fresh in let b2 := fresh in let b3 := fresh in let b4 := fresh in let b5 := fresh in let b6 := fresh in
  destruct c as [a b1 b2 b3 b4 b5 b6]; destruct a, b1, b2, b3, b4, b5, b6.

Definition mem_str (s : string) (l : list string) : bool := existsb (String.eqb s) l.
