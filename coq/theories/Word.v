(* Word.v — fixed-width machine words over N, with every wrap-around written out.
   u8/u32/u64/usize values are N; each operation re-normalises with [N.land _ mask]. *)
From Coq Require Import NArith List Lia Bool.
Import ListNotations.
Local Open Scope N_scope.

Definition M8  : N := 0xff.
Definition M32 : N := 0xffffffff.
Definition M64 : N := 0xffffffffffffffff.

Definition t8  (x : N) : N := N.land x M8.
Definition t32 (x : N) : N := N.land x M32.
Definition t64 (x : N) : N := N.land x M64.

(* u64 wrapping arithmetic *)
Definition add64 (a b : N) : N := N.land (a + b) M64.
Definition mul64 (a b : N) : N := N.land (a * b) M64.
Definition shl64 (a k : N) : N := N.land (N.shiftl a k) M64.      (* k < 64 *)
Definition shr64 (a k : N) : N := N.shiftr a k.
Definition lo32 (a : N) : N := N.land a M32.
Definition hi32 (a : N) : N := N.shiftr a 32.                     (* of a value < 2^64 *)
Definition mk64 (lo hi : N) : N := N.lor lo (N.shiftl hi 32).     (* lo, hi < 2^32 *)
(* u64::rotate_left(32) *)
Definition rotl64_32 (a : N) : N := N.lor (shl64 a 32) (N.shiftr a 32).
(* u32 shifts (release semantics take the amount mod 32 at the call site) *)
Definition shl32 (a k : N) : N := N.land (N.shiftl a k) M32.

(* u64::from_le_bytes / u32::from_le_bytes on a byte list (bytes < 256) *)
Definition le_bytes (l : list N) : N := fold_right (fun b acc => N.lor b (N.shiftl acc 8)) 0 l.
(* x.to_le_bytes() for an n-byte integer *)
Fixpoint to_le_bytes (n : nat) (x : N) : list N :=
  match n with O => [] | S n => N.land x M8 :: to_le_bytes n (N.shiftr x 8) end.

Definition byte_of (x : N) (i : N) : N := N.land (N.shiftr x (8 * i)) M8.

(* four 64-bit lanes *)
Definition lanes : Type := (N * N * N * N)%type.
Definition map4 (f : N -> N) (a : lanes) : lanes := let '(a0,a1,a2,a3) := a in (f a0, f a1, f a2, f a3).
Definition zip4 (f : N -> N -> N) (a b : lanes) : lanes :=
  let '(a0,a1,a2,a3) := a in let '(b0,b1,b2,b3) := b in (f a0 b0, f a1 b1, f a2 b2, f a3 b3).
Definition lane0 (a : lanes) : N := let '(a0,_,_,_) := a in a0.
Definition lane1 (a : lanes) : N := let '(_,a1,_,_) := a in a1.
Definition lane2 (a : lanes) : N := let '(_,_,a2,_) := a in a2.
Definition lane3 (a : lanes) : N := let '(_,_,_,a3) := a in a3.
Definition lanes_list (a : lanes) : list N := let '(a0,a1,a2,a3) := a in [a0;a1;a2;a3].

(* slicing helpers: bytes[off .. off+len] *)
Definition sub (l : list N) (off len : nat) : list N := firstn len (skipn off l).
Definition nth0 (l : list N) (i : nat) : N := nth i l 0.

(* well-formedness predicates (boolean, so generated inputs provably satisfy them) *)
Definition w64b (x : N) : bool := x <? 18446744073709551616.
Definition w8b (x : N) : bool := x <? 256.
Definition wlanesb (a : lanes) : bool := let '(a0,a1,a2,a3) := a in w64b a0 && w64b a1 && w64b a2 && w64b a3.
Definition wbytesb (l : list N) : bool := forallb w8b l.

(* build profile: overflow checks / debug assertions *)
Record profile := { ovf : bool; dbg : bool }.
Definition prof_dev := {| ovf := true; dbg := true |}.
Definition prof_release := {| ovf := false; dbg := false |}.

(* result of a Rust computation that may panic *)
(* [Panic]: a Rust panic.  [Fault]: undefined behaviour the model can see — a load outside its
   slice or misaligned, a wrong union field, unreachable_unchecked reached. *)
Inductive res (A : Type) := Ok (a : A) | Panic | Fault.
Arguments Ok {A} a.
Arguments Panic {A}.
Arguments Fault {A}.
Definition bind {A B} (r : res A) (f : A -> res B) : res B :=
  match r with Ok a => f a | Panic => Panic | Fault => Fault end.
Notation "'do' x <- r ;; k" := (bind r (fun x => k)) (at level 200, x pattern, r at level 100, k at level 200).
Definition guard (panic_if : bool) : res unit := if panic_if then Panic else Ok tt.

Inductive width := W64 | W128 | W256.
