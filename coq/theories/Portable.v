(* Portable.v — executable model of src/portable.rs (PortableHash), function by function.
   Functions that contain a Rust panic site return [res]; the rest are total in Rust too. *)
From Coq Require Import NArith List Lia Bool Arith.
From HW Require Import Word Chunks Packet.
Import ListNotations.
Local Open Scope N_scope.

(* The sixteen 64-bit lanes: v0, v1, mul0, mul1 : [u64; 4]  (portable.rs:15-18) *)
Record st16 := { v0 : lanes; v1 : lanes; mul0 : lanes; mul1 : lanes }.

(* portable.rs:14-20  struct PortableHash { v0, v1, mul0, mul1, buffer: HashPacket } *)
Record pstate := { core : st16; buffer : packet }.

Definition INIT0 : lanes := (0xdbe6d5d5fe4cce2f, 0xa4093822299f31d0, 0x13198a2e03707344, 0x243f6a8885a308d3).
Definition INIT1 : lanes := (0x3bd39e10cb0ef593, 0xc0acf169b5f18a8c, 0xbe5466cf34e90c6c, 0x452821e638d01377).

(* portable.rs: PortableHash::new *)
Definition p_new (key : lanes) : pstate :=
  {| core := {| v0 := zip4 N.lxor INIT0 key;
                v1 := zip4 N.lxor INIT1 (map4 rotl64_32 key);
                mul0 := INIT0; mul1 := INIT1 |};
     buffer := packet_default |}.

(* portable.rs: zipper_merge_and_add — the two 64-bit expressions added to lane[add0] / lane[add1] *)
Definition zip_lo (v1 v0 : N) : N :=
  N.lor (N.lor (N.lor (N.lor (N.lor
    (N.shiftr (N.lor (N.land v0 0xff000000) (N.land v1 0xff00000000)) 24)
    (N.shiftr (N.lor (N.land v0 0xff0000000000) (N.land v1 0xff000000000000)) 16))
    (N.land v0 0xff0000))
    (shl64 (N.land v0 0xff00) 32))
    (N.shiftr (N.land v1 0xff00000000000000) 8))
    (shl64 v0 56).
Definition zip_hi (v1 v0 : N) : N :=
  N.lor (N.lor (N.lor (N.lor (N.lor (N.lor
    (N.shiftr (N.lor (N.land v1 0xff000000) (N.land v0 0xff00000000)) 24)
    (N.land v1 0xff0000))
    (N.shiftr (N.land v1 0xff0000000000) 16))
    (shl64 (N.land v1 0xff00) 24))
    (N.shiftr (N.land v0 0xff000000000000) 8))
    (shl64 (N.land v1 0xff) 48))
    (N.land v0 0xff00000000000000).

(* the four calls at the end of update: (src[1],src[0]) -> dst[1],dst[0]; (src[3],src[2]) -> dst[3],dst[2] *)
Definition zipper_add (src dst : lanes) : lanes :=
  let '(s0,s1,s2,s3) := src in let '(d0,d1,d2,d3) := dst in
  (add64 d0 (zip_lo s1 s0), add64 d1 (zip_hi s1 s0), add64 d2 (zip_lo s3 s2), add64 d3 (zip_hi s3 s2)).

(* portable.rs: update(&mut self, lanes) — the five lane loops, then the four zipper merges *)
Definition p_update (s : st16) (p : lanes) : st16 :=
  let v1a := zip4 add64 (zip4 add64 (v1 s) p) (mul0 s) in
  let mul0a := zip4 N.lxor (mul0 s) (zip4 (fun a b => mul64 (lo32 a) (hi32 b)) v1a (v0 s)) in
  let v0a := zip4 add64 (v0 s) (mul1 s) in
  let mul1a := zip4 N.lxor (mul1 s) (zip4 (fun a b => mul64 (lo32 a) (hi32 b)) v0a v1a) in
  let v0b := zipper_add v1a v0a in
  let v1b := zipper_add v0b v1a in
  {| v0 := v0b; v1 := v1b; mul0 := mul0a; mul1 := mul1a |}.

(* portable.rs: permute *)
Definition p_permute (v : lanes) : lanes :=
  let '(a,b,c,d) := v in (rotl64_32 c, rotl64_32 d, rotl64_32 a, rotl64_32 b).
Definition p_permute_and_update (s : st16) : st16 := p_update s (p_permute (v0 s)).

(* portable.rs: data_to_lanes — d.chunks_exact(8).zip(result.iter_mut()) *)
Definition p_data_to_lanes (d : list N) : lanes :=
  let lane i := if (8 * (i + 1) <=? length d)%nat then le_bytes (sub d (8 * i) 8) else 0 in
  (lane 0%nat, lane 1%nat, lane 2%nat, lane 3%nat).

(* Rust shift / subtraction semantics: with overflow checks a shift amount >= the bit width and an
   underflowing subtraction panic; without, the amount is masked and the subtraction wraps. *)
Definition shl_u32 (prof : profile) (x amt : N) : res N :=
  if ovf prof && (32 <=? amt) then Panic else Ok (shl32 x (N.land amt 31)).
Definition shr_u32 (prof : profile) (x amt : N) : res N :=
  if ovf prof && (32 <=? amt) then Panic else Ok (N.shiftr x (N.land amt 31)).
Definition sub_u64 (prof : profile) (a b : N) : res N :=
  if b <=? a then Ok (a - b) else if ovf prof then Panic else Ok (t64 (a + 18446744073709551616 - b)).

(* portable.rs: rotate_32_by(count: u64, lanes) — one lane *)
Definition p_rotate_lane (prof : profile) (count lane : N) : res N :=
  let half0 := t32 lane in
  let half1 := t32 (N.shiftr lane 32) in
  do a0 <- shl_u32 prof half0 count ;;
  do c  <- sub_u64 prof 32 count ;;
  do b0 <- shr_u32 prof half0 c ;;
  do a1 <- shl_u32 prof half1 count ;;
  do b1 <- shr_u32 prof half1 c ;;
  Ok (N.lor (N.lor a0 b0) (shl64 (N.lor a1 b1) 32)).
Definition p_rotate_32_by (prof : profile) (count : N) (l : lanes) : res lanes :=
  let '(a,b,c,d) := l in
  do a' <- p_rotate_lane prof count a ;; do b' <- p_rotate_lane prof count b ;;
  do c' <- p_rotate_lane prof count c ;; do d' <- p_rotate_lane prof count d ;;
  Ok (a', b', c', d').

(* portable.rs: update_lanes(size: u64):  v0[i] += (size << 32) + size;  rotate_32_by(size, v1) *)
Definition p_update_lanes (prof : profile) (size : N) (s : st16) : res st16 :=
  let inc := shl64 size 32 + size in
  do _ <- guard (ovf prof && (18446744073709551616 <=? inc)) ;;
  do v1' <- p_rotate_32_by prof size (v1 s) ;;
  Ok {| v0 := map4 (fun x => add64 x (t64 inc)) (v0 s); v1 := v1'; mul0 := mul0 s; mul1 := mul1 s |}.

Definition upd_nth (l : list N) (i : nat) (x : N) : list N := firstn i l ++ x :: skipn (S i) l.

(* portable.rs: remainder(bytes) -> [u8; 32] *)
Definition p_remainder (prof : profile) (bytes : list N) : res (list N) :=
  let n := length bytes in
  if (32 <? n)%nat then (if dbg prof then Panic else Ok (repeat 0 32))
  else
    let size_mod4 := Nat.modulo n 4 in                 (* len & 3 *)
    let jump := (n - size_mod4)%nat in                 (* len & !3 *)
    let rem := skipn jump bytes in
    let packet := firstn jump bytes ++ repeat 0 (32 - jump) in
    if Nat.odd (n / 16) then                           (* size & 16 != 0; then n >= 16, no underflow *)
      Ok (firstn 28 packet ++ sub bytes (jump + size_mod4 - 4) 4)
    else if negb (Nat.eqb size_mod4 0) then
      Ok (upd_nth (upd_nth (upd_nth packet 16 (nth0 rem 0)) 17 (nth0 rem (Nat.div2 size_mod4)))
                  18 (nth0 rem (size_mod4 - 1)))
    else Ok packet.

(* portable.rs: update_remainder *)
Definition p_update_remainder (prof : profile) (s : pstate) : res st16 :=
  let size := N.of_nat (plen (buffer s)) in
  do c <- p_update_lanes prof size (core s) ;;
  do sl <- as_slice prof (buffer s) ;;
  do packet <- p_remainder prof sl ;;
  Ok (p_update c (p_data_to_lanes packet)).

(* the loop  for chunk in chunks.by_ref() { self.update(Self::data_to_lanes(chunk)) } *)
Definition p_absorb_chunks (c : st16) (ps : list (list N)) : st16 :=
  fold_left (fun c chunk => p_update c (p_data_to_lanes chunk)) ps c.

(* portable.rs: append *)
Definition p_append (prof : profile) (s : pstate) (data : list N) : res pstate :=
  if is_empty (buffer s) then
    let '(ps, r) := chunks32 data in
    let c := p_absorb_chunks (core s) ps in
    do b <- set_to prof (buffer s) r ;;
    Ok {| core := c; buffer := b |}
  else
    match fill (buffer s) data with
    | (b, None) => Ok {| core := core s; buffer := b |}
    | (b, Some tail) =>
        let c := p_update (core s) (p_data_to_lanes (inner b)) in
        let '(ps, r) := chunks32 tail in
        let c := p_absorb_chunks c ps in
        do b' <- set_to prof b r ;;
        Ok {| core := c; buffer := b' |}
    end.

Fixpoint iter {A} (n : nat) (f : A -> A) (x : A) : A := match n with O => x | S n => iter n f (f x) end.

Definition p_pre_finalize (prof : profile) (s : pstate) : res st16 :=
  if negb (is_empty (buffer s)) then p_update_remainder prof s else Ok (core s).

(* portable.rs: finalize64 / finalize128 / finalize256 *)
Definition p_finalize64 (prof : profile) (s : pstate) : res N :=
  do c <- p_pre_finalize prof s ;;
  let c := iter 4 p_permute_and_update c in
  Ok (add64 (add64 (add64 (lane0 (v0 c)) (lane0 (v1 c))) (lane0 (mul0 c))) (lane0 (mul1 c))).

Definition p_finalize128 (prof : profile) (s : pstate) : res (N * N) :=
  do c <- p_pre_finalize prof s ;;
  let c := iter 6 p_permute_and_update c in
  Ok (add64 (add64 (add64 (lane0 (v0 c)) (lane0 (mul0 c))) (lane2 (v1 c))) (lane2 (mul1 c)),
      add64 (add64 (add64 (lane1 (v0 c)) (lane1 (mul0 c))) (lane3 (v1 c))) (lane3 (mul1 c))).

(* portable.rs: module_reduction(a3_unmasked, a2, a1, a0) -> (low, high) *)
Definition p_module_reduction (a3_unmasked a2 a1 a0 : N) : N * N :=
  let a3 := N.land a3_unmasked 0x3FFFFFFFFFFFFFFF in
  let high := N.lxor (N.lxor a1 (N.lor (shl64 a3 1) (N.shiftr a2 63))) (N.lor (shl64 a3 2) (N.shiftr a2 62)) in
  let low := N.lxor (N.lxor a0 (shl64 a2 1)) (shl64 a2 2) in
  (low, high).

Definition p_finalize256 (prof : profile) (s : pstate) : res lanes :=
  do c <- p_pre_finalize prof s ;;
  let c := iter 10 p_permute_and_update c in
  let '(lowest, low) := p_module_reduction
      (add64 (lane1 (v1 c)) (lane1 (mul1 c))) (add64 (lane0 (v1 c)) (lane0 (mul1 c)))
      (add64 (lane1 (v0 c)) (lane1 (mul0 c))) (add64 (lane0 (v0 c)) (lane0 (mul0 c))) in
  let '(high, highest) := p_module_reduction
      (add64 (lane3 (v1 c)) (lane3 (mul1 c))) (add64 (lane2 (v1 c)) (lane2 (mul1 c)))
      (add64 (lane3 (v0 c)) (lane3 (mul0 c))) (add64 (lane2 (v0 c)) (lane2 (mul0 c))) in
  Ok (lowest, low, high, highest).

(* portable.rs: checkpoint (after the fix: only buffer.as_slice() is copied, rest of the field zero) *)
Definition st16_bytes (c : st16) : list N :=
  flat_map (to_le_bytes 8) (lanes_list (v0 c) ++ lanes_list (v1 c) ++ lanes_list (mul0 c) ++ lanes_list (mul1 c)).
Definition p_checkpoint (prof : profile) (s : pstate) : res (list N) :=
  do sl <- as_slice prof (buffer s) ;;
  let pending := firstn 32 sl in           (* buffered.iter_mut().zip(as_slice) stops at 32 *)
  Ok (st16_bytes (core s) ++ (pending ++ repeat 0 (32 - length pending))
        ++ to_le_bytes 4 (t32 (N.of_nat (plen (buffer s))))).

(* portable.rs: from_checkpoint(data: [u8; 164])  (after the fix: pending bytes go through append) *)
Definition lanes_at (d : list N) (off : nat) : lanes :=
  (le_bytes (sub d off 8), le_bytes (sub d (off + 8) 8), le_bytes (sub d (off + 16) 8), le_bytes (sub d (off + 24) 8)).
Definition p_from_checkpoint (prof : profile) (data : list N) : res pstate :=
  let c := {| v0 := lanes_at data 0; v1 := lanes_at data 32; mul0 := lanes_at data 64; mul1 := lanes_at data 96 |} in
  let buffered := sub data 128 32 in
  let len := le_bytes (sub data 160 4) in
  let n := N.to_nat (N.min len 32) in       (* (len as usize).min(buffered.len()) *)
  p_append prof {| core := c; buffer := packet_default |} (firstn n buffered).

(* Default (after the fix): PortableHash::new(Key::default()) *)
Definition key0 : lanes := (0, 0, 0, 0).
Definition p_default : pstate := p_new key0.
