(* Bitblast.v — a verified reflective decision procedure for equalities between bit-vector
   expressions over N built from variables, constants, and / or / xor, shifts by constants and
   truncation.  [bb_eq_sound]: if every bit below w of the two expressions is the same boolean
   function of the variables' bits (checked by truth table) and both expressions are syntactically
   bounded by 2^w, then they are equal for every valuation. *)
From Coq Require Import List NArith Arith Lia Bool.
Import ListNotations.
Local Open Scope N_scope.

Inductive bv :=
| BVar (i : nat) | BConst (c : N)
| BAnd (a b : bv) | BOr (a b : bv) | BXor (a b : bv)
| BShl (a : bv) (k : N) | BShr (a : bv) (k : N) | BTrunc (a : bv) (k : N).

Fixpoint eval (env : nat -> N) (e : bv) : N :=
  match e with
  | BVar i => env i | BConst c => c
  | BAnd a b => N.land (eval env a) (eval env b)
  | BOr a b => N.lor (eval env a) (eval env b)
  | BXor a b => N.lxor (eval env a) (eval env b)
  | BShl a k => N.shiftl (eval env a) k
  | BShr a k => N.shiftr (eval env a) k
  | BTrunc a k => N.land (eval env a) (N.ones k)
  end.

(* bit formulas *)
Inductive bf := FC (b : bool) | FA (i : nat) (n : N) | FAnd (a b : bf) | FOr (a b : bf) | FXor (a b : bf).

Definition mkand a b := match a, b with FC false, _ => FC false | _, FC false => FC false | FC true, x => x | x, FC true => x | _, _ => FAnd a b end.
Definition mkor a b := match a, b with FC true, _ => FC true | _, FC true => FC true | FC false, x => x | x, FC false => x | _, _ => FOr a b end.
Definition mkxor a b := match a, b with FC false, x => x | x, FC false => x | _, _ => FXor a b end.

Fixpoint bit (e : bv) (n : N) : bf :=
  match e with
  | BVar i => FA i n
  | BConst c => FC (N.testbit c n)
  | BAnd a b => mkand (bit a n) (bit b n)
  | BOr a b => mkor (bit a n) (bit b n)
  | BXor a b => mkxor (bit a n) (bit b n)
  | BShl a k => if n <? k then FC false else bit a (n - k)
  | BShr a k => bit a (n + k)
  | BTrunc a k => if n <? k then bit a n else FC false
  end.

Fixpoint fev (rho : nat -> N -> bool) (f : bf) : bool :=
  match f with
  | FC b => b | FA i n => rho i n
  | FAnd a b => fev rho a && fev rho b | FOr a b => fev rho a || fev rho b | FXor a b => xorb (fev rho a) (fev rho b)
  end.

Lemma mkand_ok rho a b : fev rho (mkand a b) = fev rho a && fev rho b.
Proof. destruct a as [[]| | | |], b as [[]| | | |]; cbn [mkand fev]; rewrite ?andb_true_r, ?andb_false_r, ?andb_true_l, ?andb_false_l; reflexivity. Qed.
Lemma mkor_ok rho a b : fev rho (mkor a b) = fev rho a || fev rho b.
Proof. destruct a as [[]| | | |], b as [[]| | | |]; cbn [mkor fev]; rewrite ?orb_true_r, ?orb_false_r, ?orb_false_l, ?orb_true_l; reflexivity. Qed.
Lemma mkxor_ok rho a b : fev rho (mkxor a b) = xorb (fev rho a) (fev rho b).
Proof. destruct a as [[]| | | |], b as [[]| | | |]; cbn [mkxor fev]; rewrite ?xorb_false_r, ?xorb_false_l; reflexivity. Qed.

Lemma bit_sound env e : forall n, fev (fun i n => N.testbit (env i) n) (bit e n) = N.testbit (eval env e) n.
Proof.
  induction e as [i|c|a IHa b IHb|a IHa b IHb|a IHa b IHb|a IHa k|a IHa k|a IHa k]; intros n; cbn [bit eval fev].
  - reflexivity.
  - reflexivity.
  - rewrite mkand_ok, IHa, IHb, N.land_spec; reflexivity.
  - rewrite mkor_ok, IHa, IHb, N.lor_spec; reflexivity.
  - rewrite mkxor_ok, IHa, IHb, N.lxor_spec; reflexivity.
  - destruct (N.ltb_spec n k) as [Hlt|Hge].
    + cbn. rewrite N.shiftl_spec_low by assumption. reflexivity.
    + rewrite IHa, N.shiftl_spec_high' by assumption. reflexivity.
  - rewrite IHa, N.shiftr_spec'. reflexivity.
  - rewrite N.land_spec. destruct (N.ltb_spec n k) as [Hlt|Hge].
    + rewrite N.ones_spec_low by assumption. rewrite IHa, andb_true_r. reflexivity.
    + rewrite N.ones_spec_high by assumption. rewrite andb_false_r. reflexivity.
Qed.

(* equivalence of bit formulas by truth table over the atoms that occur *)
Definition atom := (nat * N)%type.
Definition atom_eqb (a b : atom) := Nat.eqb (fst a) (fst b) && N.eqb (snd a) (snd b).
Fixpoint atoms (f : bf) : list atom :=
  match f with FC _ => [] | FA i n => [(i,n)] | FAnd a b | FOr a b | FXor a b => atoms a ++ atoms b end.
Definition upd (rho : nat -> N -> bool) (a : atom) (v : bool) : nat -> N -> bool :=
  fun i n => if atom_eqb (i,n) a then v else rho i n.
Fixpoint tt (L : list atom) (rho : nat -> N -> bool) (f g : bf) : bool :=
  match L with
  | [] => Bool.eqb (fev rho f) (fev rho g)
  | a :: L' => tt L' (upd rho a true) f g && tt L' (upd rho a false) f g
  end.
Fixpoint bf_eqb (f g : bf) : bool :=
  match f, g with
  | FC a, FC b => Bool.eqb a b
  | FA i n, FA j m => Nat.eqb i j && N.eqb n m
  | FAnd a b, FAnd c d | FOr a b, FOr c d | FXor a b, FXor c d => bf_eqb a c && bf_eqb b d
  | _, _ => false
  end.
Fixpoint dedup (l : list atom) : list atom :=
  match l with
  | [] => []
  | a :: l' => if existsb (atom_eqb a) l' then dedup l' else a :: dedup l'
  end.
Definition fequiv (f g : bf) : bool := bf_eqb f g || tt (dedup (atoms f ++ atoms g)) (fun _ _ => false) f g.

Lemma atom_eqb_eq a b : atom_eqb a b = true <-> a = b.
Proof.
  destruct a as [i n], b as [j m]; unfold atom_eqb; cbn [fst snd].
  rewrite andb_true_iff, Nat.eqb_eq, N.eqb_eq. split; [intros [H1 H2]|intros [= H1 H2]]; subst; auto.
Qed.
Lemma atom_dec (a b : atom) : {a = b} + {a <> b}.
Proof. decide equality; [apply N.eq_dec|apply Nat.eq_dec]. Qed.

Lemma fev_ext rho1 rho2 f : (forall a, In a (atoms f) -> rho1 (fst a) (snd a) = rho2 (fst a) (snd a)) -> fev rho1 f = fev rho2 f.
Proof.
  induction f as [b|i n|a IHa b IHb|a IHa b IHb|a IHa b IHb]; cbn [fev atoms]; intros H; try reflexivity.
  - apply (H (i,n)). left; reflexivity.
  - rewrite IHa, IHb; auto; intros; apply H, in_or_app; auto.
  - rewrite IHa, IHb; auto; intros; apply H, in_or_app; auto.
  - rewrite IHa, IHb; auto; intros; apply H, in_or_app; auto.
Qed.

Lemma upd_same rho a v : upd rho a v (fst a) (snd a) = v.
Proof. unfold upd. destruct a as [i n]; cbn [fst snd]. replace (atom_eqb (i,n) (i,n)) with true; auto. symmetry; apply atom_eqb_eq; reflexivity. Qed.
Lemma upd_other rho a v b : b <> a -> upd rho a v (fst b) (snd b) = rho (fst b) (snd b).
Proof. unfold upd. destruct b as [i n]; cbn [fst snd]. intros H. destruct (atom_eqb (i,n) a) eqn:E; auto. apply atom_eqb_eq in E; contradiction. Qed.

Lemma tt_sound L : forall rho f g sigma, tt L rho f g = true ->
  exists rho', (forall a, In a L -> rho' (fst a) (snd a) = sigma (fst a) (snd a)) /\
               (forall a, ~ In a L -> rho' (fst a) (snd a) = rho (fst a) (snd a)) /\ fev rho' f = fev rho' g.
Proof.
  induction L as [|a L IH]; cbn [tt]; intros rho f g sigma H.
  - exists rho. split; [intros ? []|]. split; auto. apply eqb_prop; assumption.
  - apply andb_true_iff in H as [Ht Hf].
    assert (Hb : exists v, sigma (fst a) (snd a) = v /\ tt L (upd rho a v) f g = true).
    { destruct (sigma (fst a) (snd a)); eauto. }
    destruct Hb as (v & Hv & Htt).
    destruct (IH _ _ _ sigma Htt) as (r & H1 & H2 & H3). exists r. split; [|split]; auto.
    + intros b [<-|Hb]; auto. destruct (in_dec atom_dec a L) as [i|ni]; auto.
      rewrite H2 by assumption. rewrite upd_same. auto.
    + intros b Hb. assert (~ In b L) by (intros ?; apply Hb; right; assumption).
      rewrite H2 by assumption. apply upd_other. intros ->. apply Hb; left; reflexivity.
Qed.

Lemma bf_eqb_eq f : forall g, bf_eqb f g = true -> f = g.
Proof.
  induction f as [b|i n|a IHa b IHb|a IHa b IHb|a IHa b IHb]; destruct g; cbn; try discriminate; intros H.
  - apply eqb_prop in H; congruence.
  - apply andb_true_iff in H as [H1 H2]. apply Nat.eqb_eq in H1. apply N.eqb_eq in H2. congruence.
  - apply andb_true_iff in H as [H1 H2]. f_equal; auto.
  - apply andb_true_iff in H as [H1 H2]. f_equal; auto.
  - apply andb_true_iff in H as [H1 H2]. f_equal; auto.
Qed.

Lemma dedup_in a l : In a l -> In a (dedup l).
Proof.
  induction l as [|b l IH]; cbn [dedup]; intros H; [contradiction|].
  destruct (existsb (atom_eqb b) l) eqn:E.
  - destruct H as [<-|H]; auto. apply existsb_exists in E as (c & Hc & Hbc). apply atom_eqb_eq in Hbc. subst c. auto.
  - destruct H as [<-|H]; [left; reflexivity|right; auto].
Qed.

Lemma fequiv_sound f g sigma : fequiv f g = true -> fev sigma f = fev sigma g.
Proof.
  unfold fequiv. intros H. apply orb_true_iff in H as [H|H].
  - apply bf_eqb_eq in H. subst. reflexivity.
  - destruct (tt_sound _ _ _ _ sigma H) as (r & H1 & _ & H3).
    rewrite (fev_ext sigma r f), (fev_ext sigma r g); auto; intros a Ha; symmetry; apply H1, dedup_in, in_or_app; auto.
Qed.

Fixpoint upto (n : nat) : list N := match n with O => [] | S n => N.of_nat n :: upto n end.
Lemma upto_in n : forall k, (k < N.of_nat n) -> In k (upto n).
Proof. induction n as [|n IH]; intros k Hk; [lia|]. cbn [upto]. destruct (N.eq_dec k (N.of_nat n)); [left; auto|right; apply IH; lia]. Qed.

Definition check (w : nat) (e1 e2 : bv) : bool := forallb (fun n => fequiv (bit e1 n) (bit e2 n)) (upto w).

Theorem check_sound w e1 e2 env : check w e1 e2 = true ->
  N.land (eval env e1) (N.ones (N.of_nat w)) = N.land (eval env e2) (N.ones (N.of_nat w)).
Proof.
  intros H. apply N.bits_inj; intros n. rewrite !N.land_spec.
  destruct (N.ltb_spec n (N.of_nat w)) as [Hlt|Hge].
  - rewrite N.ones_spec_low, !andb_true_r by assumption.
    unfold check in H. rewrite forallb_forall in H. specialize (H n (upto_in _ _ Hlt)).
    rewrite <- !bit_sound. apply fequiv_sound; assumption.
  - rewrite N.ones_spec_high, !andb_false_r by assumption. reflexivity.
Qed.

(* syntactic width analysis: [bnd e = Some k] means every bit of e at position >= k is 0 *)
Definition omin (a b : option N) : option N :=
  match a, b with Some x, Some y => Some (N.min x y) | Some x, None => Some x | None, y => y end.
Definition omax (a b : option N) : option N :=
  match a, b with Some x, Some y => Some (N.max x y) | _, _ => None end.
Fixpoint bnd (e : bv) : option N :=
  match e with
  | BVar _ => None
  | BConst c => Some (N.size c)
  | BAnd a b => omin (bnd a) (bnd b)
  | BOr a b | BXor a b => omax (bnd a) (bnd b)
  | BShl a k => match bnd a with Some x => Some (x + k) | None => None end
  | BShr a k => match bnd a with Some x => Some (x - k) | None => None end
  | BTrunc a k => omin (bnd a) (Some k)
  end.

Lemma size_bits c n : N.size c <= n -> N.testbit c n = false.
Proof.
  intros H. destruct (N.eq_dec c 0) as [->|Hc]; [apply N.bits_0|].
  apply N.bits_above_log2. rewrite N.size_log2 in H by assumption. lia.
Qed.

Lemma bnd_sound env e : forall k n, bnd e = Some k -> k <= n -> N.testbit (eval env e) n = false.
Proof.
  induction e as [i|c|a IHa b IHb|a IHa b IHb|a IHa b IHb|a IHa s|a IHa s|a IHa s]; intros k n Hb Hn; cbn [bnd eval] in *.
  - discriminate.
  - injection Hb as <-. apply size_bits; assumption.
  - rewrite N.land_spec. destruct (bnd a) as [x|], (bnd b) as [y|]; cbn [omin] in Hb; try discriminate; injection Hb as <-.
    + destruct (N.le_ge_cases x y).
      * rewrite (IHa x n) by (auto; lia). reflexivity.
      * rewrite (IHb y n) by (auto; lia). apply andb_false_r.
    + rewrite (IHa x n) by (auto; lia). reflexivity.
    + rewrite (IHb y n) by (auto; lia). apply andb_false_r.
  - rewrite N.lor_spec. destruct (bnd a) as [x|], (bnd b) as [y|]; cbn [omax] in Hb; try discriminate; injection Hb as <-.
    rewrite (IHa x n), (IHb y n) by (auto; lia). reflexivity.
  - rewrite N.lxor_spec. destruct (bnd a) as [x|], (bnd b) as [y|]; cbn [omax] in Hb; try discriminate; injection Hb as <-.
    rewrite (IHa x n), (IHb y n) by (auto; lia). reflexivity.
  - destruct (bnd a) as [x|]; try discriminate. injection Hb as <-.
    rewrite N.shiftl_spec_high' by lia. apply (IHa x); auto; lia.
  - destruct (bnd a) as [x|]; try discriminate. injection Hb as <-.
    rewrite N.shiftr_spec'. apply (IHa x); auto; lia.
  - rewrite N.land_spec. destruct (bnd a) as [x|]; cbn [omin] in Hb; injection Hb as <-.
    + destruct (N.le_ge_cases x s).
      * rewrite (IHa x n) by (auto; lia). reflexivity.
      * rewrite N.ones_spec_high by lia. apply andb_false_r.
    + rewrite N.ones_spec_high by lia. apply andb_false_r.
Qed.

Definition bnd_le (e : bv) (w : nat) : bool :=
  match bnd e with Some k => k <=? N.of_nat w | None => false end.

Definition check_eq (w : nat) (e1 e2 : bv) : bool := check w e1 e2 && bnd_le e1 w && bnd_le e2 w.

Theorem bb_eq_sound w e1 e2 env : check_eq w e1 e2 = true -> eval env e1 = eval env e2.
Proof.
  unfold check_eq, bnd_le. intros H. apply andb_true_iff in H as [H H2]. apply andb_true_iff in H as [Hc H1].
  destruct (bnd e1) as [k1|] eqn:B1; [|discriminate]. destruct (bnd e2) as [k2|] eqn:B2; [|discriminate].
  apply N.leb_le in H1, H2.
  apply N.bits_inj; intros n.
  destruct (N.ltb_spec n (N.of_nat w)) as [Hlt|Hge].
  - pose proof (check_sound w e1 e2 env Hc) as E.
    apply (f_equal (fun x => N.testbit x n)) in E. rewrite !N.land_spec, N.ones_spec_low, !andb_true_r in E by assumption.
    exact E.
  - rewrite (bnd_sound env e1 k1 n B1), (bnd_sound env e2 k2 n B2) by lia. reflexivity.
Qed.

(* ---------------------------------------------------------------- reification *)
Ltac is_cst_p p := lazymatch p with xH => idtac | xO ?q => is_cst_p q | xI ?q => is_cst_p q end.
Ltac is_cst t := lazymatch t with N0 => idtac | Npos ?p => is_cst_p p end.
Ltac cst_b t := match t with
                | _ => let _ := match goal with _ => is_cst t end in constr:(true)
                | _ => constr:(false) end.
Ltac mem a l := lazymatch l with nil => constr:(false) | cons a _ => constr:(true) | cons _ ?l' => mem a l' end.
Ltac add_atom a l := let b := mem a l in lazymatch b with true => l | false => constr:(cons a l) end.

Ltac bb_atoms t acc :=
  lazymatch t with
  | N.land ?a ?b => let acc := bb_atoms a acc in bb_atoms b acc
  | N.lor ?a ?b => let acc := bb_atoms a acc in bb_atoms b acc
  | N.lxor ?a ?b => let acc := bb_atoms a acc in bb_atoms b acc
  | N.ones ?k => let c := cst_b k in lazymatch c with true => acc | false => add_atom t acc end
  | N.shiftl ?a ?k => let c := cst_b k in lazymatch c with true => bb_atoms a acc | false => add_atom t acc end
  | N.shiftr ?a ?k => let c := cst_b k in lazymatch c with true => bb_atoms a acc | false => add_atom t acc end
  | _ => let c := cst_b t in lazymatch c with true => acc | false => add_atom t acc end
  end.

Ltac bb_index a l :=
  lazymatch l with
  | cons a _ => constr:(O)
  | cons _ ?l' => let i := bb_index a l' in constr:(S i)
  end.

Ltac bb_reify vs t :=
  lazymatch t with
  | N.land ?a (N.ones ?k) =>
      let c := cst_b k in
      lazymatch c with
      | true => let a' := bb_reify vs a in constr:(BTrunc a' k)
      | false => let i := bb_index t vs in constr:(BVar i)
      end
  | N.land ?a ?b => let a' := bb_reify vs a in let b' := bb_reify vs b in constr:(BAnd a' b')
  | N.lor ?a ?b => let a' := bb_reify vs a in let b' := bb_reify vs b in constr:(BOr a' b')
  | N.lxor ?a ?b => let a' := bb_reify vs a in let b' := bb_reify vs b in constr:(BXor a' b')
  | N.ones ?k =>
      let c := cst_b k in
      lazymatch c with
      | true => let v := eval vm_compute in (N.ones k) in constr:(BConst v)
      | false => let i := bb_index t vs in constr:(BVar i)
      end
  | N.shiftl ?a ?k =>
      let c := cst_b k in
      lazymatch c with
      | true => let a' := bb_reify vs a in constr:(BShl a' k)
      | false => let i := bb_index t vs in constr:(BVar i)
      end
  | N.shiftr ?a ?k =>
      let c := cst_b k in
      lazymatch c with
      | true => let a' := bb_reify vs a in constr:(BShr a' k)
      | false => let i := bb_index t vs in constr:(BVar i)
      end
  | _ => let c := cst_b t in
         lazymatch c with
         | true => constr:(BConst t)
         | false => let i := bb_index t vs in constr:(BVar i)
         end
  end.

(* Prove  l = r  where both sides are built from and/or/xor/constant shifts/constants over arbitrary
   atoms, and both are syntactically bounded by 2^w. *)
Ltac bb_width w :=
  lazymatch goal with
  | |- ?l = ?r =>
      let vs0 := bb_atoms l (@nil N) in
      let vs := bb_atoms r vs0 in
      let l' := bb_reify vs l in
      let r' := bb_reify vs r in
      change (eval (fun i => nth i vs 0) l' = eval (fun i => nth i vs 0) r');
      apply (bb_eq_sound w); vm_compute; reflexivity
  end.
Ltac bb := bb_width 64%nat.

(* Prove  N.land l (N.ones w) = N.land r (N.ones w)  (no bound needed) *)
Ltac bb_mod w :=
  lazymatch goal with
  | |- N.land ?l _ = N.land ?r _ =>
      let vs0 := bb_atoms l (@nil N) in
      let vs := bb_atoms r vs0 in
      let l' := bb_reify vs l in
      let r' := bb_reify vs r in
      change (N.land (eval (fun i => nth i vs 0) l') (N.ones (N.of_nat w)) = N.land (eval (fun i => nth i vs 0) r') (N.ones (N.of_nat w)));
      apply check_sound; vm_compute; reflexivity
  end.

(* the word operations must stay folded while control flow is evaluated *)
Ltac bb_fold_consts :=
  repeat match goal with
  | |- context [N.mul ?a ?b] => is_cst a; is_cst b; let v := eval vm_compute in (N.mul a b) in change (N.mul a b) with v
  | |- context [N.add ?a ?b] => is_cst a; is_cst b; let v := eval vm_compute in (N.add a b) in change (N.add a b) with v
  | |- context [N.sub ?a ?b] => is_cst a; is_cst b; let v := eval vm_compute in (N.sub a b) in change (N.sub a b) with v
  | |- context [N.land ?a ?b] => is_cst a; is_cst b; let v := eval vm_compute in (N.land a b) in change (N.land a b) with v
  | |- context [N.lor ?a ?b] => is_cst a; is_cst b; let v := eval vm_compute in (N.lor a b) in change (N.lor a b) with v
  | |- context [N.shiftl ?a ?b] => is_cst a; is_cst b; let v := eval vm_compute in (N.shiftl a b) in change (N.shiftl a b) with v
  | |- context [N.shiftr ?a ?b] => is_cst a; is_cst b; let v := eval vm_compute in (N.shiftr a b) in change (N.shiftr a b) with v
  end.
Ltac bb_cbv := cbv -[N.lor N.land N.lxor N.shiftl N.shiftr N.ones N.add N.mul N.sub]; bb_fold_consts.
