(* Chunks.v — [slice::chunks_exact(32)] on byte lists: whole 32-byte packets and the remainder.
   Recursion is on explicit fuel; [chunks32] supplies enough and the characterisation lemmas
   (in ChunksFacts.v) show the result does not depend on it. *)
From Coq Require Import NArith List Lia Bool Arith.
Import ListNotations.

Section Chunks.
Context {A : Type}.

Definition at_least_32 (d : list A) : bool :=
  match skipn 31 d with [] => false | _ :: _ => true end.

Fixpoint chunks_fuel (fuel : nat) (d : list A) : list (list A) * list A :=
  match fuel with
  | O => ([], d)
  | S f =>
      if at_least_32 d
      then let '(ps, r) := chunks_fuel f (skipn 32 d) in (firstn 32 d :: ps, r)
      else ([], d)
  end.

(* data.chunks_exact(32): (the chunks yielded, chunks.remainder()) *)
Definition chunks32 (d : list A) : list (list A) * list A := chunks_fuel (length d) d.

End Chunks.
