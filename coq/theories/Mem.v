(* Mem.v — checked memory for the SIMD backends.  A slice is its contents plus its start address;
   every load intrinsic goes through [load], which is [Fault] when it touches a byte outside the
   slice or violates the intrinsic's alignment requirement.  Nothing else about memory is visible
   to the model, so a function that never Faults reads only bytes inside the slices it is given. *)
From Coq Require Import NArith List Lia Bool Arith.
From HW Require Import Word.
Import ListNotations.
Local Open Scope nat_scope.

Record mem := { mbytes : list N; maddr : N }.

(* read n bytes at offset off with alignment requirement align (1 = none) *)
Definition load (m : mem) (off n : nat) (align : N) : res (list N) :=
  if (off + n <=? length (mbytes m)) && (N.modulo (maddr m + N.of_nat off) align =? 0)%N
  then Ok (sub (mbytes m) off n) else Fault.

(* &bytes[off..]  — panics when off > len *)
Definition mslice_from (m : mem) (off : nat) : res mem :=
  if length (mbytes m) <? off then Panic
  else Ok {| mbytes := skipn off (mbytes m); maddr := (maddr m + N.of_nat off)%N |}.

Definition mlen (m : mem) : nat := length (mbytes m).

(* bytes[i] — panics when out of range *)
Definition mindex (m : mem) (i : nat) : res N :=
  if i <? length (mbytes m) then Ok (nth0 (mbytes m) i) else Panic.

(* the hasher's own 32-byte packet buffer.  AvxHash is a 32-aligned struct (its __m256i fields come
   first, 4 x 32 bytes, then the packet): address 0 mod 32.  SseHash / NeonHash are 16-aligned
   structs: address 16 mod 32 is the worst case.  (Layout is rustc's choice; the harness observes
   it — see DESIGN §7.) *)
Definition self_buf (addr : N) (bytes : list N) : mem := {| mbytes := bytes; maddr := addr |}.
(* a Key value: #[repr(align(32))] *)
Definition key_obj (bytes : list N) : mem := {| mbytes := bytes; maddr := 0 |}.
