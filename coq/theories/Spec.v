(* Spec.v — HighwayHash as a function of (key, whole message, width), transcribed from Google's
   reference (highwayhash/c/highwayhash.c: HighwayHashReset, Update, ZipperMergeAndAdd, Rotate32By,
   HighwayHashUpdateRemainder, Permute, ModularReduction, HighwayHashFinalize64/128/256 and the
   driver ProcessAll), with no buffering and no panics.  Where the reference has two presentations
   the specification takes the one the portable Rust does NOT use:
     * the zipper merge is the byte permutation of the paper / the x86 reference's shuffle table;
     * the per-lane body of Update is fused per lane as in the C loop;
     * the remainder packet is given byte by byte (the C copy loops read as a function of the index);
     * the 32-bit lane rotation is a true rotate.
   It is pinned to the published test vectors in SpecVectors.v. *)
From Coq Require Import NArith List Lia Bool Arith.
From HW Require Import Word Chunks.
Import ListNotations.
Local Open Scope N_scope.

(* state: v0, v1, mul0, mul1 : uint64_t[4] *)
Record hstate := { hv0 : lanes; hv1 : lanes; hmul0 : lanes; hmul1 : lanes }.

Definition init_mul0 : lanes := (0xdbe6d5d5fe4cce2f, 0xa4093822299f31d0, 0x13198a2e03707344, 0x243f6a8885a308d3).
Definition init_mul1 : lanes := (0x3bd39e10cb0ef593, 0xc0acf169b5f18a8c, 0xbe5466cf34e90c6c, 0x452821e638d01377).

Definition rot64_32 (x : N) : N := N.lor (N.shiftr x 32) (N.land (N.shiftl x 32) M64).

(* HighwayHashReset *)
Definition hh_reset (key : lanes) : hstate :=
  {| hv0 := zip4 N.lxor init_mul0 key;
     hv1 := zip4 N.lxor init_mul1 (map4 rot64_32 key);
     hmul0 := init_mul0; hmul1 := init_mul1 |}.

(* ZipperMerge: the 16 bytes of (v1:v0) — v0 is bytes 0..7, v1 bytes 8..15 — are permuted by
   out[i] = in[zipper_table[i]]; the low 8 output bytes are added to add0, the high 8 to add1. *)
Definition zipper_table : list nat := [3;12;2;5;14;1;15;0; 11;4;10;13;9;6;8;7]%nat.
Definition bytes16 (v1 v0 : N) : list N :=
  map (byte_of v0) [0;1;2;3;4;5;6;7] ++ map (byte_of v1) [0;1;2;3;4;5;6;7].
Definition zipper_merge_spec (v1 v0 : N) : N * N :=
  let o := map (nth0 (bytes16 v1 v0)) zipper_table in
  (le_bytes (firstn 8 o), le_bytes (skipn 8 o)).

(* one lane of the loop in Update *)
Definition lane_round (v0 v1 mul0 mul1 p : N) : N * N * N * N :=
  let v1 := add64 v1 (add64 mul0 p) in
  let mul0 := N.lxor mul0 (mul64 (N.land v1 0xffffffff) (N.shiftr v0 32)) in
  let v0 := add64 v0 mul1 in
  let mul1 := N.lxor mul1 (mul64 (N.land v0 0xffffffff) (N.shiftr v1 32)) in
  (v0, v1, mul0, mul1).

(* Update(lanes, state) *)
Definition hh_update (s : hstate) (p : lanes) : hstate :=
  let '(a0,a1,a2,a3) := hv0 s in let '(b0,b1,b2,b3) := hv1 s in
  let '(c0,c1,c2,c3) := hmul0 s in let '(d0,d1,d2,d3) := hmul1 s in
  let '(p0,p1,p2,p3) := p in
  let '(a0,b0,c0,d0) := lane_round a0 b0 c0 d0 p0 in
  let '(a1,b1,c1,d1) := lane_round a1 b1 c1 d1 p1 in
  let '(a2,b2,c2,d2) := lane_round a2 b2 c2 d2 p2 in
  let '(a3,b3,c3,d3) := lane_round a3 b3 c3 d3 p3 in
  (* ZipperMergeAndAdd(v1[1], v1[0], &v0[1], &v0[0]); (v1[3], v1[2], &v0[3], &v0[2]) *)
  let '(z0,z1) := zipper_merge_spec b1 b0 in let '(z2,z3) := zipper_merge_spec b3 b2 in
  let a0 := add64 a0 z0 in let a1 := add64 a1 z1 in let a2 := add64 a2 z2 in let a3 := add64 a3 z3 in
  (* ZipperMergeAndAdd(v0[1], v0[0], &v1[1], &v1[0]); (v0[3], v0[2], &v1[3], &v1[2]) *)
  let '(y0,y1) := zipper_merge_spec a1 a0 in let '(y2,y3) := zipper_merge_spec a3 a2 in
  let b0 := add64 b0 y0 in let b1 := add64 b1 y1 in let b2 := add64 b2 y2 in let b3 := add64 b3 y3 in
  {| hv0 := (a0,a1,a2,a3); hv1 := (b0,b1,b2,b3); hmul0 := (c0,c1,c2,c3); hmul1 := (d0,d1,d2,d3) |}.

(* Read64 on a 32-byte packet *)
Definition packet_lanes (p : list N) : lanes :=
  (le_bytes (sub p 0 8), le_bytes (sub p 8 8), le_bytes (sub p 16 8), le_bytes (sub p 24 8)).
Definition hh_update_packet (s : hstate) (p : list N) : hstate := hh_update s (packet_lanes p).

(* Rotate32By: rotate each 32-bit half left by count (0 < count < 32 in every call the reference makes) *)
Definition rotl32 (x count : N) : N :=
  N.land (N.lor (N.shiftl x count) (N.shiftr x (32 - count))) M32.
Definition rotate32by (count : N) (x : N) : N :=
  N.lor (rotl32 (N.land x M32) count) (N.shiftl (rotl32 (N.land (N.shiftr x 32) M32) count) 32).

(* the packet built by HighwayHashUpdateRemainder, byte i, for size_mod32 = length bytes in 1..31 *)
Definition remainder_byte (bytes : list N) (i : nat) : N :=
  let size := length bytes in
  let size_mod4 := Nat.modulo size 4 in
  let jump := (size - size_mod4)%nat in                  (* remainder - bytes *)
  if (i <? jump)%nat then nth0 bytes i
  else if Nat.odd (size / 16) then                       (* size_mod32 & 16 *)
    (if (28 <=? i)%nat then nth0 bytes (jump + (i - 28) + size_mod4 - 4) else 0)
  else if Nat.eqb size_mod4 0 then 0
  else if Nat.eqb i 16 then nth0 bytes jump
  else if Nat.eqb i 17 then nth0 bytes (jump + Nat.div2 size_mod4)
  else if Nat.eqb i 18 then nth0 bytes (jump + size_mod4 - 1)
  else 0.
Definition remainder_packet (bytes : list N) : list N := map (remainder_byte bytes) (seq 0 32).

(* HighwayHashUpdateRemainder(bytes, size_mod32, state) *)
Definition hh_update_remainder (s : hstate) (bytes : list N) : hstate :=
  let size := N.of_nat (length bytes) in
  let inc := N.shiftl size 32 + size in
  let s' := {| hv0 := map4 (fun x => add64 x inc) (hv0 s); hv1 := map4 (rotate32by size) (hv1 s);
               hmul0 := hmul0 s; hmul1 := hmul1 s |} in
  hh_update_packet s' (remainder_packet bytes).

(* ProcessAll: whole packets, then the remainder if any *)
Definition hh_process_all (key : lanes) (d : list N) : hstate :=
  let '(ps, r) := chunks32 d in
  let s := fold_left hh_update_packet ps (hh_reset key) in
  match r with [] => s | _ :: _ => hh_update_remainder s r end.

(* Permute / PermuteAndUpdate *)
Definition hh_permute (v : lanes) : lanes :=
  let '(a,b,c,d) := v in (rot64_32 c, rot64_32 d, rot64_32 a, rot64_32 b).
Definition hh_permute_and_update (s : hstate) : hstate := hh_update s (hh_permute (hv0 s)).
Fixpoint hh_rounds (n : nat) (s : hstate) : hstate :=
  match n with O => s | S n => hh_rounds n (hh_permute_and_update s) end.

(* ModularReduction(a3_unmasked, a2, a1, a0, &m1, &m0) *)
Definition modular_reduction (a3_unmasked a2 a1 a0 : N) : N * N :=
  let a3 := N.land a3_unmasked 0x3FFFFFFFFFFFFFFF in
  let m1 := N.lxor (N.lxor a1 (N.lor (t64 (N.shiftl a3 1)) (N.shiftr a2 63)))
                   (N.lor (t64 (N.shiftl a3 2)) (N.shiftr a2 62)) in
  let m0 := N.lxor (N.lxor a0 (t64 (N.shiftl a2 1))) (t64 (N.shiftl a2 2)) in
  (m1, m0).

(* HighwayHashFinalize64/128/256 *)
Definition hh_finalize64 (s : hstate) : N :=
  let s := hh_rounds 4 s in
  add64 (add64 (add64 (lane0 (hv0 s)) (lane0 (hv1 s))) (lane0 (hmul0 s))) (lane0 (hmul1 s)).
Definition hh_finalize128 (s : hstate) : N * N :=
  let s := hh_rounds 6 s in
  (add64 (add64 (add64 (lane0 (hv0 s)) (lane0 (hmul0 s))) (lane2 (hv1 s))) (lane2 (hmul1 s)),
   add64 (add64 (add64 (lane1 (hv0 s)) (lane1 (hmul0 s))) (lane3 (hv1 s))) (lane3 (hmul1 s))).
Definition hh_finalize256 (s : hstate) : lanes :=
  let s := hh_rounds 10 s in
  let '(h1, h0) := modular_reduction (add64 (lane1 (hv1 s)) (lane1 (hmul1 s))) (add64 (lane0 (hv1 s)) (lane0 (hmul1 s)))
                                     (add64 (lane1 (hv0 s)) (lane1 (hmul0 s))) (add64 (lane0 (hv0 s)) (lane0 (hmul0 s))) in
  let '(h3, h2) := modular_reduction (add64 (lane3 (hv1 s)) (lane3 (hmul1 s))) (add64 (lane2 (hv1 s)) (lane2 (hmul1 s)))
                                     (add64 (lane3 (hv0 s)) (lane3 (hmul0 s))) (add64 (lane2 (hv0 s)) (lane2 (hmul0 s))) in
  (h0, h1, h2, h3).

(* The hash functions *)
Definition HH64  (key : lanes) (d : list N) : N := hh_finalize64 (hh_process_all key d).
Definition HH128 (key : lanes) (d : list N) : N * N := hh_finalize128 (hh_process_all key d).
Definition HH256 (key : lanes) (d : list N) : lanes := hh_finalize256 (hh_process_all key d).

(* A digest of any width, as the list of its 64-bit words (low word first) *)
Definition HH (w : width) (key : lanes) (d : list N) : list N :=
  match w with
  | W64 => [HH64 key d]
  | W128 => let '(a, b) := HH128 key d in [a; b]
  | W256 => lanes_list (HH256 key d)
  end.
