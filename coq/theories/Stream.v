(* Stream.v — the text of `append` that src/x86/sse.rs, src/x86/avx.rs, src/aarch64.rs and
   src/wasm.rs share verbatim (only the types differ):

     if self.buffer.is_empty() {
         let mut chunks = data.chunks_exact(PACKET_SIZE);
         for chunk in chunks.by_ref() { self.update(Self::data_to_lanes(chunk)); }
         self.buffer.set_to(chunks.remainder());
     } else if let Some(tail) = self.buffer.fill(data) {
         self.update(Self::data_to_lanes(self.buffer.inner()));
         let mut chunks = tail.chunks_exact(PACKET_SIZE);
         for chunk in chunks.by_ref() { self.update(Self::data_to_lanes(chunk)); }
         self.buffer.set_to(chunks.remainder());
     }

   parameterised by the backend's  step = update(data_to_lanes(packet))  on a 32-byte slice at a
   given address, and by the address of the hasher's own packet buffer. *)
From Coq Require Import NArith List Lia Bool Arith.
From HW Require Import Word Chunks Packet Mem.
Import ListNotations.
Local Open Scope N_scope.

Section Stream.
Context {C : Type}.
Variable step : C -> mem -> res C.
Variable buf_addr : N.

Fixpoint g_absorb_chunks (c : C) (addr : N) (ps : list (list N)) : res C :=
  match ps with
  | [] => Ok c
  | chunk :: ps =>
      do c' <- step c {| mbytes := chunk; maddr := addr |} ;;
      g_absorb_chunks c' (addr + 32) ps
  end.

Definition g_append (prof : profile) (addr : N) (c : C) (b : packet) (data : list N) : res (C * packet) :=
  if is_empty b then
    let '(ps, r) := chunks32 data in
    do c <- g_absorb_chunks c addr ps ;;
    do b <- set_to prof b r ;;
    Ok (c, b)
  else
    match fill b data with
    | (b, None) => Ok (c, b)
    | (b, Some tail) =>
        do c <- step c (self_buf buf_addr (inner b)) ;;
        let '(ps, r) := chunks32 tail in
        do c <- g_absorb_chunks c (addr + N.of_nat (length data - length tail)) ps ;;
        do b' <- set_to prof b r ;;
        Ok (c, b')
    end.
End Stream.
