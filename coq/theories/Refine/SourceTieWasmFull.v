(* SourceTieWasmFull.v — src/wasm.rs as a whole (WasmHash: new, update, zipper_merge, permute_and_update,
   modular_reduction, load_multiple_of_four, remainder, rotate_32_by, update_remainder, data_to_lanes, finalize64/128/256 and
   the streaming append; the vector wrapper V2x64U with its operator impls; the free helpers le_u64 and the _mm_ ones), as
   translated from the CURRENT source text into the RustLite AST (gen/SrcWasmFull.v, regenerated on every run), means
   exactly what the hand-written model Wasm.v says.  Every lemma is about [call_fn ... wall_fns]: the interpreter of
   Facts/RustLite.v running the generated bodies — internal::unordered_load3, which wasm.rs calls, included (translated
   from internal.rs).  Supplied from outside: only the meaning of the wasm32 SIMD instructions ([vprim]/[sprim] of
   RustLite.v, i.e. the intrinsic models of Wasm.v). *)
From Coq Require Import NArith List String Bool Arith Lia.
From HW Require Import Word Chunks Packet Mem Stream X86 Portable Wasm.
From HW.Refine Require Import ChunksFacts SourceTie PacketTie.
From HW.Facts Require Import RustLite.
From HWGen Require Import SrcPortable SrcPacket SrcWasmFull.
Import ListNotations.
Local Open Scope N_scope.

(* the fields of a WasmHash as the interpreter sees them *)
Definition wgenv_of (c : wcore) (bk : packet) : env :=
  [("self.v0L"%string, VX (w_v0L c)); ("self.v0H"%string, VX (w_v0H c));
   ("self.v1L"%string, VX (w_v1L c)); ("self.v1H"%string, VX (w_v1H c));
   ("self.mul0L"%string, VX (w_mul0L c)); ("self.mul0H"%string, VX (w_mul0H c));
   ("self.mul1L"%string, VX (w_mul1L c)); ("self.mul1H"%string, VX (w_mul1H c));
   ("self.buffer.buf"%string, VA (buf bk)); ("self.buffer.buf_index"%string, VN (N.of_nat (Packet.idx bk)))].

(* nothing is supplied to the interpreter from outside, and the table is the one table of SourceTie.v (the names are kept so that
   statements read the same) *)
Definition wext (p : profile) : string -> env -> list val -> option callres := noext.
Definition wall_fns : list (string * fndef) := all_fns.

Ltac wl_gen c1 c2 c3 c4 c5 c6 c7 :=
  cbv beta iota zeta delta
    [run_fn find_fn wall_fns all_fns src_fns wsrc_fns pkt_fns map app String.append wext noext
     sub_env merge_back penv
     wsrc_WasmHash_new wsrc_WasmHash_zipper_merge wsrc_WasmHash_update wsrc_WasmHash_permute_and_update
     wsrc_WasmHash_finalize64 wsrc_WasmHash_finalize128 wsrc_WasmHash_finalize256 wsrc_WasmHash_modular_reduction
     wsrc_WasmHash_load_multiple_of_four wsrc_WasmHash_remainder wsrc_WasmHash_update_remainder wsrc_WasmHash_rotate_32_by
     wsrc_WasmHash_data_to_lanes wsrc_WasmHash_append wsrc_le_u64 wsrc__mm_mul_epu32 wsrc__mm_srli_epi64 wsrc__mm_srl_epi32
     wsrc__mm_sll_epi32 wsrc__mm_slli_si128_8 wsrc_V2x64U_Default_default wsrc_V2x64U_zeroed wsrc_V2x64U_new wsrc_V2x64U_as_arr
     wsrc_V2x64U_rotate_by_32 wsrc_V2x64U_and_not wsrc_V2x64U_add_assign wsrc_V2x64U_sub_assign wsrc_V2x64U_bitand_assign
     wsrc_V2x64U_bitor_assign wsrc_V2x64U_bitxor_assign wsrc_V2x64U_shl_assign wsrc_V2x64U_shr_assign
     wsrc_V2x64U_From_from wsrc_V2x64U_AddAssign_add_assign wsrc_V2x64U_SubAssign_sub_assign
     wsrc_V2x64U_BitAndAssign_bitand_assign wsrc_V2x64U_BitAnd_bitand wsrc_V2x64U_BitOrAssign_bitor_assign
     wsrc_V2x64U_BitOr_bitor wsrc_V2x64U_BitXorAssign_bitxor_assign wsrc_V2x64U_Add_add wsrc_V2x64U_BitXor_bitxor
     wsrc_V2x64U_ShlAssign_shl_assign wsrc_V2x64U_ShrAssign_shr_assign
     exec exec_block eval eval_list eval_idx eval_arg eval_args assign bind_params param_values copy_out eval_ret
     evalv evalv_list eval_sarg eval_sargs get_vecs vprim sprim
     get put lookup upd is_self String.eqb Ascii.eqb Bool.eqb substring set_nth nth_opt bind genv lenv f_params f_body f_ret
     seq Nat.sub Nat.ltb Nat.leb List.length mask bits wgenv_of
     w_v0L w_v0H w_v1L w_v1H w_mul0L w_mul0H w_mul1L w_mul1H c1 c2 c3 c4 c5 c6 c7].
Ltac wl := wl_gen call_fn wgenv_of wgenv_of wgenv_of wgenv_of wgenv_of wgenv_of.      (* run through calls *)
Ltac wl1 := wl_gen wgenv_of wgenv_of wgenv_of wgenv_of wgenv_of wgenv_of wgenv_of.    (* stop at calls *)
(* the hand-written model, unfolded to the intrinsics *)
Ltac hw :=
  cbv beta iota zeta delta
    [w_new w_update w_permute_and_update w_modular_reduction w_zipper_merge w_zipper_table w_core w_buffer
     w_mm_mul_epu32 w_mm_srli_epi64 w_mm_srl_epi32 w_mm_sll_epi32 w_mm_slli_si128_8
     WV2_new WV2_zeroed WV2_as_arr WV2_rotate_by_32 WV2_and_not wgenv_of
     w_v0L w_v0H w_v1L w_v1H w_mul0L w_mul0H w_mul1L w_mul1H lane0 lane1 lane2 lane3 fst snd].

Lemma wcall_step p fuel f g vs :
  call_fn p (wext p) wall_fns (S fuel) f g vs =
  match wext p f g vs with
  | Some r => r
  | None => match find_fn wall_fns f with
            | Some d => run_fn p (call_fn p (wext p) wall_fns fuel) d g vs
            | None => Fault
            end
  end.
Proof. reflexivity. Qed.

Section Kernel.
Variable p : profile.
Notation call := (call_fn p (wext p) wall_fns).

(* ---- the vector wrapper's operators, and the helpers named after x86 intrinsics *)
Lemma w_add_src fuel g a b :
  call (S (S (S fuel))) "V2x64U::Add::add" g [VX a; VX b] = Ok (g, [Some (VX a); Some (VX b)], Some (VX (u64x2_add a b))).
Proof. wl. reflexivity. Qed.
Lemma w_xor_src fuel g a b :
  call (S (S (S fuel))) "V2x64U::BitXor::bitxor" g [VX a; VX b] = Ok (g, [Some (VX a); Some (VX b)], Some (VX (v128_xor a b))).
Proof. wl. reflexivity. Qed.
Lemma w_or_src fuel g a b :
  call (S (S (S fuel))) "V2x64U::BitOr::bitor" g [VX a; VX b] = Ok (g, [Some (VX a); Some (VX b)], Some (VX (v128_or a b))).
Proof. wl. reflexivity. Qed.
Lemma w_and_src fuel g a b :
  call (S (S (S fuel))) "V2x64U::BitAnd::bitand" g [VX a; VX b] = Ok (g, [Some (VX a); Some (VX b)], Some (VX (v128_and a b))).
Proof. wl. reflexivity. Qed.
Lemma w_from_src fuel g a :
  call (S fuel) "V2x64U::From::from" g [VX a] = Ok (g, [Some (VX a)], Some (VX a)).
Proof. wl. reflexivity. Qed.
Lemma w_mul_epu32_src fuel g a b :
  call (S fuel) "_mm_mul_epu32" g [VX a; VX b] = Ok (g, [Some (VX a); Some (VX b)], Some (VX (w_mm_mul_epu32 a b))).
Proof. wl. reflexivity. Qed.
Lemma w_rotate_by_32_src fuel g a :
  call (S (S fuel)) "V2x64U::rotate_by_32" g [VX a] = Ok (g, [Some (VX a)], Some (VX (WV2_rotate_by_32 a))).
Proof. wl. reflexivity. Qed.
Lemma w_as_arr_src fuel g a :
  call (S fuel) "V2x64U::as_arr" g [VX a] = Ok (g, [Some (VX a)], Some (VA [fst (WV2_as_arr a); snd (WV2_as_arr a)])).
Proof. wl. reflexivity. Qed.

(* ---- zipper_merge(v) *)
Lemma w_zipper_merge_src fuel g v :
  call (S (S fuel)) "WasmHash::zipper_merge" g [VX v] = Ok (g, [Some (VX v)], Some (VX (w_zipper_merge v))).
Proof. wl. reflexivity. Qed.

(* ---- update(&mut self, (packetH, packetL)) *)
Lemma w_update_src fuel c e pH pL :
  call (S (S (S fuel))) "WasmHash::update" (wgenv_of c e) [VTV [pH; pL]]
  = Ok (wgenv_of (w_update c pH pL) e, [Some (VTV [pH; pL])], None).
Proof. destruct c as [a0 a1 a2 a3 a4 a5 a6 a7]. wl. hw. reflexivity. Qed.

(* ---- permute_and_update(&mut self) *)
Lemma w_permute_and_update_src fuel c e :
  call (S (S (S (S fuel)))) "WasmHash::permute_and_update" (wgenv_of c e) []
  = Ok (wgenv_of (w_permute_and_update c) e, [], None).
Proof. destruct c as [a0 a1 a2 a3 a4 a5 a6 a7]. wl. hw. reflexivity. Qed.

(* ---- modular_reduction(x, init) *)
Lemma w_modular_reduction_src fuel g x i :
  call (S (S (S (S fuel)))) "WasmHash::modular_reduction" g [VX x; VX i]
  = Ok (g, [Some (VX x); Some (VX i)], Some (VX (w_modular_reduction x i))).
Proof. wl. hw. reflexivity. Qed.

(* ---- new(key) *)
Lemma w_new_src fuel c e k0 k1 k2 k3 :
  call (S (S (S (S fuel)))) "WasmHash::new" (wgenv_of c e) [VA [k0;k1;k2;k3]]
  = Ok (wgenv_of (w_core (w_new (k0,k1,k2,k3))) packet_default, [Some (VA [k0;k1;k2;k3])], None).
Proof. destruct c as [a0 a1 a2 a3 a4 a5 a6 a7]. wl. hw. reflexivity. Qed.

End Kernel.
