(* WordFacts.v — arithmetic facts about the 64-bit word operations. *)
From Coq Require Import NArith List Lia Bool Arith.
From HW Require Import Word.
From HW.Bits Require Import Bitblast.
Import ListNotations.
Local Open Scope N_scope.

Lemma M64_ones : M64 = N.ones 64. Proof. reflexivity. Qed.
Lemma M32_ones : M32 = N.ones 32. Proof. reflexivity. Qed.
Lemma M8_ones : M8 = N.ones 8. Proof. reflexivity. Qed.

Lemma t64_mod x : t64 x = x mod 2^64.
Proof. unfold t64. rewrite M64_ones. apply N.land_ones. Qed.

Lemma add64_mod a b : add64 a b = (a + b) mod 2^64.
Proof. unfold add64. rewrite M64_ones. apply N.land_ones. Qed.

Lemma add64_comm a b : add64 a b = add64 b a.
Proof. unfold add64. rewrite N.add_comm. reflexivity. Qed.

Lemma add64_assoc a b c : add64 (add64 a b) c = add64 a (add64 b c).
Proof.
  rewrite !add64_mod. rewrite N.add_mod_idemp_l, N.add_mod_idemp_r by discriminate.
  rewrite N.add_assoc. reflexivity.
Qed.

(* (v1 + p) + m  =  v1 + (m + p) *)
Lemma add64_rot a p m : add64 (add64 a p) m = add64 a (add64 m p).
Proof. rewrite add64_assoc. f_equal. apply add64_comm. Qed.

Lemma t64_idem x : t64 (t64 x) = t64 x.
Proof. unfold t64. rewrite <- N.land_assoc. rewrite N.land_diag. reflexivity. Qed.

Lemma add64_t64 a b : t64 (add64 a b) = add64 a b.
Proof. unfold add64. apply t64_idem. Qed.

Lemma add64_t64_l a b : add64 (t64 a) b = add64 a b.
Proof. rewrite !add64_mod, t64_mod. rewrite N.add_mod_idemp_l by discriminate. reflexivity. Qed.
Lemma add64_t64_r a b : add64 a (t64 b) = add64 a b.
Proof. rewrite !add64_mod, t64_mod. rewrite N.add_mod_idemp_r by discriminate. reflexivity. Qed.

Lemma w64b_t64 x : w64b x = true -> t64 x = x.
Proof. unfold w64b. intros H. apply N.ltb_lt in H. rewrite t64_mod. apply N.mod_small. exact H. Qed.

Lemma t64_w64b x : w64b (t64 x) = true.
Proof. unfold w64b. apply N.ltb_lt. rewrite t64_mod. apply N.mod_lt. discriminate. Qed.

Lemma w8b_t8 x : w8b x = true -> t8 x = x.
Proof.
  unfold w8b, t8. intros H. apply N.ltb_lt in H. rewrite M8_ones, N.land_ones. apply N.mod_small. exact H.
Qed.

Lemma add64_w64b a b : w64b (add64 a b) = true.
Proof. unfold add64. apply t64_w64b. Qed.

Lemma lxor_w64b a b : w64b a = true -> w64b b = true -> w64b (N.lxor a b) = true.
Proof.
  intros Ha Hb. rewrite <- (w64b_t64 a Ha), <- (w64b_t64 b Hb).
  replace (N.lxor (t64 a) (t64 b)) with (t64 (N.lxor (t64 a) (t64 b))); [apply t64_w64b|].
  unfold t64, M64. bb.
Qed.

Lemma mul64_w64b a b : w64b (mul64 a b) = true.
Proof. unfold mul64. apply t64_w64b. Qed.

(* the rotation by 32 is the same function in both presentations *)
Lemma rotl64_32_comm a : rotl64_32 a = N.lor (N.shiftr a 32) (N.land (N.shiftl a 32) M64).
Proof. unfold rotl64_32, shl64. apply N.lor_comm. Qed.

(* reading back what to_le_bytes wrote *)
Lemma le_bytes_to_le_bytes_8 x : le_bytes (to_le_bytes 8 x) = t64 x.
Proof. unfold le_bytes, to_le_bytes, t64, M8, M64. cbn [fold_right]. bb. Qed.

Lemma le_bytes_to_le_bytes_4 x : le_bytes (to_le_bytes 4 x) = t32 x.
Proof. unfold le_bytes, to_le_bytes, t32, M8, M32. cbn [fold_right]. bb. Qed.

Lemma to_le_bytes_length n x : length (to_le_bytes n x) = n.
Proof. revert x. induction n as [|n IH]; intros x; cbn [to_le_bytes length]; [reflexivity|]. rewrite IH. reflexivity. Qed.
