(* PortableRefine.v — the portable model refines the specification's logical state:
     abs (p_new k) = L0 k
     Inv s -> p_append prof s d = Ok s' with Inv s' and abs s' = absorb (abs s) d
     Inv s -> p_finalize* prof s = Ok (out w (abs s))
   for every build profile. *)
From Coq Require Import NArith List Lia Bool Arith.
From HW Require Import Word Chunks Packet Portable Spec.
From HW.Bits Require Import Bitblast.
From HW.Refine Require Import ChunksFacts WordFacts Logical.
Import ListNotations.
Local Open Scope N_scope.

(* ---------------------------------------------------------------- lanes: same data, two record types *)
Definition to_h (c : st16) : hstate := {| hv0 := v0 c; hv1 := v1 c; hmul0 := mul0 c; hmul1 := mul1 c |}.
Definition of_h (h : hstate) : st16 := {| v0 := hv0 h; v1 := hv1 h; mul0 := hmul0 h; mul1 := hmul1 h |}.
Lemma to_of_h h : to_h (of_h h) = h. Proof. destruct h; reflexivity. Qed.
Lemma of_to_h c : of_h (to_h c) = c. Proof. destruct c; reflexivity. Qed.

(* ---------------------------------------------------------------- update *)
Lemma zipper_ok v1 v0 : zipper_merge_spec v1 v0 = (zip_lo v1 v0, zip_hi v1 v0).
Proof.
  unfold zipper_merge_spec, zip_lo, zip_hi. bb_cbv.
  apply f_equal2; bb.
Qed.

Lemma p_update_ok c p : to_h (p_update c p) = hh_update (to_h c) p.
Proof.
  destruct c as [[[[a0 a1] a2] a3] [[[b0 b1] b2] b3] [[[c0 c1] c2] c3] [[[d0 d1] d2] d3]].
  destruct p as [[[p0 p1] p2] p3].
  unfold p_update, hh_update, to_h, zipper_add, lane_round. cbn [v0 v1 mul0 mul1 hv0 hv1 hmul0 hmul1 zip4].
  rewrite !zipper_ok. unfold lo32, hi32, M32.
  rewrite !(add64_rot _ _ _). reflexivity.
Qed.

Lemma p_permute_ok v : p_permute v = hh_permute v.
Proof.
  destruct v as [[[a b] c] d]. unfold p_permute, hh_permute, rot64_32. rewrite !rotl64_32_comm. reflexivity.
Qed.

Lemma p_permute_and_update_ok c : to_h (p_permute_and_update c) = hh_permute_and_update (to_h c).
Proof. unfold p_permute_and_update, hh_permute_and_update. rewrite p_update_ok, p_permute_ok. reflexivity. Qed.

Lemma p_rounds_ok n c : to_h (iter n p_permute_and_update c) = hh_rounds n (to_h c).
Proof.
  revert c. induction n as [|n IH]; intros c; cbn [iter hh_rounds]; [reflexivity|].
  rewrite IH, p_permute_and_update_ok. reflexivity.
Qed.

(* ---------------------------------------------------------------- packets *)
Lemma p_data_to_lanes_ok d : length d = 32%nat -> p_data_to_lanes d = packet_lanes d.
Proof. intros H. unfold p_data_to_lanes, packet_lanes. rewrite H. reflexivity. Qed.

Lemma p_absorb_chunks_ok ps : Forall (fun p => length p = 32%nat) ps -> forall c,
  to_h (p_absorb_chunks c ps) = fold_left hh_update_packet ps (to_h c).
Proof.
  unfold p_absorb_chunks. induction 1 as [|p ps Hp _ IH]; intros c; cbn [fold_left]; [reflexivity|].
  rewrite IH, p_update_ok, p_data_to_lanes_ok by assumption. reflexivity.
Qed.

(* ---------------------------------------------------------------- invariant and abstraction *)
Definition PInv (b : packet) : Prop := length (buf b) = 32%nat /\ (idx b < 32)%nat.
Definition Inv (s : pstate) : Prop := PInv (buffer s).
Definition pending (b : packet) : list N := firstn (idx b) (buf b).
Definition abs (s : pstate) : L := (to_h (core s), pending (buffer s)).

Lemma pending_length b : PInv b -> length (pending b) = idx b.
Proof. intros [H1 H2]. unfold pending. rewrite firstn_length. lia. Qed.

Lemma abs_wf s : Inv s -> Lwf (abs s).
Proof. intros H. unfold Lwf, abs. cbn [snd]. rewrite pending_length by exact H. destruct H; assumption. Qed.

Lemma Inv_default c : Inv {| core := c; buffer := packet_default |}.
Proof. unfold Inv, PInv, packet_default. cbn. split; [reflexivity|lia]. Qed.

Lemma abs_new k : abs (p_new k) = L0 k /\ Inv (p_new k).
Proof.
  split; [|apply Inv_default].
  destruct k as [[[k0 k1] k2] k3]. unfold abs, L0, p_new, hh_reset, to_h, pending, rot64_32.
  cbn [core buffer v0 v1 mul0 mul1 map4 packet_default idx buf firstn]. rewrite !rotl64_32_comm. reflexivity.
Qed.

(* ---------------------------------------------------------------- buffer operations *)
Lemma as_slice_ok prof b : PInv b -> as_slice prof b = Ok (pending b).
Proof.
  intros [H1 H2]. unfold as_slice, pending.
  destruct (Nat.ltb_spec 32 (idx b)); [lia|]. rewrite andb_false_r.
  destruct (Nat.leb_spec (idx b) 32); [reflexivity|lia].
Qed.

Lemma set_to_ok prof b r : length (buf b) = 32%nat -> (length r < 32)%nat ->
  exists b', set_to prof b r = Ok b' /\ PInv b' /\ pending b' = r.
Proof.
  intros Hb Hr. unfold set_to.
  destruct (Nat.ltb_spec (length r) 32); [|lia]. cbn [negb]. rewrite andb_false_r.
  destruct (Nat.ltb_spec 32 (length r)); [lia|].
  eexists. split; [reflexivity|]. unfold PInv, pending. cbn [buf idx]. split; [split|].
  - rewrite app_length, skipn_length. lia.
  - assumption.
  - rewrite firstn_app, Nat.sub_diag, firstn_all. cbn [firstn]. apply app_nil_r.
Qed.

(* ---------------------------------------------------------------- append *)
Lemma p_append_ok prof s d : Inv s ->
  exists s', p_append prof s d = Ok s' /\ Inv s' /\ abs s' = absorb (abs s) d.
Proof.
  intros HI. pose proof HI as [Hlen Hidx]. unfold p_append, is_empty.
  destruct (Nat.eqb_spec (idx (buffer s)) 0) as [E0|N0].
  - (* empty buffer *)
    pose proof (chunks32_spec d) as Hsp. destruct (chunks32 d) as [ps r] eqn:Ech.
    destruct Hsp as (_ & Hall & Hr & _).
    destruct (set_to_ok prof (buffer s) r Hlen Hr) as (b' & Hset & Hinv' & Hpend').
    rewrite Hset. cbn [bind]. eexists. split; [reflexivity|]. split; [exact Hinv'|].
    unfold abs, absorb. cbn [core buffer fst snd]. unfold pending at 2. rewrite E0. cbn [firstn app].
    rewrite Ech. rewrite p_absorb_chunks_ok by assumption. rewrite Hpend'. reflexivity.
  - (* pending bytes: fill *)
    unfold fill. destruct (Nat.leb_spec (idx (buffer s)) 32) as [_|]; [|lia].
    set (dlen := (32 - idx (buffer s))%nat).
    destruct (Nat.ltb_spec (length d) dlen) as [Hfit|Hover].
    + (* everything fits in the buffer *)
      eexists. split; [reflexivity|]. unfold Inv, PInv, abs, absorb, pending. cbn [core buffer buf idx fst snd].
      assert (Hp : length (firstn (idx (buffer s)) (buf (buffer s))) = idx (buffer s)) by (rewrite firstn_length; lia).
      split; [split|].
      * rewrite !app_length, Hp, skipn_length. unfold dlen in Hfit. lia.
      * unfold dlen in Hfit. lia.
      * rewrite chunks32_short by (rewrite app_length, Hp; unfold dlen in Hfit; lia).
        cbn [fold_left]. f_equal.
        rewrite app_assoc. rewrite firstn_app.
        rewrite app_length, Hp. rewrite Nat.sub_diag. cbn [firstn]. rewrite app_nil_r.
        apply firstn_all2. rewrite app_length, Hp. lia.
    + (* the buffer fills up: one packet from the buffer, then whole packets of the tail *)
      set (b1 := {| buf := firstn (idx (buffer s)) (buf (buffer s)) ++ firstn dlen d; idx := 32 |}).
      set (tail := skipn dlen d).
      assert (Hp : length (firstn (idx (buffer s)) (buf (buffer s))) = idx (buffer s)) by (rewrite firstn_length; lia).
      assert (Hb1 : length (buf b1) = 32%nat).
      { unfold b1. cbn [buf]. rewrite app_length, Hp, firstn_length. unfold dlen in *. lia. }
      pose proof (chunks32_spec tail) as Hsp. destruct (chunks32 tail) as [ps r] eqn:Ech.
      destruct Hsp as (_ & Hall & Hr & _).
      destruct (set_to_ok prof b1 r Hb1 Hr) as (b' & Hset & Hinv' & Hpend').
      rewrite Hset. cbn [bind]. eexists. split; [reflexivity|]. split; [exact Hinv'|].
      unfold abs, absorb. cbn [core buffer fst snd]. rewrite Hpend'.
      rewrite (chunks32_step (pending (buffer s) ++ d)) by (unfold pending; rewrite app_length, Hp; unfold dlen in Hover; lia).
      assert (E1 : firstn 32 (pending (buffer s) ++ d) = buf b1).
      { unfold pending, b1. cbn [buf]. rewrite firstn_app, Hp. fold dlen.
        rewrite firstn_all2 by (rewrite Hp; lia). reflexivity. }
      assert (E2 : skipn 32 (pending (buffer s) ++ d) = tail).
      { unfold pending, tail. rewrite skipn_app, Hp. fold dlen.
        rewrite skipn_all2 by (rewrite Hp; lia). reflexivity. }
      rewrite E1, E2, Ech. cbn [fold_left].
      rewrite p_absorb_chunks_ok by assumption. rewrite p_update_ok.
      unfold inner. rewrite p_data_to_lanes_ok by exact Hb1. reflexivity.
Qed.

(* ---------------------------------------------------------------- the remainder step *)
Lemma p_rotate_lane_ok : forall n, (1 <= n <= 31)%nat -> forall prof x,
  p_rotate_lane prof (N.of_nat n) x = Ok (rotate32by (N.of_nat n) x).
Proof.
  intros n Hn prof x. destruct prof as [[|] dg];
  (do 32 (destruct n as [|n];
     [ try lia;
       unfold p_rotate_lane, shl_u32, shr_u32, sub_u64, rotate32by, rotl32, shl64, shl32, t32, M32, M64;
       bb_cbv; try (apply f_equal; bb)
     | ])); lia.
Qed.

Lemma p_rotate_32_by_ok n : (1 <= n <= 31)%nat -> forall prof l,
  p_rotate_32_by prof (N.of_nat n) l = Ok (map4 (rotate32by (N.of_nat n)) l).
Proof.
  intros Hn prof [[[a b] c] d]. unfold p_rotate_32_by. rewrite !p_rotate_lane_ok by assumption. reflexivity.
Qed.

Lemma inc_small : forall n, (n <= 31)%nat ->
  (18446744073709551616 <=? shl64 (N.of_nat n) 32 + N.of_nat n) = false /\
  t64 (shl64 (N.of_nat n) 32 + N.of_nat n) = N.shiftl (N.of_nat n) 32 + N.of_nat n.
Proof.
  intros n Hn. do 32 (destruct n as [|n]; [vm_compute; split; reflexivity|]). lia.
Qed.

Lemma p_update_lanes_ok n : (1 <= n <= 31)%nat -> forall prof c,
  exists c', p_update_lanes prof (N.of_nat n) c = Ok c' /\
             to_h c' = {| hv0 := map4 (fun x => add64 x (N.shiftl (N.of_nat n) 32 + N.of_nat n)) (v0 c);
                          hv1 := map4 (rotate32by (N.of_nat n)) (v1 c); hmul0 := mul0 c; hmul1 := mul1 c |}.
Proof.
  intros Hn prof c. unfold p_update_lanes.
  destruct (inc_small n ltac:(lia)) as [H1 H2]. rewrite H1, andb_false_r. cbn [guard bind].
  rewrite p_rotate_32_by_ok by assumption. cbn [bind]. eexists. split; [reflexivity|].
  unfold to_h. cbn [v0 v1 mul0 mul1]. rewrite H2. reflexivity.
Qed.

Lemma p_remainder_ok : forall n, (n <= 31)%nat -> forall prof bytes, length bytes = n ->
  p_remainder prof bytes = Ok (remainder_packet bytes).
Proof.
  intros n Hn prof bytes Hl.
  do 32 (destruct n as [|n];
    [ repeat (destruct bytes as [|?b bytes]; try discriminate Hl); reflexivity | ]).
  lia.
Qed.

Lemma remainder_packet_length bytes : length (remainder_packet bytes) = 32%nat.
Proof. unfold remainder_packet. rewrite map_length, seq_length. reflexivity. Qed.

Lemma p_update_remainder_ok prof s : Inv s -> idx (buffer s) <> 0%nat ->
  exists c', p_update_remainder prof s = Ok c' /\
             to_h c' = hh_update_remainder (to_h (core s)) (pending (buffer s)).
Proof.
  intros HI Hne. pose proof HI as [Hlen Hidx]. unfold p_update_remainder, plen.
  destruct (p_update_lanes_ok (idx (buffer s)) ltac:(lia) prof (core s)) as (c1 & E1 & H1).
  rewrite E1. cbn [bind]. rewrite as_slice_ok by exact HI. cbn [bind].
  rewrite (p_remainder_ok (idx (buffer s))) by (try lia; apply pending_length; exact HI). cbn [bind].
  eexists. split; [reflexivity|].
  rewrite p_update_ok, H1. unfold hh_update_remainder, hh_update_packet.
  rewrite p_data_to_lanes_ok by apply remainder_packet_length.
  rewrite pending_length by exact HI. reflexivity.
Qed.

Lemma p_pre_finalize_ok prof s : Inv s ->
  exists c', p_pre_finalize prof s = Ok c' /\ to_h c' = pre_out (abs s).
Proof.
  intros HI. unfold p_pre_finalize, is_empty, pre_out, abs. cbn [fst snd].
  destruct (Nat.eqb_spec (idx (buffer s)) 0) as [E0|N0]; cbn [negb].
  - eexists. split; [reflexivity|]. unfold pending. rewrite E0. reflexivity.
  - destruct (p_update_remainder_ok prof s HI N0) as (c' & E & H). exists c'. split; [exact E|].
    rewrite H. destruct (pending (buffer s)) as [|b l] eqn:Ep; [|reflexivity].
    exfalso. apply N0. rewrite <- (pending_length _ HI), Ep. reflexivity.
Qed.

(* ---------------------------------------------------------------- finalisation *)
Lemma p_module_reduction_ok a3 a2 a1 a0 :
  p_module_reduction a3 a2 a1 a0 = (snd (modular_reduction a3 a2 a1 a0), fst (modular_reduction a3 a2 a1 a0)).
Proof. reflexivity. Qed.

Definition p_finalize (prof : profile) (w : width) (s : pstate) : res (list N) :=
  match w with
  | W64 => do x <- p_finalize64 prof s ;; Ok [x]
  | W128 => do x <- p_finalize128 prof s ;; Ok [fst x; snd x]
  | W256 => do x <- p_finalize256 prof s ;; Ok (lanes_list x)
  end.

Lemma p_finalize_ok prof w s : Inv s -> p_finalize prof w s = Ok (out w (abs s)).
Proof.
  intros HI. destruct (p_pre_finalize_ok prof s HI) as (c & E & H).
  unfold p_finalize, p_finalize64, p_finalize128, p_finalize256, out.
  destruct w; rewrite E; cbn [bind]; rewrite <- H.
  - unfold hh_finalize64. rewrite <- p_rounds_ok.
    generalize (iter 4 p_permute_and_update c). intros [a b m0 m1]. reflexivity.
  - unfold hh_finalize128. rewrite <- p_rounds_ok.
    generalize (iter 6 p_permute_and_update c). intros [a b m0 m1]. reflexivity.
  - unfold hh_finalize256. rewrite <- p_rounds_ok.
    generalize (iter 10 p_permute_and_update c). intros [a b m0 m1].
    rewrite !p_module_reduction_ok. cbn [to_h hv0 hv1 hmul0 hmul1 v0 v1 mul0 mul1].
    repeat match goal with |- context [modular_reduction ?a ?b ?c ?d] =>
      let m := fresh "m" in set (m := modular_reduction a b c d); destruct m end.
    reflexivity.
Qed.
