(* HistoryFacts.v — statements about the interpreter [run] derived from the refinement packages. *)
From Coq Require Import NArith List Lia Bool Arith.
From HW Require Import Word Chunks Packet Portable Spec Dispatch History.
From HW.Refine Require Import ChunksFacts WordFacts Logical PortableRefine.
Import ListNotations.

Lemma portable_is_spec : forall (prof : profile) (k : lanes) (d : list N) (w : width),
  exists s, p_append prof (p_new k) d = Ok s /\ p_finalize prof w s = Ok (HH w k d).
Proof.
  intros prof k d w. destruct (abs_new k) as [Ha Hi].
  destruct (p_append_ok prof (p_new k) d Hi) as (s & E & Hi' & Ha').
  exists s. split; [exact E|]. rewrite p_finalize_ok by exact Hi'.
  rewrite Ha', Ha, spec_as_absorb. reflexivity.
Qed.

Lemma c_finalize_CP prof w s : c_finalize prof w (CP s) = p_finalize prof w s.
Proof. destruct w; reflexivity. Qed.

Lemma portable_run_is_spec : forall (e : env) (k : lanes) (d : list N) (w : width),
  run e [ONew 0 BP false k; OHash w 0 d] = [OutOk; OutDigest (HH w k d)] /\
  run e [ONew 0 BP false k; OAppend 0 d; OFin w 0] = [OutOk; OutOk; OutDigest (HH w k d)].
Proof.
  intros e k d w. destruct (portable_is_spec (e_prof e) k d w) as (s & E & F).
  unfold run. cbn [run_from step h_new of_res store remove lookup Nat.eqb h_append h_finalize c_append].
  rewrite E. cbn [bind of_res store remove lookup Nat.eqb app h_finalize].
  rewrite c_finalize_CP, F. split; reflexivity.
Qed.
