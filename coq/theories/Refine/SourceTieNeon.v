(* SourceTieNeon.v — the NEON kernel and V2x64U wrapper of src/aarch64.rs, translated from the current source into
   VecLite (gen/SrcNeon.v), interpreted with the intrinsic models of Neon.v as primitives, are the hand-written model
   Neon.v, function by function.  (This backend cannot run natively here: besides this tie only the Miri runs of C03
   connect the model to the code.) *)
From Coq Require Import NArith ZArith List String Bool Arith Lia.
From HW Require Import Word Packet Mem X86 Portable Neon.
From HW.Facts Require Import VecLite.
From HW.Refine Require Import SourceTieSse.
From HWGen Require Import SrcNeon.
Import ListNotations.
Local Open Scope string_scope.
Local Open Scope N_scope.

(* signed 32-bit addition with the overflow check of a build that has overflow checks *)
Definition sgn32z (x : N) : Z := if N.testbit (t32 x) 31 then (Z.of_N (t32 x) - 4294967296)%Z else Z.of_N (t32 x).
Definition add_i32 (p : profile) (a b : N) : res N :=
  let r := (sgn32z a + sgn32z b)%Z in
  if ovf p && ((r <? -2147483648)%Z || (2147483647 <? r)%Z) then Panic else Ok (t32 (t32 a + t32 b)).

Definition idv : list vval -> option (res vval) := on1 (fun a => match a with X2 x => Some (Ok (X2 x)) | _ => None end).

Definition neon_prims (p : profile) (b : packet) : list (string * (list vval -> option (res vval))) :=
  [("vaddq_u64", vv vaddq_u64); ("vandq_u64", vv vandq_u64); ("vorrq_u64", vv vorrq_u64); ("veorq_u64", vv veorq_u64);
   ("vbicq_u64", vv vbicq_u64); ("vshlq_u32", vv vshlq_u32);
   ("vsubq_u64", vv (v2map2 (fun x y => t64 (x + 18446744073709551616 - y))));
   (* reinterpret casts are identities on the 128 bits *)
   ("vreinterpretq_u32_u64", idv); ("vreinterpretq_u8_u64", idv); ("vreinterpretq_u64_u8", idv); ("vreinterpretq_u64_u32", idv);
   ("vreinterpretq_u64_u16", idv); ("vreinterpretq_u64_s32", idv);
   ("vmovn_u64", on1 (fun a => match a with X2 x => Some (Ok (XP (vmovn_u64 x))) | _ => None end));
   ("vshrn_n_u64", on2 (fun a k => match a, k with X2 x, XN 32 => Some (Ok (XP (vshrn_n_u64_32 x))) | _, _ => None end));
   ("vmull_u32", on2 (fun a c => match a, c with XP x, XP y => Some (Ok (X2 (vmull_u32 x y))) | _, _ => None end));
   ("vshrq_n_u64", vn vshrq_n_u64);
   ("vrev64q_u32", on1 (fun a => match a with X2 x => Some (Ok (X2 (vrev64q_u32 x))) | _ => None end));
   ("vdupq_n_u32", nv vdupq_n_u32); ("vdupq_n_u64", nv vdupq_n_u64);
   ("vdupq_n_s32", nv (fun x => vdupq_n_u32 (t32 x)));
   ("vdupq_n_u8", nv (fun x => v128_of_bytes (repeat (t8 x) 16)));
   ("vsetq_lane_u32", fun vs => match vs with [XN x; X2 v; XN 3] => Some (Ok (X2 (vsetq_lane_u32_3 x v))) | _ => None end);
   ("vextq_u8", fun vs => match vs with [X2 a; X2 c; XN 8] => Some (Ok (X2 (vextq_u8_8 a c))) | _ => None end);
   ("vqtbl1q_u8", vv (fun t idx => vqtbl1q_u8 (bytes_of_v128 t) (bytes_of_v128 idx)));
   (* a load through a pointer to a local array reads the array's first 16 bytes / two u64 *)
   ("vld1q_u8", on1 (fun a => match a with
                              | XB l => if (16 <=? List.length l)%nat then Some (Ok (X2 (v128_of_bytes (firstn 16 l)))) else None
                              | _ => None end));
   ("vld1q_u64", on1 (fun a => match a with XT [XN lo; XN hi] => Some (Ok (X2 (t64 lo, t64 hi))) | _ => None end));
   ("From::from", on1 (fun a => Some (Ok a)));
   ("as_i32", nn t32);
   ("not_i32", nn (fun x => t32 (N.lxor (t32 x) M32)));
   ("add_i32", on2 (fun a c => match a, c with XN x, XN y => Some (do r <- add_i32 p x y ;; Ok (XN r)) | _, _ => None end));
   ("buffer.len", fun vs => match vs with [] => Some (Ok (XN (N.of_nat (plen b)))) | _ => None end);
   ("buffer.as_slice", fun vs => match vs with [] => Some (do sl <- as_slice p b ;; Ok (XB sl)) | _ => None end);
   ("NeonHash::remainder", on1 (fun a => match a with
                                         | XB sl => Some (do r <- n_remainder p (self_buf N_BUF_ADDR sl) ;; Ok (XT [X2 (fst r); X2 (snd r)]))
                                         | _ => None end))].
Definition neon_prim (p : profile) (b : packet) (f : string) (vs : list vval) : option (res vval) :=
  match tbl_find (neon_prims p b) f with Some h => h vs | None => None end.

Definition ncore_vals (c : ncore) : list vval :=
  [X2 (n_v0L c); X2 (n_v0H c); X2 (n_v1L c); X2 (n_v1H c); X2 (n_mul0L c); X2 (n_mul0H c); X2 (n_mul1L c); X2 (n_mul1H c)].

Ltac vln :=
  cbv beta iota zeta delta
    [vcall vapp veval vfind vbind vlookup String.eqb Ascii.eqb Bool.eqb bind app src_neon vf_params vf_body vf_ret
     neon_prim neon_prims tbl_find on1 on2 vv vn nv nn idv Nat.add ncore_vals
     n_v0L n_v0H n_v1L n_v1H n_mul0L n_mul0H n_mul1L n_mul1H].

Section NeonKernel.
Variable p : profile.
Variable b : packet.
Notation call := (vcall (neon_prim p b) src_neon).

Lemma neon_new_ok fuel hi lo : call (8 + fuel)%nat "V2x64U::new" [XN hi; XN lo] = Ok (X2 (NV2_new hi lo)).
Proof. vln. reflexivity. Qed.

Lemma neon_zipper_merge_ok fuel v :
  call (10 + fuel)%nat "NeonHash::zipper_merge" [X2 v] = Ok (X2 (n_zipper_merge v)).
Proof. vln. reflexivity. Qed.

Lemma neon_slli_ok fuel a : call (8 + fuel)%nat "_mm_slli_si128_8" [X2 a] = Ok (X2 (n_slli_si128_8 a)).
Proof. vln. reflexivity. Qed.

Lemma neon_update_ok fuel c pH pL :
  call (14 + fuel)%nat "NeonHash::update" (ncore_vals c ++ [XT [X2 pH; X2 pL]]) = Ok (XT (ncore_vals (n_update c pH pL))).
Proof. destruct c. vln. reflexivity. Qed.

Lemma neon_permute_and_update_ok fuel c :
  call (18 + fuel)%nat "NeonHash::permute_and_update" (ncore_vals c) = Ok (XT (ncore_vals (n_permute_and_update c))).
Proof. destruct c. vln. reflexivity. Qed.

Lemma neon_modular_reduction_ok fuel x init :
  call (14 + fuel)%nat "NeonHash::modular_reduction" [X2 x; X2 init] = Ok (X2 (n_modular_reduction x init)).
Proof. vln. reflexivity. Qed.

Lemma neon_wrapper_ops fuel x y :
  call (8 + fuel)%nat "V2x64U::Add::add" [X2 x; X2 y] = Ok (X2 (vaddq_u64 x y)) /\
  call (8 + fuel)%nat "V2x64U::BitXor::bitxor" [X2 x; X2 y] = Ok (X2 (veorq_u64 x y)) /\
  call (8 + fuel)%nat "V2x64U::BitOr::bitor" [X2 x; X2 y] = Ok (X2 (vorrq_u64 x y)) /\
  call (8 + fuel)%nat "V2x64U::BitAnd::bitand" [X2 x; X2 y] = Ok (X2 (vandq_u64 x y)) /\
  call (8 + fuel)%nat "V2x64U::AddAssign::add_assign" [X2 x; X2 y] = Ok (X2 (vaddq_u64 x y)) /\
  call (8 + fuel)%nat "V2x64U::BitXorAssign::bitxor_assign" [X2 x; X2 y] = Ok (X2 (veorq_u64 x y)) /\
  call (8 + fuel)%nat "V2x64U::BitOrAssign::bitor_assign" [X2 x; X2 y] = Ok (X2 (vorrq_u64 x y)) /\
  call (8 + fuel)%nat "V2x64U::BitAndAssign::bitand_assign" [X2 x; X2 y] = Ok (X2 (vandq_u64 x y)) /\
  call (8 + fuel)%nat "V2x64U::rotate_by_32" [X2 x] = Ok (X2 (NV2_rotate_by_32 x)) /\
  call (8 + fuel)%nat "V2x64U::and_not" [X2 x; X2 y] = Ok (X2 (NV2_and_not x y)).
Proof. repeat split; vln; reflexivity. Qed.

Lemma neon_from_impls_are_identities fuel v :
  forall f, In f src_neon_from_impls -> call (6 + fuel)%nat f [X2 v] = Ok (X2 v).
Proof.
  intros f Hf. cbv [src_neon_from_impls In] in Hf.
  repeat match goal with H : _ \/ _ |- _ => destruct H as [H|H] end; try contradiction; subst f; vln; reflexivity.
Qed.

(* rotate_32_by(&mut self, count: i32):  count + (!32 + 1)  is i32 arithmetic; no overflow for 0 <= count < 2^31 *)
Lemma t32_small x : x < 4294967296 -> t32 x = x.
Proof. intros H. unfold t32. change M32 with (N.ones 32). rewrite N.land_ones. apply N.mod_small. exact H. Qed.

Lemma neg32_ok : add_i32 p (t32 (N.lxor (t32 32) M32)) 1 = Ok 4294967264.
Proof. unfold add_i32. vm_compute (sgn32z _). vm_compute (sgn32z 1). cbn. rewrite andb_false_r. reflexivity. Qed.

Lemma add_i32_minus32 count : count < 2147483648 ->
  add_i32 p count 4294967264 = Ok (t32 (count + 4294967296 - 32)).
Proof.
  intros H. unfold add_i32.
  assert (E : t32 count = count) by (apply t32_small; lia).
  assert (SC : sgn32z count = Z.of_N count).
  { unfold sgn32z. rewrite E. rewrite (N.bits_above_log2 count 31); [reflexivity|].
    destruct (N.eq_dec count 0) as [->|NZ]; [reflexivity|]. apply N.log2_lt_pow2; lia. }
  assert (S32 : sgn32z 4294967264 = (-32)%Z) by reflexivity.
  rewrite SC, S32.
  replace ((Z.of_N count + -32 <? -2147483648)%Z) with false by (symmetry; apply Z.ltb_ge; lia).
  replace ((2147483647 <? Z.of_N count + -32)%Z) with false by (symmetry; apply Z.ltb_ge; lia).
  rewrite andb_false_r, E. f_equal. f_equal. change (t32 4294967264) with 4294967264. lia.
Qed.

Lemma neon_rotate_32_by_ok fuel c count : count < 2147483648 ->
  call (14 + fuel)%nat "NeonHash::rotate_32_by" (ncore_vals c ++ [XN count]) = Ok (XT (ncore_vals (n_rotate_32_by c count))).
Proof.
  intros H. destruct c as [c1 c2 c3 c4 c5 c6 c7 c8]. vln. rewrite neg32_ok. vln. rewrite (add_i32_minus32 _ H). vln.
  unfold n_rotate_32_by. cbn [n_v0L n_v0H n_v1L n_v1H n_mul0L n_mul0H n_mul1L n_mul1H].
  assert (T : forall x, t32 (t32 x) = t32 x) by (intros x; unfold t32; rewrite <- N.land_assoc, N.land_diag; reflexivity).
  rewrite !T. reflexivity.
Qed.

Definition lift_n {A} (r : res A) (k : A -> vval) : res vval :=
  match r with Ok a => Ok (k a) | Panic => Panic | Fault => Fault end.

Lemma neon_update_remainder_ok fuel c : N.of_nat (plen b) < 2147483648 ->
  call (22 + fuel)%nat "NeonHash::update_remainder" (ncore_vals c)
  = lift_n (n_update_remainder p {| n_core := c; n_buffer := b |}) (fun c' => XT (ncore_vals c')).
Proof.
  intros H. destruct c as [c1 c2 c3 c4 c5 c6 c7 c8]. unfold n_update_remainder, lift_n. cbn [n_core n_buffer].
  assert (E : t32 (N.of_nat (plen b)) = N.of_nat (plen b)) by (apply t32_small; lia).
  vln. rewrite neg32_ok. vln. rewrite !E. rewrite (add_i32_minus32 _ H). vln.
  unfold n_rotate_32_by. cbn [n_v0L n_v0H n_v1L n_v1H n_mul0L n_mul0H n_mul1L n_mul1H].
  assert (T : forall x, t32 (t32 x) = t32 x) by (intros x; unfold t32; rewrite <- N.land_assoc, N.land_diag; reflexivity).
  rewrite ?T, ?E.
  destruct (as_slice p b) as [sl| |]; vln; [|reflexivity|reflexivity].
  destruct (n_remainder p (self_buf N_BUF_ADDR sl)) as [[pH pL]| |]; vln; reflexivity.
Qed.
End NeonKernel.
