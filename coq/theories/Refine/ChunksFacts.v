(* ChunksFacts.v — characterisation of chunks32 (slice::chunks_exact(32)) and its behaviour on
   concatenations.  Nothing here depends on the fuel. *)
From Coq Require Import NArith List Lia Bool Arith.
From HW Require Import Chunks.
Import ListNotations.

Section Facts.
Context {A : Type}.
Implicit Types d x y : list A.

Lemma at_least_32_spec d : at_least_32 d = (32 <=? length d).
Proof.
  unfold at_least_32. destruct (skipn 31 d) as [|a l] eqn:E.
  - assert (H : length (skipn 31 d) = 0) by (rewrite E; reflexivity). rewrite skipn_length in H.
    symmetry. apply Nat.leb_gt. lia.
  - assert (H : length (skipn 31 d) = S (length l)) by (rewrite E; reflexivity). rewrite skipn_length in H.
    symmetry. apply Nat.leb_le. lia.
Qed.

Lemma chunks_fuel_short n d : length d < 32 -> chunks_fuel n d = ([], d).
Proof.
  intros H. destruct n as [|n]; cbn [chunks_fuel]; [reflexivity|].
  rewrite at_least_32_spec. destruct (Nat.leb_spec 32 (length d)); [lia|reflexivity].
Qed.

Lemma chunks_fuel_step n d : 32 <= length d ->
  chunks_fuel (S n) d = (let '(ps, r) := chunks_fuel n (skipn 32 d) in (firstn 32 d :: ps, r)).
Proof.
  intros H. cbn [chunks_fuel]. rewrite at_least_32_spec.
  destruct (Nat.leb_spec 32 (length d)); [reflexivity|lia].
Qed.

(* enough fuel: the result is that of [chunks32] *)
Lemma chunks_fuel_enough : forall n d, length d / 32 <= n -> chunks_fuel n d = chunks_fuel (length d / 32) d.
Proof.
  induction n as [|n IH]; intros d Hn.
  - replace (length d / 32) with 0 by lia. reflexivity.
  - destruct (Nat.lt_ge_cases (length d) 32) as [Hs|Hl].
    + rewrite !chunks_fuel_short by assumption. reflexivity.
    + assert (Hq : length d / 32 = S (length (skipn 32 d) / 32)).
      { rewrite skipn_length. replace (length d) with ((length d - 32) + 1 * 32) at 1 by lia.
        rewrite Nat.div_add by lia. lia. }
      rewrite Hq. rewrite !chunks_fuel_step by assumption.
      rewrite IH by (rewrite Hq in Hn; lia). reflexivity.
Qed.

Lemma chunks32_fuel n d : length d / 32 <= n -> chunks_fuel n d = chunks32 d.
Proof.
  intros H. unfold chunks32. rewrite chunks_fuel_enough by assumption.
  symmetry. apply chunks_fuel_enough. apply Nat.div_le_upper_bound; lia.
Qed.

Lemma chunks32_short d : length d < 32 -> chunks32 d = ([], d).
Proof. intros H. unfold chunks32. apply chunks_fuel_short; assumption. Qed.

Lemma chunks32_step d : 32 <= length d ->
  chunks32 d = (let '(ps, r) := chunks32 (skipn 32 d) in (firstn 32 d :: ps, r)).
Proof.
  intros H. unfold chunks32 at 1. destruct (length d) as [|n] eqn:E; [lia|].
  rewrite chunks_fuel_step by lia.
  rewrite chunks32_fuel; [reflexivity|].
  rewrite skipn_length, E. apply Nat.div_le_upper_bound; lia.
Qed.

(* strong induction in steps of 32 *)
Lemma list_ind32 (P : list A -> Prop) :
  (forall d, length d < 32 -> P d) ->
  (forall d, 32 <= length d -> P (skipn 32 d) -> P d) ->
  forall d, P d.
Proof.
  intros Hs Hl d. remember (length d) as n eqn:E. revert d E.
  induction n as [n IH] using lt_wf_ind. intros d E.
  destruct (Nat.lt_ge_cases (length d) 32) as [H|H]; [apply Hs; assumption|].
  apply Hl; [assumption|]. apply (IH (length (skipn 32 d))); [rewrite skipn_length; lia|reflexivity].
Qed.

(* what chunks_exact(32) means *)
Lemma chunks32_spec d :
  let '(ps, r) := chunks32 d in
  d = concat ps ++ r /\ Forall (fun p => length p = 32) ps /\ length r < 32 /\ length r = length d mod 32.
Proof.
  induction d as [d Hs|d Hl IH] using list_ind32.
  - rewrite chunks32_short by assumption. cbn [concat app]. split; [reflexivity|]. split; [constructor|]. split; [assumption|].
    symmetry; apply Nat.mod_small; assumption.
  - rewrite chunks32_step by assumption. destruct (chunks32 (skipn 32 d)) as [ps r].
    destruct IH as (E & F & L & M). repeat split.
    + cbn [concat]. rewrite <- app_assoc, <- E. symmetry; apply firstn_skipn.
    + constructor; [rewrite firstn_length; lia|assumption].
    + assumption.
    + rewrite M, skipn_length. replace (length d) with ((length d - 32) + 1 * 32) at 2 by lia.
      rewrite Nat.mod_add by lia. reflexivity.
Qed.

(* feeding x then y = feeding x ++ y: the remainder of x is carried over *)
Lemma chunks32_app x y :
  chunks32 (x ++ y) =
  (let '(ps, r) := chunks32 x in let '(ps', r') := chunks32 (r ++ y) in (ps ++ ps', r')).
Proof.
  induction x as [x Hs|x Hl IH] using list_ind32.
  - rewrite (chunks32_short x) by assumption. destruct (chunks32 (x ++ y)); reflexivity.
  - rewrite (chunks32_step x) by assumption.
    rewrite (chunks32_step (x ++ y)) by (rewrite app_length; lia).
    assert (E1 : firstn 32 (x ++ y) = firstn 32 x).
    { rewrite firstn_app. replace (32 - length x) with 0 by lia. cbn [firstn]. apply app_nil_r. }
    assert (E2 : skipn 32 (x ++ y) = skipn 32 x ++ y).
    { rewrite skipn_app. replace (32 - length x) with 0 by lia. reflexivity. }
    rewrite E1, E2, IH. destruct (chunks32 (skipn 32 x)) as [ps r].
    destruct (chunks32 (r ++ y)) as [ps' r']. reflexivity.
Qed.

End Facts.
