(* Codec.v — the 164-byte checkpoint as an encoding of the logical state:
     16 lanes little-endian (v0, v1, mul0, mul1)  ||  pending bytes padded with zeros to 32  ||  count (u32 LE)
   [decode] accepts ANY byte list (the count field is clamped and the pending bytes are absorbed),
   and [decode (encode l) = l] for every well-formed logical state. *)
From Coq Require Import NArith List Lia Bool Arith.
From HW Require Import Word Chunks Spec.
From HW.Bits Require Import Bitblast.
From HW.Refine Require Import ChunksFacts WordFacts Logical.
Import ListNotations.
Local Open Scope N_scope.

Definition hstate_bytes (h : hstate) : list N :=
  flat_map (to_le_bytes 8) (lanes_list (hv0 h) ++ lanes_list (hv1 h) ++ lanes_list (hmul0 h) ++ lanes_list (hmul1 h)).

Definition encode (l : L) : list N :=
  hstate_bytes (fst l) ++ (snd l ++ repeat 0 (32 - length (snd l)))
    ++ to_le_bytes 4 (t32 (N.of_nat (length (snd l)))).

Definition lanes_of_bytes (d : list N) (off : nat) : lanes :=
  (le_bytes (sub d off 8), le_bytes (sub d (off + 8) 8), le_bytes (sub d (off + 16) 8), le_bytes (sub d (off + 24) 8)).
Definition hstate_of_bytes (c : list N) : hstate :=
  {| hv0 := lanes_of_bytes c 0; hv1 := lanes_of_bytes c 32; hmul0 := lanes_of_bytes c 64; hmul1 := lanes_of_bytes c 96 |}.

Definition decode (c : list N) : L :=
  absorb (hstate_of_bytes c, [])
         (firstn (N.to_nat (N.min (le_bytes (sub c 160 4)) 32)) (sub c 128 32)).

(* well-formed lanes *)
Definition Hwf (h : hstate) : Prop :=
  wlanesb (hv0 h) = true /\ wlanesb (hv1 h) = true /\ wlanesb (hmul0 h) = true /\ wlanesb (hmul1 h) = true.

Lemma decode_wf c : Lwf (decode c).
Proof. apply absorb_wf. Qed.

Lemma hstate_bytes_length h : length (hstate_bytes h) = 128%nat.
Proof. destruct h as [[[[? ?] ?] ?] [[[? ?] ?] ?] [[[? ?] ?] ?] [[[? ?] ?] ?]]. reflexivity. Qed.

Lemma encode_length l : Lwf l -> length (encode l) = 164%nat.
Proof.
  unfold Lwf, encode. intros H. rewrite !app_length, hstate_bytes_length, repeat_length, to_le_bytes_length. lia.
Qed.

Lemma le8_explicit x : w64b x = true ->
  le_bytes [N.land x M8; N.land (N.shiftr x 8) M8; N.land (N.shiftr (N.shiftr x 8) 8) M8;
            N.land (N.shiftr (N.shiftr (N.shiftr x 8) 8) 8) M8;
            N.land (N.shiftr (N.shiftr (N.shiftr (N.shiftr x 8) 8) 8) 8) M8;
            N.land (N.shiftr (N.shiftr (N.shiftr (N.shiftr (N.shiftr x 8) 8) 8) 8) 8) M8;
            N.land (N.shiftr (N.shiftr (N.shiftr (N.shiftr (N.shiftr (N.shiftr x 8) 8) 8) 8) 8) 8) M8;
            N.land (N.shiftr (N.shiftr (N.shiftr (N.shiftr (N.shiftr (N.shiftr (N.shiftr x 8) 8) 8) 8) 8) 8) 8) M8] = x.
Proof. intros H. rewrite <- (w64b_t64 x H) at 9. apply (le_bytes_to_le_bytes_8 x). Qed.

Lemma wlanes_split a0 a1 a2 a3 : wlanesb (a0, a1, a2, a3) = true ->
  w64b a0 = true /\ w64b a1 = true /\ w64b a2 = true /\ w64b a3 = true.
Proof. cbn [wlanesb]. rewrite !andb_true_iff. tauto. Qed.

Lemma hstate_of_bytes_encode h rest : Hwf h -> hstate_of_bytes (hstate_bytes h ++ rest) = h.
Proof.
  destruct h as [[[[a0 a1] a2] a3] [[[b0 b1] b2] b3] [[[c0 c1] c2] c3] [[[d0 d1] d2] d3]].
  intros (Ha & Hb & Hc & Hd). cbn [hv0 hv1 hmul0 hmul1] in *.
  apply wlanes_split in Ha as (? & ? & ? & ?). apply wlanes_split in Hb as (? & ? & ? & ?).
  apply wlanes_split in Hc as (? & ? & ? & ?). apply wlanes_split in Hd as (? & ? & ? & ?).
  unfold hstate_of_bytes, lanes_of_bytes, hstate_bytes, sub.
  cbn [hv0 hv1 hmul0 hmul1 lanes_list flat_map app to_le_bytes Nat.add firstn skipn].
  rewrite !le8_explicit by assumption. reflexivity.
Qed.

Lemma sub_mid (A B C : list N) n m : length A = n -> length B = m -> sub (A ++ B ++ C) n m = B.
Proof.
  intros H <-. unfold sub. rewrite skipn_app, H, Nat.sub_diag, skipn_all2 by lia. cbn [skipn app].
  rewrite firstn_app, Nat.sub_diag, firstn_all. cbn [firstn]. apply app_nil_r.
Qed.

Lemma sub_end (A B : list N) n m : length A = n -> length B = m -> sub (A ++ B) n m = B.
Proof.
  intros H <-. unfold sub. rewrite skipn_app, H, Nat.sub_diag, skipn_all2 by lia. cbn [skipn app]. apply firstn_all.
Qed.

Lemma absorb_short h p : (length p < 32)%nat -> absorb (h, []) p = (h, p).
Proof. intros H. unfold absorb. cbn [fst snd app]. rewrite chunks32_short by assumption. reflexivity. Qed.

Theorem decode_encode l : Lwf l -> Hwf (fst l) -> decode (encode l) = l.
Proof.
  destruct l as [h p]. unfold Lwf. cbn [fst snd]. intros Hp Hh.
  unfold decode, encode. cbn [fst snd].
  set (pad := p ++ repeat 0 (32 - length p)).
  assert (Hpad : length pad = 32%nat) by (unfold pad; rewrite app_length, repeat_length; lia).
  set (cnt := to_le_bytes 4 (t32 (N.of_nat (length p)))).
  rewrite hstate_of_bytes_encode by assumption.
  assert (E1 : sub (hstate_bytes h ++ pad ++ cnt) 128 32 = pad).
  { apply sub_mid; [apply hstate_bytes_length|exact Hpad]. }
  assert (E2 : sub (hstate_bytes h ++ pad ++ cnt) 160 4 = cnt).
  { rewrite app_assoc. apply sub_end; [|apply to_le_bytes_length].
    rewrite app_length, hstate_bytes_length, Hpad. reflexivity. }
  rewrite E1, E2. unfold cnt. rewrite le_bytes_to_le_bytes_4.
  assert (E3 : t32 (t32 (N.of_nat (length p))) = N.of_nat (length p)).
  { assert (Hs : N.of_nat (length p) < 32) by lia.
    unfold t32. rewrite M32_ones, !N.land_ones.
    assert (Hm : N.of_nat (length p) mod 2 ^ 32 = N.of_nat (length p)).
    { apply N.mod_small. apply N.lt_trans with 32; [exact Hs|reflexivity]. }
    rewrite Hm. exact Hm. }
  rewrite E3. rewrite N.min_l by lia. rewrite Nat2N.id.
  unfold pad. rewrite firstn_app, Nat.sub_diag, firstn_all. cbn [firstn]. rewrite app_nil_r.
  apply absorb_short. assumption.
Qed.
