(* Generic.v — consequences of the refinement packages that hold for EVERY hasher type of the model
   (PortableHash, SseHash, AvxHash, NeonHash, WasmHash, HighwayHasher in every configuration):
   feeding, checkpoint hops, restore from arbitrary bytes, observers, and safety of whole histories. *)
From Coq Require Import NArith List Lia Bool Arith.
From HW Require Import Word Chunks Packet Mem Stream X86 Portable Spec Sse Avx Neon Wasm Dispatch History.
From HW.Refine Require Import ChunksFacts WordFacts Logical PortableRefine Codec PortableCodec StreamRefine
  SseRefine Backends.
Import ListNotations.
Local Open Scope N_scope.

Definition wbs (fs : list (list N)) : Prop := Forall (fun d => wbytesb d = true) fs.

(* ---------------------------------------------------------------- feeding a list of chunks *)
Definition feed (e : env) (h : hasher) (fs : list (list N)) : res hasher :=
  fold_left (fun r d => do h <- r ;; h_append e h d) fs (Ok h).

Lemma feed_cons e h d fs : feed e h (d :: fs) = do h' <- h_append e h d ;; feed e h' fs.
Proof.
  unfold feed. cbn [fold_left bind]. destruct (h_append e h d) as [h'| |]; cbn [bind]; [reflexivity| |].
  - induction fs as [|x fs IH]; cbn [fold_left bind]; [reflexivity|exact IH].
  - induction fs as [|x fs IH]; cbn [fold_left bind]; [reflexivity|exact IH].
Qed.

Lemma feed_ok e fs : wbs fs -> forall h, HInv e h ->
  exists h', feed e h fs = Ok h' /\ HInv e h' /\ habs h' = absorb (habs h) (concat fs).
Proof.
  induction 1 as [|d fs Hd _ IH]; intros h HI.
  - exists h. split; [reflexivity|]. split; [exact HI|]. cbn [concat]. symmetry. apply absorb_nil.
    apply (habs_wf e h HI).
  - rewrite feed_cons. destruct (h_append_ok e h d HI Hd) as (h1 & E1 & I1 & A1). rewrite E1. cbn [bind].
    destruct (IH h1 I1) as (h2 & E2 & I2 & A2). exists h2. split; [exact E2|]. split; [exact I2|].
    rewrite A2, A1. cbn [concat]. apply absorb_app.
Qed.

(* only the concatenation matters: any chunking, any hasher type, any environment *)
Theorem streaming e b force k fs w h0 : wlanesb k = true -> wbs fs -> h_new e b force k = Ok (Some h0) ->
  exists h, feed e h0 fs = Ok h /\ h_finalize e w h = Ok (HH w k (concat fs)).
Proof.
  intros Hk Hfs Hn. destruct (h_new_ok e b force k Hk) as [E|(h & E & I & A)]; [congruence|].
  rewrite Hn in E. injection E as <-.
  destruct (feed_ok e fs Hfs h0 I) as (h' & F & I' & A'). exists h'. split; [exact F|].
  rewrite h_finalize_ok by exact I'. rewrite A', A, spec_as_absorb. reflexivity.
Qed.

(* ---------------------------------------------------------------- checkpoints *)
Lemma to_le_bytes_wb n x : wbytesb (to_le_bytes n x) = true.
Proof.
  revert x. induction n as [|n IH]; intros x; cbn [to_le_bytes wbytesb forallb]; [reflexivity|].
  fold (wbytesb (to_le_bytes n (N.shiftr x 8))). rewrite IH, andb_true_r.
  unfold w8b. apply N.ltb_lt. change M8 with (N.ones 8). rewrite N.land_ones. apply N.mod_lt. discriminate.
Qed.

Lemma flat_map_wb (l : list N) : wbytesb (flat_map (to_le_bytes 8) l) = true.
Proof. induction l as [|x l IH]; [reflexivity|]. cbn [flat_map]. rewrite wbytesb_app', to_le_bytes_wb, IH. reflexivity. Qed.

Lemma encode_wb l : wbytesb (snd l) = true -> wbytesb (encode l) = true.
Proof.
  intros H. unfold encode, hstate_bytes. rewrite !wbytesb_app', flat_map_wb, H, wbytesb_repeat0, to_le_bytes_wb. reflexivity.
Qed.

(* checkpoint on one hasher, restore on any type: the logical state is carried over exactly *)
Definition hop (e : env) (h : hasher) (b : backend) (force : bool) : res (option hasher) :=
  do c <- h_checkpoint e h ;; h_restore e b force c.

Lemma hop_ok e h b force : HInv e h -> b <> BB -> ctor_ok e (habs h) (hop e h b force).
Proof.
  intros HI Hb. unfold hop. rewrite h_checkpoint_ok by exact HI. cbn [bind].
  destruct (habs_wf e h HI) as (Hl & Hw & Hbs).
  rewrite <- (decode_encode (habs h) Hl Hw) at 1.
  apply h_restore_ok; [apply encode_wb; exact Hbs|exact Hb].
Qed.

(* any number of hops, each followed by more chunks; None = a safe SSE/AVX constructor declined *)
Definition seg : Type := (backend * bool * list (list N))%type.
Fixpoint hops (e : env) (h : hasher) (segs : list seg) : res (option hasher) :=
  match segs with
  | [] => Ok (Some h)
  | (b, force, fs) :: rest =>
      do oh <- hop e h b force ;;
      match oh with
      | None => Ok None
      | Some h' => do h'' <- feed e h' fs ;; hops e h'' rest
      end
  end.
Definition segs_ok (segs : list seg) : Prop := Forall (fun s => fst (fst s) <> BB /\ wbs (snd s)) segs.
Definition segs_bytes (segs : list seg) : list N := concat (map (fun s => concat (snd s)) segs).

Lemma hops_ok e segs : segs_ok segs -> forall h, HInv e h ->
  ctor_ok e (absorb (habs h) (segs_bytes segs)) (hops e h segs).
Proof.
  induction 1 as [|[[b force] fs] segs [Hb Hfs] _ IH]; intros h HI; cbn [hops].
  - right. exists h. split; [reflexivity|]. split; [exact HI|]. unfold segs_bytes. cbn [map concat].
    symmetry. apply absorb_nil. apply (habs_wf e h HI).
  - cbn [fst snd] in *. destruct (hop_ok e h b force HI Hb) as [E|(h1 & E & I1 & A1)]; rewrite E; cbn [bind].
    + left. reflexivity.
    + destruct (feed_ok e fs Hfs h1 I1) as (h2 & F & I2 & A2). rewrite F. cbn [bind].
      destruct (IH h2 I2) as [E3|(h3 & E3 & I3 & A3)]; [left; exact E3|].
      right. exists h3. split; [exact E3|]. split; [exact I3|].
      rewrite A3, A2, A1. unfold segs_bytes. cbn [map concat snd]. apply absorb_app.
Qed.

Theorem checkpoint_transparent e b force k fs segs w h0 h1 hn :
  wlanesb k = true -> wbs fs -> segs_ok segs ->
  h_new e b force k = Ok (Some h0) -> feed e h0 fs = Ok h1 -> hops e h1 segs = Ok (Some hn) ->
  h_finalize e w hn = Ok (HH w k (concat fs ++ segs_bytes segs)).
Proof.
  intros Hk Hfs Hs Hn Hf Hh. destruct (h_new_ok e b force k Hk) as [E|(h & E & I & A)]; [congruence|].
  rewrite Hn in E. injection E as <-.
  destruct (feed_ok e fs Hfs h0 I) as (h' & F & I' & A'). rewrite Hf in F. injection F as <-.
  destruct (hops_ok e segs Hs h1 I') as [E3|(h3 & E3 & I3 & A3)]; [congruence|].
  rewrite Hh in E3. injection E3 as <-.
  rewrite h_finalize_ok by exact I3. rewrite A3, A', A, absorb_app, spec_as_absorb. reflexivity.
Qed.

(* ---------------------------------------------------------------- safety of whole histories *)
Definition regs_ok (e : env) (rs : regs) : Prop := forall r h, lookup rs r = Some h -> HInv e h.

Lemma lookup_remove rs r r' : lookup (remove rs r) r' = if Nat.eqb r r' then None else lookup rs r'.
Proof.
  induction rs as [|[k h] rs IH]; cbn [remove lookup].
  - destruct (Nat.eqb r r'); reflexivity.
  - destruct (Nat.eqb_spec k r) as [->|Hk].
    + rewrite IH. destruct (Nat.eqb_spec r r') as [->|Hr]; [reflexivity|].
      destruct (Nat.eqb_spec r r'); [contradiction|reflexivity].
    + cbn [lookup]. rewrite IH. destruct (Nat.eqb_spec k r') as [->|Hk'].
      * destruct (Nat.eqb_spec r r') as [->|]; [contradiction|reflexivity].
      * reflexivity.
Qed.

Lemma lookup_store rs r h r' : lookup (store rs r h) r' = if Nat.eqb r r' then Some h else lookup rs r'.
Proof.
  unfold store. cbn [lookup]. destruct (Nat.eqb_spec r r') as [->|Hr]; [reflexivity|].
  rewrite lookup_remove. destruct (Nat.eqb_spec r r'); [contradiction|reflexivity].
Qed.

Lemma regs_ok_store e rs r h : regs_ok e rs -> HInv e h -> regs_ok e (store rs r h).
Proof.
  intros Hr Hh r' h'. rewrite lookup_store. destruct (Nat.eqb r r'); [intros [= <-]; exact Hh|apply Hr].
Qed.
Lemma regs_ok_remove e rs r : regs_ok e rs -> regs_ok e (remove rs r).
Proof. intros Hr r' h'. rewrite lookup_remove. destruct (Nat.eqb r r'); [discriminate|apply Hr]. Qed.

(* operations whose inputs are bytes / 64-bit words (what the harness can express) *)
Definition wf_op (o : op) : Prop :=
  match o with
  | ONew _ _ _ k => wlanesb k = true
  | ORestore _ b _ c => wbytesb c = true /\ b <> BB
  | ORestoreFrom _ b _ _ => b <> BB
  | OAppend _ d | OWrite _ d | OWriteAll _ d | OIoCopy _ d | OHWrite _ d | OHash _ _ d => wbytesb d = true
  | _ => True
  end.

Definition quiet (outs : list History.out) : Prop := ~ In OutPanic outs /\ ~ In OutFault outs.

Lemma quiet1 o : o <> OutPanic -> o <> OutFault -> quiet [o].
Proof. intros H1 H2. split; intros [H|[]]; congruence. Qed.

Lemma ctor_step e rs r l x : regs_ok e rs -> ctor_ok e l x ->
  let '(rs', outs, _) := of_res rs x (fun oh => match oh with Some h => (store rs r h, [OutOk]) | None => (rs, [OutNone]) end) in
  regs_ok e rs' /\ quiet outs.
Proof.
  intros Hr [->|(h & -> & HI & _)]; cbn [of_res].
  - split; [exact Hr|apply quiet1; discriminate].
  - split; [apply regs_ok_store; assumption|apply quiet1; discriminate].
Qed.

(* one step keeps every register in its invariant and prints neither PANIC nor FAULT *)
Lemma step_safe e rs o : regs_ok e rs -> wf_op o ->
  let '(rs', outs, _) := step e rs o in regs_ok e rs' /\ quiet outs.
Proof.
  intros Hr Hw. unfold step.
  assert (Ill : regs_ok e rs /\ quiet [OutIll]) by (split; [exact Hr|apply quiet1; discriminate]).
  destruct o as [r b f k|r b|r b f c|r b f r2|r r2|r r2|r d|r d|r d|r d|r d|r|r|r|r|w r|w r d]; cbn [wf_op] in Hw.
  - apply (ctor_step e rs r (L0 k)); [exact Hr|apply h_new_ok; exact Hw].
  - apply (ctor_step e rs r (L0 key0)); [exact Hr|apply h_default_ok].
  - destruct Hw as [Hc Hb]. apply (ctor_step e rs r (decode c)); [exact Hr|apply h_restore_ok; assumption].
  - destruct (lookup rs r2) as [h2|] eqn:El; [|exact Ill]. pose proof (Hr _ _ El) as HI.
    rewrite h_checkpoint_ok by exact HI.
    destruct (habs_wf e h2 HI) as (Hl & Hwf & Hbs).
    apply (ctor_step e rs r (decode (encode (habs h2)))); [exact Hr|].
    apply h_restore_ok; [apply encode_wb; exact Hbs|exact Hw].
  - destruct (lookup rs r2) as [h2|] eqn:El; [|exact Ill]. pose proof (Hr _ _ El) as HI.
    rewrite h_clone_ok by exact HI. cbn [of_res]. split; [apply regs_ok_store; assumption|apply quiet1; discriminate].
  - destruct (lookup rs r) as [h1|] eqn:E1; [|exact Ill]. destruct (lookup rs r2) as [h2|] eqn:El; [|exact Ill].
    destruct (Nat.eqb r r2 || negb (same_type h1 h2)); [exact Ill|]. pose proof (Hr _ _ El) as HI.
    rewrite h_clone_ok by exact HI. cbn [of_res]. split; [apply regs_ok_store; assumption|apply quiet1; discriminate].
  - destruct (lookup rs r) as [h|] eqn:El; [|exact Ill]. pose proof (Hr _ _ El) as HI.
    destruct (h_append_ok e h d HI Hw) as (h' & E & I & _). rewrite E. cbn [of_res].
    split; [apply regs_ok_store; assumption|apply quiet1; discriminate].
  - destruct (lookup rs r) as [h|] eqn:El; [|exact Ill]. pose proof (Hr _ _ El) as HI.
    destruct (h_append_ok e h d HI Hw) as (h' & E & I & _). rewrite E. cbn [of_res].
    split; [apply regs_ok_store; assumption|apply quiet1; discriminate].
  - destruct (lookup rs r) as [h|] eqn:El; [|exact Ill]. pose proof (Hr _ _ El) as HI.
    destruct (h_append_ok e h d HI Hw) as (h' & E & I & _). rewrite E. cbn [of_res].
    split; [apply regs_ok_store; assumption|apply quiet1; discriminate].
  - destruct (lookup rs r) as [h|] eqn:El; [|exact Ill]. pose proof (Hr _ _ El) as HI.
    destruct (h_append_ok e h d HI Hw) as (h' & E & I & _). rewrite E. cbn [of_res].
    split; [apply regs_ok_store; assumption|apply quiet1; discriminate].
  - destruct (lookup rs r) as [h|] eqn:El; [|exact Ill]. pose proof (Hr _ _ El) as HI.
    destruct (h_append_ok e h d HI Hw) as (h' & E & I & _). rewrite E. cbn [of_res].
    split; [apply regs_ok_store; assumption|apply quiet1; discriminate].
  - destruct (lookup rs r) as [h|] eqn:El; [|exact Ill]. split; [exact Hr|apply quiet1; discriminate].
  - destruct (lookup rs r) as [h|] eqn:El; [|exact Ill]. pose proof (Hr _ _ El) as HI.
    rewrite h_finish_ok by exact HI. cbn [of_res]. split; [exact Hr|apply quiet1; discriminate].
  - destruct (lookup rs r) as [h|] eqn:El; [|exact Ill]. pose proof (Hr _ _ El) as HI.
    rewrite h_checkpoint_ok by exact HI. cbn [of_res]. split; [exact Hr|apply quiet1; discriminate].
  - destruct (lookup rs r) as [h|] eqn:El; [|exact Ill]. pose proof (Hr _ _ El) as HI.
    destruct (h_debug_ok e h HI) as (o & E & N1 & N2). rewrite E. cbn [of_res]. split; [exact Hr|apply quiet1; assumption].
  - destruct (lookup rs r) as [h|] eqn:El; [|exact Ill]. pose proof (Hr _ _ El) as HI.
    rewrite h_finalize_ok by exact HI. cbn [of_res]. split; [apply regs_ok_remove; exact Hr|apply quiet1; discriminate].
  - destruct (lookup rs r) as [h|] eqn:El; [|exact Ill]. pose proof (Hr _ _ El) as HI.
    destruct (h_append_ok e h d HI Hw) as (h' & E & I & _). rewrite E. cbn [bind].
    rewrite h_finalize_ok by exact I. cbn [of_res]. split; [apply regs_ok_remove; exact Hr|apply quiet1; discriminate].
Qed.

Theorem run_safe e h : Forall wf_op h -> quiet (run e h).
Proof.
  unfold run. assert (H0 : regs_ok e []) by (intros r x; discriminate).
  revert H0. generalize (@nil (nat * hasher)) as rs.
  induction h as [|o h IH]; intros rs Hr Hw; cbn [run_from].
  - split; intros [].
  - inversion Hw as [|? ? Ho Hh]; subst.
    pose proof (step_safe e rs o Hr Ho) as S. destruct (step e rs o) as [[rs' outs] cont]. destruct S as [Hr' [Q1 Q2]].
    destruct cont; [|split; assumption].
    destruct (IH rs' Hr' Hh) as [R1 R2]. split; intros Hin; apply in_app_or in Hin as [Hin|Hin]; auto.
Qed.

(* ---------------------------------------------------------------- observers *)
Definition is_observer (o : op) : option nat :=
  match o with
  | OCkpt r | OFinish r | ODebug r | OFlush r => Some r
  | _ => None
  end.

(* an observer prints one line and leaves the register file exactly as it was, so everything that
   follows in the history is what it would have been without the observer *)
Theorem observer_transparent e rs o r h rest : regs_ok e rs -> is_observer o = Some r -> lookup rs r = Some h ->
  exists line, run_from e rs (o :: rest) = line :: run_from e rs rest /\ line <> OutPanic /\ line <> OutFault.
Proof.
  intros Hr Ho El. pose proof (Hr _ _ El) as HI.
  destruct o; cbn [is_observer] in Ho; try discriminate; injection Ho as ->; cbn [run_from step]; rewrite El.
  - eexists. split; [reflexivity|]. split; discriminate.
  - rewrite h_finish_ok by exact HI. cbn [of_res app]. eexists. split; [reflexivity|]. split; discriminate.
  - rewrite h_checkpoint_ok by exact HI. cbn [of_res app]. eexists. split; [reflexivity|]. split; discriminate.
  - destruct (h_debug_ok e h HI) as (o & E & N1 & N2). rewrite E. cbn [of_res app]. exists o. auto.
Qed.

(* a clone is the same value in a second register, and registers are independent: an operation on one
   register never changes what another register holds *)
Definition target (o : op) : list nat :=
  match o with
  | ONew r _ _ _ | ODefault r _ | ORestore r _ _ _ | ORestoreFrom r _ _ _ | OClone r _ | OCloneFrom r _
  | OAppend r _ | OWrite r _ | OWriteAll r _ | OIoCopy r _ | OHWrite r _ | OFin _ r | OHash _ r _ => [r]
  | OFlush _ | OFinish _ | OCkpt _ | ODebug _ => []
  end.

Theorem step_frame e rs o r' : ~ In r' (target o) ->
  lookup (fst (fst (step e rs o))) r' = lookup rs r'.
Proof.
  intros Hn. unfold step.
  assert (St : forall r h, ~ In r' [r] -> lookup (store rs r h) r' = lookup rs r').
  { intros r h H. rewrite lookup_store. destruct (Nat.eqb_spec r r') as [->|]; [exfalso; apply H; left; reflexivity|reflexivity]. }
  assert (Rm : forall r, ~ In r' [r] -> lookup (remove rs r) r' = lookup rs r').
  { intros r H. rewrite lookup_remove. destruct (Nat.eqb_spec r r') as [->|]; [exfalso; apply H; left; reflexivity|reflexivity]. }
  assert (Ct : forall r (x : res (option hasher)), ~ In r' [r] ->
    lookup (fst (fst (of_res rs x (fun oh => match oh with Some h => (store rs r h, [OutOk]) | None => (rs, [OutNone]) end)))) r' = lookup rs r').
  { intros r x H. destruct x as [[h|]| |]; cbn [of_res fst]; auto. }
  destruct o; cbn [target] in Hn; auto;
    repeat match goal with
    | |- context [lookup rs ?r] => destruct (lookup rs r) eqn:?; cbn [fst]; auto
    | |- context [h_checkpoint e ?h] => destruct (h_checkpoint e h); cbn [of_res fst]; auto
    | |- context [if (Nat.eqb ?a ?b || negb (same_type ?x ?y))%bool then _ else _] =>
        destruct (Nat.eqb a b || negb (same_type x y))%bool; cbn [fst]; auto
    | |- context [of_res rs ?x _] => destruct x; cbn [of_res fst]; auto
    end.
Qed.

Lemma clone_same e rs r r2 h : regs_ok e rs -> lookup rs r2 = Some h ->
  lookup (fst (fst (step e rs (OClone r r2)))) r = Some h.
Proof.
  intros Hr El. cbn [step]. rewrite El. rewrite h_clone_ok by exact (Hr _ _ El). cbn [of_res fst].
  rewrite lookup_store, Nat.eqb_refl. reflexivity.
Qed.
