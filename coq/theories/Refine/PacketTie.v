(* PacketTie.v — the HashPacket methods of src/internal.rs (gen/SrcPacket.v), as bodies run by [run_fn] under ANY
   call environment: they call nothing, so what they mean does not depend on the function table of the hasher that
   embeds the packet.  Every backend's source-level tie (the portable one has its own copy in SourceTie.v, stated for
   its table) gets its "buffer.<method>" lemmas from these. *)
From Coq Require Import NArith List String Bool Arith Lia.
From HW Require Import Word Chunks Packet Portable.
From HW.Refine Require Import ChunksFacts SourceTie.
From HW.Facts Require Import RustLite.
From HWGen Require Import SrcPacket.
Import ListNotations.
Local Open Scope N_scope.

Ltac rpk :=
  cbv beta iota zeta delta
    [run_fn pkt_len pkt_is_empty pkt_as_slice pkt_inner pkt_fill pkt_set_to
     exec exec_block eval eval_list eval_idx eval_arg eval_args assign bind_params param_values copy_out eval_ret eval_cond
     get put lookup upd is_self String.eqb Ascii.eqb Bool.eqb substring bind genv lenv f_params f_body f_ret
     len_of range_of eval_bound penv fst snd mask bits add_chk].
Ltac rpkr Hb := repeat (progress (rpk; rewrite ?leb_of_nat, ?ltb_of_nat, ?Nat2N.id, ?Hb)).

Section P.
Variable p : profile.
Variable CALL : string -> env -> list val -> callres.
Notation run := (run_fn p CALL).

Lemma run_len pkv : run pkt_len (penv pkv) [] = Ok (penv pkv, [], Some (VN (N.of_nat (plen pkv)))).
Proof. rpk. reflexivity. Qed.

Lemma run_inner pkv : run pkt_inner (penv pkv) [] = Ok (penv pkv, [], Some (VA (inner pkv))).
Proof. rpk. reflexivity. Qed.

Lemma run_is_empty pkv :
  run pkt_is_empty (penv pkv) [] = Ok (penv pkv, [], Some (VN (if is_empty pkv then 1 else 0))).
Proof.
  rpk. unfold is_empty. destruct (Packet.idx pkv) as [|n]; [reflexivity|].
  replace (N.of_nat (S n) =? 0) with false; [reflexivity|]. symmetry. apply N.eqb_neq. lia.
Qed.

Lemma run_as_slice pkv : List.length (buf pkv) = 32%nat ->
  run pkt_as_slice (penv pkv) [] = plift (as_slice p pkv) (fun sl => (penv pkv, [], Some (VA sl))).
Proof.
  intros Hb. unfold as_slice, plift. rewrite (Nat.ltb_antisym (Packet.idx pkv) 32).
  rpkr Hb.
  destruct (dbg p); destruct (Packet.idx pkv <=? 32)%nat eqn:E; cbn [andb negb]; rpkr Hb; rewrite ?E; reflexivity.
Qed.

Lemma run_set_to pkv data : List.length (buf pkv) = 32%nat ->
  run pkt_set_to (penv pkv) [VA data] = plift (set_to p pkv data) (fun pk' => (penv pk', [Some (VA data)], None)).
Proof.
  intros Hb. unfold set_to, plift.
  rpkr Hb. rewrite ?ltb_of_nat_32.
  destruct (dbg p && negb (List.length data <? 32)%nat); [reflexivity|].
  rpkr Hb.
  destruct (Nat.eqb (List.length data) 0) eqn:E0; cbn [negb]; rpkr Hb.
  - apply Nat.eqb_eq in E0. apply length_zero_iff_nil in E0. subst data. cbn. reflexivity.
  - rewrite (Nat.ltb_antisym (List.length data) 32).
    change (0 <=? List.length data)%nat with true. rewrite Nat.leb_refl. cbn [andb].
    destruct (List.length data <=? 32)%nat eqn:E32; cbn [negb]; [|reflexivity].
    rpkr Hb. rewrite Nat.sub_0_r, Nat.eqb_refl. rpkr Hb.
    cbn [skipn]. rewrite firstn_all.
    rewrite write_at_spec by (apply Nat.leb_le in E32; lia).
    cbn [firstn app Nat.add]. reflexivity.
Qed.

Lemma run_fill pkv data : List.length (buf pkv) = 32%nat ->
  run pkt_fill (penv pkv) [VA data]
  = Ok (penv (fst (fill pkv data)), [Some (VA data)], Some (VO (snd (fill pkv data)))).
Proof.
  intros Hb. unfold fill.
  rpkr Hb.
  destruct (Packet.idx pkv <=? 32)%nat eqn:E1.
  - pose proof (proj1 (Nat.leb_le _ _) E1) as I1.
    rpkr Hb.
    destruct (List.length data <? 32 - Packet.idx pkv)%nat eqn:E2.
    + pose proof (proj1 (Nat.ltb_lt _ _) E2) as I2.
      assert (L1 : (List.length data <=? 32 - Packet.idx pkv)%nat = true) by (apply Nat.leb_le; lia).
      rpkr Hb. change (0 <=? List.length data)%nat with true. rewrite L1, Nat.leb_refl. cbn [andb].
      rpkr Hb. rewrite Nat.sub_0_r, Nat.eqb_refl. rpkr Hb.
      destruct (small_sum (Packet.idx pkv) (List.length data)) as [S1 S2]; [lia|].
      rewrite S1, andb_false_r. rpkr Hb. rewrite S2.
      cbn [skipn]. rewrite firstn_all, Nat.add_0_r.
      rewrite write_at_spec by lia.
      reflexivity.
    + pose proof (proj1 (Nat.ltb_ge _ _) E2) as I2.
      set (dl := (32 - Packet.idx pkv)%nat) in *.
      assert (L1 : (dl <=? List.length data)%nat = true) by (apply Nat.leb_le; lia).
      rpkr Hb. rewrite ?Nat2N.id, L1. rpkr Hb.
      assert (Lh : List.length (firstn dl data) = dl) by (apply firstn_length_le; lia).
      rewrite ?Lh. change (0 <=? dl)%nat with true. rewrite Nat.leb_refl. cbn [andb]. rpkr Hb.
      rewrite ?Lh. change (0 <=? dl)%nat with true. rewrite ?Nat.leb_refl. cbn [andb]. rpkr Hb.
      rewrite Nat.sub_0_r, Nat.eqb_refl. rpkr Hb.
      cbn [skipn]. rewrite firstn_all2 by lia. rewrite Nat.add_0_r.
      rewrite write_at_spec by (rewrite Lh; unfold dl; lia).
      rewrite Lh. replace (Packet.idx pkv + dl)%nat with 32%nat by (unfold dl; lia).
      rewrite (skipn_all2 (buf pkv)) by lia. rewrite app_nil_r.
      reflexivity.
  - rpkr Hb. cbn [Nat.ltb Nat.leb]. rpkr Hb.
    change (N.to_nat 0) with 0%nat. cbn [Nat.leb firstn skipn List.length andb Nat.sub Nat.eqb Nat.add]. rpkr Hb.
    cbn [Nat.leb firstn skipn List.length andb Nat.sub Nat.eqb Nat.add write_at]. rpkr Hb.
    reflexivity.
Qed.
End P.
