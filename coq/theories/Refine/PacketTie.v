(* PacketTie.v — the HashPacket methods and unordered_load3 of src/internal.rs (gen/SrcPacket.v), as bodies run by [run_fn] under ANY
   call environment: they call nothing, so what they mean does not depend on the function table of the hasher that
   embeds the packet.  Every backend's source-level tie (the portable one has its own copy in SourceTie.v, stated for
   its table) gets its "buffer.<method>" lemmas from these. *)
From Coq Require Import NArith List String Bool Arith Lia.
From HW Require Import Word Chunks Packet Portable.
From HW.Refine Require Import ChunksFacts SourceTie.
From HW.Facts Require Import RustLite.
From HWGen Require Import SrcPacket.
Import ListNotations.
Local Open Scope N_scope.

Ltac rpk :=
  cbv beta iota zeta delta
    [run_fn pkt_len pkt_is_empty pkt_as_slice pkt_inner pkt_fill pkt_set_to
     exec exec_block eval eval_list eval_idx eval_arg eval_args assign bind_params param_values copy_out eval_ret eval_cond
     get put lookup upd is_self String.eqb Ascii.eqb Bool.eqb substring bind genv lenv f_params f_body f_ret
     len_of range_of eval_bound penv fst snd mask bits add_chk].
Ltac rpkr Hb := repeat (progress (rpk; rewrite ?leb_of_nat, ?ltb_of_nat, ?Nat2N.id, ?Hb)).

Section P.
Variable p : profile.
Variable CALL : string -> env -> list val -> callres.
Notation run := (run_fn p CALL).

Lemma run_len pkv : run pkt_len (penv pkv) [] = Ok (penv pkv, [], Some (VN (N.of_nat (plen pkv)))).
Proof. rpk. reflexivity. Qed.

Lemma run_inner pkv : run pkt_inner (penv pkv) [] = Ok (penv pkv, [], Some (VA (inner pkv))).
Proof. rpk. reflexivity. Qed.

Lemma run_is_empty pkv :
  run pkt_is_empty (penv pkv) [] = Ok (penv pkv, [], Some (VN (if is_empty pkv then 1 else 0))).
Proof.
  rpk. unfold is_empty. destruct (Packet.idx pkv) as [|n]; [reflexivity|].
  replace (N.of_nat (S n) =? 0) with false; [reflexivity|]. symmetry. apply N.eqb_neq. lia.
Qed.

Lemma run_as_slice pkv : List.length (buf pkv) = 32%nat ->
  run pkt_as_slice (penv pkv) [] = plift (as_slice p pkv) (fun sl => (penv pkv, [], Some (VA sl))).
Proof.
  intros Hb. unfold as_slice, plift. rewrite (Nat.ltb_antisym (Packet.idx pkv) 32).
  rpkr Hb.
  destruct (dbg p); destruct (Packet.idx pkv <=? 32)%nat eqn:E; cbn [andb negb]; rpkr Hb; rewrite ?E; reflexivity.
Qed.

Lemma run_set_to pkv data : List.length (buf pkv) = 32%nat ->
  run pkt_set_to (penv pkv) [VA data] = plift (set_to p pkv data) (fun pk' => (penv pk', [Some (VA data)], None)).
Proof.
  intros Hb. unfold set_to, plift.
  rpkr Hb. rewrite ?ltb_of_nat_32.
  destruct (dbg p && negb (List.length data <? 32)%nat); [reflexivity|].
  rpkr Hb.
  destruct (Nat.eqb (List.length data) 0) eqn:E0; cbn [negb]; rpkr Hb.
  - apply Nat.eqb_eq in E0. apply length_zero_iff_nil in E0. subst data. cbn. reflexivity.
  - rewrite (Nat.ltb_antisym (List.length data) 32).
    change (0 <=? List.length data)%nat with true. rewrite Nat.leb_refl. cbn [andb].
    destruct (List.length data <=? 32)%nat eqn:E32; cbn [negb]; [|reflexivity].
    rpkr Hb. rewrite Nat.sub_0_r, Nat.eqb_refl. rpkr Hb.
    cbn [skipn]. rewrite firstn_all.
    rewrite write_at_spec by (apply Nat.leb_le in E32; lia).
    cbn [firstn app Nat.add]. reflexivity.
Qed.

Lemma run_fill pkv data : List.length (buf pkv) = 32%nat ->
  run pkt_fill (penv pkv) [VA data]
  = Ok (penv (fst (fill pkv data)), [Some (VA data)], Some (VO (snd (fill pkv data)))).
Proof.
  intros Hb. unfold fill.
  rpkr Hb.
  destruct (Packet.idx pkv <=? 32)%nat eqn:E1.
  - pose proof (proj1 (Nat.leb_le _ _) E1) as I1.
    rpkr Hb.
    destruct (List.length data <? 32 - Packet.idx pkv)%nat eqn:E2.
    + pose proof (proj1 (Nat.ltb_lt _ _) E2) as I2.
      assert (L1 : (List.length data <=? 32 - Packet.idx pkv)%nat = true) by (apply Nat.leb_le; lia).
      rpkr Hb. change (0 <=? List.length data)%nat with true. rewrite L1, Nat.leb_refl. cbn [andb].
      rpkr Hb. rewrite Nat.sub_0_r, Nat.eqb_refl. rpkr Hb.
      destruct (small_sum (Packet.idx pkv) (List.length data)) as [S1 S2]; [lia|].
      rewrite S1, andb_false_r. rpkr Hb. rewrite S2.
      cbn [skipn]. rewrite firstn_all, Nat.add_0_r.
      rewrite write_at_spec by lia.
      reflexivity.
    + pose proof (proj1 (Nat.ltb_ge _ _) E2) as I2.
      set (dl := (32 - Packet.idx pkv)%nat) in *.
      assert (L1 : (dl <=? List.length data)%nat = true) by (apply Nat.leb_le; lia).
      rpkr Hb. rewrite ?Nat2N.id, L1. rpkr Hb.
      assert (Lh : List.length (firstn dl data) = dl) by (apply firstn_length_le; lia).
      rewrite ?Lh. change (0 <=? dl)%nat with true. rewrite Nat.leb_refl. cbn [andb]. rpkr Hb.
      rewrite ?Lh. change (0 <=? dl)%nat with true. rewrite ?Nat.leb_refl. cbn [andb]. rpkr Hb.
      rewrite Nat.sub_0_r, Nat.eqb_refl. rpkr Hb.
      cbn [skipn]. rewrite firstn_all2 by lia. rewrite Nat.add_0_r.
      rewrite write_at_spec by (rewrite Lh; unfold dl; lia).
      rewrite Lh. replace (Packet.idx pkv + dl)%nat with 32%nat by (unfold dl; lia).
      rewrite (skipn_all2 (buf pkv)) by lia. rewrite app_nil_r.
      reflexivity.
  - rpkr Hb. cbn [Nat.ltb Nat.leb]. rpkr Hb.
    change (N.to_nat 0) with 0%nat. cbn [Nat.leb firstn skipn List.length andb Nat.sub Nat.eqb Nat.add]. rpkr Hb.
    cbn [Nat.leb firstn skipn List.length andb Nat.sub Nat.eqb Nat.add write_at]. rpkr Hb.
    reflexivity.
Qed.
End P.

(* ---- internal::unordered_load3(from) (a free function of internal.rs, translated with HashPacket's methods): for the slices the
        backends pass it — at most three bytes, each below 256 — the translated code, with its u64 additions checked as the build
        profile checks them, is the model Packet.unordered_load3 (no addition can overflow) *)
Lemma shl_byte b k : b < 256 -> k <= 16 -> N.land (N.shiftl b k) 18446744073709551615 = N.shiftl b k.
Proof.
  intros Hb Hk. change 18446744073709551615 with (N.ones 64). rewrite N.land_ones. apply N.mod_small.
  rewrite N.shiftl_mul_pow2. assert (2 ^ k <= 2 ^ 16) by (apply N.pow_le_mono_r; lia).
  change (2 ^ 16) with 65536 in H. change (2 ^ 64) with 18446744073709551616. nia.
Qed.
Lemma shl_byte_lt b k : b < 256 -> k <= 16 -> N.shiftl b k < 16777216.
Proof.
  intros Hb Hk. rewrite N.shiftl_mul_pow2. assert (2 ^ k <= 2 ^ 16) by (apply N.pow_le_mono_r; lia).
  change (2 ^ 16) with 65536 in H. nia.
Qed.
Lemma add_chk_small p x y : x + y <= M64 -> add_chk p U64 x y = Ok (x + y).
Proof.
  intros H. unfold add_chk. cbn [mask]. replace (M64 <? x + y) with false by (symmetry; apply N.ltb_ge; exact H).
  rewrite andb_false_r. change M64 with (N.ones 64). rewrite N.land_ones, N.mod_small; [reflexivity|].
  unfold M64 in H. change (2 ^ 64) with 18446744073709551616. lia.
Qed.


Section U.
Variable p : profile.
Variable CALL : string -> env -> list val -> callres.
Notation run := (run_fn p CALL).
Ltac ul3 := cbv -[add_chk N.shiftl N.land N.add N.lt N.le].

Ltac two_adds x y z :=
  let H1 := fresh in let H2 := fresh in
  pose proof (shl_byte_lt y 8 ltac:(assumption) ltac:(lia)) as H1; pose proof (shl_byte_lt z 16 ltac:(assumption) ltac:(lia)) as H2;
  rewrite (add_chk_small p x (N.shiftl y 8)) by (unfold M64; lia); ul3;
  rewrite (add_chk_small p (x + N.shiftl y 8) (N.shiftl z 16)) by (unfold M64; lia); ul3; reflexivity.

Lemma run_unordered_load3 g from : (List.length from <= 3)%nat -> wbytesb from = true ->
  run pkt_unordered_load3 g [VA from] = lift (unordered_load3 p from) (fun r => (g, [Some (VA from)], Some (VN r))).
Proof.
  intros HL HB. destruct from as [|a [|b [|c [|d l]]]]; [| | | |cbn [List.length] in HL; lia]; clear HL;
    cbn [wbytesb forallb] in HB; rewrite ?andb_true_iff in HB.
  - ul3. reflexivity.
  - destruct HB as (Ha & _). apply N.ltb_lt in Ha.
    ul3. rewrite !(shl_byte a) by lia. two_adds a a a.
  - destruct HB as (Ha & Hb & _). apply N.ltb_lt in Ha. apply N.ltb_lt in Hb.
    ul3. rewrite !(shl_byte b) by lia. two_adds a b b.
  - destruct HB as (Ha & Hb & Hc & _). apply N.ltb_lt in Ha. apply N.ltb_lt in Hb. apply N.ltb_lt in Hc.
    ul3. rewrite !(shl_byte b), !(shl_byte c) by lia. two_adds a b c.
Qed.
End U.
