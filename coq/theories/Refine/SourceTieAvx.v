(* SourceTieAvx.v — the AVX2 kernel (src/x86/avx.rs) and the V4x64U wrapper (src/x86/v4x64u.rs), translated from the
   current source into VecLite (gen/SrcAvx.v), interpreted with the intrinsic models of X86.v as primitives, are the
   hand-written model Avx.v, function by function. *)
From Coq Require Import NArith ZArith List String Bool Arith Lia.
From HW Require Import Word Packet Mem X86 Portable Sse Avx.
From HW.Facts Require Import VecLite.
From HW.Refine Require Import SourceTieSse.
From HWGen Require Import SrcAvx.
Import ListNotations.
Local Open Scope string_scope.
Local Open Scope N_scope.

Definition ww (f : V256 -> V256 -> V256) : list vval -> option (res vval) :=
  on2 (fun a b => match a, b with X4 x, X4 y => Some (Ok (X4 (f x y))) | _, _ => None end).
Definition wn (f : V256 -> N -> V256) : list vval -> option (res vval) :=
  on2 (fun a b => match a, b with X4 x, XN y => Some (Ok (X4 (f x y))) | _, _ => None end).

Definition avx_prims (p : profile) (b : packet) : list (string * (list vval -> option (res vval))) :=
  [("_mm256_add_epi64", ww mm256_add_epi64); ("_mm256_and_si256", ww mm256_and_si256); ("_mm256_or_si256", ww mm256_or_si256);
   ("_mm256_xor_si256", ww mm256_xor_si256); ("_mm256_andnot_si256", ww mm256_andnot_si256); ("_mm256_mul_epu32", ww mm256_mul_epu32);
   ("_mm256_shuffle_epi8", ww mm256_shuffle_epi8); ("_mm256_permutevar8x32_epi32", ww mm256_permutevar8x32_epi32);
   ("_mm256_sllv_epi32", ww mm256_sllv_epi32); ("_mm256_srlv_epi32", ww mm256_srlv_epi32); ("_mm256_sub_epi32", ww mm256_sub_epi32);
   ("_mm256_cmpeq_epi64", ww mm256_cmpeq_epi64); ("_mm256_unpacklo_epi64", ww mm256_unpacklo_epi64);
   ("_mm256_srli_epi64", wn mm256_srli_epi64); ("_mm256_slli_epi64", wn mm256_slli_epi64); ("_mm256_shuffle_epi32", wn mm256_shuffle_epi32);
   ("_mm256_slli_si256", on2 (fun a k => match a, k with X4 x, XN 8 => Some (Ok (X4 (mm256_slli_si256_8 x))) | _, _ => None end));
   ("_mm256_setzero_si256", fun vs => match vs with [] => Some (Ok (X4 mm256_setzero_si256)) | _ => None end);
   ("_mm256_set_epi64x", fun vs => match vs with
                                   | [XN e3; XN e2; XN e1; XN e0] => Some (Ok (X4 (mm256_set_epi64x e3 e2 e1 e0)))
                                   | _ => None end);
   ("_mm256_broadcastd_epi32", on1 (fun a => match a with X2 x => Some (Ok (X4 (mm256_broadcastd_epi32 x))) | _ => None end));
   ("_mm_cvtsi64_si128", nv mm_cvtsi64_si128); ("_mm_cvtsi32_si128", nv mm_cvtsi32_si128);
   ("_mm_shuffle!", fun vs => match vs with
                              | [XN z; XN y; XN x; XN w] => Some (Ok (XN (N.lor (N.lor (N.lor (N.shiftl z 6) (N.shiftl y 4)) (N.shiftl x 2)) w)))
                              | _ => None end);
   ("From::from", on1 (fun a => Some (Ok a)));
   ("as_i32", nn t32); ("as_i64", nn t64);
   ("buffer.len", fun vs => match vs with [] => Some (Ok (XN (N.of_nat (plen b)))) | _ => None end);
   ("buffer.as_slice", fun vs => match vs with [] => Some (do sl <- as_slice p b ;; Ok (XB sl)) | _ => None end);
   ("AvxHash::remainder", on1 (fun a => match a with
                                        | XB sl => Some (do r <- a_remainder p (self_buf A_BUF_ADDR sl) ;; Ok (X4 r))
                                        | _ => None end))].
Definition avx_prim (p : profile) (b : packet) (f : string) (vs : list vval) : option (res vval) :=
  match tbl_find (avx_prims p b) f with Some h => h vs | None => None end.

Definition acore_vals (c : acore) : list vval := [X4 (a_v0 c); X4 (a_v1 c); X4 (a_mul0 c); X4 (a_mul1 c)].

Ltac vla :=
  cbv beta iota zeta delta
    [vcall vapp veval vfind vbind vlookup String.eqb Ascii.eqb Bool.eqb bind app src_avx vf_params vf_body vf_ret
     avx_prim avx_prims tbl_find on1 on2 ww wn nv nn Nat.add acore_vals a_v0 a_v1 a_mul0 a_mul1].

Section AvxKernel.
Variable p : profile.
Variable b : packet.
Notation call := (vcall (avx_prim p b) src_avx).

Lemma t64_t64 x : t64 (t64 x) = t64 x.
Proof. unfold t64. rewrite <- N.land_assoc, N.land_diag. reflexivity. Qed.

Lemma avx_new_ok fuel e3 e2 e1 e0 :
  call (8 + fuel)%nat "V4x64U::new" [XN e3; XN e2; XN e1; XN e0] = Ok (X4 (V4_new e3 e2 e1 e0)).
Proof. vla. unfold V4_new, mm256_set_epi64x. rewrite !t64_t64. reflexivity. Qed.

Lemma avx_zipper_merge_ok fuel v :
  call (10 + fuel)%nat "AvxHash::zipper_merge" [X4 v] = Ok (X4 (a_zipper_merge v)).
Proof. vla. reflexivity. Qed.

Lemma avx_update_ok fuel c packet :
  call (14 + fuel)%nat "AvxHash::update" (acore_vals c ++ [X4 packet]) = Ok (XT (acore_vals (a_update c packet))).
Proof. destruct c. vla. reflexivity. Qed.

Lemma avx_permute_ok fuel v :
  call (10 + fuel)%nat "AvxHash::permute" [X4 v] = Ok (X4 (a_permute v)).
Proof. vla. reflexivity. Qed.

Lemma avx_modular_reduction_ok fuel x init :
  call (12 + fuel)%nat "AvxHash::modular_reduction" [X4 x; X4 init] = Ok (X4 (a_modular_reduction x init)).
Proof. vla. reflexivity. Qed.

Lemma avx_wrapper_ops fuel x y :
  call (8 + fuel)%nat "V4x64U::Add::add" [X4 x; X4 y] = Ok (X4 (mm256_add_epi64 x y)) /\
  call (8 + fuel)%nat "V4x64U::BitXor::bitxor" [X4 x; X4 y] = Ok (X4 (mm256_xor_si256 x y)) /\
  call (8 + fuel)%nat "V4x64U::BitOr::bitor" [X4 x; X4 y] = Ok (X4 (mm256_or_si256 x y)) /\
  call (8 + fuel)%nat "V4x64U::BitAnd::bitand" [X4 x; X4 y] = Ok (X4 (mm256_and_si256 x y)) /\
  call (8 + fuel)%nat "V4x64U::AddAssign::add_assign" [X4 x; X4 y] = Ok (X4 (mm256_add_epi64 x y)) /\
  call (8 + fuel)%nat "V4x64U::BitXorAssign::bitxor_assign" [X4 x; X4 y] = Ok (X4 (mm256_xor_si256 x y)) /\
  call (8 + fuel)%nat "V4x64U::BitOrAssign::bitor_assign" [X4 x; X4 y] = Ok (X4 (mm256_or_si256 x y)) /\
  call (8 + fuel)%nat "V4x64U::BitAndAssign::bitand_assign" [X4 x; X4 y] = Ok (X4 (mm256_and_si256 x y)) /\
  call (8 + fuel)%nat "V4x64U::rotate_by_32" [X4 x] = Ok (X4 (V4_rotate_by_32 x)) /\
  call (8 + fuel)%nat "V4x64U::shr_by_32" [X4 x] = Ok (X4 (V4_shr_by_32 x)) /\
  call (8 + fuel)%nat "V4x64U::mul_low32" [X4 x; X4 y] = Ok (X4 (V4_mul_low32 x y)) /\
  call (8 + fuel)%nat "V4x64U::and_not" [X4 x; X4 y] = Ok (X4 (V4_and_not x y)) /\
  call (8 + fuel)%nat "V4x64U::shuffle" [X4 x; X4 y] = Ok (X4 (mm256_shuffle_epi8 x y)).
Proof. repeat split; vla; reflexivity. Qed.

Lemma avx_from_impls_are_identities fuel v :
  forall f, In f src_avx_from_impls -> call (6 + fuel)%nat f [X4 v] = Ok (X4 v).
Proof.
  intros f Hf. cbv [src_avx_from_impls In] in Hf.
  repeat match goal with H : _ \/ _ |- _ => destruct H as [H|H] end; try contradiction; subst f; vla; reflexivity.
Qed.

Definition lift_a {A} (r : res A) (k : A -> vval) : res vval :=
  match r with Ok a => Ok (k a) | Panic => Panic | Fault => Fault end.

Lemma avx_update_remainder_ok fuel c : N.of_nat (plen b) <= M64 ->
  call (20 + fuel)%nat "AvxHash::update_remainder" (acore_vals c)
  = lift_a (a_update_remainder p {| a_core := c; a_buffer := b |}) (fun c' => XT (acore_vals c')).
Proof.
  intros H. destruct c. unfold a_update_remainder, lift_a. cbn [a_core a_buffer].
  assert (E : t64 (N.of_nat (plen b)) = N.of_nat (plen b)).
  { unfold t64. change M64 with (N.ones 64). rewrite N.land_ones. apply N.mod_small. unfold M64 in H. lia. }
  vla. rewrite E.
  destruct (as_slice p b) as [sl| |]; vla; [|reflexivity|reflexivity].
  destruct (a_remainder p (self_buf A_BUF_ADDR sl)) as [pk| |]; vla; reflexivity.
Qed.
End AvxKernel.
