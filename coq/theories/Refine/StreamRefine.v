(* StreamRefine.v — the shared `append` text (Stream.v) refines [absorb], for any backend whose
   packet step simulates the specification's packet update. *)
From Coq Require Import NArith List Lia Bool Arith.
From HW Require Import Word Chunks Packet Mem Stream Spec.
From HW.Refine Require Import ChunksFacts WordFacts Logical PortableRefine.
Import ListNotations.
Local Open Scope N_scope.

Lemma wbytesb_app a b : wbytesb (a ++ b) = wbytesb a && wbytesb b.
Proof. unfold wbytesb. apply forallb_app. Qed.
Lemma wbytesb_firstn n l : wbytesb l = true -> wbytesb (firstn n l) = true.
Proof. intros H. rewrite <- (firstn_skipn n l), wbytesb_app in H. apply andb_true_iff in H. tauto. Qed.
Lemma wbytesb_skipn n l : wbytesb l = true -> wbytesb (skipn n l) = true.
Proof. intros H. rewrite <- (firstn_skipn n l), wbytesb_app in H. apply andb_true_iff in H. tauto. Qed.
Lemma wbytesb_concat ps r : wbytesb (concat ps ++ r) = true -> Forall (fun p => wbytesb p = true) ps /\ wbytesb r = true.
Proof.
  induction ps as [|p ps IH]; cbn [concat app]; intros H.
  - split; [constructor|exact H].
  - rewrite <- app_assoc, wbytesb_app in H. apply andb_true_iff in H as [Hp H]. destruct (IH H). split; [constructor|]; assumption.
Qed.

Section StreamRefine.
Context {C : Type}.
Variable step : C -> mem -> res C.
Variable buf_addr : N.
Variable cabs : C -> hstate.
Variable Cok : C -> Prop.
Hypothesis step_ok : forall c m, Cok c -> length (mbytes m) = 32%nat -> wbytesb (mbytes m) = true ->
  exists c', step c m = Ok c' /\ Cok c' /\ cabs c' = hh_update_packet (cabs c) (mbytes m).

Lemma g_absorb_chunks_ok ps : Forall (fun p => length p = 32%nat) ps -> Forall (fun p => wbytesb p = true) ps ->
  forall c addr, Cok c ->
  exists c', g_absorb_chunks step c addr ps = Ok c' /\ Cok c' /\ cabs c' = fold_left hh_update_packet ps (cabs c).
Proof.
  induction ps as [|p ps IH]; intros HL HB c addr Hc; cbn [g_absorb_chunks fold_left].
  - exists c. auto.
  - inversion HL as [|? ? Hl HL']; subst. inversion HB as [|? ? Hb HB']; subst.
    destruct (step_ok c {| mbytes := p; maddr := addr |} Hc Hl Hb) as (c1 & E1 & K1 & A1).
    rewrite E1. cbn [bind]. destruct (IH HL' HB' c1 (addr + 32) K1) as (c2 & E2 & K2 & A2).
    exists c2. rewrite A2, A1. auto.
Qed.

(* the pending buffer holds bytes *)
Definition BInv (b : packet) : Prop := PInv b /\ wbytesb (buf b) = true.

Lemma set_to_ok' prof b r : BInv b -> (length r < 32)%nat -> wbytesb r = true ->
  exists b', set_to prof b r = Ok b' /\ BInv b' /\ pending b' = r.
Proof.
  intros [[Hl Hi] Hb] Hr Hw. destruct (set_to_ok prof b r Hl Hr) as (b' & E & HP & HE).
  exists b'. split; [exact E|]. split; [|exact HE]. split; [exact HP|].
  unfold set_to in E. destruct (dbg prof && negb (length r <? 32)%nat); [discriminate|].
  destruct (32 <? length r)%nat; [discriminate|]. injection E as <-. cbn [buf].
  rewrite wbytesb_app, Hw. apply wbytesb_skipn. exact Hb.
Qed.

Theorem g_append_ok prof addr c b d : Cok c -> BInv b -> wbytesb d = true ->
  exists c' b', g_append step buf_addr prof addr c b d = Ok (c', b') /\ Cok c' /\ BInv b' /\
                (cabs c', pending b') = absorb (cabs c, pending b) d.
Proof.
  intros Hc HB Hd. pose proof HB as [[Hlen Hidx] Hbw]. unfold g_append, is_empty.
  destruct (Nat.eqb_spec (idx b) 0) as [E0|N0].
  - pose proof (chunks32_spec d) as Hsp. destruct (chunks32 d) as [ps r] eqn:Ech.
    destruct Hsp as (Ed & Hall & Hr & _).
    assert (Hw : Forall (fun p => wbytesb p = true) ps /\ wbytesb r = true) by (apply wbytesb_concat; rewrite <- Ed; exact Hd).
    destruct Hw as [Hwp Hwr].
    destruct (g_absorb_chunks_ok ps Hall Hwp c addr Hc) as (c1 & E1 & K1 & A1). rewrite E1. cbn [bind].
    destruct (set_to_ok' prof b r HB Hr Hwr) as (b' & Hset & Hinv' & Hpend'). rewrite Hset. cbn [bind].
    exists c1, b'. split; [reflexivity|]. split; [exact K1|]. split; [exact Hinv'|].
    unfold absorb. cbn [fst snd]. unfold pending at 2. rewrite E0. cbn [firstn app]. rewrite Ech, A1, Hpend'. reflexivity.
  - unfold fill. destruct (Nat.leb_spec (idx b) 32) as [_|]; [|lia].
    set (dlen := (32 - idx b)%nat).
    assert (Hp : length (firstn (idx b) (buf b)) = idx b) by (rewrite firstn_length; lia).
    destruct (Nat.ltb_spec (length d) dlen) as [Hfit|Hover].
    + exists c. eexists. split; [reflexivity|]. split; [exact Hc|]. unfold BInv, PInv, absorb, pending. cbn [buf idx fst snd].
      split; [split; [split|]|].
      * rewrite !app_length, Hp, skipn_length. unfold dlen in Hfit. lia.
      * unfold dlen in Hfit. lia.
      * rewrite !wbytesb_app, Hd. rewrite wbytesb_firstn, wbytesb_skipn by exact Hbw. reflexivity.
      * rewrite chunks32_short by (rewrite app_length, Hp; unfold dlen in Hfit; lia).
        cbn [fold_left]. f_equal.
        rewrite app_assoc. rewrite firstn_app.
        rewrite app_length, Hp. rewrite Nat.sub_diag. cbn [firstn]. rewrite app_nil_r.
        apply firstn_all2. rewrite app_length, Hp. lia.
    + set (b1 := {| buf := firstn (idx b) (buf b) ++ firstn dlen d; idx := 32 |}).
      set (tail := skipn dlen d).
      assert (Hb1 : length (buf b1) = 32%nat).
      { unfold b1. cbn [buf]. rewrite app_length, Hp, firstn_length. unfold dlen in *. lia. }
      assert (Hb1w : wbytesb (buf b1) = true).
      { unfold b1. cbn [buf]. rewrite wbytesb_app, !wbytesb_firstn by assumption. reflexivity. }
      destruct (step_ok c (self_buf buf_addr (inner b1)) Hc Hb1 Hb1w) as (c1 & E1 & K1 & A1).
      rewrite E1. cbn [bind].
      pose proof (chunks32_spec tail) as Hsp. destruct (chunks32 tail) as [ps r] eqn:Ech.
      destruct Hsp as (Ed & Hall & Hr & _).
      assert (Hw : Forall (fun p => wbytesb p = true) ps /\ wbytesb r = true).
      { apply wbytesb_concat; rewrite <- Ed. apply wbytesb_skipn. exact Hd. }
      destruct Hw as [Hwp Hwr].
      destruct (g_absorb_chunks_ok ps Hall Hwp c1 (addr + N.of_nat (length d - length tail)) K1) as (c2 & E2 & K2 & A2).
      rewrite E2. cbn [bind].
      assert (HB1 : BInv {| buf := buf b1; idx := 0 |}) by (split; [split; [exact Hb1|cbn; lia]|exact Hb1w]).
      destruct (set_to_ok' prof {| buf := buf b1; idx := 0 |} r HB1 Hr Hwr) as (b' & Hset & Hinv' & Hpend').
      assert (Hset' : set_to prof b1 r = Ok b') by exact Hset.
      rewrite Hset'. cbn [bind].
      exists c2, b'. split; [reflexivity|]. split; [exact K2|]. split; [exact Hinv'|].
      unfold absorb. cbn [fst snd]. rewrite Hpend'.
      rewrite (chunks32_step (pending b ++ d)) by (unfold pending; rewrite app_length, Hp; unfold dlen in Hover; lia).
      assert (F1 : firstn 32 (pending b ++ d) = buf b1).
      { unfold pending, b1. cbn [buf]. rewrite firstn_app, Hp. fold dlen.
        rewrite firstn_all2 by (rewrite Hp; lia). reflexivity. }
      assert (F2 : skipn 32 (pending b ++ d) = tail).
      { unfold pending, tail. rewrite skipn_app, Hp. fold dlen.
        rewrite skipn_all2 by (rewrite Hp; lia). reflexivity. }
      rewrite F1, F2, Ech. cbn [fold_left]. rewrite A2, A1. reflexivity.
Qed.
End StreamRefine.
