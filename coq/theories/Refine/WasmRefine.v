(* WasmRefine.v — the Wasm simd128 model refines the logical state.  Lane 0 of every vector holds the
   HIGH half (V2x64U::new(hi, low) = u64x2(hi, low)), so the portable image swaps the lanes. *)
From Coq Require Import NArith ZArith List Lia Bool Arith.
From HW Require Import Word Chunks Packet Mem Stream X86 Portable Spec Wasm.
From HW.Bits Require Import Bitblast.
From HW.Refine Require Import ChunksFacts WordFacts Logical PortableRefine Codec PortableCodec StreamRefine SseRefine.
Import ListNotations.
Local Open Scope N_scope.

(* (hi, lo) pairs: the low lane first *)
Definition wcat (l h : V128) : lanes := (snd l, fst l, snd h, fst h).
Definition wc_port (c : wcore) : st16 :=
  {| v0 := wcat (w_v0L c) (w_v0H c); v1 := wcat (w_v1L c) (w_v1H c);
     mul0 := wcat (w_mul0L c) (w_mul0H c); mul1 := wcat (w_mul1L c) (w_mul1H c) |}.
Definition WCwf (c : wcore) : Prop :=
  V2wf (w_v0L c) /\ V2wf (w_v0H c) /\ V2wf (w_v1L c) /\ V2wf (w_v1H c) /\
  V2wf (w_mul0L c) /\ V2wf (w_mul0H c) /\ V2wf (w_mul1L c) /\ V2wf (w_mul1H c).

(* ---------------------------------------------------------------- lane-level identities *)
(* a = lane 0 = the high half (v1 of the pair), b = lane 1 = the low half (v0) *)
Lemma w_zipper_ok a b : w_zipper_merge (a, b) = (zip_hi a b, zip_lo a b).
Proof.
  unfold w_zipper_merge, u8x16_shuffle, w_zipper_table, zip_lo, zip_hi.
  bb_norm. apply f_equal2; bb.
Qed.

Lemma wrot32 a b : w64b a = true -> w64b b = true -> WV2_rotate_by_32 (a, b) = (rotl64_32 a, rotl64_32 b).
Proof.
  intros Ha Hb. wf64 Ha. wf64 Hb. unfold WV2_rotate_by_32, u32x4_shuffle, rotl64_32, shl64, t64, M64.
  bb_norm. apply f_equal2; bb.
Qed.

Lemma w_mul_rot a0 a1 b0 b1 : w64b b0 = true -> w64b b1 = true ->
  w_mm_mul_epu32 (a0, a1) (rotl64_32 b0, rotl64_32 b1) = (mul64 (lo32 a0) (hi32 b0), mul64 (lo32 a1) (hi32 b1)).
Proof.
  intros H0 H1. unfold w_mm_mul_epu32, u64x2_mul, v128_and, v2map2.
  replace (w_u32x4 4294967295 0 4294967295 0) with (M32, M32) by reflexivity. cbn [fst snd].
  change (N.land a0 M32) with (lo32 a0). change (N.land a1 M32) with (lo32 a1).
  change (N.land (rotl64_32 b0) M32) with (lo32 (rotl64_32 b0)). change (N.land (rotl64_32 b1) M32) with (lo32 (rotl64_32 b1)).
  rewrite !lo32_rotl by assumption. reflexivity.
Qed.

Lemma w_mul_srl a0 a1 b0 b1 : w64b b0 = true -> w64b b1 = true ->
  w_mm_mul_epu32 (a0, a1) (w_mm_srli_epi64 (b0, b1) 32) = (mul64 (lo32 a0) (hi32 b0), mul64 (lo32 a1) (hi32 b1)).
Proof.
  intros H0 H1. unfold w_mm_mul_epu32, u64x2_mul, v128_and, v2map2, w_mm_srli_epi64, u64x2_shr, v2map.
  replace (w_u32x4 4294967295 0 4294967295 0) with (M32, M32) by reflexivity. cbn [fst snd].
  change (N.land 32 63) with 32.
  change (N.land a0 M32) with (lo32 a0). change (N.land a1 M32) with (lo32 a1).
  change (N.land (N.shiftr (t64 b0) 32) M32) with (lo32 (N.shiftr (t64 b0) 32)).
  change (N.land (N.shiftr (t64 b1) 32) M32) with (lo32 (N.shiftr (t64 b1) 32)).
  rewrite !lo32_srli by assumption. reflexivity.
Qed.

Lemma w_update_sim c pH pL : WCwf c ->
  wc_port (w_update c pH pL) = p_update (wc_port c) (wcat pL pH) /\ WCwf (w_update c pH pL).
Proof.
  destruct c as [[a1 a0] [a3 a2] [b1 b0] [b3 b2] [c1 c0] [c3 c2] [d1 d0] [d3 d2]].
  destruct pH as [p3 p2], pL as [p1 p0].
  intros ([Ha1 Ha0] & [Ha3 Ha2] & [Hb1 Hb0] & [Hb3 Hb2] & Hc01 & Hc23 & Hd01 & Hd23).
  cbn [fst snd] in *.
  split.
  - unfold w_update, wc_port, wcat, p_update, zipper_add.
    cbn [w_v0L w_v0H w_v1L w_v1H w_mul0L w_mul0H w_mul1L w_mul1H v0 v1 mul0 mul1 zip4].
    unfold u64x2_add, v128_xor, v2map2. cbn [fst snd].
    rewrite !wrot32 by (try assumption; apply add64_w64b).
    rewrite !w_mul_rot, !w_mul_srl by (try assumption; apply add64_w64b).
    cbn [fst snd]. rewrite !w_zipper_ok. cbn [fst snd].
    reflexivity.
  - unfold w_update, WCwf. cbn [w_v0L w_v0H w_v1L w_v1H w_mul0L w_mul0H w_mul1L w_mul1H].
    unfold u64x2_add, v128_xor, v2map2, V2wf. cbn [fst snd].
    rewrite !wrot32 by (try assumption; apply add64_w64b).
    rewrite !w_mul_rot, !w_mul_srl by (try assumption; apply add64_w64b).
    cbn [fst snd].
    repeat split; first [apply add64_w64b | apply lxor_w64b; [apply Hc01 || apply Hc23 || apply Hd01 || apply Hd23 | apply mul64_w64b]].
Qed.

Lemma w_permute_and_update_sim c : WCwf c ->
  wc_port (w_permute_and_update c) = p_permute_and_update (wc_port c) /\ WCwf (w_permute_and_update c).
Proof.
  intros H. unfold w_permute_and_update, p_permute_and_update.
  destruct (w_update_sim c (WV2_rotate_by_32 (w_v0L c)) (WV2_rotate_by_32 (w_v0H c)) H) as [E W].
  split; [|exact W]. rewrite E. f_equal.
  destruct c as [[a1 a0] [a3 a2] ? ? ? ? ? ?]. destruct H as ([? ?] & [? ?] & _).
  unfold wc_port, wcat, p_permute. cbn [w_v0L w_v0H v0 fst snd] in *.
  rewrite !wrot32 by assumption. reflexivity.
Qed.

Lemma w_rounds_sim n c : WCwf c ->
  wc_port (iter n w_permute_and_update c) = iter n p_permute_and_update (wc_port c) /\
  WCwf (iter n w_permute_and_update c).
Proof.
  revert c. induction n as [|n IH]; intros c H; cbn [iter]; [split; [reflexivity|exact H]|].
  destruct (w_permute_and_update_sim c H) as [E W]. destruct (IH _ W) as [E' W'].
  split; [|exact W']. rewrite E', E. reflexivity.
Qed.

(* ---------------------------------------------------------------- rotation, every count 1..31 *)
Lemma w_rotate_lane_ok : forall n, (1 <= n <= 31)%nat -> forall a b,
  w64b a = true -> w64b b = true ->
  let count := N.of_nat n in
  v128_or (w_mm_sll_epi32 (a, b) count) (w_mm_srl_epi32 (a, b) (32 - count))
  = (rotate32by count a, rotate32by count b).
Proof.
  intros n Hn a b Ha Hb. wf64 Ha. wf64 Hb.
  do 32 (destruct n as [|n];
    [ try lia;
      unfold v128_or, w_mm_sll_epi32, w_mm_srl_epi32, u32x4_shl, u32x4_shr, map32, v2map2, rotate32by, rotl32;
      bb_norm; apply f_equal2; bb
    | ]).
  lia.
Qed.

(* ---------------------------------------------------------------- packets and the remainder (safe code, no raw loads) *)
Definition lanes_of_wpair (p : V128 * V128) : lanes := wcat (snd p) (fst p).   (* (packetH, packetL) *)

Lemma p_lanes_wf chunk : length chunk = 32%nat -> wbytesb chunk = true -> wlanesb (packet_lanes chunk) = true.
Proof.
  intros Hl Hb. unfold packet_lanes. apply wlanes_intro;
    (apply le_bytes_8_w64b; [apply wbytesb_sub; exact Hb|unfold sub; rewrite firstn_length; lia]).
Qed.

Lemma w_data_to_lanes_ok chunk : length chunk = 32%nat -> wbytesb chunk = true ->
  lanes_of_wpair (w_data_to_lanes chunk) = packet_lanes chunk.
Proof.
  intros Hl Hb. unfold w_data_to_lanes. rewrite p_data_to_lanes_ok by exact Hl.
  pose proof (p_lanes_wf chunk Hl Hb) as W. destruct (packet_lanes chunk) as [[[l0 l1] l2] l3].
  apply wlanes_split in W as (? & ? & ? & ?).
  unfold lanes_of_wpair, wcat, WV2_new, w_u64x2. cbn [fst snd lane0 lane1 lane2 lane3].
  rewrite !w64b_t64 by assumption. reflexivity.
Qed.

Ltac w_rem_case prof bytes Hl Hb :=
  destruct_bytes bytes Hl; split_wbytes Hb; all_wf8;
  destruct prof as [o [|]];
  (eexists; split;
  [ unfold w_remainder, w_load_multiple_of_four, w_le_u64, unordered_load3, guard;
    bb_norm; reflexivity
  | unfold lanes_of_wpair, wcat, packet_lanes, remainder_packet; bb_norm; rewrite ?add3_lor;
    split_pairs; bb ]).

Lemma w_remainder_ok : forall n, (1 <= n <= 31)%nat -> forall prof bytes,
  length bytes = n -> wbytesb bytes = true ->
  exists p, w_remainder prof bytes = Ok p /\ lanes_of_wpair p = packet_lanes (remainder_packet bytes).
Proof.
  intros n Hn prof bytes Hl Hb.
  do 32 (destruct n as [|n]; [try lia; w_rem_case prof bytes Hl Hb|]).
  lia.
Qed.

(* ---------------------------------------------------------------- the refinement package for Wasm *)
Definition wabs_core (c : wcore) : hstate := to_h (wc_port c).
Definition WInv (s : wstate) : Prop := WCwf (w_core s) /\ BInv (w_buffer s).
Definition wabs (s : wstate) : L := (wabs_core (w_core s), pending (w_buffer s)).

Lemma wcat_wf l h : V2wf l -> V2wf h -> wlanesb (wcat l h) = true.
Proof. intros [? ?] [? ?]. apply wlanes_intro; assumption. Qed.
Lemma WCwf_Hwf c : WCwf c -> Hwf (wabs_core c).
Proof.
  intros (? & ? & ? & ? & ? & ? & ? & ?). unfold Hwf, wabs_core, wc_port, to_h. cbn [hv0 hv1 hmul0 hmul1 v0 v1 mul0 mul1].
  repeat split; apply wcat_wf; assumption.
Qed.

Lemma w_step_ok c m : WCwf c -> length (mbytes m) = 32%nat -> wbytesb (mbytes m) = true ->
  exists c', w_step c m = Ok c' /\ WCwf c' /\ wabs_core c' = hh_update_packet (wabs_core c) (mbytes m).
Proof.
  intros Hc Hl Hb. unfold w_step. eexists. split; [reflexivity|].
  destruct (w_update_sim c (fst (w_data_to_lanes (mbytes m))) (snd (w_data_to_lanes (mbytes m))) Hc) as [Es Ws].
  split; [exact Ws|]. unfold wabs_core, hh_update_packet. rewrite Es, p_update_ok. f_equal.
  apply (w_data_to_lanes_ok (mbytes m) Hl Hb).
Qed.

Lemma w_append_ok prof s d : WInv s -> wbytesb d = true ->
  exists s', w_append prof s d = Ok s' /\ WInv s' /\ wabs s' = absorb (wabs s) d.
Proof.
  intros [Hc Hb] Hd. unfold w_append, w_append_at.
  destruct (g_append_ok w_step 0 wabs_core WCwf w_step_ok prof 0 (w_core s) (w_buffer s) d Hc Hb Hd)
    as (c' & b' & E & Hc' & Hb' & A).
  rewrite E. cbn [bind fst snd]. eexists. split; [reflexivity|]. split; [split; assumption|]. exact A.
Qed.

Lemma wsize_inc : forall n, (n <= 31)%nat ->
  w_u32x4 (N.of_nat n) (N.of_nat n) (N.of_nat n) (N.of_nat n) =
  (N.shiftl (N.of_nat n) 32 + N.of_nat n, N.shiftl (N.of_nat n) 32 + N.of_nat n).
Proof. intros n Hn. do 32 (destruct n as [|n]; [vm_compute; reflexivity|]). lia. Qed.

Lemma t32_small : forall n, (n <= 31)%nat -> t32 (N.of_nat n) = N.of_nat n /\ (N.of_nat n <=? 32) = true.
Proof. intros n Hn. do 32 (destruct n as [|n]; [vm_compute; split; reflexivity|]). lia. Qed.

Lemma w_update_remainder_ok prof s : WInv s -> idx (w_buffer s) <> 0%nat ->
  exists c', w_update_remainder prof s = Ok c' /\ WCwf c' /\
             wabs_core c' = hh_update_remainder (wabs_core (w_core s)) (pending (w_buffer s)).
Proof.
  intros [Hc HB] Hne. pose proof HB as [[Hlen Hidx] Hbw].
  unfold w_update_remainder, plen.
  set (n := idx (w_buffer s)) in *.
  assert (Hn : (1 <= n <= 31)%nat) by lia.
  assert (Hpl : length (pending (w_buffer s)) = n) by (apply pending_length; exact (proj1 HB)).
  destruct (t32_small n ltac:(lia)) as [Ht Hle]. rewrite Ht.
  unfold w_rotate_32_by. rewrite Hle. cbn [bind].
  rewrite (as_slice_ok prof _ (proj1 HB)). cbn [bind].
  destruct (w_remainder_ok n Hn prof (pending (w_buffer s)) Hpl (BInv_pending_w _ HB)) as (p & E & Hp).
  rewrite E. cbn [bind]. eexists. split; [reflexivity|].
  rewrite !wsize_inc by lia.
  destruct (w_core s) as [[a1 a0] [a3 a2] [b1 b0] [b3 b2] c01 c23 d01 d23] eqn:Ecore.
  destruct Hc as ([Ha1 Ha0] & [Ha3 Ha2] & [Hb1 Hb0] & [Hb3 Hb2] & Hc01 & Hc23 & Hd01 & Hd23).
  cbn [w_v0L w_v0H w_v1L w_v1H w_mul0L w_mul0H w_mul1L w_mul1H fst snd] in *.
  rewrite !w_rotate_lane_ok by (assumption || lia).
  match goal with |- context [w_update ?c _ _] => assert (Hw : WCwf c) end.
  { unfold WCwf, V2wf, u64x2_add, v2map2. cbn [w_v0L w_v0H w_v1L w_v1H w_mul0L w_mul0H w_mul1L w_mul1H fst snd].
    repeat split; try assumption; try apply add64_w64b; try apply rotate32by_w64b;
      first [apply Hc01 | apply Hc23 | apply Hd01 | apply Hd23]. }
  match goal with |- context [w_update ?c _ _] => destruct (w_update_sim c (fst p) (snd p) Hw) as [Es Ws] end.
  split; [exact Ws|].
  unfold wabs_core. rewrite Es, p_update_ok. unfold hh_update_remainder, hh_update_packet.
  rewrite Hpl, <- Hp.
  unfold wc_port, to_h, wcat, u64x2_add, v2map2.
  cbn [w_v0L w_v0H w_v1L w_v1H w_mul0L w_mul0H w_mul1L w_mul1H v0 v1 mul0 mul1 hv0 hv1 hmul0 hmul1 fst snd map4].
  reflexivity.
Qed.

Lemma w_pre_finalize_ok prof s : WInv s ->
  exists c', w_pre_finalize prof s = Ok c' /\ WCwf c' /\ wabs_core c' = pre_out (wabs s).
Proof.
  intros HI. unfold w_pre_finalize, is_empty, pre_out, wabs. cbn [fst snd].
  destruct (Nat.eqb_spec (idx (w_buffer s)) 0) as [E0|N0]; cbn [negb].
  - eexists. split; [reflexivity|]. split; [exact (proj1 HI)|]. unfold pending. rewrite E0. reflexivity.
  - destruct (w_update_remainder_ok prof s HI N0) as (c' & E & W & H). exists c'. split; [exact E|]. split; [exact W|].
    rewrite H. destruct (pending (w_buffer s)) as [|b l] eqn:Ep; [|reflexivity].
    exfalso. apply N0. rewrite <- (pending_length _ (proj1 (proj2 HI))), Ep. reflexivity.
Qed.

(* x = (x1 (high), x0 (low)) in Wasm lane order *)
Lemma w_modular_reduction_ok x0 x1 i0 i1 :
  w_modular_reduction (t64 x1, t64 x0) (t64 i1, t64 i0) =
  (fst (modular_reduction (t64 x1) (t64 x0) (t64 i1) (t64 i0)), snd (modular_reduction (t64 x1) (t64 x0) (t64 i1) (t64 i0))).
Proof.
  unfold w_modular_reduction, modular_reduction, WV2_and_not, v128_andnot, u64x2_add, v128_xor,
    w_mm_slli_si128_8, u64x2_shuffle, i32x4_replace_lane_1, WV2_zeroed, WV2_new, w_u64x2, v2map2. cbn [fst snd].
  rewrite !add64_double. unfold w_mm_srli_epi64, u64x2_shr, v2map, shl64, mk64, lo32, t32, t64, M32, M64.
  bb_norm. apply f_equal2; bb.
Qed.

Definition w_finalize (prof : profile) (w : width) (s : wstate) : res (list N) :=
  match w with
  | W64 => do x <- w_finalize64 prof s ;; Ok [x]
  | W128 => do x <- w_finalize128 prof s ;; Ok [fst x; snd x]
  | W256 => do x <- w_finalize256 prof s ;; Ok (lanes_list x)
  end.

Lemma w_finalize_ok prof w s : WInv s -> w_finalize prof w s = Ok (out w (wabs s)).
Proof.
  intros HI. destruct (w_pre_finalize_ok prof s HI) as (c & E & W & H).
  unfold w_finalize, w_finalize64, w_finalize128, w_finalize256, out.
  destruct w; rewrite E; cbn [bind]; rewrite <- H; unfold wabs_core.
  - unfold hh_finalize64. rewrite <- p_rounds_ok. destruct (w_rounds_sim 4 c W) as [Er _]. rewrite <- Er.
    generalize (iter 4 w_permute_and_update c). intros [[a1 a0] [a3 a2] [b1 b0] [b3 b2] [c1 c0] [c3 c2] [d1 d0] [d3 d2]].
    unfold wc_port, wcat, to_h, u64x2_add, v2map2, u64x2_extract_lane.
    cbn [w_v0L w_v0H w_v1L w_v1H w_mul0L w_mul0H w_mul1L w_mul1H v0 v1 mul0 mul1 hv0 hv1 hmul0 hmul1 fst snd lane0 N.eqb].
    rewrite sum4_a. reflexivity.
  - unfold hh_finalize128. rewrite <- p_rounds_ok. destruct (w_rounds_sim 6 c W) as [Er _]. rewrite <- Er.
    generalize (iter 6 w_permute_and_update c). intros [[a1 a0] [a3 a2] [b1 b0] [b3 b2] [c1 c0] [c3 c2] [d1 d0] [d3 d2]].
    unfold wc_port, wcat, to_h, u64x2_add, v2map2, u64x2_extract_lane.
    cbn [w_v0L w_v0H w_v1L w_v1H w_mul0L w_mul0H w_mul1L w_mul1H v0 v1 mul0 mul1 hv0 hv1 hmul0 hmul1 fst snd lane0 lane1 lane2 lane3 N.eqb].
    rewrite !sum4_b. reflexivity.
  - unfold hh_finalize256. rewrite <- p_rounds_ok. destruct (w_rounds_sim 10 c W) as [Er _]. rewrite <- Er.
    generalize (iter 10 w_permute_and_update c). intros [[a1 a0] [a3 a2] [b1 b0] [b3 b2] [c1 c0] [c3 c2] [d1 d0] [d3 d2]].
    unfold wc_port, wcat, to_h, u64x2_add, v2map2, u64x2_extract_lane.
    cbn [w_v0L w_v0H w_v1L w_v1H w_mul0L w_mul0H w_mul1L w_mul1H v0 v1 mul0 mul1 hv0 hv1 hmul0 hmul1 fst snd lane0 lane1 lane2 lane3 N.eqb].
    rewrite <- (add64_t64 a0 c0), <- (add64_t64 a1 c1), <- (add64_t64 a2 c2), <- (add64_t64 a3 c3).
    rewrite <- (add64_t64 b0 d0), <- (add64_t64 b1 d1), <- (add64_t64 b2 d2), <- (add64_t64 b3 d3).
    rewrite !w_modular_reduction_ok. cbn [fst snd].
    repeat match goal with |- context [t64 (fst (modular_reduction (t64 ?a) (t64 ?b) (t64 ?c) (t64 ?d)))] =>
      rewrite (proj1 (mr_t64 a b c d)), (proj2 (mr_t64 a b c d)) end.
    repeat match goal with |- context [modular_reduction ?a ?b ?c ?d] =>
      let m := fresh "m" in set (m := modular_reduction a b c d); destruct m end.
    reflexivity.
Qed.

(* ---------------------------------------------------------------- construction, checkpoint, restore *)
Lemma w_new_ok k : wlanesb k = true -> WInv (w_new k) /\ wabs (w_new k) = L0 k.
Proof.
  destruct k as [[[k0 k1] k2] k3]. intros Hk. apply wlanes_split in Hk as (H0 & H1 & H2 & H3).
  unfold w_new, WV2_new, w_u64x2, v128_xor, v2map2. cbn [lane0 lane1 lane2 lane3 fst snd].
  repeat match goal with |- context [t64 ?c] => is_cst c; let v := eval vm_compute in (t64 c) in change (t64 c) with v end.
  rewrite !(w64b_t64 k0), !(w64b_t64 k1), !(w64b_t64 k2), !(w64b_t64 k3) by assumption.
  rewrite !wrot32 by assumption. cbn [fst snd].
  split.
  - split; [|split; [split; [reflexivity|cbn; lia]|reflexivity]].
    unfold WCwf, V2wf. cbn [w_core w_v0L w_v0H w_v1L w_v1H w_mul0L w_mul0H w_mul1L w_mul1H fst snd].
    repeat split; try reflexivity; apply lxor_w64b; try assumption; try reflexivity; apply rotl64_32_w64b; assumption.
  - unfold wabs, wabs_core, wc_port, wcat, to_h, L0, hh_reset, rot64_32, init_mul0, init_mul1.
    cbn [w_core w_buffer w_v0L w_v0H w_v1L w_v1H w_mul0L w_mul0H w_mul1L w_mul1H v0 v1 mul0 mul1 fst snd zip4 map4].
    rewrite !rotl64_32_comm.
    rewrite !(N.lxor_comm k0), !(N.lxor_comm k1), !(N.lxor_comm k2), !(N.lxor_comm k3).
    rewrite !(N.lxor_comm (N.lor (N.shiftr k0 32) _)), !(N.lxor_comm (N.lor (N.shiftr k1 32) _)),
            !(N.lxor_comm (N.lor (N.shiftr k2 32) _)), !(N.lxor_comm (N.lor (N.shiftr k3 32) _)).
    reflexivity.
Qed.

Lemma w_to_portable_abs s : WInv s -> Inv (w_to_portable s) /\ abs (w_to_portable s) = wabs s.
Proof.
  intros [Hc HB]. split; [exact (proj1 HB)|].
  unfold abs, wabs, wabs_core, w_to_portable, wc_port, wcat, to_h, WV2_as_arr, u64x2_extract_lane.
  cbn [core buffer fst snd v0 v1 mul0 mul1 N.eqb].
  destruct (w_core s) as [[a1 a0] [a3 a2] [b1 b0] [b3 b2] [c1 c0] [c3 c2] [d1 d0] [d3 d2]].
  destruct Hc as ([? ?] & [? ?] & [? ?] & [? ?] & [? ?] & [? ?] & [? ?] & [? ?]).
  cbn [w_v0L w_v0H w_v1L w_v1H w_mul0L w_mul0H w_mul1L w_mul1H fst snd] in *.
  rewrite !w64b_t64 by assumption. reflexivity.
Qed.

Lemma w_checkpoint_ok prof s : WInv s -> w_checkpoint prof s = Ok (encode (wabs s)).
Proof.
  intros HI. destruct (w_to_portable_abs s HI) as [Hi Ha]. unfold w_checkpoint.
  rewrite p_checkpoint_ok by exact Hi. rewrite Ha. reflexivity.
Qed.

Lemma w_of_portable_ok p : Inv p -> Cwf (core p) -> wbytesb (buf (buffer p)) = true ->
  WInv (w_of_portable p) /\ wabs (w_of_portable p) = abs p.
Proof.
  intros Hi Hw Hb. destruct p as [[[[[a0 a1] a2] a3] [[[b0 b1] b2] b3] [[[c0 c1] c2] c3] [[[d0 d1] d2] d3]] bf].
  destruct Hw as (Ha & Hbb & Hc & Hd). cbn [to_h hv0 hv1 hmul0 hmul1 v0 v1 mul0 mul1 core] in *.
  apply wlanes_split in Ha as (? & ? & ? & ?). apply wlanes_split in Hbb as (? & ? & ? & ?).
  apply wlanes_split in Hc as (? & ? & ? & ?). apply wlanes_split in Hd as (? & ? & ? & ?).
  split.
  - split; [|split; [exact Hi|exact Hb]].
    unfold w_of_portable, WCwf, V2wf, WV2_new, w_u64x2.
    cbn [core buffer w_core w_v0L w_v0H w_v1L w_v1H w_mul0L w_mul0H w_mul1L w_mul1H v0 v1 mul0 mul1 lane0 lane1 lane2 lane3 fst snd].
    repeat split; apply t64_w64b.
  - unfold wabs, wabs_core, abs, w_of_portable, wc_port, wcat, to_h, WV2_new, w_u64x2.
    cbn [core buffer w_core w_buffer w_v0L w_v0H w_v1L w_v1H w_mul0L w_mul0H w_mul1L w_mul1H v0 v1 mul0 mul1 lane0 lane1 lane2 lane3 fst snd].
    rewrite !w64b_t64 by assumption. reflexivity.
Qed.

Lemma w_restore_ok prof c : wbytesb c = true ->
  exists s, w_from_checkpoint prof c = Ok s /\ WInv s /\ wabs s = decode c.
Proof.
  intros Hc. destruct (p_from_checkpoint_ok prof c) as (p & E & Hi & Ha).
  unfold w_from_checkpoint. rewrite E. cbn [bind]. eexists. split; [reflexivity|].
  assert (Hw : Cwf (core p)).
  { unfold Cwf. replace (to_h (core p)) with (fst (abs p)) by reflexivity. rewrite Ha. apply decode_Hwf. exact Hc. }
  destruct (w_of_portable_ok p Hi Hw (p_from_checkpoint_bytes prof c p E Hc)) as [HS HA].
  split; [exact HS|]. rewrite HA. exact Ha.
Qed.
