(* SourceTieCkpt.v — checkpoint (the 164-byte encoding, written through a moving cursor) and from_checkpoint (decode, then the
   pending bytes through append) of src/portable.rs, as translated from the current source, against Portable.p_checkpoint /
   p_from_checkpoint, for every state, every 164-byte input and every profile. *)
From Coq Require Import NArith List String Bool Arith Lia.
From HW Require Import Word Chunks Packet Portable.
From HW.Facts Require Import RustLite.
From HWGen Require Import SrcPortable SrcPacket.
From HW.Refine Require Import SourceTie SourceTieAppend.
Import ListNotations.
Local Open Scope N_scope.

Ltac fold_env X e :=
  match goal with |- context [call_fn _ _ _ _ _ ?g _] => change g with (genv_of X e) end.
Ltac fold_penv e :=
  match goal with |- context [call_fn _ _ _ _ _ ?g _] => change g with (penv e) end.

Ltac rn3 :=
  cbv beta iota zeta delta
    [run_fn find_fn all_fns src_fns pkt_fns map app String.append noext
     src_checkpoint src_from_checkpoint sub_env merge_back penv
     exec exec_block eval eval_list eval_idx eval_arg eval_args assign bind_params param_values copy_out eval_ret eval_cond
     get put lookup upd is_self String.eqb Ascii.eqb Bool.eqb substring set_nth nth_opt bind genv lenv f_params f_body f_ret
     seq Nat.sub Nat.ltb Nat.leb Nat.eqb Nat.mul Nat.add Nat.min List.length mask bits genv_of ll
     firstn skipn repeat write_at range_of eval_bound fst snd andb len_of to_le_bytes N.to_nat Pos.to_nat Pos.iter_op].

Ltac enum_list d k :=
  lazymatch k with
  | O => idtac
  | S ?k' => let b := fresh "b" in destruct d as [|b d]; [ | enum_list d k']
  end.

Section Ckpt.
Variable p : profile.
Notation call := (call_fn p noext all_fns).
Ltac next3 := set (CALL := call_fn p noext all_fns); rn3; subst CALL.

Definition ret_of' (r : callres) : res (option val) :=
  match r with Ok (_, _, rv) => Ok rv | Panic => Panic | Fault => Fault end.
Definition lift_ret' {A} (r : res A) (k : A -> val) : res (option val) :=
  match r with Ok a => Ok (Some (k a)) | Panic => Panic | Fault => Fault end.

Lemma as_slice_len b sl : List.length (buf b) = 32%nat -> as_slice p b = Ok sl -> (List.length sl <= 32)%nat.
Proof.
  intros Hb. unfold as_slice. destruct (dbg p && (32 <? Packet.idx b)%nat); [discriminate|].
  intros [= <-]. destruct (Packet.idx b <=? 32)%nat; [rewrite firstn_length; lia | lia].
Qed.

Lemma checkpoint_ok fuel c b : wfp b ->
  ret_of' (call (S (S fuel)) "checkpoint" (genv_of c b) []) = lift_ret' (p_checkpoint p {| core := c; buffer := b |}) VA.
Proof.
  intros [Hlen Hidx]. rewrite call_step. unfold p_checkpoint, lift_ret'. cbn [core buffer].
  destruct c as [[[[a0 a1] a2] a3] [[[b0 b1] b2] b3] [[[m0 m1] m2] m3] [[[n0 n1] n2] n3]].
  next3.
  fold_penv b. rewrite (pkt_as_slice_ok _ _ _ Hlen). unfold plift.
  destruct (as_slice p b) as [sl| |] eqn:Eas; [|next3; reflexivity|next3; reflexivity].
  pose proof (as_slice_len _ _ Hlen Eas) as Hsl.
  enum_list sl 33%nat; [..|cbn [List.length] in Hsl; lia];
    (next3; fold_penv b; rewrite pkt_len_ok; next3;
     cbv beta iota zeta delta [st16_bytes flat_map lanes_list to_le_bytes app firstn repeat List.length Nat.sub plen t32 v0 v1 mul0 mul1 ret_of' mask bind];
     reflexivity).
Qed.

(* ---- from_checkpoint(data: [u8; 164]) -> Self *)
Ltac rn4 :=
  cbv beta iota zeta delta
    [run_fn find_fn all_fns src_fns pkt_fns map app String.append noext
     src_checkpoint src_from_checkpoint sub_env merge_back penv
     exec exec_block eval eval_list eval_idx eval_arg eval_args assign bind_params param_values copy_out eval_ret eval_cond
     get put lookup upd is_self String.eqb Ascii.eqb Bool.eqb substring set_nth nth_opt bind genv lenv f_params f_body f_ret
     seq Nat.sub Nat.ltb Nat.leb Nat.eqb Nat.mul Nat.add Nat.min List.length mask bits genv_of ll
     firstn skipn repeat write_at range_of eval_bound fst snd andb len_of].
Ltac to_nat_lits :=
  repeat match goal with
  | |- context [N.to_nat ?k] =>
      let v := eval vm_compute in k in
      constr_eq v k;
      let r := eval vm_compute in (N.to_nat k) in
      change (N.to_nat k) with r
  end.
Ltac next4 := set (CALL := call_fn p noext all_fns); repeat (progress (rn4; to_nat_lits)); subst CALL.

Lemma min32_le x : (N.to_nat (N.min x 32) <=? 32)%nat = true.
Proof. apply Nat.leb_le. assert (N.min x 32 <= 32) by apply N.le_min_r. lia. Qed.

Lemma from_checkpoint_ok fuel c b data : List.length data = 164%nat ->
  call (S (S (S (S (S fuel))))) "from_checkpoint" (genv_of c b) [VA data]
  = lift (p_from_checkpoint p data) (fun s' => (genv_of (core s') (buffer s'), [Some (VA data)], None)).
Proof.
  intros Hd.
  do 164 (destruct data as [|? data]; [discriminate|]). destruct data; [|discriminate]. clear Hd.
  rewrite call_step. unfold p_from_checkpoint.
  destruct c as [[[[ca0 ca1] ca2] ca3] [[[cb0 cb1] cb2] cb3] [[[cm0 cm1] cm2] cm3] [[[cn0 cn1] cn2] cn3]].
  next4.
  fold Nat.leb. change (N.of_nat 32) with 32. rewrite min32_le.
  next4.
  assert (Wd : wfp packet_default) by (split; [reflexivity | unfold M64; cbn; lia]).
  match goal with
  | |- _ = lift (p_append _ {| core := ?c0; buffer := ?b0 |} ?arg) _ =>
      match goal with
      | |- context [call_fn _ _ _ ?k "append"%string ?g ?a] =>
          change (call_fn p noext all_fns k "append"%string g a) with (call_fn p noext all_fns k "append"%string (genv_of c0 b0) [VA arg])
      end;
      rewrite (append_ok p _ c0 b0 arg Wd);
      destruct (p_append p {| core := c0; buffer := b0 |} arg) as [s'| |]
  end; unfold lift; next4; reflexivity.
Qed.
End Ckpt.
