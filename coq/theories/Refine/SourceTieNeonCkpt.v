(* SourceTieNeonCkpt.v — NeonHash::checkpoint (written in `impl HighwayHash for NeonHash`) and NeonHash::force_from_checkpoint of
   src/aarch64.rs, as translated from the current source, against Neon.v.  Both go through PortableHash: checkpoint builds a
   PortableHash value from the lanes (V2x64U::as_arr, copy_from_slice) and calls its checkpoint; from_checkpoint calls
   PortableHash::from_checkpoint and repacks the lanes (V2x64U::new).  The PortableHash functions they call are the translated
   ones of the same table, and what they do is taken from the theorems already proved about them (SourceTieCkpt.v). *)
From Coq Require Import NArith List String Bool Arith Lia.
From HW Require Import Word Chunks Packet Mem Stream X86 Portable Neon.
From HW.Refine Require Import ChunksFacts StreamRefine SourceTie SourceTieCkpt PacketTie SourceTieWasmFull SourceTieWasmBytes SourceTieNeonFull.
From HW.Facts Require Import RustLite.
From HWGen Require Import SrcPortable SrcPacket SrcNeonFull.
Import ListNotations.
Local Open Scope N_scope.

Section Ckpt.
Variable p : profile.
Notation call := (call_fn p (wext p) wall_fns).

Ltac run_to_call :=
  match goal with |- context [call_fn p (wext p) wall_fns ?f] =>
    let C := fresh "CALL" in let E := fresh "EC" in
    remember (call_fn p (wext p) wall_fns f) as C eqn:E;
    cbv -[le_bytes t64 unordered_load3 NV2_as_arr NV2_new p_checkpoint p_from_checkpoint];
    subst C
  end.
Ltac stepc L := rewrite L; run_to_call.

(* the qualified names other files use are the same translated functions *)
Lemma nalias_checkpoint fuel g :
  call (S fuel) "PortableHash::checkpoint" g [] = call_fn p noext all_fns (S fuel) "checkpoint" g [].
Proof. reflexivity. Qed.
Lemma nalias_from_checkpoint fuel g vs :
  call (S fuel) "PortableHash::from_checkpoint" g vs = call_fn p noext all_fns (S fuel) "from_checkpoint" g vs.
Proof. reflexivity. Qed.

Lemma n_checkpoint_src fuel c b : wfp b ->
  ret_of' (call (S (S (S fuel))) "aarch64::NeonHash::checkpoint" (ngenv_of c b) [])
  = lift_ret' (n_checkpoint p {| n_core := c; n_buffer := b |}) VA.
Proof.
  intros W. destruct c as [a0 a1 a2 a3 a4 a5 a6 a7].
  remember (lift_ret' (n_checkpoint p {| n_core := Build_ncore a0 a1 a2 a3 a4 a5 a6 a7; n_buffer := b |}) VA) as RHS eqn:ER.
  rewrite wcall_step. run_to_call.
  do 8 stepc (n_as_arr_src p).
  rewrite nalias_checkpoint.
  subst RHS. unfold n_checkpoint.
  change (n_to_portable {| n_core := Build_ncore a0 a1 a2 a3 a4 a5 a6 a7; n_buffer := b |})
    with {| core := core (n_to_portable {| n_core := Build_ncore a0 a1 a2 a3 a4 a5 a6 a7; n_buffer := b |}); buffer := b |}.
  set (C := core (n_to_portable {| n_core := Build_ncore a0 a1 a2 a3 a4 a5 a6 a7; n_buffer := b |})).
  match goal with |- context [call_fn p noext all_fns _ "checkpoint"%string ?g _] => change g with (genv_of C b) end.
  pose proof (checkpoint_ok p fuel C b W) as H.
  destruct (p_checkpoint p {| core := C; buffer := b |}) as [x| |]; cbn [lift_ret'] in H |- *;
    destruct (call_fn p noext all_fns (S (S fuel)) "checkpoint" (genv_of C b) []) as [[[g' fin] rv]| |];
    cbn [ret_of'] in H; try discriminate H; try (cbv; reflexivity).
  injection H as ->. cbv. reflexivity.
Qed.

Definition NC0 : st16 := {| v0 := (0,0,0,0); v1 := (0,0,0,0); mul0 := (0,0,0,0); mul1 := (0,0,0,0) |}.
Definition NB0 : packet := {| buf := repeat 0 32; Packet.idx := 0 |}.

Lemma n_force_from_checkpoint_src fuel c b data : List.length data = 164%nat ->
  call (S (S (S (S (S (S fuel)))))) "aarch64::NeonHash::force_from_checkpoint" (ngenv_of c b) [VA data]
  = lift (n_force_from_checkpoint p data) (fun s' => (ngenv_of (n_core s') (n_buffer s'), [Some (VA data)], None)).
Proof.
  intros Hd. destruct c as [a0 a1 a2 a3 a4 a5 a6 a7].
  remember (lift (n_force_from_checkpoint p data) (fun s' => (ngenv_of (n_core s') (n_buffer s'), [Some (VA data)], None))) as RHS eqn:ER.
  rewrite wcall_step. run_to_call.
  rewrite nalias_from_checkpoint.
  match goal with |- context [call_fn p noext all_fns _ "from_checkpoint"%string ?g _] => change g with (genv_of NC0 NB0) end.
  rewrite (from_checkpoint_ok p fuel NC0 NB0 data Hd).
  subst RHS. unfold n_force_from_checkpoint.
  destruct (p_from_checkpoint p data) as [[[l0 l1 l2 l3] pb]| |]; cbn [lift bind]; [|cbv; reflexivity|cbv; reflexivity].
  destruct l0 as [[[x0 x1] x2] x3]. destruct l1 as [[[y0 y1] y2] y3]. destruct l2 as [[[m0 m1] m2] m3]. destruct l3 as [[[n0 n1] n2] n3].
  run_to_call.
  do 7 stepc (n_new2_src p). rewrite (n_new2_src p).
  cbv -[t64]. reflexivity.
Qed.
End Ckpt.
