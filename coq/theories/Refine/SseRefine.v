(* SseRefine.v — the SSE4.1 model simulates the portable model on its portable image
   (the PortableHash that SseHash::checkpoint builds): every SSE operation commutes with
   [s_port], for all lane values below 2^64 and all byte values below 2^8. *)
From Coq Require Import NArith List Lia Bool Arith.
From HW Require Import Word Chunks Packet Mem X86 Portable Spec Sse.
From HW.Bits Require Import Bitblast.
From HW.Refine Require Import ChunksFacts WordFacts Logical PortableRefine Codec PortableCodec.
Import ListNotations.
Local Open Scope N_scope.

Ltac bb_norm := repeat (progress bb_cbv).

(* replace a variable known to be < 2^64 by its truncation, so that the bit-blaster sees the bound *)
Ltac wf64 H := match type of H with w64b ?x = true =>
  let E := fresh in pose proof (w64b_t64 x H) as E; rewrite <- E; clear E end.
Ltac wf8 H := match type of H with w8b ?x = true =>
  let E := fresh in pose proof (w8b_t8 x H) as E; rewrite <- E; clear E end.

Definition V2wf (v : V128) : Prop := w64b (fst v) = true /\ w64b (snd v) = true.

(* ---------------------------------------------------------------- lane-level identities *)
Lemma s_zipper_ok a b : s_zipper_merge (a, b) = (zip_lo b a, zip_hi b a).
Proof.
  unfold s_zipper_merge, mm_shuffle_epi8, V2_new, mm_set_epi64x, zip_lo, zip_hi.
  bb_norm. apply f_equal2; bb.
Qed.

Lemma rot32_fst a b : w64b a = true -> fst (V2_rotate_by_32 (a, b)) = rotl64_32 a.
Proof.
  intros H. wf64 H. unfold V2_rotate_by_32, mm_shuffle_epi32, mm_shuffle_2301, rotl64_32, shl64, t64, M64.
  bb_norm. bb.
Qed.
Lemma rot32_snd a b : w64b b = true -> snd (V2_rotate_by_32 (a, b)) = rotl64_32 b.
Proof.
  intros H. wf64 H. unfold V2_rotate_by_32, mm_shuffle_epi32, mm_shuffle_2301, rotl64_32, shl64, t64, M64.
  bb_norm. bb.
Qed.
Lemma rot32_wf v : V2wf (V2_rotate_by_32 v).
Proof. destruct v as [a b]. split; apply t64_w64b. Qed.

Lemma lo32_rotl a : w64b a = true -> lo32 (rotl64_32 a) = hi32 a.
Proof. intros H. wf64 H. unfold lo32, rotl64_32, hi32, shl64, t64, M32, M64. bb. Qed.
Lemma lo32_srli a : w64b a = true -> lo32 (N.shiftr (t64 a) 32) = hi32 a.
Proof. intros H. wf64 H. unfold lo32, hi32, t64, M32, M64. bb. Qed.

Lemma add64_double a : add64 a a = shl64 a 1.
Proof.
  unfold add64, shl64. f_equal. rewrite N.shiftl_mul_pow2. change (2 ^ 1) with 2. lia.
Qed.

(* ---------------------------------------------------------------- the sixteen lanes *)
Definition cat (l h : V128) : lanes := (fst l, snd l, fst h, snd h).
Definition sc_port (c : score) : st16 :=
  {| v0 := cat (v0L c) (v0H c); v1 := cat (v1L c) (v1H c);
     mul0 := cat (mul0L c) (mul0H c); mul1 := cat (mul1L c) (mul1H c) |}.
Definition SCwf (c : score) : Prop :=
  V2wf (v0L c) /\ V2wf (v0H c) /\ V2wf (v1L c) /\ V2wf (v1H c) /\
  V2wf (mul0L c) /\ V2wf (mul0H c) /\ V2wf (mul1L c) /\ V2wf (mul1H c).

Lemma srli32 v : mm_srli_epi64 v 32 = (N.shiftr (t64 (fst v)) 32, N.shiftr (t64 (snd v)) 32).
Proof. reflexivity. Qed.

Lemma V2wf_add a b : V2wf (mm_add_epi64 a b).
Proof. split; apply add64_w64b. Qed.
Lemma V2wf_xor_mul a x y : V2wf a -> V2wf (mm_xor_si128 a (mm_mul_epu32 x y)).
Proof. intros [H1 H2]. split; (apply lxor_w64b; [assumption|apply mul64_w64b]). Qed.

Lemma s_update_sim c pH pL : SCwf c ->
  sc_port (s_update c pH pL) = p_update (sc_port c) (cat pL pH) /\ SCwf (s_update c pH pL).
Proof.
  destruct c as [[a0 a1] [a2 a3] [b0 b1] [b2 b3] [c0 c1] [c2 c3] [d0 d1] [d2 d3]].
  destruct pH as [p2 p3], pL as [p0 p1].
  intros ([Ha0 Ha1] & [Ha2 Ha3] & [Hb0 Hb1] & [Hb2 Hb3] & Hc01 & Hc23 & Hd01 & Hd23).
  cbn [fst snd] in *.
  split.
  - unfold s_update, sc_port, cat, p_update, zipper_add.
    cbn [v0L v0H v1L v1H mul0L mul0H mul1L mul1H v0 v1 mul0 mul1 zip4].
    rewrite !srli32.
    unfold mm_add_epi64, mm_xor_si128, mm_mul_epu32, v2map2. cbn [fst snd].
    rewrite !s_zipper_ok. cbn [fst snd].
    rewrite !rot32_fst, !rot32_snd by (try assumption; apply add64_w64b).
    rewrite !lo32_rotl by (try assumption; apply add64_w64b).
    rewrite !lo32_srli by (try assumption; apply add64_w64b).
    reflexivity.
  - unfold s_update, SCwf. cbn [v0L v0H v1L v1H mul0L mul0H mul1L mul1H].
    repeat split; first [apply add64_w64b | apply lxor_w64b; [apply Hc01 || apply Hc23 || apply Hd01 || apply Hd23 | apply mul64_w64b]].
Qed.

Lemma s_permute_and_update_sim c : SCwf c ->
  sc_port (s_permute_and_update c) = p_permute_and_update (sc_port c) /\ SCwf (s_permute_and_update c).
Proof.
  intros H. unfold s_permute_and_update, p_permute_and_update.
  destruct (s_update_sim c (V2_rotate_by_32 (v0L c)) (V2_rotate_by_32 (v0H c)) H) as [E W].
  split; [|exact W]. rewrite E. f_equal.
  destruct c as [[a0 a1] [a2 a3] ? ? ? ? ? ?]. destruct H as ([? ?] & [? ?] & _).
  unfold sc_port, cat, p_permute. cbn [v0L v0H v0 fst snd] in *.
  rewrite !rot32_fst, !rot32_snd by assumption. reflexivity.
Qed.

Lemma s_rounds_sim n c : SCwf c ->
  sc_port (iter n s_permute_and_update c) = iter n p_permute_and_update (sc_port c) /\
  SCwf (iter n s_permute_and_update c).
Proof.
  revert c. induction n as [|n IH]; intros c H; cbn [iter]; [split; [reflexivity|exact H]|].
  destruct (s_permute_and_update_sim c H) as [E W]. destruct (IH _ W) as [E' W'].
  split; [|exact W']. rewrite E', E. reflexivity.
Qed.

(* ---------------------------------------------------------------- 32-bit lane rotation, every count 1..31 *)
Lemma s_rotate_lane_ok : forall n, (1 <= n <= 31)%nat -> forall a b,
  w64b a = true -> w64b b = true ->
  let count := N.of_nat n in
  mm_or_si128 (mm_sll_epi32 (a, b) (mm_cvtsi64_si128 count)) (mm_srl_epi32 (a, b) (mm_cvtsi64_si128 (i64_sub_32 count)))
  = (rotate32by count a, rotate32by count b).
Proof.
  intros n Hn a b Ha Hb. wf64 Ha. wf64 Hb.
  do 32 (destruct n as [|n];
    [ try lia;
      unfold mm_or_si128, mm_sll_epi32, mm_srl_epi32, mm_cvtsi64_si128, i64_sub_32, map32, v2map2, rotate32by, rotl32;
      bb_norm; apply f_equal2; bb
    | ]).
  lia.
Qed.

(* ---------------------------------------------------------------- memory: packets and the remainder *)
(* three disjoint byte positions: + is or *)
Lemma add3_lor x y z :
  N.land x 255 + N.shiftl (N.land y 255) 8 + N.shiftl (N.land z 255) 16 =
  N.lor (N.lor (N.land x 255) (N.shiftl (N.land y 255) 8)) (N.shiftl (N.land z 255) 16).
Proof.
  assert (D : forall a b, N.land a b = 0 -> a + b = N.lor a b).
  { intros a b H. rewrite N.add_nocarry_lxor by exact H. apply N.lxor_lor. exact H. }
  rewrite (D (N.land x 255)).
  - apply D. bb.
  - bb.
Qed.

Ltac split_pairs := repeat match goal with |- (_, _) = (_, _) => apply f_equal2 end.
Ltac destruct_bytes bytes Hl :=
  repeat (destruct bytes as [|?b bytes]; try discriminate Hl).
Ltac all_wf8 :=
  repeat match goal with H : w8b ?x = true |- _ => wf8 H; clear H end.
Ltac split_wbytes H :=
  cbn [wbytesb forallb] in H; rewrite ?andb_true_iff in H;
  repeat match goal with H : _ /\ _ |- _ => destruct H end.

Definition lanes_of_pair (p : V128 * V128) : lanes := cat (snd p) (fst p).   (* (packetH, packetL) *)

Lemma skipn_skipn' {A} (l : list A) : forall a b, skipn b (skipn a l) = skipn (a + b) l.
Proof.
  induction l as [|x l IH]; intros a b.
  - rewrite !skipn_nil. reflexivity.
  - destruct a as [|a]; [reflexivity|]. cbn [skipn Nat.add]. apply IH.
Qed.

Lemma sub_sub (l : list N) a n b m : (b + m <= n)%nat -> sub (sub l a n) b m = sub l (a + b) m.
Proof.
  intros H. unfold sub. rewrite skipn_firstn_comm, firstn_firstn, skipn_skipn'.
  rewrite Nat.min_l by lia. reflexivity.
Qed.

Lemma In_firstn {A} (x : A) n l : In x (firstn n l) -> In x l.
Proof. intros H. rewrite <- (firstn_skipn n l). apply in_or_app. left. exact H. Qed.
Lemma In_skipn' {A} (x : A) n l : In x (skipn n l) -> In x l.
Proof. intros H. rewrite <- (firstn_skipn n l). apply in_or_app. right. exact H. Qed.

Lemma wbytesb_sub l a n : wbytesb l = true -> wbytesb (sub l a n) = true.
Proof.
  unfold wbytesb, sub. rewrite !forallb_forall. intros H x Hx. apply H.
  apply In_firstn in Hx. apply (In_skipn' _ _ _ Hx).
Qed.

Lemma sub_length (l : list N) a n : (a + n <= length l)%nat -> length (sub l a n) = n.
Proof. intros H. unfold sub. rewrite firstn_length, skipn_length. lia. Qed.

Lemma t64_le8 l a : wbytesb l = true -> t64 (le_bytes (sub l a 8)) = le_bytes (sub l a 8).
Proof.
  intros H. apply w64b_t64. apply le_bytes_8_w64b; [apply wbytesb_sub; exact H|].
  unfold sub. rewrite firstn_length. lia.
Qed.

Lemma load_ok chunk addr off n : (off + n <= length chunk)%nat ->
  load {| mbytes := chunk; maddr := addr |} off n 1 = Ok (sub chunk off n).
Proof.
  intros H. unfold load. cbn [mbytes maddr]. rewrite N.mod_1_r. cbn [N.eqb].
  destruct (Nat.leb_spec (off + n) (length chunk)); [reflexivity|lia].
Qed.

Lemma v128_of_sub l a : wbytesb l = true ->
  v128_of_bytes (sub l a 16) = (le_bytes (sub l a 8), le_bytes (sub l (a + 8) 8)).
Proof.
  intros H. unfold v128_of_bytes. rewrite !sub_sub by lia. rewrite !t64_le8 by exact H.
  rewrite Nat.add_0_r. reflexivity.
Qed.

Lemma s_data_to_lanes_ok chunk addr : length chunk = 32%nat -> wbytesb chunk = true ->
  exists p, s_data_to_lanes {| mbytes := chunk; maddr := addr |} = Ok p /\ lanes_of_pair p = packet_lanes chunk.
Proof.
  intros Hl Hb. unfold s_data_to_lanes, mm_loadu_si128.
  rewrite !load_ok by lia. cbn [bind]. eexists. split; [reflexivity|].
  unfold lanes_of_pair, cat, packet_lanes. cbn [fst snd]. rewrite !v128_of_sub by exact Hb. reflexivity.
Qed.

(* SSE remainder packing = the specification's remainder packet, for every size 1..31, all bytes symbolic;
   every load stays inside the slice (no Fault) and no index panics *)
Ltac s_rem_case bytes Hl Hb :=
  destruct_bytes bytes Hl; split_wbytes Hb; all_wf8;
  eexists; split;
  [ unfold s_remainder, s_load_multiple_of_four, mm_loadu_si128, mm_loadl_epi64, load, mslice_from, mlen,
      self_buf, S_BUF_ADDR, unordered_load3, guard;
    bb_norm; reflexivity
  | unfold lanes_of_pair, cat, packet_lanes, remainder_packet; bb_norm; rewrite ?add3_lor;
    split_pairs; bb ].

Lemma s_remainder_ok : forall n, (1 <= n <= 31)%nat -> forall prof bytes,
  length bytes = n -> wbytesb bytes = true ->
  exists p, s_remainder prof (self_buf S_BUF_ADDR bytes) = Ok p /\
            lanes_of_pair p = packet_lanes (remainder_packet bytes).
Proof.
  intros n Hn prof bytes Hl Hb.
  do 32 (destruct n as [|n]; [try lia; s_rem_case bytes Hl Hb|]).
  lia.
Qed.

(* ---------------------------------------------------------------- the refinement package for SSE *)
From HW Require Import Stream.
From HW.Refine Require Import StreamRefine.

Definition sabs_core (c : score) : hstate := to_h (sc_port c).
Definition SInv (s : sstate) : Prop := SCwf (s_core s) /\ BInv (s_buffer s).
Definition sabs (s : sstate) : L := (sabs_core (s_core s), pending (s_buffer s)).

Lemma s_step_ok c m : SCwf c -> length (mbytes m) = 32%nat -> wbytesb (mbytes m) = true ->
  exists c', s_step c m = Ok c' /\ SCwf c' /\ sabs_core c' = hh_update_packet (sabs_core c) (mbytes m).
Proof.
  intros Hc Hl Hb. destruct m as [bytes addr]. cbn [mbytes] in *.
  destruct (s_data_to_lanes_ok bytes addr Hl Hb) as (p & E & Hp).
  unfold s_step. rewrite E. cbn [bind]. eexists. split; [reflexivity|].
  destruct (s_update_sim c (fst p) (snd p) Hc) as [Es Ws]. split; [exact Ws|].
  unfold sabs_core, hh_update_packet. rewrite Es, p_update_ok. f_equal. exact Hp.
Qed.

Lemma s_append_ok prof addr s d : SInv s -> wbytesb d = true ->
  exists s', s_append prof addr s d = Ok s' /\ SInv s' /\ sabs s' = absorb (sabs s) d.
Proof.
  intros [Hc Hb] Hd. unfold s_append.
  destruct (g_append_ok s_step S_BUF_ADDR sabs_core SCwf s_step_ok prof addr (s_core s) (s_buffer s) d Hc Hb Hd)
    as (c' & b' & E & Hc' & Hb' & A).
  rewrite E. cbn [bind fst snd]. eexists. split; [reflexivity|]. split; [split; assumption|]. exact A.
Qed.

Lemma rotate32by_w64b count x : w64b (rotate32by count x) = true.
Proof.
  unfold rotate32by, rotl32.
  match goal with |- w64b ?e = true => replace e with (t64 e); [apply t64_w64b|unfold t64, M64, M32; bb] end.
Qed.

Lemma set1_inc : forall n, (n <= 31)%nat ->
  mm_set1_epi32 (t32 (N.of_nat n)) = (N.shiftl (N.of_nat n) 32 + N.of_nat n, N.shiftl (N.of_nat n) 32 + N.of_nat n).
Proof. intros n Hn. do 32 (destruct n as [|n]; [vm_compute; reflexivity|]). lia. Qed.

Lemma BInv_pending_w b : BInv b -> wbytesb (pending b) = true.
Proof. intros [_ H]. apply wbytesb_firstn. exact H. Qed.

Lemma s_update_remainder_ok prof s : SInv s -> idx (s_buffer s) <> 0%nat ->
  exists c', s_update_remainder prof s = Ok c' /\ SCwf c' /\
             sabs_core c' = hh_update_remainder (sabs_core (s_core s)) (pending (s_buffer s)).
Proof.
  intros [Hc HB] Hne. pose proof HB as [[Hlen Hidx] Hbw].
  unfold s_update_remainder, plen.
  rewrite (as_slice_ok prof _ (proj1 HB)). cbn [bind].
  set (n := idx (s_buffer s)) in *.
  assert (Hn : (1 <= n <= 31)%nat) by lia.
  assert (Hpl : length (pending (s_buffer s)) = n) by (apply pending_length; exact (proj1 HB)).
  match goal with |- context [s_remainder prof ?m] =>
    destruct (s_remainder_ok n Hn prof (pending (s_buffer s)) Hpl (BInv_pending_w _ HB)) as (p & E & Hp) end.
  rewrite E. cbn [bind].
  eexists. split; [reflexivity|].
  rewrite set1_inc by lia.
  destruct (s_core s) as [[a0 a1] [a2 a3] [b0 b1] [b2 b3] c01 c23 d01 d23] eqn:Ecore.
  destruct Hc as ([Ha0 Ha1] & [Ha2 Ha3] & [Hb0 Hb1] & [Hb2 Hb3] & Hc01 & Hc23 & Hd01 & Hd23).
  cbn [v0L v0H v1L v1H mul0L mul0H mul1L mul1H fst snd] in *.
  match goal with |- context [s_update ?c _ _] =>
    assert (Hw : SCwf c) end.
  { unfold s_rotate_32_by, SCwf, V2wf, mm_add_epi64, v2map2. cbn [v0L v0H v1L v1H mul0L mul0H mul1L mul1H fst snd].
    rewrite !s_rotate_lane_ok by (assumption || lia). cbn [fst snd].
    repeat split; try assumption; try apply add64_w64b; try apply rotate32by_w64b;
      first [apply Hc01 | apply Hc23 | apply Hd01 | apply Hd23]. }
  match goal with |- context [s_update ?c _ _] =>
    destruct (s_update_sim c (fst p) (snd p) Hw) as [Es Ws] end.
  split; [exact Ws|].
  unfold sabs_core. rewrite Es, p_update_ok. unfold hh_update_remainder, hh_update_packet.
  rewrite Hpl. f_equal; [|exact Hp].
  unfold s_rotate_32_by, sc_port, to_h, cat. cbn [v0L v0H v1L v1H mul0L mul0H mul1L mul1H v0 v1 mul0 mul1 hv0 hv1 hmul0 hmul1].
  rewrite !s_rotate_lane_ok by (assumption || lia).
  unfold mm_add_epi64, v2map2. cbn [fst snd map4]. reflexivity.
Qed.

(* ---------------------------------------------------------------- finalisation *)
Lemma s_pre_finalize_ok prof s : SInv s ->
  exists c', s_pre_finalize prof s = Ok c' /\ SCwf c' /\ sabs_core c' = pre_out (sabs s).
Proof.
  intros HI. unfold s_pre_finalize, is_empty, pre_out, sabs. cbn [fst snd].
  destruct (Nat.eqb_spec (idx (s_buffer s)) 0) as [E0|N0]; cbn [negb].
  - eexists. split; [reflexivity|]. split; [exact (proj1 HI)|]. unfold pending. rewrite E0. reflexivity.
  - destruct (s_update_remainder_ok prof s HI N0) as (c' & E & W & H). exists c'. split; [exact E|]. split; [exact W|].
    rewrite H. destruct (pending (s_buffer s)) as [|b l] eqn:Ep; [|reflexivity].
    exfalso. apply N0. rewrite <- (pending_length _ (proj1 (proj2 HI))), Ep. reflexivity.
Qed.

Lemma sum4_a a b c d : t64 (add64 (add64 a c) (add64 b d)) = add64 (add64 (add64 a b) c) d.
Proof.
  rewrite add64_t64. rewrite !add64_assoc. f_equal.
  rewrite <- !add64_assoc. rewrite (add64_comm c b). reflexivity.
Qed.
Lemma sum4_b a b c d : t64 (add64 (add64 a b) (add64 c d)) = add64 (add64 (add64 a b) c) d.
Proof. rewrite add64_t64. rewrite !add64_assoc. reflexivity. Qed.

Lemma s_modular_reduction_ok x0 x1 i0 i1 :
  s_modular_reduction (t64 x0, t64 x1) (t64 i0, t64 i1) =
  (snd (modular_reduction (t64 x1) (t64 x0) (t64 i1) (t64 i0)), fst (modular_reduction (t64 x1) (t64 x0) (t64 i1) (t64 i0))).
Proof.
  unfold s_modular_reduction, modular_reduction, V2_and_not, mm_andnot_si128, mm_add_epi64, mm_xor_si128,
    mm_slli_si128_8, mm_insert_epi32_3, mm_setzero_si128, v2map2. cbn [fst snd].
  rewrite !add64_double. unfold mm_srli_epi64, v2map, shl64, mk64, lo32, t32, t64, M32, M64.
  bb_norm. apply f_equal2; bb.
Qed.

Lemma mr_t64 a b c d :
  t64 (fst (modular_reduction (t64 a) (t64 b) (t64 c) (t64 d))) = fst (modular_reduction (t64 a) (t64 b) (t64 c) (t64 d)) /\
  t64 (snd (modular_reduction (t64 a) (t64 b) (t64 c) (t64 d))) = snd (modular_reduction (t64 a) (t64 b) (t64 c) (t64 d)).
Proof. unfold modular_reduction. cbn [fst snd]. unfold t64, M64. split; bb. Qed.

Definition s_finalize (prof : profile) (w : width) (s : sstate) : res (list N) :=
  match w with
  | W64 => do x <- s_finalize64 prof s ;; Ok [x]
  | W128 => do x <- s_finalize128 prof s ;; Ok [fst x; snd x]
  | W256 => do x <- s_finalize256 prof s ;; Ok (lanes_list x)
  end.

Lemma s_finalize_ok prof w s : SInv s -> s_finalize prof w s = Ok (out w (sabs s)).
Proof.
  intros HI. destruct (s_pre_finalize_ok prof s HI) as (c & E & W & H).
  unfold s_finalize, s_finalize64, s_finalize128, s_finalize256, out.
  destruct w; rewrite E; cbn [bind]; rewrite <- H; unfold sabs_core.
  - unfold hh_finalize64. rewrite <- p_rounds_ok. destruct (s_rounds_sim 4 c W) as [Er _]. rewrite <- Er.
    generalize (iter 4 s_permute_and_update c). intros [[a0 a1] [a2 a3] [b0 b1] [b2 b3] [c0 c1] [c2 c3] [d0 d1] [d2 d3]].
    unfold sc_port, cat, to_h, mm_add_epi64, v2map2.
    cbn [v0L v0H v1L v1H mul0L mul0H mul1L mul1H v0 v1 mul0 mul1 hv0 hv1 hmul0 hmul1 fst snd lane0].
    rewrite sum4_a. reflexivity.
  - unfold hh_finalize128. rewrite <- p_rounds_ok. destruct (s_rounds_sim 6 c W) as [Er _]. rewrite <- Er.
    generalize (iter 6 s_permute_and_update c). intros [[a0 a1] [a2 a3] [b0 b1] [b2 b3] [c0 c1] [c2 c3] [d0 d1] [d2 d3]].
    unfold sc_port, cat, to_h, mm_add_epi64, v2map2, V2_as_arr.
    cbn [v0L v0H v1L v1H mul0L mul0H mul1L mul1H v0 v1 mul0 mul1 hv0 hv1 hmul0 hmul1 fst snd lane0 lane1 lane2 lane3].
    rewrite !sum4_b. reflexivity.
  - unfold hh_finalize256. rewrite <- p_rounds_ok. destruct (s_rounds_sim 10 c W) as [Er _]. rewrite <- Er.
    generalize (iter 10 s_permute_and_update c). intros [[a0 a1] [a2 a3] [b0 b1] [b2 b3] [c0 c1] [c2 c3] [d0 d1] [d2 d3]].
    unfold sc_port, cat, to_h, mm_add_epi64, v2map2, V2_as_arr.
    cbn [v0L v0H v1L v1H mul0L mul0H mul1L mul1H v0 v1 mul0 mul1 hv0 hv1 hmul0 hmul1 fst snd lane0 lane1 lane2 lane3].
    rewrite <- (add64_t64 a0 c0), <- (add64_t64 a1 c1), <- (add64_t64 a2 c2), <- (add64_t64 a3 c3).
    rewrite <- (add64_t64 b0 d0), <- (add64_t64 b1 d1), <- (add64_t64 b2 d2), <- (add64_t64 b3 d3).
    rewrite !s_modular_reduction_ok. cbn [fst snd].
    repeat match goal with |- context [t64 (fst (modular_reduction (t64 ?a) (t64 ?b) (t64 ?c) (t64 ?d)))] =>
      rewrite (proj1 (mr_t64 a b c d)), (proj2 (mr_t64 a b c d)) end.
    repeat match goal with |- context [modular_reduction ?a ?b ?c ?d] =>
      let m := fresh "m" in set (m := modular_reduction a b c d); destruct m end.
    reflexivity.
Qed.

(* ---------------------------------------------------------------- construction, checkpoint, restore *)
Lemma key_load_lo k0 k1 k2 k3 : wlanesb (k0, k1, k2, k3) = true ->
  mm_loadu_si128 (key_obj (key_bytes (k0, k1, k2, k3))) 0 = Ok (k0, k1) /\
  mm_loadu_si128 (key_obj (key_bytes (k0, k1, k2, k3))) 16 = Ok (k2, k3).
Proof.
  intros H. apply wlanes_split in H as (H0 & H1 & H2 & H3).
  unfold mm_loadu_si128, load, key_obj, key_bytes, v128_of_bytes, sub.
  cbn [mbytes maddr lanes_list flat_map app to_le_bytes length Nat.add Nat.leb andb firstn skipn].
  rewrite !N.mod_1_r. cbn [N.eqb bind]. rewrite !le8_explicit by assumption.
  rewrite !w64b_t64 by assumption. split; reflexivity.
Qed.

Lemma s_force_new_ok k : wlanesb k = true ->
  exists s, s_force_new k = Ok s /\ SInv s /\ sabs s = L0 k.
Proof.
  destruct k as [[[k0 k1] k2] k3]. intros Hk. destruct (key_load_lo k0 k1 k2 k3 Hk) as [E1 E2].
  unfold s_force_new. rewrite E1, E2. cbn [bind]. eexists. split; [reflexivity|].
  apply wlanes_split in Hk as (H0 & H1 & H2 & H3).
  split.
  - split.
    + unfold SCwf, V2wf, mm_xor_si128, v2map2, V2_new, mm_set_epi64x.
      cbn [s_core v0L v0H v1L v1H mul0L mul0H mul1L mul1H fst snd].
      rewrite !rot32_fst, !rot32_snd by assumption.
      repeat split; try apply t64_w64b; apply lxor_w64b; try assumption; try apply t64_w64b;
        unfold rotl64_32, shl64;
        match goal with |- w64b ?e = true => replace e with (t64 e); [apply t64_w64b|] end;
        match goal with H : w64b ?x = true |- context [?x] => wf64 H end; unfold t64, M64; bb.
    + split; [split; [reflexivity|cbn; lia]|reflexivity].
  - unfold sabs, sabs_core, sc_port, cat, to_h, L0, hh_reset, mm_xor_si128, v2map2, V2_new, mm_set_epi64x.
    cbn [s_core s_buffer v0L v0H v1L v1H mul0L mul0H mul1L mul1H v0 v1 mul0 mul1 fst snd zip4 map4].
    rewrite !rot32_fst, !rot32_snd by assumption. unfold rot64_32, init_mul0, init_mul1. rewrite !rotl64_32_comm.
    repeat match goal with |- context [t64 ?c] => is_cst c; let v := eval vm_compute in (t64 c) in change (t64 c) with v end.
    cbn [zip4 map4]. rewrite !(N.lxor_comm k0), !(N.lxor_comm k1), !(N.lxor_comm k2), !(N.lxor_comm k3).
    rewrite !(N.lxor_comm (N.lor (N.shiftr k0 32) _)), !(N.lxor_comm (N.lor (N.shiftr k1 32) _)),
            !(N.lxor_comm (N.lor (N.shiftr k2 32) _)), !(N.lxor_comm (N.lor (N.shiftr k3 32) _)).
    reflexivity.
Qed.

(* the portable image used by checkpoint() is the abstraction *)
Lemma s_to_portable_abs s : SInv s -> Inv (s_to_portable s) /\ abs (s_to_portable s) = sabs s.
Proof.
  intros [Hc HB]. split; [exact (proj1 HB)|].
  unfold abs, sabs, sabs_core, s_to_portable, sc_port, cat, to_h, V2_as_arr. cbn [core buffer fst snd v0 v1 mul0 mul1].
  destruct (s_core s) as [[a0 a1] [a2 a3] [b0 b1] [b2 b3] [c0 c1] [c2 c3] [d0 d1] [d2 d3]].
  destruct Hc as ([? ?] & [? ?] & [? ?] & [? ?] & [? ?] & [? ?] & [? ?] & [? ?]).
  cbn [v0L v0H v1L v1H mul0L mul0H mul1L mul1H fst snd] in *.
  rewrite !w64b_t64 by assumption. reflexivity.
Qed.

Lemma s_checkpoint_ok prof s : SInv s -> s_checkpoint prof s = Ok (encode (sabs s)).
Proof.
  intros HI. destruct (s_to_portable_abs s HI) as [Hi Ha]. unfold s_checkpoint.
  rewrite p_checkpoint_ok by exact Hi. rewrite Ha. reflexivity.
Qed.

Lemma s_of_portable_ok p : Inv p -> Cwf (core p) -> wbytesb (buf (buffer p)) = true ->
  SInv (s_of_portable p) /\ sabs (s_of_portable p) = abs p.
Proof.
  intros Hi Hw Hb. destruct p as [[[[[a0 a1] a2] a3] [[[b0 b1] b2] b3] [[[c0 c1] c2] c3] [[[d0 d1] d2] d3]] bf].
  destruct Hw as (Ha & Hbb & Hc & Hd). cbn [to_h hv0 hv1 hmul0 hmul1 v0 v1 mul0 mul1 core] in *.
  apply wlanes_split in Ha as (? & ? & ? & ?). apply wlanes_split in Hbb as (? & ? & ? & ?).
  apply wlanes_split in Hc as (? & ? & ? & ?). apply wlanes_split in Hd as (? & ? & ? & ?).
  split.
  - split; [|split; [exact Hi|exact Hb]].
    unfold s_of_portable, SCwf, V2wf, V2_new, mm_set_epi64x.
    cbn [core buffer s_core v0L v0H v1L v1H mul0L mul0H mul1L mul1H v0 v1 mul0 mul1 lane0 lane1 lane2 lane3 fst snd].
    repeat split; apply t64_w64b.
  - unfold sabs, sabs_core, abs, s_of_portable, sc_port, cat, to_h, V2_new, mm_set_epi64x.
    cbn [core buffer s_core s_buffer v0L v0H v1L v1H mul0L mul0H mul1L mul1H v0 v1 mul0 mul1 lane0 lane1 lane2 lane3 fst snd].
    rewrite !w64b_t64 by assumption. reflexivity.
Qed.

Lemma s_restore_ok prof c : wbytesb c = true ->
  exists s, s_force_from_checkpoint prof c = Ok s /\ SInv s /\ sabs s = decode c.
Proof.
  intros Hc. destruct (p_from_checkpoint_ok prof c) as (p & E & Hi & Ha).
  unfold s_force_from_checkpoint. rewrite E. cbn [bind]. eexists. split; [reflexivity|].
  assert (Hw : Cwf (core p)).
  { unfold Cwf. replace (to_h (core p)) with (fst (abs p)) by reflexivity. rewrite Ha. apply decode_Hwf. exact Hc. }
  destruct (s_of_portable_ok p Hi Hw (p_from_checkpoint_bytes prof c p E Hc)) as [HS HA].
  split; [exact HS|]. rewrite HA. exact Ha.
Qed.

Lemma cat_wf l h : V2wf l -> V2wf h -> wlanesb (cat l h) = true.
Proof. intros [? ?] [? ?]. apply wlanes_intro; assumption. Qed.
Lemma SCwf_Hwf c : SCwf c -> Hwf (sabs_core c).
Proof.
  intros (? & ? & ? & ? & ? & ? & ? & ?). unfold Hwf, sabs_core, sc_port, to_h. cbn [hv0 hv1 hmul0 hmul1 v0 v1 mul0 mul1].
  repeat split; apply cat_wf; assumption.
Qed.

Lemma rotl64_32_w64b a : w64b a = true -> w64b (rotl64_32 a) = true.
Proof.
  intros H. wf64 H. unfold rotl64_32, shl64.
  match goal with |- w64b ?e = true => replace e with (t64 e); [apply t64_w64b|unfold t64, M64; bb] end.
Qed.
