(* Backends.v — one refinement package for every hasher value of the model (History.hasher):
   an invariant [HInv], an abstraction [habs] to the logical state, and for each operation of the
   interpreter the fact that it succeeds (no Panic, no Fault) and commutes with the abstraction.
   The NEON and Wasm cases are supplied by NeonRefine.v / WasmRefine.v. *)
From Coq Require Import NArith List Lia Bool Arith.
From HW Require Import Word Chunks Packet Mem Stream X86 Portable Spec Sse Avx Neon Wasm Dispatch History.
From HW.Refine Require Import ChunksFacts WordFacts Logical PortableRefine Codec PortableCodec StreamRefine
  SseRefine AvxRefine NeonRefine WasmRefine.
Import ListNotations.
Local Open Scope N_scope.

(* ---------------------------------------------------------------- the portable package, with byte/lanes well-formedness *)
Definition PInvW (s : pstate) : Prop := Inv s /\ Cwf (core s) /\ wbytesb (buf (buffer s)) = true.

Lemma p_append_okW prof s d : PInvW s -> wbytesb d = true ->
  exists s', p_append prof s d = Ok s' /\ PInvW s' /\ abs s' = absorb (abs s) d.
Proof.
  intros (Hi & Hw & Hb) Hd. destruct (p_append_ok prof s d Hi) as (s' & E & Hi' & Ha).
  exists s'. split; [exact E|]. split; [|exact Ha]. split; [exact Hi'|]. split.
  - unfold Cwf. replace (to_h (core s')) with (fst (abs s')) by reflexivity. rewrite Ha. apply absorb_Hwf. exact Hw.
  - eapply p_append_bytes; eassumption.
Qed.

Lemma p_new_okW k : wlanesb k = true -> PInvW (p_new k) /\ abs (p_new k) = L0 k.
Proof.
  intros Hk. destruct (abs_new k) as [Ha Hi]. split; [|exact Ha]. split; [exact Hi|]. split; [|reflexivity].
  unfold Cwf. replace (to_h (core (p_new k))) with (fst (abs (p_new k))) by reflexivity. rewrite Ha.
  destruct k as [[[k0 k1] k2] k3]. apply wlanes_split in Hk as (H0 & H1 & H2 & H3).
  unfold L0, hh_reset, Hwf, init_mul0, init_mul1, rot64_32. cbn [fst hv0 hv1 hmul0 hmul1 zip4 map4].
  repeat split; try reflexivity; apply wlanes_intro; apply lxor_w64b; try assumption; try reflexivity;
    rewrite <- rotl64_32_comm; apply rotl64_32_w64b; assumption.
Qed.

Lemma p_restore_okW prof c : wbytesb c = true ->
  exists s, p_from_checkpoint prof c = Ok s /\ PInvW s /\ abs s = decode c.
Proof.
  intros Hc. destruct (p_from_checkpoint_ok prof c) as (s & E & Hi & Ha). exists s. split; [exact E|]. split; [|exact Ha].
  split; [exact Hi|]. split.
  - unfold Cwf. replace (to_h (core s)) with (fst (abs s)) by reflexivity. rewrite Ha. apply decode_Hwf. exact Hc.
  - eapply p_from_checkpoint_bytes; eassumption.
Qed.

(* ---------------------------------------------------------------- union payloads *)
Definition CInv (h : hcore) : Prop :=
  match h with
  | CP s => PInvW s | CS s => SInv s | CA s => AInv s | CN s => NInv s | CW s => WInv s
  end.
Definition cabs (h : hcore) : L :=
  match h with
  | CP s => abs s | CS s => sabs s | CA s => aabs s | CN s => nabs s | CW s => wabs s
  end.
Definition same_kind (a b : hcore) : bool :=
  match a, b with
  | CP _, CP _ | CS _, CS _ | CA _, CA _ | CN _, CN _ | CW _, CW _ => true
  | _, _ => false
  end.

Lemma c_append_ok prof addr h d : CInv h -> wbytesb d = true ->
  exists h', c_append prof addr h d = Ok h' /\ CInv h' /\ cabs h' = absorb (cabs h) d /\ same_kind h h' = true.
Proof.
  intros HI Hd. destruct h as [s|s|s|s|s]; cbn [c_append CInv cabs] in *.
  - destruct (p_append_okW prof s d HI Hd) as (s' & E & I & A). rewrite E. cbn [bind]. exists (CP s'). auto.
  - destruct (s_append_ok prof addr s d HI Hd) as (s' & E & I & A). rewrite E. cbn [bind]. exists (CS s'). auto.
  - destruct (a_append_ok prof addr s d HI Hd) as (s' & E & I & A). rewrite E. cbn [bind]. exists (CA s'). auto.
  - destruct (n_append_ok prof addr s d HI Hd) as (s' & E & I & A). rewrite E. cbn [bind]. exists (CN s'). auto.
  - destruct (w_append_ok prof s d HI Hd) as (s' & E & I & A). rewrite E. cbn [bind]. exists (CW s'). auto.
Qed.

Lemma c_finalize_ok prof w h : CInv h -> c_finalize prof w h = Ok (out w (cabs h)).
Proof.
  intros HI. destruct h as [s|s|s|s|s]; cbn [CInv cabs] in *.
  - rewrite <- (p_finalize_ok prof w s (proj1 HI)). destruct w; reflexivity.
  - rewrite <- (s_finalize_ok prof w s HI). destruct w; reflexivity.
  - rewrite <- (a_finalize_ok prof w s HI). destruct w; reflexivity.
  - rewrite <- (n_finalize_ok prof w s HI). destruct w; reflexivity.
  - rewrite <- (w_finalize_ok prof w s HI). destruct w; reflexivity.
Qed.

Lemma c_checkpoint_ok prof h : CInv h -> c_checkpoint prof h = Ok (encode (cabs h)).
Proof.
  intros HI. destruct h as [s|s|s|s|s]; cbn [CInv cabs c_checkpoint] in *.
  - apply p_checkpoint_ok. exact (proj1 HI).
  - apply s_checkpoint_ok. exact HI.
  - apply a_checkpoint_ok. exact HI.
  - apply n_checkpoint_ok. exact HI.
  - apply w_checkpoint_ok. exact HI.
Qed.

Lemma BInv_Lwf b : BInv b -> (length (pending b) < 32)%nat.
Proof. intros [[H1 H2] _]. unfold pending. rewrite firstn_length. lia. Qed.

Lemma cabs_wf h : CInv h -> Lwf (cabs h) /\ Hwf (fst (cabs h)) /\ wbytesb (snd (cabs h)) = true.
Proof.
  intros HI. destruct h as [s|s|s|s|s]; cbn [CInv cabs] in *.
  - destruct HI as (Hi & Hw & Hb). split; [apply abs_wf; exact Hi|]. split; [exact Hw|]. apply wbytesb_firstn'. exact Hb.
  - destruct HI as [Hc HB]. split; [apply BInv_Lwf; exact HB|]. split; [|apply BInv_pending_w; exact HB].
    apply (SCwf_Hwf _ Hc).
  - destruct HI as [Hc HB]. split; [apply BInv_Lwf; exact HB|]. split; [|apply BInv_pending_w; exact HB].
    apply (ACwf_Hwf _ Hc).
  - destruct HI as [Hc HB]. split; [apply BInv_Lwf; exact HB|]. split; [|apply BInv_pending_w; exact HB].
    apply (NCwf_Hwf _ Hc).
  - destruct HI as [Hc HB]. split; [apply BInv_Lwf; exact HB|]. split; [|apply BInv_pending_w; exact HB].
    apply (WCwf_Hwf _ Hc).
Qed.

(* ---------------------------------------------------------------- hasher values (plain or dispatcher) *)
Definition hcore_of (h : hasher) : hcore := match h with HPlain c => c | HDisp d => d_inner d end.
Definition habs (h : hasher) : L := cabs (hcore_of h).
Definition HInv (e : env) (h : hasher) : Prop :=
  match h with
  | HPlain c => CInv c
  | HDisp d => CInv (d_inner d) /\ exists ch, arm (e_cfg e) (d_tag d) = Some ch /\ field_ok ch (d_inner d) = true
  end.

Lemma field_ok_same ch a b : same_kind a b = true -> field_ok ch a = true -> field_ok ch b = true.
Proof. destruct ch, a, b; cbn; congruence. Qed.

Lemma h_append_ok e h d : HInv e h -> wbytesb d = true ->
  exists h', h_append e h d = Ok h' /\ HInv e h' /\ habs h' = absorb (habs h) d.
Proof.
  intros HI Hd. destruct h as [c|ds]; cbn [h_append HInv habs hcore_of] in *.
  - destruct (c_append_ok (e_prof e) (e_addr e) c d HI Hd) as (c' & E & I & A & _). rewrite E. cbn [bind].
    exists (HPlain c'). auto.
  - destruct HI as (HC & ch & Harm & Hf).
    destruct (c_append_ok (e_prof e) (e_addr e) (d_inner ds) d HC Hd) as (c' & E & I & A & K).
    unfold d_append, d_dispatch. rewrite Harm, Hf, E. cbn [bind].
    eexists. split; [reflexivity|]. cbn [HInv habs hcore_of d_inner d_tag]. split; [|exact A].
    split; [exact I|]. exists ch. split; [exact Harm|]. eapply field_ok_same; eassumption.
Qed.

Lemma h_finalize_ok e w h : HInv e h -> h_finalize e w h = Ok (out w (habs h)).
Proof.
  intros HI. destruct h as [c|ds]; cbn [h_finalize HInv habs hcore_of] in *.
  - apply c_finalize_ok. exact HI.
  - destruct HI as (HC & ch & Harm & Hf). unfold d_finalize, d_dispatch. rewrite Harm, Hf. apply c_finalize_ok. exact HC.
Qed.

Lemma h_checkpoint_ok e h : HInv e h -> h_checkpoint e h = Ok (encode (habs h)).
Proof.
  intros HI. destruct h as [c|ds]; cbn [h_checkpoint HInv habs hcore_of] in *.
  - apply c_checkpoint_ok. exact HI.
  - destruct HI as (HC & ch & Harm & Hf). unfold d_checkpoint, d_dispatch. rewrite Harm, Hf. apply c_checkpoint_ok. exact HC.
Qed.

Lemma h_clone_ok e h : HInv e h -> h_clone e h = Ok h.
Proof.
  intros HI. destruct h as [c|ds]; cbn [h_clone HInv] in *; [reflexivity|].
  destruct HI as (HC & ch & Harm & Hf). unfold d_clone, d_dispatch. rewrite Harm, Hf. cbn [bind]. destruct ds; reflexivity.
Qed.

Lemma h_debug_ok e h : HInv e h -> exists o, h_debug e h = Ok o /\ o <> OutPanic /\ o <> OutFault.
Proof.
  intros HI. destruct h as [c|ds]; cbn [h_debug HInv] in *.
  - exists OutOk. repeat split; discriminate.
  - destruct HI as (HC & ch & Harm & Hf). unfold d_debug, d_dispatch. rewrite Harm, Hf. cbn [bind].
    eexists. split; [reflexivity|]. split; discriminate.
Qed.

Lemma h_finish_ok e h : HInv e h -> h_finish e h = Ok (nth0 (out W64 (habs h)) 0).
Proof.
  intros HI. unfold h_finish. rewrite h_clone_ok by exact HI. cbn [bind].
  rewrite h_finalize_ok by exact HI. reflexivity.
Qed.

Lemma habs_wf e h : HInv e h -> Lwf (habs h) /\ Hwf (fst (habs h)) /\ wbytesb (snd (habs h)) = true.
Proof. intros HI. apply cabs_wf. destruct h as [c|ds]; [exact HI|exact (proj1 HI)]. Qed.

(* ---------------------------------------------------------------- the dispatcher's ladder always lands on a compiled-in arm *)
Lemma ladder_arm c : arm c (tag_of_choice (ladder c)) = Some (ladder c).
Proof.
  unfold ladder, arm, cfg_portable_arm, cfg_wasm_simd, cfg_x86.
  destruct c as [a tfa tfs std da ds simd]. cbn [c_arch tf_avx2 tf_sse41 c_std det_avx2 det_sse41 c_simd128].
  destruct a, tfa, tfs, std, da, ds, simd; reflexivity.
Qed.

Definition ctor_ok (e : env) (l : L) (r : res (option hasher)) : Prop :=
  r = Ok None \/ exists h, r = Ok (Some h) /\ HInv e h /\ habs h = l.

Lemma d_wrap e (ch : choice) (c : hcore) l : ladder (e_cfg e) = ch -> field_ok ch c = true -> CInv c -> cabs c = l ->
  HInv e (HDisp {| d_tag := tag_of_choice ch; d_inner := c |}) /\ habs (HDisp {| d_tag := tag_of_choice ch; d_inner := c |}) = l.
Proof.
  intros Hl Hf Hc Ha. split; [|exact Ha]. cbn [HInv d_inner d_tag]. split; [exact Hc|].
  exists ch. split; [rewrite <- Hl; apply ladder_arm|exact Hf].
Qed.

Lemma d_new_ok e k : wlanesb k = true -> ctor_ok e (L0 k) (some_disp (d_new (e_cfg e) k)).
Proof.
  intros Hk. right. unfold d_new, some_disp. destruct (ladder (e_cfg e)) eqn:El.
  - destruct (a_force_new_ok k Hk) as (s & E & I & A). rewrite E. cbn [bind]. eexists. split; [reflexivity|].
    apply (d_wrap e ChAvx (CA s)); auto.
  - destruct (s_force_new_ok k Hk) as (s & E & I & A). rewrite E. cbn [bind]. eexists. split; [reflexivity|].
    apply (d_wrap e ChSse (CS s)); auto.
  - destruct (n_force_new_ok k Hk) as (I & A). cbn [bind]. eexists. split; [reflexivity|].
    apply (d_wrap e ChNeon (CN (n_force_new k))); auto.
  - destruct (w_new_ok k Hk) as (I & A). cbn [bind]. eexists. split; [reflexivity|].
    apply (d_wrap e ChWasm (CW (w_new k))); auto.
  - destruct (p_new_okW k Hk) as (I & A). cbn [bind]. eexists. split; [reflexivity|].
    apply (d_wrap e ChPortable (CP (p_new k))); auto.
Qed.

Lemma d_restore_ok e c : wbytesb c = true -> ctor_ok e (decode c) (some_disp (d_from_checkpoint (e_prof e) (e_cfg e) c)).
Proof.
  intros Hc. right. unfold d_from_checkpoint, some_disp. destruct (ladder (e_cfg e)) eqn:El.
  - destruct (a_restore_ok (e_prof e) c Hc) as (s & E & I & A). rewrite E. cbn [bind]. eexists. split; [reflexivity|].
    apply (d_wrap e ChAvx (CA s)); auto.
  - destruct (s_restore_ok (e_prof e) c Hc) as (s & E & I & A). rewrite E. cbn [bind]. eexists. split; [reflexivity|].
    apply (d_wrap e ChSse (CS s)); auto.
  - destruct (n_restore_ok (e_prof e) c Hc) as (s & E & I & A). rewrite E. cbn [bind]. eexists. split; [reflexivity|].
    apply (d_wrap e ChNeon (CN s)); auto.
  - destruct (w_restore_ok (e_prof e) c Hc) as (s & E & I & A). rewrite E. cbn [bind]. eexists. split; [reflexivity|].
    apply (d_wrap e ChWasm (CW s)); auto.
  - destruct (p_restore_okW (e_prof e) c Hc) as (s & E & I & A). rewrite E. cbn [bind]. eexists. split; [reflexivity|].
    apply (d_wrap e ChPortable (CP s)); auto.
Qed.

(* every constructor of the interpreter: declines (safe SSE/AVX constructors without std/detection)
   or yields a hasher in the invariant whose logical state is the expected one *)
Lemma h_new_ok e b force k : wlanesb k = true -> ctor_ok e (L0 k) (h_new e b force k).
Proof.
  intros Hk. destruct b; cbn [h_new].
  - right. destruct (p_new_okW k Hk) as (I & A). eexists. split; [reflexivity|]. split; [exact I|exact A].
  - destruct (s_force_new_ok k Hk) as (s & E & I & A). destruct force.
    + right. unfold some_plain. rewrite E. cbn [bind]. eexists. split; [reflexivity|]. split; [exact I|exact A].
    + unfold opt_plain, s_new. destruct (c_std (e_cfg e) && det_sse41 (e_cfg e)); [|left; reflexivity].
      right. rewrite E. cbn [bind]. eexists. split; [reflexivity|]. split; [exact I|exact A].
  - destruct (a_force_new_ok k Hk) as (s & E & I & A). destruct force.
    + right. unfold some_plain. rewrite E. cbn [bind]. eexists. split; [reflexivity|]. split; [exact I|exact A].
    + unfold opt_plain, a_new. destruct (c_std (e_cfg e) && det_avx2 (e_cfg e)); [|left; reflexivity].
      right. rewrite E. cbn [bind]. eexists. split; [reflexivity|]. split; [exact I|exact A].
  - right. destruct (n_force_new_ok k Hk) as (I & A). eexists. split; [reflexivity|]. split; [exact I|exact A].
  - right. destruct (w_new_ok k Hk) as (I & A). eexists. split; [reflexivity|]. split; [exact I|exact A].
  - apply d_new_ok. exact Hk.
  - apply d_new_ok. exact Hk.
Qed.

Lemma key0_wf : wlanesb key0 = true. Proof. reflexivity. Qed.

(* Default is the zero-key constructor, for every hasher type (after the repair of D1) *)
Lemma h_default_is_new e b : h_default e b = h_new e b true key0.
Proof. destruct b; reflexivity. Qed.

Lemma h_default_ok e b : ctor_ok e (L0 key0) (h_default e b).
Proof. rewrite h_default_is_new. apply h_new_ok. apply key0_wf. Qed.

Lemma h_restore_ok e b force c : wbytesb c = true -> b <> BB -> ctor_ok e (decode c) (h_restore e b force c).
Proof.
  intros Hc Hb. destruct b; cbn [h_restore]; try congruence.
  - right. destruct (p_restore_okW (e_prof e) c Hc) as (s & E & I & A). unfold some_plain. rewrite E. cbn [bind].
    eexists. split; [reflexivity|]. split; [exact I|exact A].
  - destruct (s_restore_ok (e_prof e) c Hc) as (s & E & I & A). destruct force.
    + right. unfold some_plain. rewrite E. cbn [bind]. eexists. split; [reflexivity|]. split; [exact I|exact A].
    + unfold opt_plain, s_from_checkpoint. destruct (c_std (e_cfg e) && det_sse41 (e_cfg e)); [|left; reflexivity].
      right. rewrite E. cbn [bind]. eexists. split; [reflexivity|]. split; [exact I|exact A].
  - destruct (a_restore_ok (e_prof e) c Hc) as (s & E & I & A). destruct force.
    + right. unfold some_plain. rewrite E. cbn [bind]. eexists. split; [reflexivity|]. split; [exact I|exact A].
    + unfold opt_plain, a_from_checkpoint. destruct (c_std (e_cfg e) && det_avx2 (e_cfg e)); [|left; reflexivity].
      right. rewrite E. cbn [bind]. eexists. split; [reflexivity|]. split; [exact I|exact A].
  - right. destruct (n_restore_ok (e_prof e) c Hc) as (s & E & I & A). unfold some_plain. rewrite E. cbn [bind].
    eexists. split; [reflexivity|]. split; [exact I|exact A].
  - right. destruct (w_restore_ok (e_prof e) c Hc) as (s & E & I & A). unfold some_plain. rewrite E. cbn [bind].
    eexists. split; [reflexivity|]. split; [exact I|exact A].
  - apply d_restore_ok. exact Hc.
Qed.
