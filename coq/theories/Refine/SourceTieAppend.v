(* SourceTieAppend.v — the streaming append of src/portable.rs (chunks_exact loops, HashPacket::fill / set_to / inner), as
   translated from the current source, against Portable.p_append, for every state, every data slice and every profile. *)
From Coq Require Import NArith List String Bool Arith Lia.
From HW Require Import Word Chunks Packet Portable.
From HW.Refine Require Import ChunksFacts.
From HW.Facts Require Import RustLite.
From HWGen Require Import SrcPortable SrcPacket.
From HW.Refine Require Import SourceTie.
Import ListNotations.
Local Open Scope N_scope.

Ltac fold_env X e :=
  match goal with |- context [call_fn _ _ _ _ _ ?g _] => change g with (genv_of X e) end.
Ltac fold_penv e :=
  match goal with |- context [call_fn _ _ _ _ _ ?g _] => change g with (penv e) end.

(* chunks_exact loops of the interpreter vs chunks_fuel of the model *)
Lemma chunk_cond (l : list N) : ((32 <=? List.length l)%nat && (0 <? 32)%nat) = at_least_32 l.
Proof. rewrite at_least_32_spec. cbn. apply andb_true_r. Qed.

Lemma chunk_rem_spec : forall k l, chunk_rem 32 k l = snd (chunks_fuel k l).
Proof.
  induction k as [|k IH]; intros l; cbn [chunk_rem chunks_fuel]; [reflexivity|].
  rewrite chunk_cond. destruct (at_least_32 l); [|reflexivity].
  rewrite IH. destruct (chunks_fuel k (skipn 32 l)) as [ps r]. reflexivity.
Qed.

Lemma chunk_loop_T {St : Type} (T : st16 -> list N -> list N -> St) (step : list N -> St -> res St)
      (F : st16 -> list N -> st16) (G : list N -> list N) :
  (forall c ch ln x, step x (T c ch ln) = Ok (T (F c x) x (G x))) ->
  forall k l c ch ln, exists ch' ln',
    chunk_loop 32 step k l (T c ch ln) = Ok (T (fold_left F (fst (chunks_fuel k l)) c) ch' ln').
Proof.
  intros HT. induction k as [|k IH]; intros l c ch ln; cbn [chunk_loop chunks_fuel fst fold_left].
  - exists ch, ln. reflexivity.
  - rewrite chunk_cond. destruct (at_least_32 l).
    + rewrite HT. cbn [bind]. destruct (IH (skipn 32 l) (F c (firstn 32 l)) (firstn 32 l) (G (firstn 32 l))) as [ch' [ln' E]].
      exists ch', ln'. rewrite E. destruct (chunks_fuel k (skipn 32 l)) as [ps r]. reflexivity.
    + exists ch, ln. reflexivity.
Qed.

Lemma chunk_loop_S0 {St : Type} (S0 : st16 -> St) (T : st16 -> list N -> list N -> St) (step : list N -> St -> res St)
      (F : st16 -> list N -> st16) (G : list N -> list N) :
  (forall c x, step x (S0 c) = Ok (T (F c x) x (G x))) ->
  (forall c ch ln x, step x (T c ch ln) = Ok (T (F c x) x (G x))) ->
  forall k l c,
    (fst (chunks_fuel k l) = [] /\ chunk_loop 32 step k l (S0 c) = Ok (S0 c)) \/
    (exists ch' ln', chunk_loop 32 step k l (S0 c) = Ok (T (fold_left F (fst (chunks_fuel k l)) c) ch' ln')).
Proof.
  intros H0 HT k l c. destruct k as [|k]; cbn [chunk_loop chunks_fuel fst].
  - left. split; reflexivity.
  - rewrite chunk_cond. destruct (at_least_32 l).
    + right. rewrite H0. cbn [bind].
      destruct (chunk_loop_T T step F G HT k (skipn 32 l) (F c (firstn 32 l)) (firstn 32 l) (G (firstn 32 l))) as [ch' [ln' E]].
      exists ch', ln'. rewrite E. destruct (chunks_fuel k (skipn 32 l)) as [ps r]. reflexivity.
    + left. split; reflexivity.
Qed.

Lemma fill_buf_length b data : List.length (buf b) = 32%nat -> List.length (buf (fst (fill b data))) = 32%nat.
Proof.
  intros H. unfold fill.
  destruct (Packet.idx b <=? 32)%nat eqn:E1.
  - apply Nat.leb_le in E1.
    destruct (List.length data <? 32 - Packet.idx b)%nat eqn:E2; cbn [fst buf].
    + apply Nat.ltb_lt in E2. rewrite !app_length, firstn_length, skipn_length. lia.
    + apply Nat.ltb_ge in E2. rewrite app_length, !firstn_length. lia.
  - cbn [Nat.ltb Nat.leb fst buf]. exact H.
Qed.

Definition Fabs (c : st16) (x : list N) : st16 := p_update c (p_data_to_lanes x).
Definition Gabs (x : list N) : list N := ll (p_data_to_lanes x).

Section Append.
Variable p : profile.
Notation call := (call_fn p noext all_fns).
Ltac conds := cbv beta iota zeta delta [eval_cond eval get lookup is_self substring String.eqb Ascii.eqb Bool.eqb genv lenv bind N.eqb Pos.eqb negb].
Ltac next_call := set (CALL := call_fn p noext all_fns); repeat (progress (rn1; conds)); subst CALL.
Ltac fixlen l :=
  repeat match goal with
         | |- context [chunks_fuel ?k l] => progress change k with (List.length l)
         | |- context [chunk_rem 32 ?k l] => progress change k with (List.length l)
         end.

Lemma append_ok fuel c b data : wfp b ->
  call (S (S (S (S fuel)))) "append" (genv_of c b) [VA data]
  = lift (p_append p {| core := c; buffer := b |} data)
         (fun s' => (genv_of (core s') (buffer s'), [Some (VA data)], None)).
Proof.
  intros W. rewrite call_step. unfold p_append, lift. cbn [core buffer].
  next_call. fold_penv b. rewrite pkt_is_empty_ok. next_call.
  destruct (is_empty b) eqn:Eb; next_call.
  - (* empty buffer: whole chunks of data, then set_to(remainder) *)
    match goal with |- context [chunk_loop 32 ?f _ _ _] => set (STEP := f) end.
    set (S0 := fun c1 : st16 => {| genv := genv_of c1 b; lenv := [("data"%string, VA data); ("%b1"%string, VN 1)] |}).
    set (T := fun (c1 : st16) (ch ln : list N) =>
                {| genv := genv_of c1 b;
                   lenv := [("data"%string, VA data); ("%b1"%string, VN 1); ("chunk"%string, VA ch); ("%a2"%string, VA ln)] |}).
    assert (H0 : forall c1 x, STEP x (S0 c1) = Ok (T (Fabs c1 x) x (Gabs x))).
    { intros c1 x. subst STEP S0 T. cbv beta. next_call. rewrite data_to_lanes_ok. next_call.
      fold_env c1 b. rewrite update_ok. unfold Fabs, Gabs.
      destruct (p_data_to_lanes x) as [[[d0 d1] d2] d3]. rl1. reflexivity. }
    assert (HT : forall c1 ch ln x, STEP x (T c1 ch ln) = Ok (T (Fabs c1 x) x (Gabs x))).
    { intros c1 ch ln x. subst STEP S0 T. cbv beta. next_call. rewrite data_to_lanes_ok. next_call.
      fold_env c1 b. rewrite update_ok. unfold Fabs, Gabs.
      destruct (p_data_to_lanes x) as [[[d0 d1] d2] d3]. rl1. reflexivity. }
    match goal with |- context [chunk_loop 32 STEP ?k _ ?st] => change st with (S0 c); change k with (List.length data) end.
    unfold chunks32. 
    destruct (chunk_loop_S0 S0 T STEP Fabs Gabs H0 HT (List.length data) data c) as [[Eps EL]|[ch' [ln' EL]]]; rewrite EL; clear EL; subst S0 T; cbv beta.
    + next_call. fixlen data. rewrite chunk_rem_spec.
      destruct (chunks_fuel (List.length data) data) as [ps r] eqn:Ech. cbn [fst snd] in *. subst ps. cbn [p_absorb_chunks fold_left].
      fold_penv b. rewrite (pkt_set_to_ok _ _ _ _ (proj1 W)). unfold plift.
      destruct (set_to p b r) as [b'| |]; next_call; cbn [bind core buffer]; reflexivity.
    + next_call. fixlen data. rewrite chunk_rem_spec.
      destruct (chunks_fuel (List.length data) data) as [ps r] eqn:Ech. cbn [fst snd] in *.
      fold_penv b. rewrite (pkt_set_to_ok _ _ _ _ (proj1 W)). unfold plift.
      destruct (set_to p b r) as [b'| |]; next_call; cbn [bind core buffer]; unfold p_absorb_chunks, Fabs; reflexivity.
  - (* pending bytes: fill; if the packet completes, absorb it, then whole chunks of the tail, then set_to(remainder) *)
    fold_penv b. rewrite (pkt_fill_ok _ _ _ _ (proj1 W)). next_call.
    pose proof (fill_buf_length b data (proj1 W)) as Hl'.
    destruct (fill b data) as [b' [tail|]] eqn:Ef; cbn [fst snd] in *; next_call; [|reflexivity].
    fold_penv b'. rewrite pkt_inner_ok. next_call.
    rewrite data_to_lanes_ok. next_call.
    fold_env c b'. rewrite update_ok, lanes_eta. next_call.
    set (c1 := p_update c (p_data_to_lanes (inner b'))).
    match goal with |- context [chunk_loop 32 ?f _ _ _] => set (STEP := f) end.
    set (L0 := [("data"%string, VA data); ("%b1"%string, VN 0); ("%o4"%string, VO (Some tail)); ("tail"%string, VA tail);
                ("%a5"%string, VA (inner b')); ("%a6"%string, VA (ll (p_data_to_lanes (inner b'))))]).
    set (S0 := fun c2 : st16 => {| genv := genv_of c2 b'; lenv := L0 |}).
    set (T := fun (c2 : st16) (ch ln : list N) =>
                {| genv := genv_of c2 b'; lenv := L0 ++ [("chunk"%string, VA ch); ("%a7"%string, VA ln)] |}).
    assert (H0 : forall c2 x, STEP x (S0 c2) = Ok (T (Fabs c2 x) x (Gabs x))).
    { intros c2 x. subst STEP S0 T L0. cbv beta. next_call. rewrite data_to_lanes_ok. next_call.
      fold_env c2 b'. rewrite update_ok. unfold Fabs, Gabs.
      destruct (p_data_to_lanes x) as [[[d0 d1] d2] d3]. rl1. reflexivity. }
    assert (HT : forall c2 ch ln x, STEP x (T c2 ch ln) = Ok (T (Fabs c2 x) x (Gabs x))).
    { intros c2 ch ln x. subst STEP S0 T L0. cbv beta. next_call. rewrite data_to_lanes_ok. next_call.
      fold_env c2 b'. rewrite update_ok. unfold Fabs, Gabs.
      destruct (p_data_to_lanes x) as [[[d0 d1] d2] d3]. rl1. reflexivity. }
    match goal with |- context [chunk_loop 32 STEP ?k _ ?st] => change st with (S0 c1); change k with (List.length tail) end.
    unfold chunks32. fixlen tail.
    destruct (chunk_loop_S0 S0 T STEP Fabs Gabs H0 HT (List.length tail) tail c1) as [[Eps EL]|[ch' [ln' EL]]]; rewrite EL; clear EL; subst S0 T L0; cbv beta.
    + next_call. fixlen tail. rewrite chunk_rem_spec.
      destruct (chunks_fuel (List.length tail) tail) as [ps r] eqn:Ech. cbn [fst snd] in *. subst ps. cbn [p_absorb_chunks fold_left].
      fold_penv b'. rewrite (pkt_set_to_ok _ _ _ _ Hl'). unfold plift.
      destruct (set_to p b' r) as [b''| |]; next_call; cbn [bind core buffer]; reflexivity.
    + next_call. fixlen tail. rewrite chunk_rem_spec.
      destruct (chunks_fuel (List.length tail) tail) as [ps r] eqn:Ech. cbn [fst snd] in *.
      fold_penv b'. rewrite (pkt_set_to_ok _ _ _ _ Hl'). unfold plift.
      destruct (set_to p b' r) as [b''| |]; next_call; cbn [bind core buffer]; unfold p_absorb_chunks, Fabs; reflexivity.
Qed.
End Append.
