(* NeonRefine.v — the NEON model refines the logical state (same package as SseRefine.v). *)
From Coq Require Import NArith ZArith List Lia Bool Arith.
From HW Require Import Word Chunks Packet Mem Stream X86 Portable Spec Neon.
From HW.Bits Require Import Bitblast.
From HW.Refine Require Import ChunksFacts WordFacts Logical PortableRefine Codec PortableCodec StreamRefine SseRefine.
Import ListNotations.
Local Open Scope N_scope.

(* ---------------------------------------------------------------- lane-level identities *)
Lemma n_zipper_ok a b : n_zipper_merge (a, b) = (zip_lo b a, zip_hi b a).
Proof.
  unfold n_zipper_merge, vqtbl1q_u8, n_zipper_table, zip_lo, zip_hi.
  bb_norm. apply f_equal2; bb.
Qed.

Lemma nrot32_fst a b : w64b a = true -> fst (NV2_rotate_by_32 (a, b)) = rotl64_32 a.
Proof.
  intros H. wf64 H. unfold NV2_rotate_by_32, vrev64q_u32, rotl64_32, shl64, t64, M64. bb_norm. bb.
Qed.
Lemma nrot32_snd a b : w64b b = true -> snd (NV2_rotate_by_32 (a, b)) = rotl64_32 b.
Proof.
  intros H. wf64 H. unfold NV2_rotate_by_32, vrev64q_u32, rotl64_32, shl64, t64, M64. bb_norm. bb.
Qed.

Lemma lo32_hi32 a : w64b a = true -> lo32 (hi32 a) = hi32 a.
Proof. intros H. wf64 H. unfold lo32, hi32, t64, M32, M64. bb. Qed.

Definition nc_port (c : ncore) : st16 :=
  {| v0 := cat (n_v0L c) (n_v0H c); v1 := cat (n_v1L c) (n_v1H c);
     mul0 := cat (n_mul0L c) (n_mul0H c); mul1 := cat (n_mul1L c) (n_mul1H c) |}.
Definition NCwf (c : ncore) : Prop :=
  V2wf (n_v0L c) /\ V2wf (n_v0H c) /\ V2wf (n_v1L c) /\ V2wf (n_v1H c) /\
  V2wf (n_mul0L c) /\ V2wf (n_mul0H c) /\ V2wf (n_mul1L c) /\ V2wf (n_mul1H c).

Lemma n_update_sim c pH pL : NCwf c ->
  nc_port (n_update c pH pL) = p_update (nc_port c) (cat pL pH) /\ NCwf (n_update c pH pL).
Proof.
  destruct c as [[a0 a1] [a2 a3] [b0 b1] [b2 b3] [c0 c1] [c2 c3] [d0 d1] [d2 d3]].
  destruct pH as [p2 p3], pL as [p0 p1].
  intros ([Ha0 Ha1] & [Ha2 Ha3] & [Hb0 Hb1] & [Hb2 Hb3] & Hc01 & Hc23 & Hd01 & Hd23).
  cbn [fst snd] in *.
  split.
  - unfold n_update, nc_port, cat, p_update, zipper_add.
    cbn [n_v0L n_v0H n_v1L n_v1H n_mul0L n_mul0H n_mul1L n_mul1H v0 v1 mul0 mul1 zip4].
    unfold vaddq_u64, veorq_u64, vmull_u32, vmovn_u64, vshrn_n_u64_32, v2map2. cbn [fst snd].
    rewrite !n_zipper_ok. cbn [fst snd].
    rewrite !lo32_hi32 by (try assumption; apply add64_w64b).
    reflexivity.
  - unfold n_update, NCwf. cbn [n_v0L n_v0H n_v1L n_v1H n_mul0L n_mul0H n_mul1L n_mul1H].
    repeat split; first [apply add64_w64b | apply lxor_w64b; [apply Hc01 || apply Hc23 || apply Hd01 || apply Hd23 | apply mul64_w64b]].
Qed.

Lemma n_permute_and_update_sim c : NCwf c ->
  nc_port (n_permute_and_update c) = p_permute_and_update (nc_port c) /\ NCwf (n_permute_and_update c).
Proof.
  intros H. unfold n_permute_and_update, p_permute_and_update.
  destruct (n_update_sim c (NV2_rotate_by_32 (n_v0L c)) (NV2_rotate_by_32 (n_v0H c)) H) as [E W].
  split; [|exact W]. rewrite E. f_equal.
  destruct c as [[a0 a1] [a2 a3] ? ? ? ? ? ?]. destruct H as ([? ?] & [? ?] & _).
  unfold nc_port, cat, p_permute. cbn [n_v0L n_v0H v0 fst snd] in *.
  rewrite !nrot32_fst, !nrot32_snd by assumption. reflexivity.
Qed.

Lemma n_rounds_sim n c : NCwf c ->
  nc_port (iter n n_permute_and_update c) = iter n p_permute_and_update (nc_port c) /\
  NCwf (iter n n_permute_and_update c).
Proof.
  revert c. induction n as [|n IH]; intros c H; cbn [iter]; [split; [reflexivity|exact H]|].
  destruct (n_permute_and_update_sim c H) as [E W]. destruct (IH _ W) as [E' W'].
  split; [|exact W']. rewrite E', E. reflexivity.
Qed.

(* ---------------------------------------------------------------- USHL-based rotation, every count 1..31 *)
Ltac pre_eval_neon :=
  repeat match goal with
  | |- context [vdupq_n_u32 ?a] => let v := eval vm_compute in (vdupq_n_u32 a) in change (vdupq_n_u32 a) with v
  end.
Ltac pre_eval_sbyte :=
  repeat match goal with
  | |- context [sbyte ?c] => let v := eval vm_compute in (sbyte c) in change (sbyte c) with v
  end.

Lemma n_rotate_lane_ok : forall n, (1 <= n <= 31)%nat -> forall a b,
  w64b a = true -> w64b b = true ->
  let count := N.of_nat n in
  vorrq_u64 (vshlq_u32 (a, b) (vdupq_n_u32 (t32 count))) (vshlq_u32 (a, b) (vdupq_n_u32 (t32 (count + 4294967296 - 32))))
  = (rotate32by count a, rotate32by count b).
Proof.
  intros n Hn a b Ha Hb. wf64 Ha. wf64 Hb.
  do 32 (destruct n as [|n];
    [ try lia; cbv zeta; pre_eval_neon;
      unfold vorrq_u64, vshlq_u32, zip32, v2map2, e32; cbn [fst snd]; unfold ushl32;
      repeat match goal with |- context [lo32 ?c] => is_cst c; let v := eval vm_compute in (lo32 c) in change (lo32 c) with v end;
      repeat match goal with |- context [hi32 ?c] => is_cst c; let v := eval vm_compute in (hi32 c) in change (hi32 c) with v end;
      repeat match goal with |- context [lo32 ?c] => is_cst c; let v := eval vm_compute in (lo32 c) in change (lo32 c) with v end;
      pre_eval_sbyte;
      unfold rotate32by, rotl32;
      bb_norm; apply f_equal2; bb
    | ]).
  lia.
Qed.

(* ---------------------------------------------------------------- memory *)
Lemma vld1q_ok chunk addr off : (off + 16 <= length chunk)%nat -> wbytesb chunk = true ->
  vld1q_u8 {| mbytes := chunk; maddr := addr |} off = Ok (le_bytes (sub chunk off 8), le_bytes (sub chunk (off + 8) 8)).
Proof.
  intros H Hb. unfold vld1q_u8. rewrite load_ok by lia. cbn [bind]. rewrite v128_of_sub by exact Hb. reflexivity.
Qed.

Lemma n_data_to_lanes_ok chunk addr : length chunk = 32%nat -> wbytesb chunk = true ->
  exists p, n_data_to_lanes {| mbytes := chunk; maddr := addr |} = Ok p /\ lanes_of_pair p = packet_lanes chunk.
Proof.
  intros Hl Hb. unfold n_data_to_lanes. rewrite !vld1q_ok by (try lia; exact Hb). cbn [bind].
  eexists. split; [reflexivity|]. reflexivity.
Qed.

Ltac n_rem_case prof bytes Hl Hb :=
  destruct_bytes bytes Hl; split_wbytes Hb; all_wf8;
  destruct prof as [o [|]];
  (eexists; split;
  [ unfold n_remainder, n_load_multiple_of_four, n_take, vld1q_u8, load, mslice_from, mlen,
      self_buf, N_BUF_ADDR, unordered_load3, guard;
    bb_norm; reflexivity
  | unfold lanes_of_pair, cat, packet_lanes, remainder_packet; bb_norm; rewrite ?add3_lor;
    split_pairs; bb ]).

(* NEON remainder packing (raw-pointer take::<N> reads, size & 4 test) = the specification's remainder
   packet for every size 1..31; every read stays inside the slice and no debug assertion fires *)
Lemma n_remainder_ok : forall n, (1 <= n <= 31)%nat -> forall prof bytes,
  length bytes = n -> wbytesb bytes = true ->
  exists p, n_remainder prof (self_buf N_BUF_ADDR bytes) = Ok p /\
            lanes_of_pair p = packet_lanes (remainder_packet bytes).
Proof.
  intros n Hn prof bytes Hl Hb.
  do 32 (destruct n as [|n]; [try lia; n_rem_case prof bytes Hl Hb|]).
  lia.
Qed.

(* ---------------------------------------------------------------- the refinement package for NEON *)
Definition nabs_core (c : ncore) : hstate := to_h (nc_port c).
Definition NInv (s : nstate) : Prop := NCwf (n_core s) /\ BInv (n_buffer s).
Definition nabs (s : nstate) : L := (nabs_core (n_core s), pending (n_buffer s)).

Lemma NCwf_Hwf c : NCwf c -> Hwf (nabs_core c).
Proof.
  intros (? & ? & ? & ? & ? & ? & ? & ?). unfold Hwf, nabs_core, nc_port, to_h. cbn [hv0 hv1 hmul0 hmul1 v0 v1 mul0 mul1].
  repeat split; apply cat_wf; assumption.
Qed.

Lemma n_step_ok c m : NCwf c -> length (mbytes m) = 32%nat -> wbytesb (mbytes m) = true ->
  exists c', n_step c m = Ok c' /\ NCwf c' /\ nabs_core c' = hh_update_packet (nabs_core c) (mbytes m).
Proof.
  intros Hc Hl Hb. destruct m as [bytes addr]. cbn [mbytes] in *.
  destruct (n_data_to_lanes_ok bytes addr Hl Hb) as (p & E & Hp).
  unfold n_step. rewrite E. cbn [bind]. eexists. split; [reflexivity|].
  destruct (n_update_sim c (fst p) (snd p) Hc) as [Es Ws]. split; [exact Ws|].
  unfold nabs_core, hh_update_packet. rewrite Es, p_update_ok. f_equal. exact Hp.
Qed.

Lemma n_append_ok prof addr s d : NInv s -> wbytesb d = true ->
  exists s', n_append prof addr s d = Ok s' /\ NInv s' /\ nabs s' = absorb (nabs s) d.
Proof.
  intros [Hc Hb] Hd. unfold n_append.
  destruct (g_append_ok n_step N_BUF_ADDR nabs_core NCwf n_step_ok prof addr (n_core s) (n_buffer s) d Hc Hb Hd)
    as (c' & b' & E & Hc' & Hb' & A).
  rewrite E. cbn [bind fst snd]. eexists. split; [reflexivity|]. split; [split; assumption|]. exact A.
Qed.

Lemma dup_inc : forall n, (n <= 31)%nat ->
  vdupq_n_u32 (t32 (N.of_nat n)) = (N.shiftl (N.of_nat n) 32 + N.of_nat n, N.shiftl (N.of_nat n) 32 + N.of_nat n).
Proof. intros n Hn. do 32 (destruct n as [|n]; [vm_compute; reflexivity|]). lia. Qed.

Lemma n_update_remainder_ok prof s : NInv s -> idx (n_buffer s) <> 0%nat ->
  exists c', n_update_remainder prof s = Ok c' /\ NCwf c' /\
             nabs_core c' = hh_update_remainder (nabs_core (n_core s)) (pending (n_buffer s)).
Proof.
  intros [Hc HB] Hne. pose proof HB as [[Hlen Hidx] Hbw].
  unfold n_update_remainder, plen.
  rewrite (as_slice_ok prof _ (proj1 HB)). cbn [bind].
  set (n := idx (n_buffer s)) in *.
  assert (Hn : (1 <= n <= 31)%nat) by lia.
  assert (Hpl : length (pending (n_buffer s)) = n) by (apply pending_length; exact (proj1 HB)).
  destruct (n_remainder_ok n Hn prof (pending (n_buffer s)) Hpl (BInv_pending_w _ HB)) as (p & E & Hp).
  rewrite E. cbn [bind]. eexists. split; [reflexivity|].
  rewrite dup_inc by lia.
  destruct (n_core s) as [[a0 a1] [a2 a3] [b0 b1] [b2 b3] c01 c23 d01 d23] eqn:Ecore.
  destruct Hc as ([Ha0 Ha1] & [Ha2 Ha3] & [Hb0 Hb1] & [Hb2 Hb3] & Hc01 & Hc23 & Hd01 & Hd23).
  cbn [n_v0L n_v0H n_v1L n_v1H n_mul0L n_mul0H n_mul1L n_mul1H fst snd] in *.
  match goal with |- context [n_update ?c _ _] => assert (Hw : NCwf c) end.
  { unfold n_rotate_32_by, NCwf, V2wf, vaddq_u64, v2map2. cbn [n_v0L n_v0H n_v1L n_v1H n_mul0L n_mul0H n_mul1L n_mul1H fst snd].
    rewrite !n_rotate_lane_ok by (assumption || lia). cbn [fst snd].
    repeat split; try assumption; try apply add64_w64b; try apply rotate32by_w64b;
      first [apply Hc01 | apply Hc23 | apply Hd01 | apply Hd23]. }
  match goal with |- context [n_update ?c _ _] => destruct (n_update_sim c (fst p) (snd p) Hw) as [Es Ws] end.
  split; [exact Ws|].
  unfold nabs_core. rewrite Es, p_update_ok. unfold hh_update_remainder, hh_update_packet.
  rewrite Hpl. f_equal; [|exact Hp].
  unfold n_rotate_32_by, nc_port, to_h, cat.
  cbn [n_v0L n_v0H n_v1L n_v1H n_mul0L n_mul0H n_mul1L n_mul1H v0 v1 mul0 mul1 hv0 hv1 hmul0 hmul1].
  rewrite !n_rotate_lane_ok by (assumption || lia).
  unfold vaddq_u64, v2map2. cbn [fst snd map4]. reflexivity.
Qed.

Lemma n_pre_finalize_ok prof s : NInv s ->
  exists c', n_pre_finalize prof s = Ok c' /\ NCwf c' /\ nabs_core c' = pre_out (nabs s).
Proof.
  intros HI. unfold n_pre_finalize, is_empty, pre_out, nabs. cbn [fst snd].
  destruct (Nat.eqb_spec (idx (n_buffer s)) 0) as [E0|N0]; cbn [negb].
  - eexists. split; [reflexivity|]. split; [exact (proj1 HI)|]. unfold pending. rewrite E0. reflexivity.
  - destruct (n_update_remainder_ok prof s HI N0) as (c' & E & W & H). exists c'. split; [exact E|]. split; [exact W|].
    rewrite H. destruct (pending (n_buffer s)) as [|b l] eqn:Ep; [|reflexivity].
    exfalso. apply N0. rewrite <- (pending_length _ (proj1 (proj2 HI))), Ep. reflexivity.
Qed.

Lemma n_modular_reduction_ok x0 x1 i0 i1 :
  n_modular_reduction (t64 x0, t64 x1) (t64 i0, t64 i1) =
  (snd (modular_reduction (t64 x1) (t64 x0) (t64 i1) (t64 i0)), fst (modular_reduction (t64 x1) (t64 x0) (t64 i1) (t64 i0))).
Proof.
  unfold n_modular_reduction, modular_reduction, NV2_and_not, vbicq_u64, vaddq_u64, veorq_u64,
    n_slli_si128_8, vextq_u8_8, vsetq_lane_u32_3, vdupq_n_u32, v2map2. cbn [fst snd].
  rewrite !add64_double. unfold vshrq_n_u64, v2map, shl64, mk64, lo32, t32, t64, M32, M64.
  bb_norm. apply f_equal2; bb.
Qed.

Definition n_finalize (prof : profile) (w : width) (s : nstate) : res (list N) :=
  match w with
  | W64 => do x <- n_finalize64 prof s ;; Ok [x]
  | W128 => do x <- n_finalize128 prof s ;; Ok [fst x; snd x]
  | W256 => do x <- n_finalize256 prof s ;; Ok (lanes_list x)
  end.

Lemma n_finalize_ok prof w s : NInv s -> n_finalize prof w s = Ok (out w (nabs s)).
Proof.
  intros HI. destruct (n_pre_finalize_ok prof s HI) as (c & E & W & H).
  unfold n_finalize, n_finalize64, n_finalize128, n_finalize256, out.
  destruct w; rewrite E; cbn [bind]; rewrite <- H; unfold nabs_core.
  - unfold hh_finalize64. rewrite <- p_rounds_ok. destruct (n_rounds_sim 4 c W) as [Er _]. rewrite <- Er.
    generalize (iter 4 n_permute_and_update c). intros [[a0 a1] [a2 a3] [b0 b1] [b2 b3] [c0 c1] [c2 c3] [d0 d1] [d2 d3]].
    unfold nc_port, cat, to_h, vaddq_u64, v2map2, NV2_as_arr.
    cbn [n_v0L n_v0H n_v1L n_v1H n_mul0L n_mul0H n_mul1L n_mul1H v0 v1 mul0 mul1 hv0 hv1 hmul0 hmul1 fst snd lane0].
    rewrite sum4_a. reflexivity.
  - unfold hh_finalize128. rewrite <- p_rounds_ok. destruct (n_rounds_sim 6 c W) as [Er _]. rewrite <- Er.
    generalize (iter 6 n_permute_and_update c). intros [[a0 a1] [a2 a3] [b0 b1] [b2 b3] [c0 c1] [c2 c3] [d0 d1] [d2 d3]].
    unfold nc_port, cat, to_h, vaddq_u64, v2map2, NV2_as_arr.
    cbn [n_v0L n_v0H n_v1L n_v1H n_mul0L n_mul0H n_mul1L n_mul1H v0 v1 mul0 mul1 hv0 hv1 hmul0 hmul1 fst snd lane0 lane1 lane2 lane3].
    rewrite !sum4_b. reflexivity.
  - unfold hh_finalize256. rewrite <- p_rounds_ok. destruct (n_rounds_sim 10 c W) as [Er _]. rewrite <- Er.
    generalize (iter 10 n_permute_and_update c). intros [[a0 a1] [a2 a3] [b0 b1] [b2 b3] [c0 c1] [c2 c3] [d0 d1] [d2 d3]].
    unfold nc_port, cat, to_h, vaddq_u64, v2map2, NV2_as_arr.
    cbn [n_v0L n_v0H n_v1L n_v1H n_mul0L n_mul0H n_mul1L n_mul1H v0 v1 mul0 mul1 hv0 hv1 hmul0 hmul1 fst snd lane0 lane1 lane2 lane3].
    rewrite <- (add64_t64 a0 c0), <- (add64_t64 a1 c1), <- (add64_t64 a2 c2), <- (add64_t64 a3 c3).
    rewrite <- (add64_t64 b0 d0), <- (add64_t64 b1 d1), <- (add64_t64 b2 d2), <- (add64_t64 b3 d3).
    rewrite !n_modular_reduction_ok. cbn [fst snd].
    repeat match goal with |- context [t64 (fst (modular_reduction (t64 ?a) (t64 ?b) (t64 ?c) (t64 ?d)))] =>
      rewrite (proj1 (mr_t64 a b c d)), (proj2 (mr_t64 a b c d)) end.
    repeat match goal with |- context [modular_reduction ?a ?b ?c ?d] =>
      let m := fresh "m" in set (m := modular_reduction a b c d); destruct m end.
    reflexivity.
Qed.

(* ---------------------------------------------------------------- construction, checkpoint, restore *)
Lemma n_force_new_ok k : wlanesb k = true -> NInv (n_force_new k) /\ nabs (n_force_new k) = L0 k.
Proof.
  destruct k as [[[k0 k1] k2] k3]. intros Hk. apply wlanes_split in Hk as (H0 & H1 & H2 & H3).
  unfold n_force_new, NV2_new, veorq_u64, v2map2. cbn [lane0 lane1 lane2 lane3 fst snd].
  repeat match goal with |- context [t64 ?c] => is_cst c; let v := eval vm_compute in (t64 c) in change (t64 c) with v end.
  rewrite !(w64b_t64 k0), !(w64b_t64 k1), !(w64b_t64 k2), !(w64b_t64 k3) by assumption.
  rewrite !nrot32_fst, !nrot32_snd by assumption.
  split.
  - split; [|split; [split; [reflexivity|cbn; lia]|reflexivity]].
    unfold NCwf, V2wf. cbn [n_core n_v0L n_v0H n_v1L n_v1H n_mul0L n_mul0H n_mul1L n_mul1H fst snd].
    repeat split; try reflexivity; apply lxor_w64b; try assumption; try reflexivity; apply rotl64_32_w64b; assumption.
  - unfold nabs, nabs_core, nc_port, cat, to_h, L0, hh_reset, rot64_32, init_mul0, init_mul1.
    cbn [n_core n_buffer n_v0L n_v0H n_v1L n_v1H n_mul0L n_mul0H n_mul1L n_mul1H v0 v1 mul0 mul1 fst snd zip4 map4].
    rewrite !rotl64_32_comm.
    rewrite !(N.lxor_comm k0), !(N.lxor_comm k1), !(N.lxor_comm k2), !(N.lxor_comm k3).
    rewrite !(N.lxor_comm (N.lor (N.shiftr k0 32) _)), !(N.lxor_comm (N.lor (N.shiftr k1 32) _)),
            !(N.lxor_comm (N.lor (N.shiftr k2 32) _)), !(N.lxor_comm (N.lor (N.shiftr k3 32) _)).
    reflexivity.
Qed.

Lemma n_to_portable_abs s : NInv s -> Inv (n_to_portable s) /\ abs (n_to_portable s) = nabs s.
Proof.
  intros [Hc HB]. split; [exact (proj1 HB)|].
  unfold abs, nabs, nabs_core, n_to_portable, nc_port, cat, to_h, NV2_as_arr. cbn [core buffer fst snd v0 v1 mul0 mul1].
  destruct (n_core s) as [[a0 a1] [a2 a3] [b0 b1] [b2 b3] [c0 c1] [c2 c3] [d0 d1] [d2 d3]].
  destruct Hc as ([? ?] & [? ?] & [? ?] & [? ?] & [? ?] & [? ?] & [? ?] & [? ?]).
  cbn [n_v0L n_v0H n_v1L n_v1H n_mul0L n_mul0H n_mul1L n_mul1H fst snd] in *.
  rewrite !w64b_t64 by assumption. reflexivity.
Qed.

Lemma n_checkpoint_ok prof s : NInv s -> n_checkpoint prof s = Ok (encode (nabs s)).
Proof.
  intros HI. destruct (n_to_portable_abs s HI) as [Hi Ha]. unfold n_checkpoint.
  rewrite p_checkpoint_ok by exact Hi. rewrite Ha. reflexivity.
Qed.

Lemma n_of_portable_ok p : Inv p -> Cwf (core p) -> wbytesb (buf (buffer p)) = true ->
  NInv (n_of_portable p) /\ nabs (n_of_portable p) = abs p.
Proof.
  intros Hi Hw Hb. destruct p as [[[[[a0 a1] a2] a3] [[[b0 b1] b2] b3] [[[c0 c1] c2] c3] [[[d0 d1] d2] d3]] bf].
  destruct Hw as (Ha & Hbb & Hc & Hd). cbn [to_h hv0 hv1 hmul0 hmul1 v0 v1 mul0 mul1 core] in *.
  apply wlanes_split in Ha as (? & ? & ? & ?). apply wlanes_split in Hbb as (? & ? & ? & ?).
  apply wlanes_split in Hc as (? & ? & ? & ?). apply wlanes_split in Hd as (? & ? & ? & ?).
  split.
  - split; [|split; [exact Hi|exact Hb]].
    unfold n_of_portable, NCwf, V2wf, NV2_new.
    cbn [core buffer n_core n_v0L n_v0H n_v1L n_v1H n_mul0L n_mul0H n_mul1L n_mul1H v0 v1 mul0 mul1 lane0 lane1 lane2 lane3 fst snd].
    repeat split; apply t64_w64b.
  - unfold nabs, nabs_core, abs, n_of_portable, nc_port, cat, to_h, NV2_new.
    cbn [core buffer n_core n_buffer n_v0L n_v0H n_v1L n_v1H n_mul0L n_mul0H n_mul1L n_mul1H v0 v1 mul0 mul1 lane0 lane1 lane2 lane3 fst snd].
    rewrite !w64b_t64 by assumption. reflexivity.
Qed.

Lemma n_restore_ok prof c : wbytesb c = true ->
  exists s, n_force_from_checkpoint prof c = Ok s /\ NInv s /\ nabs s = decode c.
Proof.
  intros Hc. destruct (p_from_checkpoint_ok prof c) as (p & E & Hi & Ha).
  unfold n_force_from_checkpoint. rewrite E. cbn [bind]. eexists. split; [reflexivity|].
  assert (Hw : Cwf (core p)).
  { unfold Cwf. replace (to_h (core p)) with (fst (abs p)) by reflexivity. rewrite Ha. apply decode_Hwf. exact Hc. }
  destruct (n_of_portable_ok p Hi Hw (p_from_checkpoint_bytes prof c p E Hc)) as [HS HA].
  split; [exact HS|]. rewrite HA. exact Ha.
Qed.
