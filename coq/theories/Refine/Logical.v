(* Logical.v — the abstract "logical state" that carries most properties: the sixteen lanes after
   every whole 32-byte packet of the stream so far, plus the pending bytes (fewer than 32).
   [absorb] feeds more bytes, [out] produces a digest; the HighwayHash specification is
   [out w (absorb (hh_reset k, []) d)], and absorbing is a monoid action of byte strings. *)
From Coq Require Import NArith List Lia Bool Arith.
From HW Require Import Word Chunks Spec.
From HW.Refine Require Import ChunksFacts.
Import ListNotations.

Definition L : Type := (hstate * list N)%type.

Definition L0 (k : lanes) : L := (hh_reset k, []).

Definition absorb (l : L) (d : list N) : L :=
  let '(ps, r) := chunks32 (snd l ++ d) in (fold_left hh_update_packet ps (fst l), r).

Definition pre_out (l : L) : hstate :=
  match snd l with [] => fst l | _ :: _ => hh_update_remainder (fst l) (snd l) end.

Definition out (w : width) (l : L) : list N :=
  match w with
  | W64 => [hh_finalize64 (pre_out l)]
  | W128 => let '(a, b) := hh_finalize128 (pre_out l) in [a; b]
  | W256 => lanes_list (hh_finalize256 (pre_out l))
  end.

(* well-formed logical state: fewer than 32 bytes pending *)
Definition Lwf (l : L) : Prop := length (snd l) < 32.

Lemma absorb_wf l d : Lwf (absorb l d).
Proof.
  unfold Lwf, absorb. pose proof (chunks32_spec (snd l ++ d)) as H.
  destruct (chunks32 (snd l ++ d)) as [ps r]. cbn [snd]. tauto.
Qed.

Lemma absorb_nil l : Lwf l -> absorb l [] = l.
Proof.
  unfold Lwf, absorb. intros H. rewrite app_nil_r, chunks32_short by assumption.
  destruct l; reflexivity.
Qed.

Lemma absorb_app l a b : absorb (absorb l a) b = absorb l (a ++ b).
Proof.
  unfold absorb. rewrite app_assoc, (chunks32_app (snd l ++ a) b).
  destruct (chunks32 (snd l ++ a)) as [ps r]. cbn [fst snd].
  destruct (chunks32 (r ++ b)) as [ps' r']. rewrite fold_left_app. reflexivity.
Qed.

Lemma absorb_concat l (cs : list (list N)) : Lwf l -> fold_left absorb cs l = absorb l (concat cs).
Proof.
  revert l. induction cs as [|c cs IH]; intros l Hl; cbn [fold_left concat].
  - symmetry. apply absorb_nil; assumption.
  - rewrite IH by apply absorb_wf. apply absorb_app.
Qed.

(* the specification is absorb-then-out from the key schedule *)
Lemma spec_as_absorb w k d : HH w k d = out w (absorb (L0 k) d).
Proof.
  unfold HH, HH64, HH128, HH256, out, pre_out, absorb, L0, hh_process_all. cbn [fst snd app].
  destruct (chunks32 d) as [ps r]. cbn [fst snd]. destruct w, r; reflexivity.
Qed.
