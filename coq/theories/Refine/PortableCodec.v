(* PortableCodec.v — PortableHash::checkpoint / from_checkpoint against the codec of Codec.v, and
   preservation of lane well-formedness. *)
From Coq Require Import NArith List Lia Bool Arith.
From HW Require Import Word Chunks Packet Portable Spec.
From HW.Refine Require Import ChunksFacts WordFacts Logical PortableRefine Codec.
Import ListNotations.
Local Open Scope N_scope.

Lemma st16_bytes_ok c : st16_bytes c = hstate_bytes (to_h c).
Proof. destruct c; reflexivity. Qed.

Lemma p_checkpoint_ok prof s : Inv s -> p_checkpoint prof s = Ok (encode (abs s)).
Proof.
  intros HI. unfold p_checkpoint, encode, abs, plen. cbn [fst snd].
  rewrite as_slice_ok by exact HI. cbn [bind].
  rewrite st16_bytes_ok, (pending_length _ HI).
  rewrite firstn_all2 by (rewrite (pending_length _ HI); destruct HI; lia).
  rewrite (pending_length _ HI). reflexivity.
Qed.

Lemma p_from_checkpoint_ok prof c :
  exists s, p_from_checkpoint prof c = Ok s /\ Inv s /\ abs s = decode c.
Proof.
  unfold p_from_checkpoint.
  match goal with |- context [p_append prof ?s0 ?d] =>
    destruct (p_append_ok prof s0 d (Inv_default _)) as (s & E & HI & HA) end.
  exists s. split; [exact E|]. split; [exact HI|]. rewrite HA. reflexivity.
Qed.

(* ---- lanes stay below 2^64 *)
Definition Cwf (c : st16) : Prop := Hwf (to_h c).

Lemma wlanes_intro a0 a1 a2 a3 : w64b a0 = true -> w64b a1 = true -> w64b a2 = true -> w64b a3 = true ->
  wlanesb (a0, a1, a2, a3) = true.
Proof. intros H0 H1 H2 H3. cbn [wlanesb]. rewrite H0, H1, H2, H3. reflexivity. Qed.

Lemma hh_update_wf h p : Hwf h -> Hwf (hh_update h p).
Proof.
  destruct h as [[[[a0 a1] a2] a3] [[[b0 b1] b2] b3] [[[c0 c1] c2] c3] [[[d0 d1] d2] d3]].
  destruct p as [[[p0 p1] p2] p3].
  intros (Ha & Hb & Hc & Hd). cbn [hv0 hv1 hmul0 hmul1] in *.
  apply wlanes_split in Hc as (? & ? & ? & ?). apply wlanes_split in Hd as (? & ? & ? & ?).
  unfold hh_update, lane_round. cbn [hv0 hv1 hmul0 hmul1].
  repeat match goal with |- context [zipper_merge_spec ?x ?y] => destruct (zipper_merge_spec x y) end.
  unfold Hwf. cbn [hv0 hv1 hmul0 hmul1].
  repeat split; apply wlanes_intro;
    first [apply add64_w64b | apply lxor_w64b; [assumption|apply mul64_w64b]].
Qed.

Lemma fold_update_wf ps h : Hwf h -> Hwf (fold_left hh_update_packet ps h).
Proof.
  revert h. induction ps as [|p ps IH]; intros h H; cbn [fold_left]; [exact H|].
  apply IH. apply hh_update_wf. exact H.
Qed.

Lemma absorb_Hwf l d : Hwf (fst l) -> Hwf (fst (absorb l d)).
Proof.
  intros H. unfold absorb. destruct (chunks32 (snd l ++ d)) as [ps r]. cbn [fst].
  apply fold_update_wf. exact H.
Qed.

Lemma le_bytes_8_w64b (l : list N) : wbytesb l = true -> (length l <= 8)%nat -> w64b (le_bytes l) = true.
Proof.
  intros Hb Hl.
  do 9 (destruct l as [|?x l]; [cbn [wbytesb forallb] in Hb; rewrite ?andb_true_iff in Hb;
    repeat match goal with H : _ /\ _ |- _ => destruct H end;
    repeat match goal with H : w8b ?x = true |- _ => apply w8b_t8 in H; rewrite <- H; clear H end;
    unfold le_bytes, t8, M8; cbn [fold_right];
    match goal with |- w64b ?e = true =>
      replace e with (t64 e); [apply t64_w64b|unfold t64, M64; Bitblast.bb] end
    | ]).
  cbn [length] in Hl. lia.
Qed.

(* the packet buffer keeps holding bytes *)
Lemma wbytesb_app' a b : wbytesb (a ++ b) = wbytesb a && wbytesb b.
Proof. unfold wbytesb. apply forallb_app. Qed.
Lemma wbytesb_firstn' n l : wbytesb l = true -> wbytesb (firstn n l) = true.
Proof. intros H. rewrite <- (firstn_skipn n l), wbytesb_app' in H. apply andb_true_iff in H. tauto. Qed.
Lemma wbytesb_skipn' n l : wbytesb l = true -> wbytesb (skipn n l) = true.
Proof. intros H. rewrite <- (firstn_skipn n l), wbytesb_app' in H. apply andb_true_iff in H. tauto. Qed.

Lemma set_to_bytes prof b r b' : set_to prof b r = Ok b' -> wbytesb (buf b) = true -> wbytesb r = true ->
  wbytesb (buf b') = true.
Proof.
  unfold set_to. destruct (dbg prof && negb (length r <? 32)%nat); [discriminate|].
  destruct (32 <? length r)%nat; [discriminate|]. intros [= <-] Hb Hr. cbn [buf].
  rewrite wbytesb_app', Hr. apply wbytesb_skipn'. exact Hb.
Qed.

Lemma chunks32_rem_bytes d : wbytesb d = true -> wbytesb (snd (chunks32 d)) = true.
Proof.
  intros H. pose proof (chunks32_spec d) as S. destruct (chunks32 d) as [ps r]. destruct S as (E & _).
  cbn [snd]. rewrite E in H. rewrite wbytesb_app' in H. apply andb_true_iff in H. tauto.
Qed.

Lemma p_append_bytes prof s d s' : p_append prof s d = Ok s' ->
  wbytesb (buf (buffer s)) = true -> wbytesb d = true -> wbytesb (buf (buffer s')) = true.
Proof.
  unfold p_append. intros E Hb Hd. destruct (is_empty (buffer s)).
  - pose proof (chunks32_rem_bytes d Hd) as Hr. destruct (chunks32 d) as [ps r]. cbn [snd] in Hr.
    destruct (set_to prof (buffer s) r) as [b'| |] eqn:Es; cbn [bind] in E; try discriminate.
    injection E as <-. cbn [buffer]. eapply set_to_bytes; eassumption.
  - unfold fill in E. destruct (length d <? (if (idx (buffer s) <=? 32)%nat then 32 - idx (buffer s) else 0))%nat.
    + injection E as <-. cbn [buffer buf]. rewrite !wbytesb_app', Hd, wbytesb_firstn', wbytesb_skipn' by exact Hb. reflexivity.
    + match type of E with context [chunks32 ?t] =>
        assert (Ht : wbytesb t = true) by (apply wbytesb_skipn'; exact Hd);
        pose proof (chunks32_rem_bytes t Ht) as Hr; destruct (chunks32 t) as [ps r] end.
      cbn [snd] in Hr.
      match type of E with context [set_to prof ?b r] =>
        destruct (set_to prof b r) as [b'| |] eqn:Es; cbn [bind] in E; try discriminate;
        assert (Hb1 : wbytesb (buf b) = true) end.
      { cbn [buf]. destruct (idx (buffer s) <=? 32)%nat; [|exact Hb].
        rewrite wbytesb_app', !wbytesb_firstn' by assumption. reflexivity. }
      injection E as <-. cbn [buffer]. eapply set_to_bytes; eassumption.
Qed.

Lemma hstate_of_bytes_wf c : wbytesb c = true -> Hwf (hstate_of_bytes c).
Proof.
  intros H. unfold Hwf, hstate_of_bytes, lanes_of_bytes. cbn [hv0 hv1 hmul0 hmul1].
  assert (W : forall off, w64b (le_bytes (sub c off 8)) = true).
  { intros off. apply le_bytes_8_w64b; [unfold sub; apply wbytesb_firstn', wbytesb_skipn'; exact H|].
    unfold sub. rewrite firstn_length. lia. }
  repeat split; apply wlanes_intro; apply W.
Qed.

Lemma decode_Hwf c : wbytesb c = true -> Hwf (fst (decode c)).
Proof. intros H. unfold decode. apply absorb_Hwf. cbn [fst]. apply hstate_of_bytes_wf. exact H. Qed.

Lemma wbytesb_repeat0 n : wbytesb (repeat 0 n) = true.
Proof. induction n as [|n IH]; [reflexivity|]. cbn [repeat wbytesb forallb]. exact IH. Qed.

Lemma p_from_checkpoint_bytes prof c s : p_from_checkpoint prof c = Ok s -> wbytesb c = true ->
  wbytesb (buf (buffer s)) = true.
Proof.
  unfold p_from_checkpoint. intros E H. eapply p_append_bytes; [exact E| |].
  - cbn [buffer packet_default buf]. apply (wbytesb_repeat0 32).
  - apply wbytesb_firstn'. unfold sub. apply wbytesb_firstn', wbytesb_skipn'. exact H.
Qed.
