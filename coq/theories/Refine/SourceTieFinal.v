(* SourceTieFinal.v — finalize64/128/256 of src/portable.rs, as translated from the current source, against Portable.v:
   every call (HashPacket::is_empty / len / as_slice included) runs translated code. *)
From Coq Require Import NArith List String Bool Arith Lia.
From HW Require Import Word Chunks Packet Portable.
From HW.Refine Require Import ChunksFacts.
From HW.Facts Require Import RustLite.
From HWGen Require Import SrcPortable SrcPacket.
From HW.Refine Require Import SourceTie.
Import ListNotations.
Local Open Scope N_scope.

Ltac fold_env X e :=
  match goal with |- context [call_fn _ _ _ _ _ ?g _] => change g with (genv_of X e) end.
Ltac fold_penv e :=
  match goal with |- context [call_fn _ _ _ _ _ ?g _] => change g with (penv e) end.

Section Final.
Variable p : profile.
Notation call := (call_fn p noext all_fns).
Ltac conds := cbv beta iota zeta delta [eval_cond eval get lookup is_self substring String.eqb Ascii.eqb Bool.eqb genv lenv bind N.eqb Pos.eqb negb].
Ltac next_call := set (CALL := call_fn p noext all_fns); repeat (progress (rn1; conds)); subst CALL.

Definition ret_of (r : callres) : res (option val) :=
  match r with Ok (_, _, rv) => Ok rv | Panic => Panic | Fault => Fault end.
Definition lift_ret {A} (r : res A) (k : A -> val) : res (option val) :=
  match r with Ok a => Ok (Some (k a)) | Panic => Panic | Fault => Fault end.

Ltac pau X e := fold_env X e; rewrite permute_and_update_ok; next_call.
Ltac paus n X e := lazymatch n with O => idtac | S ?m => pau X e; paus m (p_permute_and_update X) e end.

Lemma finalize64_ok fuel c b : wfp b ->
  ret_of (call (S (S (S (S (S fuel))))) "finalize64" (genv_of c b) [])
  = lift_ret (p_finalize64 p {| core := c; buffer := b |}) VN.
Proof.
  intros W. rewrite call_step. unfold p_finalize64, p_pre_finalize, lift_ret. cbn [core buffer].
  next_call. fold_penv b. rewrite pkt_is_empty_ok. next_call.
  destruct (is_empty b); cbn [negb]; next_call.
  - paus 4%nat c b.
    cbn [bind iter ret_of]. unfold add64. reflexivity.
  - fold_env c b. rewrite (update_remainder_ok _ _ _ _ W). unfold lift.
    destruct (p_update_remainder p {| core := c; buffer := b |}) as [c1| |]; cbn [bind]; [|reflexivity|reflexivity].
    next_call. paus 4%nat c1 b.
    cbn [bind iter ret_of]. unfold add64. reflexivity.
Qed.

Lemma finalize128_ok fuel c b : wfp b ->
  ret_of (call (S (S (S (S (S fuel))))) "finalize128" (genv_of c b) [])
  = lift_ret (p_finalize128 p {| core := c; buffer := b |}) (fun lh => VA [fst lh; snd lh]).
Proof.
  intros W. rewrite call_step. unfold p_finalize128, p_pre_finalize, lift_ret. cbn [core buffer].
  next_call. fold_penv b. rewrite pkt_is_empty_ok. next_call.
  destruct (is_empty b); cbn [negb]; next_call.
  - paus 6%nat c b.
    cbn [bind iter ret_of fst snd]. unfold add64. reflexivity.
  - fold_env c b. rewrite (update_remainder_ok _ _ _ _ W). unfold lift.
    destruct (p_update_remainder p {| core := c; buffer := b |}) as [c1| |]; cbn [bind]; [|reflexivity|reflexivity].
    next_call. paus 6%nat c1 b.
    cbn [bind iter ret_of fst snd]. unfold add64. reflexivity.
Qed.

Ltac modred := rewrite module_reduction_ok; next_call.
Ltac fin256 :=
  modred; modred; cbn [bind iter ret_of]; unfold add64;
  repeat match goal with |- context [p_module_reduction ?a ?b ?c ?d] =>
    let R := fresh "R" in set (R := p_module_reduction a b c d); destruct R as [? ?] end;
  reflexivity.

Lemma finalize256_ok fuel c b : wfp b ->
  ret_of (call (S (S (S (S (S fuel))))) "finalize256" (genv_of c b) [])
  = lift_ret (p_finalize256 p {| core := c; buffer := b |}) (fun l => VA (ll l)).
Proof.
  intros W. rewrite call_step. unfold p_finalize256, p_pre_finalize, lift_ret. cbn [core buffer].
  next_call. fold_penv b. rewrite pkt_is_empty_ok. next_call.
  destruct (is_empty b); cbn [negb]; next_call.
  - paus 10%nat c b. fin256.
  - fold_env c b. rewrite (update_remainder_ok _ _ _ _ W). unfold lift.
    destruct (p_update_remainder p {| core := c; buffer := b |}) as [c1| |]; cbn [bind]; [|reflexivity|reflexivity].
    next_call. paus 10%nat c1 b. fin256.
Qed.
End Final.
