(* SourceTieNeonFull.v — src/aarch64.rs as a whole (NeonHash: force_new, update, zipper_merge, permute_and_update,
   modular_reduction, load_multiple_of_four, remainder, rotate_32_by, update_remainder, data_to_lanes, finalize64/128/256,
   append, checkpoint, force_from_checkpoint; the vector wrapper V2x64U with its operator and From impls; the helper
   _mm_slli_si128_8), as translated from the CURRENT source text into the RustLite AST (gen/SrcNeonFull.v, regenerated on every
   run), means exactly what the hand-written model Neon.v says.  Every lemma is about the interpreter running the one
   table SourceTie.all_fns, in which the functions of aarch64.rs sit under their module path ("aarch64::NeonHash::update").
   `unsafe` is dropped by the translator; what the raw-pointer constructs mean is the interpreter's: a 16-byte load through
   `a.as_ptr().offset(k)` reads bytes k..k+16 of the array and is a Fault (undefined behaviour) outside it; take::<N> is a
   debug_assert followed by an unchecked read.  Supplied from outside: only the meaning of the NEON instructions (RustLite.vprim:
   the intrinsic models of Neon.v). *)
From Coq Require Import NArith ZArith List String Bool Arith Lia.
From HW Require Import Word Chunks Packet Mem Stream X86 Portable Neon.
From HW.Refine Require Import ChunksFacts SourceTie PacketTie.
From HW.Facts Require Import RustLite.
From HWGen Require Import SrcPortable SrcPacket SrcNeonFull.
Import ListNotations.
Local Open Scope N_scope.

(* the fields of a NeonHash as the interpreter sees them *)
Definition ngenv_of (c : ncore) (bk : packet) : env :=
  [("self.v0L"%string, VX (n_v0L c)); ("self.v0H"%string, VX (n_v0H c));
   ("self.v1L"%string, VX (n_v1L c)); ("self.v1H"%string, VX (n_v1H c));
   ("self.mul0L"%string, VX (n_mul0L c)); ("self.mul0H"%string, VX (n_mul0H c));
   ("self.mul1L"%string, VX (n_mul1L c)); ("self.mul1H"%string, VX (n_mul1H c));
   ("self.buffer.buf"%string, VA (buf bk)); ("self.buffer.buf_index"%string, VN (N.of_nat (Packet.idx bk)))].

Notation ncall p := (call_fn p noext all_fns).

(* run everything except the NEON instructions and the byte-assembly functions *)
Ltac nbl :=
  cbv -[vaddq_u64 vandq_u64 vorrq_u64 veorq_u64 vbicq_u64 vdupq_n_u64 vdupq_n_u32 vmovn_u64 vshrn_n_u64_32 vmull_u32 vshrq_n_u64
        vqtbl1q_u8 vrev64q_u32 vsetq_lane_u32_3 vextq_u8_8 vshlq_u32 v128_of_bytes bytes_of_v128 le_bytes t64 of_e32 unordered_load3].

Lemma ncall_step p fuel f g vs :
  call_fn p noext all_fns (S fuel) f g vs =
  match find_fn all_fns f with
  | Some d => run_fn p (call_fn p noext all_fns fuel) d g vs
  | None => Fault
  end.
Proof. reflexivity. Qed.

Lemma pos_roundtrip :
  bytes_of_v128 (v128_of_bytes [3; 12; 2; 5; 14; 1; 15; 0; 11; 4; 10; 13; 9; 6; 8; 7]) = [3; 12; 2; 5; 14; 1; 15; 0; 11; 4; 10; 13; 9; 6; 8; 7].
Proof. vm_compute. reflexivity. Qed.

Section Kernel.
Variable p : profile.
Notation call := (call_fn p noext all_fns).

(* ---- the vector wrapper: constructor, observers, operators (through the trait impl, the inherent method, the instruction) *)
Lemma n_new2_src fuel g a b :
  call (S fuel) "aarch64::V2x64U::new" g [VN a; VN b] = Ok (g, [Some (VN a); Some (VN b)], Some (VX (NV2_new a b))).
Proof. nbl. reflexivity. Qed.
Lemma n_as_arr_src fuel g a :
  call (S fuel) "aarch64::V2x64U::as_arr" g [VX a] = Ok (g, [Some (VX a)], Some (VA [fst (NV2_as_arr a); snd (NV2_as_arr a)])).
Proof. nbl. reflexivity. Qed.
Lemma n_rotate_by_32_src fuel g a :
  call (S fuel) "aarch64::V2x64U::rotate_by_32" g [VX a] = Ok (g, [Some (VX a)], Some (VX (NV2_rotate_by_32 a))).
Proof. nbl. reflexivity. Qed.
Lemma n_add_src fuel g a b :
  call (S (S (S fuel))) "aarch64::V2x64U::Add::add" g [VX a; VX b] = Ok (g, [Some (VX a); Some (VX b)], Some (VX (vaddq_u64 a b))).
Proof. nbl. reflexivity. Qed.
Lemma n_xor_src fuel g a b :
  call (S (S (S fuel))) "aarch64::V2x64U::BitXor::bitxor" g [VX a; VX b] = Ok (g, [Some (VX a); Some (VX b)], Some (VX (veorq_u64 a b))).
Proof. nbl. reflexivity. Qed.
Lemma n_or_src fuel g a b :
  call (S (S (S fuel))) "aarch64::V2x64U::BitOr::bitor" g [VX a; VX b] = Ok (g, [Some (VX a); Some (VX b)], Some (VX (vorrq_u64 a b))).
Proof. nbl. reflexivity. Qed.
Lemma n_and_src fuel g a b :
  call (S (S (S fuel))) "aarch64::V2x64U::BitAnd::bitand" g [VX a; VX b] = Ok (g, [Some (VX a); Some (VX b)], Some (VX (vandq_u64 a b))).
Proof. nbl. reflexivity. Qed.
Lemma n_add_assign_src fuel g a b :
  call (S (S fuel)) "aarch64::V2x64U::AddAssign::add_assign" g [VX a; VX b] = Ok (g, [Some (VX (vaddq_u64 a b)); Some (VX b)], None).
Proof. nbl. reflexivity. Qed.
(* every `impl From<T> for V2x64U` is the identity on the 128 bits *)
Lemma n_from_src fuel g a :
  call (S fuel) "aarch64::V2x64U::From<uint64x2_t>::from" g [VX a] = Ok (g, [Some (VX a)], Some (VX a)) /\
  call (S fuel) "aarch64::V2x64U::From<uint32x4_t>::from" g [VX a] = Ok (g, [Some (VX a)], Some (VX a)) /\
  call (S fuel) "aarch64::V2x64U::From<int32x4_t>::from" g [VX a] = Ok (g, [Some (VX a)], Some (VX a)) /\
  call (S fuel) "aarch64::V2x64U::From<uint16x8_t>::from" g [VX a] = Ok (g, [Some (VX a)], Some (VX a)) /\
  call (S fuel) "aarch64::V2x64U::From<uint8x16_t>::from" g [VX a] = Ok (g, [Some (VX a)], Some (VX a)).
Proof. repeat match goal with |- _ /\ _ => split end; nbl; reflexivity. Qed.
Lemma n_slli_src fuel g a :
  call (S fuel) "aarch64::_mm_slli_si128_8" g [VX a] = Ok (g, [Some (VX a)], Some (VX (n_slli_si128_8 a))).
Proof. nbl. reflexivity. Qed.

(* ---- zipper_merge(v): the table is loaded from a local array through a raw pointer *)
Lemma n_zipper_merge_src fuel g v :
  call (S (S fuel)) "aarch64::NeonHash::zipper_merge" g [VX v] = Ok (g, [Some (VX v)], Some (VX (n_zipper_merge v))).
Proof. nbl. rewrite pos_roundtrip. reflexivity. Qed.

(* ---- update(&mut self, (packetH, packetL)) *)
Lemma n_update_src fuel c e pH pL :
  call (S (S (S fuel))) "aarch64::NeonHash::update" (ngenv_of c e) [VTV [pH; pL]]
  = Ok (ngenv_of (n_update c pH pL) e, [Some (VTV [pH; pL])], None).
Proof. destruct c as [a0 a1 a2 a3 a4 a5 a6 a7]. nbl. rewrite !pos_roundtrip. reflexivity. Qed.

(* ---- permute_and_update(&mut self) *)
Lemma n_permute_and_update_src fuel c e :
  call (S (S (S (S fuel)))) "aarch64::NeonHash::permute_and_update" (ngenv_of c e) []
  = Ok (ngenv_of (n_permute_and_update c) e, [], None).
Proof. destruct c as [a0 a1 a2 a3 a4 a5 a6 a7]. nbl. rewrite !pos_roundtrip. reflexivity. Qed.

(* ---- modular_reduction(x, init) *)
Lemma n_modular_reduction_src fuel g x i :
  call (S (S (S (S fuel)))) "aarch64::NeonHash::modular_reduction" g [VX x; VX i]
  = Ok (g, [Some (VX x); Some (VX i)], Some (VX (n_modular_reduction x i))).
Proof. nbl. reflexivity. Qed.

(* ---- force_new(key) *)
Lemma n_force_new_src fuel c e k0 k1 k2 k3 :
  call (S (S (S (S fuel)))) "aarch64::NeonHash::force_new" (ngenv_of c e) [VA [k0;k1;k2;k3]]
  = Ok (ngenv_of (n_core (n_force_new (k0,k1,k2,k3))) packet_default, [Some (VA [k0;k1;k2;k3])], None).
Proof. destruct c as [a0 a1 a2 a3 a4 a5 a6 a7]. nbl. reflexivity. Qed.
End Kernel.
