(* SourceTieWasm.v — the Wasm SIMD kernel, its x86-named helper functions and the V2x64U wrapper of src/wasm.rs,
   translated from the current source into VecLite (gen/SrcWasm.v), interpreted with the models of the Wasm SIMD
   operations in Wasm.v as primitives, are the hand-written model Wasm.v, function by function.  (This backend cannot
   run natively here: besides this tie only the Miri runs of C04 connect the model to the code.) *)
From Coq Require Import NArith ZArith List String Bool Arith Lia.
From HW Require Import Word Packet Mem X86 Portable Wasm.
From HW.Facts Require Import VecLite.
From HW.Refine Require Import SourceTieSse.
From HWGen Require Import SrcWasm.
Import ListNotations.
Local Open Scope string_scope.
Local Open Scope N_scope.

(* u32 subtraction with the overflow check of a build that has overflow checks *)
Definition sub_u32 (p : profile) (a b : N) : res N :=
  if b <=? a then Ok (a - b) else if ovf p then Panic else Ok (t32 (a + 4294967296 - b)).

Definition wasm_prims (p : profile) (b : packet) : list (string * (list vval -> option (res vval))) :=
  [("wasm32::u64x2_add", vv u64x2_add); ("wasm32::u64x2_mul", vv u64x2_mul);
   ("wasm32::u64x2_sub", vv (v2map2 (fun x y => t64 (x + 18446744073709551616 - y))));
   ("wasm32::v128_and", vv v128_and); ("wasm32::v128_or", vv v128_or); ("wasm32::v128_xor", vv v128_xor);
   ("wasm32::v128_andnot", vv v128_andnot);
   ("wasm32::u64x2_shr", vn u64x2_shr); ("wasm32::u32x4_shl", vn u32x4_shl); ("wasm32::u32x4_shr", vn u32x4_shr);
   ("wasm32::u64x2", on2 (fun a c => match a, c with XN x, XN y => Some (Ok (X2 (w_u64x2 x y))) | _, _ => None end));
   ("wasm32::u32x4", fun vs => match vs with [XN a0; XN a1; XN a2; XN a3] => Some (Ok (X2 (w_u32x4 a0 a1 a2 a3))) | _ => None end);
   ("wasm32::i32x4", fun vs => match vs with [XN a0; XN a1; XN a2; XN a3] => Some (Ok (X2 (w_u32x4 a0 a1 a2 a3))) | _ => None end);
   ("wasm32::u8x16_shuffle::<3,12,2,5,1,14,0,15,11,4,10,13,6,9,7,8>",
      vv (u8x16_shuffle [3; 12; 2; 5; 1; 14; 0; 15; 11; 4; 10; 13; 6; 9; 7; 8]%nat));
   ("wasm32::u32x4_shuffle::<1,0,3,2>", vv (u32x4_shuffle 1 0 3 2));
   ("wasm32::u64x2_shuffle::<1,2>", vv (u64x2_shuffle 1 2));
   ("wasm32::i32x4_replace_lane::<1>", vn i32x4_replace_lane_1);
   ("wasm32::u64x2_extract_lane::<0>", on1 (fun a => match a with X2 v => Some (Ok (XN (u64x2_extract_lane 0 v))) | _ => None end));
   ("wasm32::u64x2_extract_lane::<1>", on1 (fun a => match a with X2 v => Some (Ok (XN (u64x2_extract_lane 1 v))) | _ => None end));
   ("From::from", on1 (fun a => Some (Ok a)));
   ("as_i32", nn t32); ("as_u32", nn t32);
   ("sub_u32", on2 (fun a c => match a, c with XN x, XN y => Some (do r <- sub_u32 p x y ;; Ok (XN r)) | _, _ => None end));
   ("buffer.len", fun vs => match vs with [] => Some (Ok (XN (N.of_nat (plen b)))) | _ => None end);
   ("buffer.as_slice", fun vs => match vs with [] => Some (do sl <- as_slice p b ;; Ok (XB sl)) | _ => None end);
   ("WasmHash::remainder", on1 (fun a => match a with
                                         | XB sl => Some (do r <- w_remainder p sl ;; Ok (XT [X2 (fst r); X2 (snd r)]))
                                         | _ => None end))].
Definition wasm_prim (p : profile) (b : packet) (f : string) (vs : list vval) : option (res vval) :=
  match tbl_find (wasm_prims p b) f with Some h => h vs | None => None end.

Definition wcore_vals (c : wcore) : list vval :=
  [X2 (w_v0L c); X2 (w_v0H c); X2 (w_v1L c); X2 (w_v1H c); X2 (w_mul0L c); X2 (w_mul0H c); X2 (w_mul1L c); X2 (w_mul1H c)].

Ltac vlw :=
  cbv beta iota zeta delta
    [vcall vapp veval vfind vbind vlookup String.eqb Ascii.eqb Bool.eqb bind app src_wasm vf_params vf_body vf_ret
     wasm_prim wasm_prims tbl_find on1 on2 vv vn nv nn Nat.add wcore_vals
     w_v0L w_v0H w_v1L w_v1H w_mul0L w_mul0H w_mul1L w_mul1H].

Section WasmKernel.
Variable p : profile.
Variable b : packet.
Notation call := (vcall (wasm_prim p b) src_wasm).

Lemma wasm_helpers_ok fuel x y k :
  call (8 + fuel)%nat "_mm_mul_epu32" [X2 x; X2 y] = Ok (X2 (w_mm_mul_epu32 x y)) /\
  call (8 + fuel)%nat "_mm_srli_epi64" [X2 x; XN k] = Ok (X2 (w_mm_srli_epi64 x k)) /\
  call (8 + fuel)%nat "_mm_srl_epi32" [X2 x; XN k] = Ok (X2 (w_mm_srl_epi32 x k)) /\
  call (8 + fuel)%nat "_mm_sll_epi32" [X2 x; XN k] = Ok (X2 (w_mm_sll_epi32 x k)) /\
  call (8 + fuel)%nat "_mm_slli_si128_8" [X2 x] = Ok (X2 (w_mm_slli_si128_8 x)).
Proof. repeat split; vlw; reflexivity. Qed.

Lemma wasm_new_ok fuel hi lo : call (8 + fuel)%nat "V2x64U::new" [XN hi; XN lo] = Ok (X2 (WV2_new hi lo)).
Proof. vlw. reflexivity. Qed.

Lemma wasm_zipper_merge_ok fuel v :
  call (10 + fuel)%nat "WasmHash::zipper_merge" [X2 v] = Ok (X2 (w_zipper_merge v)).
Proof. vlw. reflexivity. Qed.

Lemma wasm_update_ok fuel c pH pL :
  call (14 + fuel)%nat "WasmHash::update" (wcore_vals c ++ [XT [X2 pH; X2 pL]]) = Ok (XT (wcore_vals (w_update c pH pL))).
Proof. destruct c as [c1 c2 c3 c4 c5 c6 c7 c8]. vlw. reflexivity. Qed.

Lemma wasm_permute_and_update_ok fuel c :
  call (18 + fuel)%nat "WasmHash::permute_and_update" (wcore_vals c) = Ok (XT (wcore_vals (w_permute_and_update c))).
Proof. destruct c as [c1 c2 c3 c4 c5 c6 c7 c8]. vlw. reflexivity. Qed.

Lemma wasm_modular_reduction_ok fuel x init :
  call (14 + fuel)%nat "WasmHash::modular_reduction" [X2 x; X2 init] = Ok (X2 (w_modular_reduction x init)).
Proof. vlw. reflexivity. Qed.

Lemma wasm_wrapper_ops fuel x y :
  call (8 + fuel)%nat "V2x64U::Add::add" [X2 x; X2 y] = Ok (X2 (u64x2_add x y)) /\
  call (8 + fuel)%nat "V2x64U::BitXor::bitxor" [X2 x; X2 y] = Ok (X2 (v128_xor x y)) /\
  call (8 + fuel)%nat "V2x64U::BitOr::bitor" [X2 x; X2 y] = Ok (X2 (v128_or x y)) /\
  call (8 + fuel)%nat "V2x64U::BitAnd::bitand" [X2 x; X2 y] = Ok (X2 (v128_and x y)) /\
  call (8 + fuel)%nat "V2x64U::AddAssign::add_assign" [X2 x; X2 y] = Ok (X2 (u64x2_add x y)) /\
  call (8 + fuel)%nat "V2x64U::BitXorAssign::bitxor_assign" [X2 x; X2 y] = Ok (X2 (v128_xor x y)) /\
  call (8 + fuel)%nat "V2x64U::BitOrAssign::bitor_assign" [X2 x; X2 y] = Ok (X2 (v128_or x y)) /\
  call (8 + fuel)%nat "V2x64U::BitAndAssign::bitand_assign" [X2 x; X2 y] = Ok (X2 (v128_and x y)) /\
  call (8 + fuel)%nat "V2x64U::rotate_by_32" [X2 x] = Ok (X2 (WV2_rotate_by_32 x)) /\
  call (8 + fuel)%nat "V2x64U::and_not" [X2 x; X2 y] = Ok (X2 (WV2_and_not x y)).
Proof. repeat split; vlw; reflexivity. Qed.

Lemma wasm_from_impls_are_identities fuel v :
  forall f, In f src_wasm_from_impls -> call (6 + fuel)%nat f [X2 v] = Ok (X2 v).
Proof.
  intros f Hf. cbv [src_wasm_from_impls In] in Hf.
  repeat match goal with H : _ \/ _ |- _ => destruct H as [H|H] end; try contradiction; subst f; vlw; reflexivity.
Qed.

Definition lift_w {A} (r : res A) (k : A -> vval) : res vval :=
  match r with Ok a => Ok (k a) | Panic => Panic | Fault => Fault end.

(* rotate_32_by(&mut self, count: u32), with the underflow check of  32 - count  in every profile *)
Lemma wasm_rotate_32_by_ok fuel c count :
  call (14 + fuel)%nat "WasmHash::rotate_32_by" (wcore_vals c ++ [XN count])
  = lift_w (w_rotate_32_by p c count) (fun c' => XT (wcore_vals c')).
Proof.
  destruct c as [c1 c2 c3 c4 c5 c6 c7 c8]. unfold w_rotate_32_by, lift_w, sub_u32.
  vlw. unfold sub_u32. destruct (count <=? 32); [vlw; reflexivity|].
  destruct (ovf p); vlw; reflexivity.
Qed.

Lemma wasm_update_remainder_ok fuel c :
  call (22 + fuel)%nat "WasmHash::update_remainder" (wcore_vals c)
  = lift_w (w_update_remainder p {| w_core := c; w_buffer := b |}) (fun c' => XT (wcore_vals c')).
Proof.
  destruct c as [c1 c2 c3 c4 c5 c6 c7 c8]. unfold w_update_remainder, w_rotate_32_by, lift_w. cbn [w_core w_buffer].
  assert (T : forall x, t32 (t32 x) = t32 x) by (intros x; unfold t32; rewrite <- N.land_assoc, N.land_diag; reflexivity).
  vlw. unfold sub_u32. rewrite !T.
  destruct (t32 (N.of_nat (plen b)) <=? 32).
  - vlw. destruct (as_slice p b) as [sl| |]; vlw; [|reflexivity|reflexivity].
    destruct (w_remainder p sl) as [[pH pL]| |]; vlw; reflexivity.
  - destruct (ovf p); vlw; [reflexivity|].
    destruct (as_slice p b) as [sl| |]; vlw; [|reflexivity|reflexivity].
    destruct (w_remainder p sl) as [[pH pL]| |]; vlw; reflexivity.
Qed.
End WasmKernel.
