(* AvxRefine.v — the AVX2 model refines the logical state (same package as SseRefine.v). *)
From Coq Require Import NArith ZArith List Lia Bool Arith.
From HW Require Import Word Chunks Packet Mem Stream X86 Portable Spec Sse Avx.
From HW.Bits Require Import Bitblast.
From HW.Refine Require Import ChunksFacts WordFacts Logical PortableRefine Codec PortableCodec StreamRefine SseRefine.
Import ListNotations.
Local Open Scope N_scope.

Definition V4wf (v : V256) : Prop := wlanesb v = true.
Definition ACwf (c : acore) : Prop := V4wf (a_v0 c) /\ V4wf (a_v1 c) /\ V4wf (a_mul0 c) /\ V4wf (a_mul1 c).
Definition ac_port (c : acore) : st16 := {| v0 := a_v0 c; v1 := a_v1 c; mul0 := a_mul0 c; mul1 := a_mul1 c |}.

(* ---------------------------------------------------------------- lane-level identities *)
Lemma a_zipper_ok a b c d : a_zipper_merge (a, b, c, d) = (zip_lo b a, zip_hi b a, zip_lo d c, zip_hi d c).
Proof.
  unfold a_zipper_merge, mm256_shuffle_epi8, per128_2, join128, lo128, hi128, V4_new, mm256_set_epi64x.
  change (mm_shuffle_epi8 (a, b) (t64 0x000F010E05020C03, t64 0x070806090D0A040B)) with (s_zipper_merge (a, b)).
  change (mm_shuffle_epi8 (c, d) (t64 0x000F010E05020C03, t64 0x070806090D0A040B)) with (s_zipper_merge (c, d)).
  rewrite !s_zipper_ok. reflexivity.
Qed.

Lemma srli32_256 v : mm256_srli_epi64 v 32 = map4 (fun x => N.shiftr (t64 x) 32) v.
Proof. reflexivity. Qed.

Lemma a_update_sim c p : ACwf c ->
  ac_port (a_update c p) = p_update (ac_port c) p /\ ACwf (a_update c p).
Proof.
  destruct c as [[[[a0 a1] a2] a3] [[[b0 b1] b2] b3] [[[c0 c1] c2] c3] [[[d0 d1] d2] d3]].
  destruct p as [[[p0 p1] p2] p3].
  intros (Ha & Hb & Hc & Hd). unfold V4wf in *. cbn [a_v0 a_v1 a_mul0 a_mul1] in *.
  apply wlanes_split in Ha as (? & ? & ? & ?). apply wlanes_split in Hb as (? & ? & ? & ?).
  apply wlanes_split in Hc as (? & ? & ? & ?). apply wlanes_split in Hd as (? & ? & ? & ?).
  split.
  - unfold a_update, ac_port, p_update, zipper_add, V4_mul_low32, V4_shr_by_32.
    cbn [a_v0 a_v1 a_mul0 a_mul1 v0 v1 mul0 mul1].
    rewrite !srli32_256.
    unfold mm256_add_epi64, mm256_xor_si256, mm256_mul_epu32. cbn [zip4 map4].
    rewrite !a_zipper_ok. cbn [zip4].
    rewrite !lo32_srli by (try assumption; apply add64_w64b).
    reflexivity.
  - unfold a_update, ACwf, V4wf, V4_mul_low32, V4_shr_by_32, mm256_add_epi64, mm256_xor_si256, mm256_mul_epu32.
    cbn [a_v0 a_v1 a_mul0 a_mul1 zip4 map4].
    rewrite !a_zipper_ok. cbn [zip4].
    repeat split; apply wlanes_intro;
      first [apply add64_w64b | apply lxor_w64b; [assumption|apply mul64_w64b]].
Qed.

Lemma a_permute_ok a b c d : wlanesb (a, b, c, d) = true -> a_permute (a, b, c, d) = p_permute (a, b, c, d).
Proof.
  intros H. apply wlanes_split in H as (Ha & Hb & Hc & Hd). wf64 Ha. wf64 Hb. wf64 Hc. wf64 Hd.
  unfold a_permute, mm256_permutevar8x32_epi32, V4_new, mm256_set_epi64x, p_permute, rotl64_32, shl64, t64, M64.
  bb_norm. split_pairs; bb.
Qed.

Lemma a_permute_and_update_sim c : ACwf c ->
  ac_port (a_permute_and_update c) = p_permute_and_update (ac_port c) /\ ACwf (a_permute_and_update c).
Proof.
  intros H. unfold a_permute_and_update, p_permute_and_update.
  destruct (a_update_sim c (a_permute (a_v0 c)) H) as [E W]. split; [|exact W]. rewrite E. f_equal.
  destruct c as [[[[a0 a1] a2] a3] ? ? ?]. destruct H as (H & _). unfold ac_port. cbn [a_v0 v0] in *.
  apply a_permute_ok. exact H.
Qed.

Lemma a_rounds_sim n c : ACwf c ->
  ac_port (iter n a_permute_and_update c) = iter n p_permute_and_update (ac_port c) /\
  ACwf (iter n a_permute_and_update c).
Proof.
  revert c. induction n as [|n IH]; intros c H; cbn [iter]; [split; [reflexivity|exact H]|].
  destruct (a_permute_and_update_sim c H) as [E W]. destruct (IH _ W) as [E' W'].
  split; [|exact W']. rewrite E', E. reflexivity.
Qed.

(* ---------------------------------------------------------------- length injection and 32-bit rotation *)
(* closed data-path subterms that steer control flow or are shift counts are evaluated first *)
Ltac pre_eval_closed :=
  repeat match goal with
  | |- context [mm256_sub_epi32 ?a ?b] => let v := eval vm_compute in (mm256_sub_epi32 a b) in change (mm256_sub_epi32 a b) with v
  | |- context [mm256_broadcastd_epi32 ?a] => let v := eval vm_compute in (mm256_broadcastd_epi32 a) in change (mm256_broadcastd_epi32 a) with v
  | |- context [mm_cmpgt_epi32 ?a ?b] => let v := eval vm_compute in (mm_cmpgt_epi32 a b) in change (mm_cmpgt_epi32 a b) with v
  end.

Lemma bcast_inc : forall n, (n <= 31)%nat ->
  mm256_broadcastd_epi32 (mm_cvtsi64_si128 (N.of_nat n)) =
  (N.shiftl (N.of_nat n) 32 + N.of_nat n, N.shiftl (N.of_nat n) 32 + N.of_nat n,
   N.shiftl (N.of_nat n) 32 + N.of_nat n, N.shiftl (N.of_nat n) 32 + N.of_nat n).
Proof. intros n Hn. do 32 (destruct n as [|n]; [vm_compute; reflexivity|]). lia. Qed.

Lemma a_rotate_ok : forall n, (1 <= n <= 31)%nat -> forall a b c d, wlanesb (a, b, c, d) = true ->
  mm256_or_si256 (mm256_sllv_epi32 (a, b, c, d) (mm256_broadcastd_epi32 (mm_cvtsi64_si128 (N.of_nat n))))
    (mm256_srlv_epi32 (a, b, c, d) (mm256_sub_epi32 (mm256_broadcastd_epi32 (mm_cvtsi32_si128 32))
                                                    (mm256_broadcastd_epi32 (mm_cvtsi64_si128 (N.of_nat n)))))
  = map4 (rotate32by (N.of_nat n)) (a, b, c, d).
Proof.
  intros n Hn a b c d H. apply wlanes_split in H as (Ha & Hb & Hc & Hd). wf64 Ha. wf64 Hb. wf64 Hc. wf64 Hd.
  do 32 (destruct n as [|n];
    [ try lia; pre_eval_closed;
      unfold mm256_or_si256, mm256_sllv_epi32, mm256_srlv_epi32, per128_2, per128, zip32, map4, rotate32by, rotl32;
      bb_norm; split_pairs; bb
    | ]).
  lia.
Qed.

(* ---------------------------------------------------------------- memory *)
Lemma v256_of_sub l : length l = 32%nat -> wbytesb l = true -> v256_of_bytes (sub l 0 32) = packet_lanes l.
Proof.
  intros Hl H. unfold v256_of_bytes, packet_lanes. rewrite !sub_sub by lia. rewrite !t64_le8 by exact H. reflexivity.
Qed.

Lemma a_data_to_lanes_ok chunk addr : length chunk = 32%nat -> wbytesb chunk = true ->
  a_data_to_lanes {| mbytes := chunk; maddr := addr |} = Ok (packet_lanes chunk).
Proof.
  intros Hl Hb. unfold a_data_to_lanes, mm256_loadu_si256. rewrite load_ok by lia. cbn [bind].
  rewrite v256_of_sub by assumption. reflexivity.
Qed.

Ltac a_rem_case bytes Hl Hb :=
  destruct_bytes bytes Hl; split_wbytes Hb; all_wf8;
  eexists; split;
  [ unfold a_remainder, mlen, self_buf, A_BUF_ADDR; cbn [mbytes length]; pre_eval_closed;
    unfold mm_load_si128, mm_maskload_epi32, load, mslice_from, mlen, unordered_load3, guard;
    bb_norm; reflexivity
  | unfold packet_lanes, remainder_packet; bb_norm; rewrite ?add3_lor; split_pairs; bb ].

(* AVX remainder packing (aligned 16-byte load of the own buffer, masked 4-byte loads) = the
   specification's remainder packet for every size 1..31; no load leaves the slice *)
Lemma a_remainder_ok : forall n, (1 <= n <= 31)%nat -> forall prof bytes,
  length bytes = n -> wbytesb bytes = true ->
  exists p, a_remainder prof (self_buf A_BUF_ADDR bytes) = Ok p /\ p = packet_lanes (remainder_packet bytes).
Proof.
  intros n Hn prof bytes Hl Hb.
  do 32 (destruct n as [|n]; [try lia; a_rem_case bytes Hl Hb|]).
  lia.
Qed.

(* ---------------------------------------------------------------- the refinement package for AVX2 *)
Definition aabs_core (c : acore) : hstate := to_h (ac_port c).
Definition AInv (s : astate) : Prop := ACwf (a_core s) /\ BInv (a_buffer s).
Definition aabs (s : astate) : L := (aabs_core (a_core s), pending (a_buffer s)).

Lemma a_step_ok c m : ACwf c -> length (mbytes m) = 32%nat -> wbytesb (mbytes m) = true ->
  exists c', a_step c m = Ok c' /\ ACwf c' /\ aabs_core c' = hh_update_packet (aabs_core c) (mbytes m).
Proof.
  intros Hc Hl Hb. destruct m as [bytes addr]. cbn [mbytes] in *.
  unfold a_step. rewrite a_data_to_lanes_ok by assumption. cbn [bind]. eexists. split; [reflexivity|].
  destruct (a_update_sim c (packet_lanes bytes) Hc) as [Es Ws]. split; [exact Ws|].
  unfold aabs_core, hh_update_packet. rewrite Es, p_update_ok. reflexivity.
Qed.

Lemma a_append_ok prof addr s d : AInv s -> wbytesb d = true ->
  exists s', a_append prof addr s d = Ok s' /\ AInv s' /\ aabs s' = absorb (aabs s) d.
Proof.
  intros [Hc Hb] Hd. unfold a_append.
  destruct (g_append_ok a_step A_BUF_ADDR aabs_core ACwf a_step_ok prof addr (a_core s) (a_buffer s) d Hc Hb Hd)
    as (c' & b' & E & Hc' & Hb' & A).
  rewrite E. cbn [bind fst snd]. eexists. split; [reflexivity|]. split; [split; assumption|]. exact A.
Qed.

Lemma map4_wf f v : (forall x, w64b (f x) = true) -> wlanesb (map4 f v) = true.
Proof. intros H. destruct v as [[[a b] c] d]. cbn [map4]. apply wlanes_intro; apply H. Qed.

Lemma a_update_remainder_ok prof s : AInv s -> idx (a_buffer s) <> 0%nat ->
  exists c', a_update_remainder prof s = Ok c' /\ ACwf c' /\
             aabs_core c' = hh_update_remainder (aabs_core (a_core s)) (pending (a_buffer s)).
Proof.
  intros [Hc HB] Hne. pose proof HB as [[Hlen Hidx] Hbw].
  unfold a_update_remainder, plen.
  rewrite (as_slice_ok prof _ (proj1 HB)). cbn [bind].
  set (n := idx (a_buffer s)) in *.
  assert (Hn : (1 <= n <= 31)%nat) by lia.
  assert (Hpl : length (pending (a_buffer s)) = n) by (apply pending_length; exact (proj1 HB)).
  destruct (a_remainder_ok n Hn prof (pending (a_buffer s)) Hpl (BInv_pending_w _ HB)) as (p & E & Hp).
  rewrite E. cbn [bind]. eexists. split; [reflexivity|].
  destruct (a_core s) as [[[[a0 a1] a2] a3] [[[b0 b1] b2] b3] m0 m1] eqn:Ecore.
  destruct Hc as (Ha & Hb & Hm0 & Hm1). unfold V4wf in *. cbn [a_v0 a_v1 a_mul0 a_mul1] in *.
  rewrite a_rotate_ok by (assumption || lia). rewrite bcast_inc by lia.
  match goal with |- context [a_update ?c _] => assert (Hw : ACwf c) end.
  { unfold ACwf, V4wf, mm256_add_epi64. cbn [a_v0 a_v1 a_mul0 a_mul1 zip4].
    repeat split; try assumption.
    - apply wlanes_intro; apply add64_w64b.
    - apply (map4_wf (rotate32by (N.of_nat n))). intros x. apply rotate32by_w64b. }
  match goal with |- context [a_update ?c _] => destruct (a_update_sim c p Hw) as [Es Ws] end.
  split; [exact Ws|].
  unfold aabs_core. rewrite Es, p_update_ok. unfold hh_update_remainder, hh_update_packet.
  rewrite Hpl, Hp. f_equal.
Qed.

Lemma a_pre_finalize_ok prof s : AInv s ->
  exists c', a_pre_finalize prof s = Ok c' /\ ACwf c' /\ aabs_core c' = pre_out (aabs s).
Proof.
  intros HI. unfold a_pre_finalize, is_empty, pre_out, aabs. cbn [fst snd].
  destruct (Nat.eqb_spec (idx (a_buffer s)) 0) as [E0|N0]; cbn [negb].
  - eexists. split; [reflexivity|]. split; [exact (proj1 HI)|]. unfold pending. rewrite E0. reflexivity.
  - destruct (a_update_remainder_ok prof s HI N0) as (c' & E & W & H). exists c'. split; [exact E|]. split; [exact W|].
    rewrite H. destruct (pending (a_buffer s)) as [|b l] eqn:Ep; [|reflexivity].
    exfalso. apply N0. rewrite <- (pending_length _ (proj1 (proj2 HI))), Ep. reflexivity.
Qed.

Lemma a_modular_reduction_ok x0 x1 x2 x3 i0 i1 i2 i3 :
  a_modular_reduction (t64 x0, t64 x1, t64 x2, t64 x3) (t64 i0, t64 i1, t64 i2, t64 i3) =
  (snd (modular_reduction (t64 x1) (t64 x0) (t64 i1) (t64 i0)), fst (modular_reduction (t64 x1) (t64 x0) (t64 i1) (t64 i0)),
   snd (modular_reduction (t64 x3) (t64 x2) (t64 i3) (t64 i2)), fst (modular_reduction (t64 x3) (t64 x2) (t64 i3) (t64 i2))).
Proof.
  unfold a_modular_reduction, modular_reduction, V4_and_not, mm256_andnot_si256, mm256_add_epi64, mm256_xor_si256,
    mm256_slli_si256_8, mm256_setzero_si256, mm256_unpacklo_epi64, mm256_cmpeq_epi64, per128, per128_2, join128, lo128, hi128.
  cbn [zip4 fst snd map4].
  rewrite !add64_double, !N.eqb_refl.
  unfold mm256_srli_epi64, mm256_slli_epi64, mm_slli_si128_8, map4, shl64, t64, M64.
  bb_norm. split_pairs; bb.
Qed.

Definition a_finalize (prof : profile) (w : width) (s : astate) : res (list N) :=
  match w with
  | W64 => do x <- a_finalize64 prof s ;; Ok [x]
  | W128 => do x <- a_finalize128 prof s ;; Ok [fst x; snd x]
  | W256 => do x <- a_finalize256 prof s ;; Ok (lanes_list x)
  end.

Lemma a_finalize_ok prof w s : AInv s -> a_finalize prof w s = Ok (out w (aabs s)).
Proof.
  intros HI. destruct (a_pre_finalize_ok prof s HI) as (c & E & W & H).
  unfold a_finalize, a_finalize64, a_finalize128, a_finalize256, out.
  destruct w; rewrite E; cbn [bind]; rewrite <- H; unfold aabs_core.
  - unfold hh_finalize64. rewrite <- p_rounds_ok. destruct (a_rounds_sim 4 c W) as [Er _]. rewrite <- Er.
    generalize (iter 4 a_permute_and_update c). intros [[[[a0 a1] a2] a3] [[[b0 b1] b2] b3] [[[c0 c1] c2] c3] [[[d0 d1] d2] d3]].
    unfold ac_port, to_h, mm256_add_epi64, mm256_castsi256_si128, lo128, mm_add_epi64, v2map2.
    cbn [a_v0 a_v1 a_mul0 a_mul1 v0 v1 mul0 mul1 hv0 hv1 hmul0 hmul1 fst snd lane0 zip4].
    rewrite sum4_a. reflexivity.
  - unfold hh_finalize128. rewrite <- p_rounds_ok. destruct (a_rounds_sim 6 c W) as [Er _]. rewrite <- Er.
    generalize (iter 6 a_permute_and_update c). intros [[[[a0 a1] a2] a3] [[[b0 b1] b2] b3] [[[c0 c1] c2] c3] [[[d0 d1] d2] d3]].
    unfold ac_port, to_h, mm256_add_epi64, mm256_castsi256_si128, mm256_extracti128_si256_1, lo128, hi128, mm_add_epi64, v2map2, V2_as_arr.
    cbn [a_v0 a_v1 a_mul0 a_mul1 v0 v1 mul0 mul1 hv0 hv1 hmul0 hmul1 fst snd lane0 lane1 lane2 lane3 zip4].
    rewrite !sum4_b. reflexivity.
  - unfold hh_finalize256. rewrite <- p_rounds_ok. destruct (a_rounds_sim 10 c W) as [Er _]. rewrite <- Er.
    generalize (iter 10 a_permute_and_update c). intros [[[[a0 a1] a2] a3] [[[b0 b1] b2] b3] [[[c0 c1] c2] c3] [[[d0 d1] d2] d3]].
    unfold ac_port, to_h, mm256_add_epi64, V4_as_arr.
    cbn [a_v0 a_v1 a_mul0 a_mul1 v0 v1 mul0 mul1 hv0 hv1 hmul0 hmul1 fst snd lane0 lane1 lane2 lane3 zip4].
    rewrite <- (add64_t64 a0 c0), <- (add64_t64 a1 c1), <- (add64_t64 a2 c2), <- (add64_t64 a3 c3).
    rewrite <- (add64_t64 b0 d0), <- (add64_t64 b1 d1), <- (add64_t64 b2 d2), <- (add64_t64 b3 d3).
    rewrite a_modular_reduction_ok. cbn [map4].
    repeat match goal with |- context [t64 (fst (modular_reduction (t64 ?a) (t64 ?b) (t64 ?c) (t64 ?d)))] =>
      rewrite (proj1 (mr_t64 a b c d)), (proj2 (mr_t64 a b c d)) end.
    repeat match goal with |- context [modular_reduction ?a ?b ?c ?d] =>
      let m := fresh "m" in set (m := modular_reduction a b c d); destruct m end.
    reflexivity.
Qed.

(* ---------------------------------------------------------------- construction, checkpoint, restore *)
Lemma key_load_256 k0 k1 k2 k3 : wlanesb (k0, k1, k2, k3) = true ->
  mm256_load_si256 (key_obj (key_bytes (k0, k1, k2, k3))) 0 = Ok (k0, k1, k2, k3).
Proof.
  intros H. apply wlanes_split in H as (H0 & H1 & H2 & H3).
  unfold mm256_load_si256, load, key_obj, key_bytes, v256_of_bytes, sub.
  cbn [mbytes maddr lanes_list flat_map app to_le_bytes length Nat.add Nat.leb andb firstn skipn].
  change (N.of_nat 0) with 0. change ((0 + 0) mod 32 =? 0) with true. cbn [bind].
  rewrite !le8_explicit by assumption. rewrite !w64b_t64 by assumption. reflexivity.
Qed.

Lemma rot32_256 a b c d : wlanesb (a, b, c, d) = true ->
  V4_rotate_by_32 (a, b, c, d) = (rotl64_32 a, rotl64_32 b, rotl64_32 c, rotl64_32 d).
Proof.
  intros H. apply wlanes_split in H as (Ha & Hb & Hc & Hd).
  unfold V4_rotate_by_32, mm256_shuffle_epi32, per128, join128, lo128, hi128.
  change (mm_shuffle_epi32 (a, b) mm_shuffle_2301) with (V2_rotate_by_32 (a, b)).
  change (mm_shuffle_epi32 (c, d) mm_shuffle_2301) with (V2_rotate_by_32 (c, d)).
  rewrite !rot32_fst, !rot32_snd by assumption. reflexivity.
Qed.


Lemma a_force_new_ok k : wlanesb k = true ->
  exists s, a_force_new k = Ok s /\ AInv s /\ aabs s = L0 k.
Proof.
  destruct k as [[[k0 k1] k2] k3]. intros Hk.
  unfold a_force_new. rewrite key_load_256 by exact Hk. cbn [bind]. eexists. split; [reflexivity|].
  rewrite rot32_256 by exact Hk.
  apply wlanes_split in Hk as (H0 & H1 & H2 & H3).
  unfold V4_new, mm256_set_epi64x, mm256_xor_si256.
  repeat match goal with |- context [t64 ?c] => is_cst c; let v := eval vm_compute in (t64 c) in change (t64 c) with v end.
  split.
  - split; [|split; [split; [reflexivity|cbn; lia]|reflexivity]].
    unfold ACwf, V4wf. cbn [a_core a_v0 a_v1 a_mul0 a_mul1 zip4].
    repeat split; try reflexivity; apply wlanes_intro; apply lxor_w64b; try assumption; try reflexivity;
      apply rotl64_32_w64b; assumption.
  - unfold aabs, aabs_core, ac_port, to_h, L0, hh_reset, rot64_32, init_mul0, init_mul1.
    cbn [a_core a_buffer a_v0 a_v1 a_mul0 a_mul1 v0 v1 mul0 mul1 zip4 map4].
    rewrite !rotl64_32_comm.
    rewrite !(N.lxor_comm k0), !(N.lxor_comm k1), !(N.lxor_comm k2), !(N.lxor_comm k3).
    rewrite !(N.lxor_comm (N.lor (N.shiftr k0 32) _)), !(N.lxor_comm (N.lor (N.shiftr k1 32) _)),
            !(N.lxor_comm (N.lor (N.shiftr k2 32) _)), !(N.lxor_comm (N.lor (N.shiftr k3 32) _)).
    reflexivity.
Qed.

Lemma a_to_portable_abs s : AInv s -> Inv (a_to_portable s) /\ abs (a_to_portable s) = aabs s.
Proof.
  intros [Hc HB]. split; [exact (proj1 HB)|].
  unfold abs, aabs, aabs_core, a_to_portable, ac_port, to_h, V4_as_arr. cbn [core buffer fst snd v0 v1 mul0 mul1].
  destruct (a_core s) as [[[[a0 a1] a2] a3] [[[b0 b1] b2] b3] [[[c0 c1] c2] c3] [[[d0 d1] d2] d3]].
  destruct Hc as (Ha & Hb & Hcc & Hd). unfold V4wf in *. cbn [a_v0 a_v1 a_mul0 a_mul1] in *.
  apply wlanes_split in Ha as (? & ? & ? & ?). apply wlanes_split in Hb as (? & ? & ? & ?).
  apply wlanes_split in Hcc as (? & ? & ? & ?). apply wlanes_split in Hd as (? & ? & ? & ?).
  cbn [map4]. rewrite !w64b_t64 by assumption. reflexivity.
Qed.

Lemma a_checkpoint_ok prof s : AInv s -> a_checkpoint prof s = Ok (encode (aabs s)).
Proof.
  intros HI. destruct (a_to_portable_abs s HI) as [Hi Ha]. unfold a_checkpoint.
  rewrite p_checkpoint_ok by exact Hi. rewrite Ha. reflexivity.
Qed.

Lemma a_of_portable_ok p : Inv p -> Cwf (core p) -> wbytesb (buf (buffer p)) = true ->
  AInv (a_of_portable p) /\ aabs (a_of_portable p) = abs p.
Proof.
  intros Hi Hw Hb. destruct p as [[[[[a0 a1] a2] a3] [[[b0 b1] b2] b3] [[[c0 c1] c2] c3] [[[d0 d1] d2] d3]] bf].
  destruct Hw as (Ha & Hbb & Hc & Hd). cbn [to_h hv0 hv1 hmul0 hmul1 v0 v1 mul0 mul1 core] in *.
  apply wlanes_split in Ha as (? & ? & ? & ?). apply wlanes_split in Hbb as (? & ? & ? & ?).
  apply wlanes_split in Hc as (? & ? & ? & ?). apply wlanes_split in Hd as (? & ? & ? & ?).
  split.
  - split; [|split; [exact Hi|exact Hb]].
    unfold a_of_portable, ACwf, V4wf, V4_new, mm256_set_epi64x.
    cbn [core buffer a_core a_v0 a_v1 a_mul0 a_mul1 v0 v1 mul0 mul1 lane0 lane1 lane2 lane3].
    repeat split; apply wlanes_intro; apply t64_w64b.
  - unfold aabs, aabs_core, abs, a_of_portable, ac_port, to_h, V4_new, mm256_set_epi64x.
    cbn [core buffer a_core a_buffer a_v0 a_v1 a_mul0 a_mul1 v0 v1 mul0 mul1 lane0 lane1 lane2 lane3].
    rewrite !w64b_t64 by assumption. reflexivity.
Qed.

Lemma a_restore_ok prof c : wbytesb c = true ->
  exists s, a_force_from_checkpoint prof c = Ok s /\ AInv s /\ aabs s = decode c.
Proof.
  intros Hc. destruct (p_from_checkpoint_ok prof c) as (p & E & Hi & Ha).
  unfold a_force_from_checkpoint. rewrite E. cbn [bind]. eexists. split; [reflexivity|].
  assert (Hw : Cwf (core p)).
  { unfold Cwf. replace (to_h (core p)) with (fst (abs p)) by reflexivity. rewrite Ha. apply decode_Hwf. exact Hc. }
  destruct (a_of_portable_ok p Hi Hw (p_from_checkpoint_bytes prof c p E Hc)) as [HS HA].
  split; [exact HS|]. rewrite HA. exact Ha.
Qed.

Lemma ACwf_Hwf c : ACwf c -> Hwf (aabs_core c).
Proof. intros H. exact H. Qed.
