(* SourceTieNeonState.v — the stateful functions of src/aarch64.rs (rotate_32_by, update_remainder, finalize64/128/256, append), as
   translated from the current source (gen/SrcNeonFull.v), against Neon.v. *)
From Coq Require Import NArith ZArith List String Bool Arith Lia.
From HW Require Import Word Chunks Packet Mem Stream X86 Portable Neon.
From HW.Refine Require Import ChunksFacts StreamRefine SourceTie SourceTieAppend SourceTieCkpt PacketTie SourceTieWasmFull SourceTieWasmBytes SourceTieNeonFull SourceTieNeonBytes.
From HW.Facts Require Import RustLite.
From HWGen Require Import SrcPortable SrcPacket SrcNeonFull.
Import ListNotations.
Local Open Scope N_scope.

Section State.
Variable p : profile.
Notation call := (call_fn p (wext p) wall_fns).
(* ---- rotate_32_by(&mut self, count: i32), for the counts it is called with (0 <= count < 2^31: then `count + (!32 + 1)` cannot
        overflow as an i32, whatever the profile checks) *)
Lemma sadd_const : sadd32_chk p 4294967263 1 = Ok 4294967264.
Proof. unfold sadd32_chk. destruct (ovf p); reflexivity. Qed.

Ltac ncbv_s :=
  cbv -[vaddq_u64 vandq_u64 vorrq_u64 veorq_u64 vbicq_u64 vdupq_n_u64 vdupq_n_u32 vmovn_u64 vshrn_n_u64_32 vmull_u32 vshrq_n_u64
        vqtbl1q_u8 vrev64q_u32 vsetq_lane_u32_3 vextq_u8_8 vshlq_u32 v128_of_bytes bytes_of_v128 le_bytes t64 of_e32 unordered_load3
        sadd32_chk].

Lemma n_rotate_32_by_src fuel c e count : count < 2147483648 ->
  call (S (S (S (S fuel)))) "aarch64::NeonHash::rotate_32_by" (ngenv_of c e) [VN count]
  = Ok (ngenv_of (n_rotate_32_by c count) e, [Some (VN count)], None).
Proof.
  intros Hc. destruct c as [a0 a1 a2 a3 a4 a5 a6 a7].
  match goal with |- _ = ?R => remember R as RHS eqn:ER end.
  rewrite wcall_step.
  match goal with |- context [call_fn p (wext p) wall_fns ?f] => remember (call_fn p (wext p) wall_fns f) as CALL eqn:EC end.
  ncbv_s. rewrite sadd_const. ncbv_s. rewrite (sadd32_m32 p count Hc).
  subst RHS. unfold n_rotate_32_by, t32. rewrite (t32_small_id count) by lia.
  replace (count + 4294967296 - 32) with (count + 4294967264) by lia.
  generalize (N.land (count + 4294967264) M32). intros cr. subst CALL. ncbv_s. reflexivity.
Qed.

(* ---- single-conjunct forms of the From impls *)
Lemma n_from_s32_src fuel g a : call (S fuel) "aarch64::V2x64U::From<int32x4_t>::from" g [VX a] = Ok (g, [Some (VX a)], Some (VX a)).
Proof. nbl. reflexivity. Qed.

Ltac run_to_call :=
  match goal with |- context [call_fn p (wext p) wall_fns ?f] =>
    let C := fresh "CALL" in let E := fresh "EC" in
    remember (call_fn p (wext p) wall_fns f) as C eqn:E;
    cbv -[vaddq_u64 vandq_u64 vorrq_u64 veorq_u64 vbicq_u64 vdupq_n_u64 vdupq_n_u32 vmovn_u64 vshrn_n_u64_32 vmull_u32 vshrq_n_u64
          vqtbl1q_u8 vrev64q_u32 vsetq_lane_u32_3 vextq_u8_8 vshlq_u32 v128_of_bytes bytes_of_v128 le_bytes t64 of_e32 unordered_load3
          sadd32_chk n_remainder n_load_multiple_of_four n_update n_permute_and_update n_rotate_32_by n_modular_reduction
          n_update_remainder n_data_to_lanes as_slice set_to fill inner is_empty plen N.of_nat N.land NV2_as_arr];
    subst C
  end.
Ltac stepn L := rewrite L; run_to_call.
Ltac fin_n :=
  cbv -[vaddq_u64 vandq_u64 vorrq_u64 veorq_u64 vbicq_u64 vdupq_n_u64 vdupq_n_u32 vmovn_u64 vshrn_n_u64_32 vmull_u32 vshrq_n_u64
        vqtbl1q_u8 vrev64q_u32 vsetq_lane_u32_3 vextq_u8_8 vshlq_u32 v128_of_bytes bytes_of_v128 le_bytes t64 of_e32 unordered_load3
        sadd32_chk n_remainder n_load_multiple_of_four n_update n_permute_and_update n_rotate_32_by n_modular_reduction
        n_update_remainder n_data_to_lanes as_slice set_to fill inner is_empty plen N.of_nat N.land NV2_as_arr];
  reflexivity.
Ltac fold_nenv' X e :=
  match goal with |- context [call_fn _ _ _ _ _ ?g _] => change g with (ngenv_of X e) end.

(* ---- update_remainder(&mut self), for a packet whose index is at most 32 *)
Lemma n_update_remainder_src fuel c b : wfpb b -> (Packet.idx b <= 32)%nat ->
  call (S (S (S (S (S (S fuel)))))) "aarch64::NeonHash::update_remainder" (ngenv_of c b) []
  = lift (n_update_remainder p {| n_core := c; n_buffer := b |}) (fun c' => (ngenv_of c' b, [], None)).
Proof.
  intros [[Hlen Hidx] Hby] H32. destruct c as [a0 a1 a2 a3 a4 a5 a6 a7].
  assert (Hs : N.land (N.of_nat (plen b)) M32 = N.of_nat (plen b)) by (apply t32_small_id; unfold plen; lia).
  assert (Hs31 : N.of_nat (plen b) < 2147483648) by (unfold plen; lia).
  match goal with |- _ = ?R => remember R as RHS eqn:ER end.
  rewrite wcall_step. run_to_call.
  fold_penv b. stepn (wpkt_len_ok p).
  change 4294967295 with M32. rewrite !Hs.
  stepn n_from_s32_src. stepn (n_add_assign_src p). rewrite (n_add_assign_src p).
  run_to_call.
  set (X := Build_ncore (vaddq_u64 a0 (vdupq_n_u32 (N.of_nat (plen b)))) (vaddq_u64 a1 (vdupq_n_u32 (N.of_nat (plen b)))) a2 a3 a4 a5 a6 a7).
  fold_nenv' X b.
  rewrite (n_rotate_32_by_src _ _ b _ Hs31).
  run_to_call.
  fold_penv b. rewrite (wpkt_as_slice_ok p _ _ Hlen). unfold plift.
  subst RHS. unfold n_update_remainder, lift. cbn [n_core n_buffer n_v0L n_v0H n_v1L n_v1H n_mul0L n_mul0H n_mul1L n_mul1H bind].
  unfold t32. rewrite !Hs.
  destruct (as_slice p b) as [sl| |] eqn:Esl; cbn [bind]; [|fin_n|fin_n].
  run_to_call.
  rewrite (n_remainder_src p _ _ sl (as_slice_len p b sl Hlen Esl) (as_slice_bytes p b sl Hby Esl)). unfold lift, self_buf, N_BUF_ADDR.
  destruct (n_remainder p {| mbytes := sl; maddr := 16 |}) as [[pH pL]| |]; cbn [bind fst snd]; [|fin_n|fin_n].
  run_to_call.
  fold_nenv' (n_rotate_32_by X (N.of_nat (plen b))) b.
  rewrite (n_update_src p). subst X. fin_n.
Qed.

(* ---- finalize64 / 128 / 256 *)
Ltac pau X e := fold_nenv' X e; rewrite (n_permute_and_update_src p); run_to_call.
Ltac paus n X e := lazymatch n with O => idtac | S ?m => pau X e; paus m (n_permute_and_update X) e end.
Ltac fin_tail64 := stepn (n_add_src p); stepn (n_add_src p); stepn (n_add_src p); rewrite (n_as_arr_src p);
  cbn [bind iter]; fin_n.
Ltac fin_tail256 := stepn (n_add_src p); stepn (n_add_src p); stepn (n_add_src p); stepn (n_add_src p);
  stepn (n_modular_reduction_src p); stepn (n_as_arr_src p); stepn (n_modular_reduction_src p); rewrite (n_as_arr_src p);
  cbn [bind iter]; fin_n.

Lemma n_finalize64_src fuel c b : wfpb b -> (Packet.idx b <= 32)%nat ->
  ret_of (call (S (S (S (S (S (S (S fuel))))))) "aarch64::NeonHash::finalize64" (ngenv_of c b) [])
  = lift_ret (n_finalize64 p {| n_core := c; n_buffer := b |}) VN.
Proof.
  intros W H32. rewrite wcall_step. unfold n_finalize64, n_pre_finalize, lift_ret. cbn [n_core n_buffer].
  run_to_call. fold_penv b. stepn (wpkt_is_empty_ok p).
  destruct (is_empty b); cbn [negb].
  - paus 4%nat c b. fin_tail64.
  - fold_nenv' c b. rewrite (n_update_remainder_src _ _ _ W H32). unfold lift.
    destruct (n_update_remainder p {| n_core := c; n_buffer := b |}) as [c1| |]; cbn [bind]; [|fin_n|fin_n].
    run_to_call. paus 4%nat c1 b. fin_tail64.
Qed.

Lemma n_finalize128_src fuel c b : wfpb b -> (Packet.idx b <= 32)%nat ->
  ret_of (call (S (S (S (S (S (S (S fuel))))))) "aarch64::NeonHash::finalize128" (ngenv_of c b) [])
  = lift_ret (n_finalize128 p {| n_core := c; n_buffer := b |}) (fun lh => VA [fst lh; snd lh]).
Proof.
  intros W H32. rewrite wcall_step. unfold n_finalize128, n_pre_finalize, lift_ret. cbn [n_core n_buffer].
  run_to_call. fold_penv b. stepn (wpkt_is_empty_ok p).
  destruct (is_empty b); cbn [negb].
  - paus 6%nat c b. fin_tail64.
  - fold_nenv' c b. rewrite (n_update_remainder_src _ _ _ W H32). unfold lift.
    destruct (n_update_remainder p {| n_core := c; n_buffer := b |}) as [c1| |]; cbn [bind]; [|fin_n|fin_n].
    run_to_call. paus 6%nat c1 b. fin_tail64.
Qed.

Lemma n_finalize256_src fuel c b : wfpb b -> (Packet.idx b <= 32)%nat ->
  ret_of (call (S (S (S (S (S (S (S fuel))))))) "aarch64::NeonHash::finalize256" (ngenv_of c b) [])
  = lift_ret (n_finalize256 p {| n_core := c; n_buffer := b |}) (fun l => VA (ll l)).
Proof.
  intros W H32. rewrite wcall_step. unfold n_finalize256, n_pre_finalize, lift_ret. cbn [n_core n_buffer].
  run_to_call. fold_penv b. stepn (wpkt_is_empty_ok p).
  destruct (is_empty b); cbn [negb].
  - paus 10%nat c b. fin_tail256.
  - fold_nenv' c b. rewrite (n_update_remainder_src _ _ _ W H32). unfold lift.
    destruct (n_update_remainder p {| n_core := c; n_buffer := b |}) as [c1| |]; cbn [bind]; [|fin_n|fin_n].
    run_to_call. paus 10%nat c1 b. fin_tail256.
Qed.

End State.
