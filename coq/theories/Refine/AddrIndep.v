(* AddrIndep.v — the result of every operation is independent of the address of the caller's data:
   every load the models perform on caller data has no alignment requirement, so the address never
   reaches a result.  (That the loads stay inside the slices is the absence of Fault: Generic.run_safe.) *)
From Coq Require Import NArith List Lia Bool Arith.
From HW Require Import Word Chunks Packet Mem Stream X86 Portable Spec Sse Avx Neon Wasm Dispatch History.
Import ListNotations.
Local Open Scope N_scope.

Lemma load1_addr bytes a a' off n :
  load {| mbytes := bytes; maddr := a |} off n 1 = load {| mbytes := bytes; maddr := a' |} off n 1.
Proof. unfold load. cbn [mbytes maddr]. rewrite !N.mod_1_r. reflexivity. Qed.

Lemma s_step_addr c bytes a a' : s_step c {| mbytes := bytes; maddr := a |} = s_step c {| mbytes := bytes; maddr := a' |}.
Proof. unfold s_step, s_data_to_lanes, mm_loadu_si128. rewrite !(load1_addr bytes a a'). reflexivity. Qed.
Lemma a_step_addr c bytes a a' : a_step c {| mbytes := bytes; maddr := a |} = a_step c {| mbytes := bytes; maddr := a' |}.
Proof. unfold a_step, a_data_to_lanes, mm256_loadu_si256. rewrite !(load1_addr bytes a a'). reflexivity. Qed.
Lemma n_step_addr c bytes a a' : n_step c {| mbytes := bytes; maddr := a |} = n_step c {| mbytes := bytes; maddr := a' |}.
Proof. unfold n_step, n_data_to_lanes, vld1q_u8. rewrite !(load1_addr bytes a a'). reflexivity. Qed.

Section G.
Context {C : Type} (step : C -> mem -> res C) (buf_addr : N).
Hypothesis step_addr : forall c bytes a a', step c {| mbytes := bytes; maddr := a |} = step c {| mbytes := bytes; maddr := a' |}.

Lemma g_absorb_chunks_addr ps : forall c a a', g_absorb_chunks step c a ps = g_absorb_chunks step c a' ps.
Proof.
  induction ps as [|p ps IH]; intros c a a'; cbn [g_absorb_chunks]; [reflexivity|].
  rewrite (step_addr c p a a'). destruct (step c {| mbytes := p; maddr := a' |}); cbn [bind]; auto.
Qed.

Lemma g_append_addr prof a a' c b d : g_append step buf_addr prof a c b d = g_append step buf_addr prof a' c b d.
Proof.
  unfold g_append. destruct (is_empty b).
  - destruct (chunks32 d) as [ps r]. rewrite (g_absorb_chunks_addr ps c a a'). reflexivity.
  - destruct (fill b d) as [b' [tail|]]; [|reflexivity].
    destruct (step c (self_buf buf_addr (inner b'))); cbn [bind]; try reflexivity.
    destruct (chunks32 tail) as [ps r].
    rewrite (g_absorb_chunks_addr ps _ (a + N.of_nat (length d - length tail)) (a' + N.of_nat (length d - length tail))).
    reflexivity.
Qed.
End G.

Lemma c_append_addr prof a a' h d : c_append prof a h d = c_append prof a' h d.
Proof.
  destruct h as [s|s|s|s|s]; cbn [c_append]; try reflexivity.
  - unfold s_append. rewrite (g_append_addr s_step S_BUF_ADDR s_step_addr prof a a'). reflexivity.
  - unfold a_append. rewrite (g_append_addr a_step A_BUF_ADDR a_step_addr prof a a'). reflexivity.
  - unfold n_append. rewrite (g_append_addr n_step N_BUF_ADDR n_step_addr prof a a'). reflexivity.
Qed.

Definition with_addr (e : env) (a : N) : env := {| e_prof := e_prof e; e_cfg := e_cfg e; e_addr := a |}.

Lemma h_append_addr e a h d : h_append (with_addr e a) h d = h_append e h d.
Proof.
  destruct h as [c|ds]; cbn [h_append with_addr e_prof e_cfg e_addr].
  - rewrite (c_append_addr (e_prof e) a (e_addr e)). reflexivity.
  - unfold d_append, d_dispatch. destruct (arm (e_cfg e) (d_tag ds)); [|reflexivity].
    destruct (field_ok c (d_inner ds)); [|reflexivity].
    rewrite (c_append_addr (e_prof e) a (e_addr e)). reflexivity.
Qed.

Lemma step_addr e a rs o : step (with_addr e a) rs o = step e rs o.
Proof.
  unfold step. destruct o; try reflexivity;
    repeat match goal with |- context [lookup rs ?r] => destruct (lookup rs r); try reflexivity end;
    try (rewrite h_append_addr; reflexivity).
Qed.

Theorem run_addr_independent e a h : run (with_addr e a) h = run e h.
Proof.
  unfold run. generalize (@nil (nat * hasher)) as rs. induction h as [|o h IH]; intros rs; cbn [run_from]; [reflexivity|].
  rewrite step_addr. destruct (step e rs o) as [[rs' outs] cont]. destruct cont; [rewrite IH|]; reflexivity.
Qed.
