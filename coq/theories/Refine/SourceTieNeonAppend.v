(* SourceTieNeonAppend.v — the streaming append of src/aarch64.rs, as translated from the current source, against Neon.n_append. *)
From Coq Require Import NArith ZArith List String Bool Arith Lia.
From HW Require Import Word Chunks Packet Mem Stream X86 Portable Neon.
From HW.Refine Require Import ChunksFacts StreamRefine SourceTie SourceTieAppend SourceTieCkpt PacketTie SourceTieWasmFull SourceTieWasmBytes SourceTieNeonFull SourceTieNeonBytes.
From HW.Facts Require Import RustLite.
From HWGen Require Import SrcPortable SrcPacket SrcWasmFull SrcNeonFull.
Import ListNotations.
Local Open Scope N_scope.

Ltac fold_nenv' X e :=
  match goal with |- context [call_fn _ _ _ _ _ ?g _] => change g with (ngenv_of X e) end.

Section State.
Variable p : profile.
Notation call := (call_fn p (wext p) wall_fns).
(* ---- append(&mut self, data): chunks_exact loops, HashPacket::fill / set_to / inner; every packet is read by two 16-byte loads *)
Definition NH (x : list N) : V128 := v128_of_bytes (sub x 16 16).
Definition NL (x : list N) : V128 := v128_of_bytes (sub x 0 16).
Definition NF (c : ncore) (x : list N) : ncore := n_update c (NH x) (NL x).
Definition NG (x : list N) : list V128 := [NH x; NL x].

Lemma ndl_ok x a : List.length x = 32%nat -> n_data_to_lanes {| mbytes := x; maddr := a |} = Ok (NH x, NL x).
Proof. intros H. unfold n_data_to_lanes, vld1q_u8. rewrite !load_align1. cbn [mbytes]. rewrite H. reflexivity. Qed.
Lemma n_step_ok32 c x a : List.length x = 32%nat -> n_step c {| mbytes := x; maddr := a |} = Ok (NF c x).
Proof. intros H. unfold n_step. rewrite (ndl_ok x a H). reflexivity. Qed.

Lemma chunks_fuel_len : forall k (l : list N), Forall (fun x => List.length x = 32%nat) (fst (chunks_fuel k l)).
Proof.
  induction k as [|k IH]; intros l; cbn [chunks_fuel fst]; [constructor|].
  destruct (at_least_32 l) eqn:E; [|constructor].
  specialize (IH (skipn 32 l)). destruct (chunks_fuel k (skipn 32 l)) as [ps r]. cbn [fst] in *.
  constructor; [|exact IH]. rewrite at_least_32_spec in E. apply Nat.leb_le in E. apply firstn_length_le. exact E.
Qed.
Lemma g_absorb_n c addr ps : Forall (fun x => List.length x = 32%nat) ps -> g_absorb_chunks n_step c addr ps = Ok (fold_left NF ps c).
Proof.
  intros H. revert c addr. induction H as [|x ps Hx Hps IH]; intros c addr; cbn [g_absorb_chunks fold_left]; [reflexivity|].
  rewrite (n_step_ok32 c x addr Hx). cbn [bind]. apply IH.
Qed.

Lemma nchunk_loop_T {St : Type} (T : ncore -> list N -> list V128 -> St) (step : list N -> St -> res St) :
  (forall c ch ln x, List.length x = 32%nat -> step x (T c ch ln) = Ok (T (NF c x) x (NG x))) ->
  forall k l c ch ln, exists ch' ln',
    chunk_loop 32 step k l (T c ch ln) = Ok (T (fold_left NF (fst (chunks_fuel k l)) c) ch' ln').
Proof.
  intros HT. induction k as [|k IH]; intros l c ch ln; cbn [chunk_loop chunks_fuel fst fold_left].
  - exists ch, ln. reflexivity.
  - rewrite chunk_cond. destruct (at_least_32 l) eqn:E.
    + assert (H32 : List.length (firstn 32 l) = 32%nat).
      { rewrite at_least_32_spec in E. apply Nat.leb_le in E. apply firstn_length_le. exact E. }
      rewrite (HT _ _ _ _ H32). cbn [bind]. destruct (IH (skipn 32 l) (NF c (firstn 32 l)) (firstn 32 l) (NG (firstn 32 l))) as [ch' [ln' E']].
      exists ch', ln'. rewrite E'. destruct (chunks_fuel k (skipn 32 l)) as [ps r]. reflexivity.
    + exists ch, ln. reflexivity.
Qed.
Lemma nchunk_loop_S0 {St : Type} (S0 : ncore -> St) (T : ncore -> list N -> list V128 -> St) (step : list N -> St -> res St) :
  (forall c x, List.length x = 32%nat -> step x (S0 c) = Ok (T (NF c x) x (NG x))) ->
  (forall c ch ln x, List.length x = 32%nat -> step x (T c ch ln) = Ok (T (NF c x) x (NG x))) ->
  forall k l c,
    (fst (chunks_fuel k l) = [] /\ chunk_loop 32 step k l (S0 c) = Ok (S0 c)) \/
    (exists ch' ln', chunk_loop 32 step k l (S0 c) = Ok (T (fold_left NF (fst (chunks_fuel k l)) c) ch' ln')).
Proof.
  intros H0 HT k l c. destruct k as [|k]; cbn [chunk_loop chunks_fuel fst].
  - left. split; reflexivity.
  - rewrite chunk_cond. destruct (at_least_32 l) eqn:E.
    + right. assert (H32 : List.length (firstn 32 l) = 32%nat).
      { rewrite at_least_32_spec in E. apply Nat.leb_le in E. apply firstn_length_le. exact E. }
      rewrite (H0 _ _ H32). cbn [bind].
      destruct (nchunk_loop_T T step HT k (skipn 32 l) (NF c (firstn 32 l)) (firstn 32 l) (NG (firstn 32 l))) as [ch' [ln' E']].
      exists ch', ln'. rewrite E'. destruct (chunks_fuel k (skipn 32 l)) as [ps r]. reflexivity.
    + left. split; reflexivity.
Qed.

Ltac nn1 :=
  cbv beta iota zeta delta
    [run_fn find_fn wall_fns all_fns src_fns wsrc_fns nsrc_fns pkt_fns map app String.append
     sub_env merge_back penv nsrc_NeonHash_append
     exec exec_block eval eval_list eval_idx eval_arg eval_args assign bind_params param_values copy_out eval_ret
     evalv evalv_list eval_sarg eval_sargs get_vecs
     get put lookup upd is_self String.eqb Ascii.eqb Bool.eqb substring set_nth nth_opt bind genv lenv f_params f_body f_ret
     seq Nat.sub Nat.ltb Nat.leb List.length mask bits ngenv_of].
Ltac conds := cbv beta iota zeta delta [eval_cond eval get lookup is_self substring String.eqb Ascii.eqb Bool.eqb genv lenv bind N.eqb Pos.eqb negb wext noext].
Ltac next_call := set (CALL := call_fn p (wext p) wall_fns); repeat (progress (nn1; conds)); subst CALL.
Ltac step L := rewrite L; next_call.
Ltac fixlen l :=
  repeat match goal with
         | |- context [chunks_fuel ?k l] => progress change k with (List.length l)
         | |- context [chunk_rem 32 ?k l] => progress change k with (List.length l)
         end.
(* the loop body: update(data_to_lanes(chunk)) on a 32-byte chunk *)
Ltac body c1 bb x Hx :=
  next_call; rewrite (n_data_to_lanes_src p _ _ x 0), (ndl_ok x 0 Hx); unfold lift; next_call;
  fold_nenv' c1 bb; step (n_update_src p); reflexivity.

Lemma n_append_src fuel c b data addr : wfp b ->
  call (S (S (S (S (S fuel))))) "aarch64::NeonHash::append" (ngenv_of c b) [VA data]
  = lift (n_append p addr {| n_core := c; n_buffer := b |} data)
         (fun s' => (ngenv_of (n_core s') (n_buffer s'), [Some (VA data)], None)).
Proof.
  intros W. rewrite wcall_step. unfold n_append, g_append, lift. cbn [n_core n_buffer].
  next_call. fold_penv b. step (wpkt_is_empty_ok p).
  destruct (is_empty b) eqn:Eb; next_call.
  -     match goal with |- context [chunk_loop 32 ?f _ _ _] => set (STEP := f) end.
    set (S0 := fun c1 : ncore => {| genv := ngenv_of c1 b; lenv := [("data"%string, VA data); ("%b1"%string, VN 1)] |}).
    set (T := fun (c1 : ncore) (ch : list N) (tv : list V128) =>
                {| genv := ngenv_of c1 b;
                   lenv := [("data"%string, VA data); ("%b1"%string, VN 1); ("chunk"%string, VA ch); ("%t2"%string, VTV tv)] |}).
    assert (H0 : forall c1 x, List.length x = 32%nat -> STEP x (S0 c1) = Ok (T (NF c1 x) x (NG x))).
    { intros c1 x Hx. subst STEP S0 T. cbv beta. body c1 b x Hx. }
    assert (HT : forall c1 ch ln x, List.length x = 32%nat -> STEP x (T c1 ch ln) = Ok (T (NF c1 x) x (NG x))).
    { intros c1 ch ln x Hx. subst STEP S0 T. cbv beta. body c1 b x Hx. }
    match goal with |- context [chunk_loop 32 STEP ?k _ ?st] => change st with (S0 c); change k with (List.length data) end.
    unfold chunks32.
    destruct (nchunk_loop_S0 S0 T STEP H0 HT (List.length data) data c) as [[Eps EL]|[ch' [ln' EL]]]; rewrite EL; clear EL; subst S0 T; cbv beta.
    + next_call. fixlen data. rewrite chunk_rem_spec.
      destruct (chunks_fuel (List.length data) data) as [ps r] eqn:Ech. cbn [fst snd] in *. subst ps. cbn [g_absorb_chunks bind].
      fold_penv b. rewrite (wpkt_set_to_ok p _ _ _ (proj1 W)). unfold plift.
      destruct (set_to p b r) as [b'| |]; (next_call; cbn [bind fst snd n_core n_buffer]; reflexivity).
    + next_call. fixlen data. rewrite chunk_rem_spec.
      pose proof (chunks_fuel_len (List.length data) data) as HF.
      destruct (chunks_fuel (List.length data) data) as [ps r] eqn:Ech. cbn [fst snd] in *. rewrite (g_absorb_n _ _ _ HF). cbn [bind].
      fold_penv b. rewrite (wpkt_set_to_ok p _ _ _ (proj1 W)). unfold plift.
      destruct (set_to p b r) as [b'| |]; (next_call; cbn [bind fst snd n_core n_buffer]; reflexivity).
  - fold_penv b. rewrite (wpkt_fill_ok p _ _ _ (proj1 W)). next_call.
    pose proof (fill_buf_length b data (proj1 W)) as Hl'.
    destruct (fill b data) as [b' [tail|]] eqn:Ef; cbn [fst snd] in *; [|reflexivity].
    next_call. fold_penv b'. rewrite (wpkt_inner_ok p). next_call.
    assert (Hin : List.length (inner b') = 32%nat) by exact Hl'.
    rewrite (n_data_to_lanes_src p _ _ (inner b') 0), (ndl_ok (inner b') 0 Hin). unfold lift. next_call.
    fold_nenv' c b'. rewrite (n_update_src p). next_call.
    unfold self_buf. rewrite (n_step_ok32 c (inner b') _ Hin). cbn [bind].
    set (c1 := NF c (inner b')).
    match goal with |- context [chunk_loop 32 ?f _ _ _] => set (STEP := f) end.
    set (L0 := [("data"%string, VA data); ("%b1"%string, VN 0); ("%o4"%string, VO (Some tail)); ("tail"%string, VA tail);
                ("%a5"%string, VA (inner b')); ("%t6"%string, VTV (NG (inner b')))]).
    set (S0 := fun c2 : ncore => {| genv := ngenv_of c2 b'; lenv := L0 |}).
    set (T := fun (c2 : ncore) (ch : list N) (tv : list V128) =>
                {| genv := ngenv_of c2 b'; lenv := L0 ++ [("chunk"%string, VA ch); ("%t7"%string, VTV tv)] |}).
    assert (H0 : forall c2 x, List.length x = 32%nat -> STEP x (S0 c2) = Ok (T (NF c2 x) x (NG x))).
    { intros c2 x Hx. subst STEP S0 T L0. cbv beta. body c2 b' x Hx. }
    assert (HT : forall c2 ch ln x, List.length x = 32%nat -> STEP x (T c2 ch ln) = Ok (T (NF c2 x) x (NG x))).
    { intros c2 ch ln x Hx. subst STEP S0 T L0. cbv beta. body c2 b' x Hx. }
    match goal with |- context [chunk_loop 32 STEP ?k _ ?st] => change st with (S0 c1); change k with (List.length tail) end.
    unfold chunks32. fixlen tail.
    destruct (nchunk_loop_S0 S0 T STEP H0 HT (List.length tail) tail c1) as [[Eps EL]|[ch' [ln' EL]]]; rewrite EL; clear EL; subst S0 T L0; cbv beta.
    + next_call. fixlen tail. rewrite chunk_rem_spec.
      destruct (chunks_fuel (List.length tail) tail) as [ps r] eqn:Ech. cbn [fst snd] in *. subst ps. cbn [g_absorb_chunks bind].
      fold_penv b'. rewrite (wpkt_set_to_ok p _ _ _ Hl'). unfold plift.
      destruct (set_to p b' r) as [b''| |]; (next_call; cbn [bind fst snd n_core n_buffer]; reflexivity).
    + next_call. fixlen tail. rewrite chunk_rem_spec.
      pose proof (chunks_fuel_len (List.length tail) tail) as HF.
      destruct (chunks_fuel (List.length tail) tail) as [ps r] eqn:Ech. cbn [fst snd] in *. rewrite (g_absorb_n _ _ _ HF). cbn [bind].
      fold_penv b'. rewrite (wpkt_set_to_ok p _ _ _ Hl'). unfold plift.
      destruct (set_to p b' r) as [b''| |]; (next_call; cbn [bind fst snd n_core n_buffer]; reflexivity).
Qed.
End State.
