(* SourceTieNeonBytes.v — the byte-level and stateful functions of src/aarch64.rs (data_to_lanes, load_multiple_of_four, remainder,
   rotate_32_by, update_remainder, finalize64/128/256, append), as translated from the current source (gen/SrcNeonFull.v), against
   Neon.v: the raw-pointer loads (vld1q_u8 through as_ptr / offset, take::<N>) included — outside the slice they are a Fault on
   both sides. *)
From Coq Require Import NArith ZArith List String Bool Arith Lia.
From HW Require Import Word Chunks Packet Mem Stream X86 Portable Neon.
From HW.Refine Require Import ChunksFacts StreamRefine SourceTie SourceTieAppend PacketTie SourceTieWasmFull SourceTieWasmBytes SourceTieNeonFull.
From HW.Facts Require Import RustLite.
From HWGen Require Import SrcPortable SrcPacket SrcNeonFull.
Import ListNotations.
Local Open Scope N_scope.

Ltac fold_nenv X e :=
  match goal with |- context [call_fn _ _ _ _ _ ?g _] => change g with (ngenv_of X e) end.
Ltac fold_penv e :=
  match goal with |- context [call_fn _ _ _ _ _ ?g _] => change g with (penv e) end.

(* NEON loads have no alignment requirement: the address of a slice is irrelevant *)
Lemma load_align1 m off n : load m off n 1 = if (off + n <=? List.length (mbytes m))%nat then Ok (sub (mbytes m) off n) else Fault.
Proof. unfold load. rewrite N.mod_1_r. cbn [N.eqb]. rewrite andb_true_r. reflexivity. Qed.

Lemma t32_small_id x : x < 4294967296 -> N.land x M32 = x.
Proof. intros H. change M32 with (N.ones 32). rewrite N.land_ones. apply N.mod_small. exact H. Qed.

Lemma sadd32_m32 p count : count < 2147483648 ->
  sadd32_chk p count 4294967264 = Ok (N.land (count + 4294967264) M32).
Proof.
  intros H. unfold sadd32_chk. rewrite (t32_small_id count) by lia. change (N.land 4294967264 M32) with 4294967264.
  replace (2147483648 <=? count) with false by (symmetry; apply N.leb_gt; exact H).
  cbn [negb andb orb]. rewrite andb_false_r. reflexivity.
Qed.

Section Bytes.
Variable p : profile.
Notation call := (call_fn p (wext p) wall_fns).

Ltac run_to_call :=
  match goal with |- context [call_fn p (wext p) wall_fns ?f] =>
    let C := fresh "CALL" in let E := fresh "EC" in
    remember (call_fn p (wext p) wall_fns f) as C eqn:E;
    cbv -[vaddq_u64 vandq_u64 vorrq_u64 veorq_u64 vbicq_u64 vdupq_n_u64 vdupq_n_u32 vmovn_u64 vshrn_n_u64_32 vmull_u32 vshrq_n_u64
          vqtbl1q_u8 vrev64q_u32 vsetq_lane_u32_3 vextq_u8_8 vshlq_u32 v128_of_bytes bytes_of_v128 le_bytes t64 of_e32 unordered_load3
          sadd32_chk n_remainder n_load_multiple_of_four n_update n_permute_and_update n_rotate_32_by n_modular_reduction
          n_update_remainder p_checkpoint p_from_checkpoint as_slice set_to fill N.of_nat];
    subst C
  end.
Ltac stepn L := rewrite L; run_to_call.
Ltac fin_nbl := nbl; reflexivity.

(* ---- data_to_lanes(packet): two 16-byte loads through packet.as_ptr(); a slice shorter than 32 bytes: Fault *)
Lemma n_data_to_lanes_src fuel g d a :
  call (S (S fuel)) "aarch64::NeonHash::data_to_lanes" g [VA d]
  = lift (n_data_to_lanes {| mbytes := d; maddr := a |}) (fun r => (g, [Some (VA d)], Some (VTV [fst r; snd r]))).
Proof.
  unfold n_data_to_lanes, vld1q_u8. rewrite !load_align1. cbn [mbytes].
  enum_list d 32%nat; nbl; reflexivity.
Qed.

(* ---- load_multiple_of_four(bytes, bytes.len()) for the slices the non-16 branch of remainder passes it (0..15 bytes, and 32) *)
Lemma n_load4_src fuel g bytes : ((List.length bytes <= 15)%nat \/ List.length bytes = 32%nat) ->
  call (S (S (S (S fuel)))) "aarch64::NeonHash::load_multiple_of_four" g [VA bytes; VN (N.of_nat (List.length bytes))]
  = lift (n_load_multiple_of_four p {| mbytes := bytes; maddr := N_BUF_ADDR |} (List.length bytes))
         (fun r => (g, [Some (VA bytes); Some (VN (N.of_nat (List.length bytes)))], Some (VX r))).
Proof.
  intros HL. destruct HL as [HL|HL].
  - enum_list bytes 16%nat; [| | | | | | | | | | | | | | | | exfalso; cbn [List.length] in HL; lia];
      destruct p as [o [|]]; nbl; reflexivity.
  - enum_list bytes 33%nat; try (exfalso; cbn [List.length] in HL; lia).
    destruct p as [o [|]]; nbl; reflexivity.
Qed.

(* ---- remainder(bytes), for every slice of at most 32 bytes (what HashPacket::as_slice returns), each below 256: without the 16-bit
        of the length the path through load_multiple_of_four, unordered_load3 and V2x64U::new is stepped call by call; with it
        (16..31 bytes: vld1q_u8 on the slice, load_multiple_of_four on the rest) it is run as a whole *)
Ltac bytes_hyps HB :=
  cbn [wbytesb forallb] in HB; rewrite ?andb_true_iff in HB;
  repeat match type of HB with _ /\ _ => let H := fresh "Hb" in destruct HB as [H HB] end.
Ltac use_bytes := cbn [wbytesb forallb]; repeat match goal with H : w8b _ = true |- _ => rewrite H; clear H end; reflexivity.
Ltac run_to_call_c :=
  match goal with |- context [call_fn p (wext p) wall_fns ?f] =>
    let C := fresh "CALL" in let E := fresh "EC" in
    remember (call_fn p (wext p) wall_fns f) as C eqn:E;
    cbv -[vaddq_u64 vandq_u64 vorrq_u64 veorq_u64 vbicq_u64 vdupq_n_u64 vdupq_n_u32 vmovn_u64 vshrn_n_u64_32 vmull_u32 vshrq_n_u64
          vqtbl1q_u8 vrev64q_u32 vsetq_lane_u32_3 vextq_u8_8 vshlq_u32 v128_of_bytes bytes_of_v128 le_bytes t64 of_e32 unordered_load3 dbg];
    subst C
  end.
Ltac fin_c :=
  cbv -[vaddq_u64 vandq_u64 vorrq_u64 veorq_u64 vbicq_u64 vdupq_n_u64 vdupq_n_u32 vmovn_u64 vshrn_n_u64_32 vmull_u32 vshrq_n_u64
        vqtbl1q_u8 vrev64q_u32 vsetq_lane_u32_3 vextq_u8_8 vshlq_u32 v128_of_bytes bytes_of_v128 le_bytes t64 of_e32 unordered_load3 dbg];
  reflexivity.
Ltac nrem_small HB :=
  bytes_hyps HB; rewrite wcall_step; run_to_call_c;
  match goal with |- context [call_fn _ _ _ _ "aarch64::NeonHash::load_multiple_of_four"%string _ [VA ?l; VN ?k]] =>
    change (VN k) with (VN (N.of_nat (List.length l))) end;
  rewrite n_load4_src by (cbn [List.length]; lia);
  run_to_call_c;
  destruct (dbg p) eqn:Ed;
  (run_to_call_c;
   rewrite (w_ul3_src p) by (first [cbn [List.length]; lia | use_bytes]);
   match goal with |- context [unordered_load3 p ?r] => destruct (unordered_load3 p r) as [x| |] end;
   [run_to_call_c; rewrite n_new2_src; fin_c | fin_c | fin_c]).

Lemma n_remainder_src fuel g bytes : (List.length bytes <= 32)%nat -> wbytesb bytes = true ->
  call (S (S (S (S (S fuel))))) "aarch64::NeonHash::remainder" g [VA bytes]
  = lift (n_remainder p {| mbytes := bytes; maddr := N_BUF_ADDR |}) (fun r => (g, [Some (VA bytes)], Some (VTV [fst r; snd r]))).
Proof.
  intros HL HB. enum_list bytes 16%nat.
  1-16: nrem_small HB.
  enum_list bytes 16%nat.
  1-16: clear HB HL; destruct p as [[|] [|]]; nbl; reflexivity.
  destruct bytes as [|x bytes]; [|exfalso; cbn [List.length] in HL; lia].
  nrem_small HB.
Qed.

End Bytes.
