(* SourceTieWasmBytes.v — the byte-level and stateful functions of src/wasm.rs (le_u64, data_to_lanes, load_multiple_of_four,
   remainder, rotate_32_by, update_remainder, finalize64/128/256, append), as translated from the current source
   (gen/SrcWasmFull.v), against Wasm.v: for slices of every length, every state and every build profile. *)
From Coq Require Import NArith List String Bool Arith Lia.
From HW Require Import Word Chunks Packet Mem Stream X86 Portable Wasm.
From HW.Refine Require Import ChunksFacts StreamRefine SourceTie SourceTieAppend PacketTie SourceTieWasmFull.
From HW.Facts Require Import RustLite.
From HWGen Require Import SrcPortable SrcPacket SrcWasmFull.
Import ListNotations.
Local Open Scope N_scope.

Ltac enum_list d k :=
  lazymatch k with
  | O => idtac
  | S ?k' => let b := fresh "b" in destruct d as [|b d]; [ | enum_list d k']
  end.
(* run everything, except the SIMD instructions and the byte-assembly functions, which stay as they are *)
Ltac wbl := cbv -[le_bytes w_u64x2 w_u32x4 v128_or v128_and u64x2_shuffle i32x4_replace_lane_1 unordered_load3].
(* the same for a slice with an unknown tail: comparisons of its length with itself are settled by Nat.leb_refl *)
Ltac wbt :=
  repeat (progress (cbv -[le_bytes w_u64x2 w_u32x4 v128_or v128_and u64x2_shuffle i32x4_replace_lane_1 unordered_load3 Nat.leb];
                    cbn [Nat.leb]; rewrite ?Nat.leb_refl)).

(* stop at calls; the projections of an opaque state stay folded *)
Ltac wn1 :=
  cbv beta iota zeta delta
    [run_fn find_fn wall_fns all_fns src_fns wsrc_fns pkt_fns map app String.append
     sub_env merge_back penv
     wsrc_WasmHash_new wsrc_WasmHash_zipper_merge wsrc_WasmHash_update wsrc_WasmHash_permute_and_update
     wsrc_WasmHash_finalize64 wsrc_WasmHash_finalize128 wsrc_WasmHash_finalize256 wsrc_WasmHash_modular_reduction
     wsrc_WasmHash_load_multiple_of_four wsrc_WasmHash_remainder wsrc_WasmHash_update_remainder wsrc_WasmHash_rotate_32_by
     wsrc_WasmHash_data_to_lanes wsrc_WasmHash_append
     exec exec_block eval eval_list eval_idx eval_arg eval_args assign bind_params param_values copy_out eval_ret
     evalv evalv_list eval_sarg eval_sargs get_vecs vprim sprim
     get put lookup upd is_self String.eqb Ascii.eqb Bool.eqb substring set_nth nth_opt bind genv lenv f_params f_body f_ret
     seq Nat.sub Nat.ltb Nat.leb List.length mask bits wgenv_of].

Ltac fold_wenv X e :=
  match goal with |- context [call_fn _ _ _ _ _ ?g _] => change g with (wgenv_of X e) end.
Ltac fold_penv e :=
  match goal with |- context [call_fn _ _ _ _ _ ?g _] => change g with (penv e) end.

Definition ret_of (r : callres) : res (option val) :=
  match r with Ok (_, _, rv) => Ok rv | Panic => Panic | Fault => Fault end.
Definition lift_ret {A} (r : res A) (k : A -> val) : res (option val) :=
  match r with Ok a => Ok (Some (k a)) | Panic => Panic | Fault => Fault end.

(* what the tie needs of the pending buffer: 32 bytes, each below 256, and a usize index *)
Definition wfpb (b : packet) : Prop := wfp b /\ wbytesb (buf b) = true.
Lemma as_slice_bytes p b sl : wbytesb (buf b) = true -> as_slice p b = Ok sl -> wbytesb sl = true.
Proof.
  intros H. unfold as_slice. destruct (dbg p && (32 <? Packet.idx b)%nat); [discriminate|].
  intros E. injection E as <-. destruct (Packet.idx b <=? 32)%nat; [apply wbytesb_firstn; exact H|exact H].
Qed.

Lemma t32_idem x : N.land (N.land x M32) M32 = N.land x M32.
Proof. rewrite <- N.land_assoc. reflexivity. Qed.

Section Bytes.
Variable p : profile.
Notation call := (call_fn p (wext p) wall_fns).
Ltac conds := cbv beta iota zeta delta [eval_cond eval get lookup is_self substring String.eqb Ascii.eqb Bool.eqb genv lenv bind N.eqb Pos.eqb negb wext noext].
Ltac next_call := set (CALL := call_fn p (wext p) wall_fns); repeat (progress (wn1; conds)); subst CALL.

(* ---- HashPacket's methods under this table: from PacketTie *)
Ltac pkt_via L :=
  rewrite wcall_step;
  match goal with |- context [wext p ?f ?g ?vs] => change (wext p f g vs) with (@None callres) end;
  match goal with |- context [find_fn wall_fns ?f] => let d := eval cbv in (find_fn wall_fns f) in change (find_fn wall_fns f) with d end;
  cbv beta iota; apply L.
Lemma wpkt_len_ok fuel pkv : call (S fuel) "buffer.len" (penv pkv) [] = Ok (penv pkv, [], Some (VN (N.of_nat (plen pkv)))).
Proof. pkt_via run_len. Qed.
Lemma wpkt_inner_ok fuel pkv : call (S fuel) "buffer.inner" (penv pkv) [] = Ok (penv pkv, [], Some (VA (inner pkv))).
Proof. pkt_via run_inner. Qed.
Lemma wpkt_is_empty_ok fuel pkv :
  call (S fuel) "buffer.is_empty" (penv pkv) [] = Ok (penv pkv, [], Some (VN (if is_empty pkv then 1 else 0))).
Proof. pkt_via run_is_empty. Qed.
Lemma wpkt_as_slice_ok fuel pkv : List.length (buf pkv) = 32%nat ->
  call (S fuel) "buffer.as_slice" (penv pkv) [] = plift (as_slice p pkv) (fun sl => (penv pkv, [], Some (VA sl))).
Proof. intros H. pkt_via run_as_slice. exact H. Qed.
Lemma wpkt_set_to_ok fuel pkv data : List.length (buf pkv) = 32%nat ->
  call (S fuel) "buffer.set_to" (penv pkv) [VA data] = plift (set_to p pkv data) (fun pk' => (penv pk', [Some (VA data)], None)).
Proof. intros H. pkt_via run_set_to. exact H. Qed.
Lemma wpkt_fill_ok fuel pkv data : List.length (buf pkv) = 32%nat ->
  call (S fuel) "buffer.fill" (penv pkv) [VA data]
  = Ok (penv (fst (fill pkv data)), [Some (VA data)], Some (VO (snd (fill pkv data)))).
Proof. intros H. pkt_via run_fill. exact H. Qed.

(* ---- le_u64(x) *)
Lemma w_le_u64_src fuel g x :
  call (S fuel) "le_u64" g [VA x] = lift (w_le_u64 x) (fun r => (g, [Some (VA x)], Some (VN r))).
Proof. enum_list x 8%nat; wbl; reflexivity. Qed.

(* ---- data_to_lanes(packet) -> (hi, lo) *)
Lemma w_data_to_lanes_src fuel g d :
  call (S (S fuel)) "WasmHash::data_to_lanes" g [VA d]
  = Ok (g, [Some (VA d)], Some (VTV [fst (w_data_to_lanes d); snd (w_data_to_lanes d)])).
Proof. enum_list d 32%nat; wbl; reflexivity. Qed.

(* ---- load_multiple_of_four(bytes), for the slices it is called with (remainder passes at most 16 bytes) *)
Lemma w_load_multiple_of_four_src fuel g bytes : (List.length bytes <= 16)%nat ->
  call (S (S (S (S fuel)))) "WasmHash::load_multiple_of_four" g [VA bytes]
  = lift (w_load_multiple_of_four bytes) (fun r => (g, [Some (VA bytes)], Some (VX r))).
Proof. intros H. enum_list bytes 17%nat; [wbl; reflexivity ..|]. cbn [List.length] in H. lia. Qed.

(* ---- internal::unordered_load3 and V2x64U::new under this table *)
Lemma w_ul3_src fuel g from : (List.length from <= 3)%nat -> wbytesb from = true ->
  call (S fuel) "unordered_load3" g [VA from] = lift (unordered_load3 p from) (fun r => (g, [Some (VA from)], Some (VN r))).
Proof. intros H1 H2. pkt_via run_unordered_load3; assumption. Qed.
Lemma w_new2_src fuel g a b :
  call (S fuel) "V2x64U::new" g [VN a; VN b] = Ok (g, [Some (VN a); Some (VN b)], Some (VX (w_u64x2 a b))).
Proof. wl. reflexivity. Qed.

Ltac bytes_hyps HB :=
  cbn [wbytesb forallb] in HB; rewrite ?andb_true_iff in HB;
  repeat match type of HB with _ /\ _ => let H := fresh "Hb" in destruct HB as [H HB] end.
Ltac use_bytes := cbn [wbytesb forallb]; repeat match goal with H : w8b _ = true |- _ => rewrite H; clear H end; reflexivity.
Ltac run_to_call :=
  match goal with |- context [call_fn p (wext p) wall_fns ?f] =>
    let C := fresh "CALL" in let E := fresh "EC" in
    remember (call_fn p (wext p) wall_fns f) as C eqn:E;
    cbv -[le_bytes w_u64x2 w_u32x4 v128_or v128_and u64x2_shuffle i32x4_replace_lane_1 unordered_load3];
    subst C
  end.

(* ---- remainder(bytes) -> (packetH, packetL), for a slice of bytes of ANY length: below 16 bytes the path through
        load_multiple_of_four and unordered_load3 is stepped call by call; from 16 bytes on it is run as a whole *)
Ltac fin_cbv := cbv -[le_bytes w_u64x2 w_u32x4 v128_or v128_and u64x2_shuffle i32x4_replace_lane_1 unordered_load3]; reflexivity.
Ltac rem_small HB :=
  bytes_hyps HB; rewrite wcall_step; run_to_call;
  rewrite w_load_multiple_of_four_src by (cbn [List.length]; lia);
  run_to_call;
  rewrite w_ul3_src by (first [cbn [List.length]; lia | use_bytes]);
  match goal with |- context [unordered_load3 p ?r] => destruct (unordered_load3 p r) as [x| |] end;
  [run_to_call; rewrite w_new2_src; fin_cbv | fin_cbv | fin_cbv].

Lemma w_remainder_src fuel g bytes : wbytesb bytes = true ->
  call (S (S (S (S (S fuel))))) "WasmHash::remainder" g [VA bytes]
  = lift (w_remainder p bytes) (fun r => (g, [Some (VA bytes)], Some (VTV [fst r; snd r]))).
Proof.
  intros HB. enum_list bytes 16%nat.
  1: rem_small HB.
  1: rem_small HB.
  1: rem_small HB.
  1: rem_small HB.
  1-12: rem_small HB.
  clear HB. destruct p as [[|] [|]]; enum_list bytes 17%nat; wbl; reflexivity.
Qed.

Ltac step L := rewrite L; next_call.

Lemma w_sll_src fuel g a k :
  call (S fuel) "_mm_sll_epi32" g [VX a; VN k] = Ok (g, [Some (VX a); Some (VN k)], Some (VX (w_mm_sll_epi32 a k))).
Proof. wl. reflexivity. Qed.
Lemma w_srl_src fuel g a k :
  call (S fuel) "_mm_srl_epi32" g [VX a; VN k] = Ok (g, [Some (VX a); Some (VN k)], Some (VX (w_mm_srl_epi32 a k))).
Proof. wl. reflexivity. Qed.
Lemma w_add_assign_src fuel g a b :
  call (S (S fuel)) "V2x64U::AddAssign::add_assign" g [VX a; VX b] = Ok (g, [Some (VX (u64x2_add a b)); Some (VX b)], None).
Proof. wl. reflexivity. Qed.

Lemma sub32 count : sub_chk p U32 32 count
  = if count <=? 32 then Ok (32 - count) else if ovf p then Panic else Ok (t32 (32 + 4294967296 - count)).
Proof. reflexivity. Qed.

(* ---- rotate_32_by(&mut self, count): equal as results in every build profile (the `32 - count` check included) *)
Lemma w_rotate_32_by_src fuel c e count :
  call (S (S (S (S fuel)))) "WasmHash::rotate_32_by" (wgenv_of c e) [VN count]
  = lift (w_rotate_32_by p c count) (fun c' => (wgenv_of c' e, [Some (VN count)], None)).
Proof.
  destruct c as [a0 a1 a2 a3 a4 a5 a6 a7]. unfold lift, w_rotate_32_by.
  rewrite wcall_step. next_call. rewrite sub32.
  destruct (count <=? 32) eqn:EB; [|destruct (ovf p)]; cbn [bind]; try reflexivity.
  all: next_call.
  all: step w_sll_src; step w_from_src; step w_sll_src; step w_from_src.
  all: step w_srl_src; step w_from_src; step w_srl_src; step w_from_src.
  all: step w_or_src; step w_or_src.
  all: reflexivity.
Qed.

(* ---- update_remainder(&mut self) *)
Lemma w_update_remainder_src fuel c b : wfpb b ->
  call (S (S (S (S (S (S fuel)))))) "WasmHash::update_remainder" (wgenv_of c b) []
  = lift (w_update_remainder p {| w_core := c; w_buffer := b |}) (fun c' => (wgenv_of c' b, [], None)).
Proof.
  intros [[Hlen Hidx] Hby]. destruct c as [a0 a1 a2 a3 a4 a5 a6 a7].
  rewrite wcall_step. next_call.
  fold_penv b. step wpkt_len_ok.
  step w_from_src. step w_add_assign_src. step w_from_src. step w_add_assign_src.
  change (N.land (N.land (N.of_nat (plen b)) M32) M32) with (t32 (t32 (N.of_nat (plen b)))).
  unfold w_update_remainder, lift. cbn [w_core w_buffer w_v0L w_v0H w_v1L w_v1H w_mul0L w_mul0H w_mul1L w_mul1H].
  set (size := t32 (N.of_nat (plen b))).
  replace (t32 size) with size by (unfold size, t32; rewrite t32_idem; reflexivity).
  match goal with |- context [w_rotate_32_by p ?X size] => fold_wenv X b; rewrite (w_rotate_32_by_src _ X b size);
    destruct (w_rotate_32_by p X size) as [c1| |]; unfold lift; cbn [bind]; [|reflexivity|reflexivity] end.
  next_call.
  fold_penv b. rewrite (wpkt_as_slice_ok _ _ Hlen). unfold plift.
  destruct (as_slice p b) as [sl| |] eqn:Esl; cbn [bind]; [|reflexivity|reflexivity].
  next_call. rewrite (w_remainder_src _ _ _ (as_slice_bytes p b sl Hby Esl)). unfold lift.
  destruct (w_remainder p sl) as [[pH pL]| |]; cbn [bind fst snd]; [|reflexivity|reflexivity].
  next_call. fold_wenv c1 b. rewrite w_update_src. next_call. reflexivity.
Qed.

(* ---- finalize64 / 128 / 256 *)
Ltac pau X e := fold_wenv X e; rewrite w_permute_and_update_src; next_call.
Ltac paus n X e := lazymatch n with O => idtac | S ?m => pau X e; paus m (w_permute_and_update X) e end.

Lemma w_finalize64_src fuel c b : wfpb b ->
  ret_of (call (S (S (S (S (S (S (S fuel))))))) "WasmHash::finalize64" (wgenv_of c b) [])
  = lift_ret (w_finalize64 p {| w_core := c; w_buffer := b |}) VN.
Proof.
  intros W. rewrite wcall_step. unfold w_finalize64, w_pre_finalize, lift_ret. cbn [w_core w_buffer].
  next_call. fold_penv b. step wpkt_is_empty_ok.
  destruct (is_empty b); cbn [negb]; next_call.
  - paus 4%nat c b. step w_add_src. step w_add_src. step w_add_src.
    cbn [bind iter ret_of]. reflexivity.
  - fold_wenv c b. rewrite (w_update_remainder_src _ _ _ W). unfold lift.
    destruct (w_update_remainder p {| w_core := c; w_buffer := b |}) as [c1| |]; cbn [bind]; [|reflexivity|reflexivity].
    next_call. paus 4%nat c1 b. step w_add_src. step w_add_src. step w_add_src.
    cbn [bind iter ret_of]. reflexivity.
Qed.

Lemma w_finalize128_src fuel c b : wfpb b ->
  ret_of (call (S (S (S (S (S (S (S fuel))))))) "WasmHash::finalize128" (wgenv_of c b) [])
  = lift_ret (w_finalize128 p {| w_core := c; w_buffer := b |}) (fun lh => VA [fst lh; snd lh]).
Proof.
  intros W. rewrite wcall_step. unfold w_finalize128, w_pre_finalize, lift_ret. cbn [w_core w_buffer].
  next_call. fold_penv b. step wpkt_is_empty_ok.
  destruct (is_empty b); cbn [negb]; next_call.
  - paus 6%nat c b. step w_add_src. step w_add_src. step w_add_src.
    cbn [bind iter ret_of fst snd]. reflexivity.
  - fold_wenv c b. rewrite (w_update_remainder_src _ _ _ W). unfold lift.
    destruct (w_update_remainder p {| w_core := c; w_buffer := b |}) as [c1| |]; cbn [bind]; [|reflexivity|reflexivity].
    next_call. paus 6%nat c1 b. step w_add_src. step w_add_src. step w_add_src.
    cbn [bind iter ret_of fst snd]. reflexivity.
Qed.

Ltac fin256 := step w_add_src; step w_add_src; step w_add_src; step w_add_src;
    step w_modular_reduction_src; step w_modular_reduction_src;
    cbn [bind iter ret_of]; cbv beta iota zeta delta [ll lane0 lane1 lane2 lane3 fst snd]; reflexivity.
Lemma w_finalize256_src fuel c b : wfpb b ->
  ret_of (call (S (S (S (S (S (S (S fuel))))))) "WasmHash::finalize256" (wgenv_of c b) [])
  = lift_ret (w_finalize256 p {| w_core := c; w_buffer := b |}) (fun l => VA (ll l)).
Proof.
  intros W. rewrite wcall_step. unfold w_finalize256, w_pre_finalize, lift_ret. cbn [w_core w_buffer].
  next_call. fold_penv b. step wpkt_is_empty_ok.
  destruct (is_empty b); cbn [negb]; next_call.
  - paus 10%nat c b. fin256.
  - fold_wenv c b. rewrite (w_update_remainder_src _ _ _ W). unfold lift.
    destruct (w_update_remainder p {| w_core := c; w_buffer := b |}) as [c1| |]; cbn [bind]; [|reflexivity|reflexivity].
    next_call. paus 10%nat c1 b. fin256.
Qed.

(* ---- append(&mut self, data): chunks_exact loops, HashPacket::fill / set_to / inner *)
Definition WF (c : wcore) (x : list N) : wcore := w_update c (fst (w_data_to_lanes x)) (snd (w_data_to_lanes x)).
Definition WG (x : list N) : list V128 := [fst (w_data_to_lanes x); snd (w_data_to_lanes x)].

Lemma g_absorb_w c addr ps : g_absorb_chunks w_step c addr ps = Ok (fold_left WF ps c).
Proof.
  revert c addr. induction ps as [|x ps IH]; intros c addr; cbn [g_absorb_chunks fold_left]; [reflexivity|].
  unfold w_step at 1. cbn [bind mbytes]. apply IH.
Qed.

Lemma wchunk_loop_T {St : Type} (T : wcore -> list N -> list V128 -> St) (step : list N -> St -> res St) :
  (forall c ch ln x, step x (T c ch ln) = Ok (T (WF c x) x (WG x))) ->
  forall k l c ch ln, exists ch' ln',
    chunk_loop 32 step k l (T c ch ln) = Ok (T (fold_left WF (fst (chunks_fuel k l)) c) ch' ln').
Proof.
  intros HT. induction k as [|k IH]; intros l c ch ln; cbn [chunk_loop chunks_fuel fst fold_left].
  - exists ch, ln. reflexivity.
  - rewrite chunk_cond. destruct (at_least_32 l).
    + rewrite HT. cbn [bind]. destruct (IH (skipn 32 l) (WF c (firstn 32 l)) (firstn 32 l) (WG (firstn 32 l))) as [ch' [ln' E]].
      exists ch', ln'. rewrite E. destruct (chunks_fuel k (skipn 32 l)) as [ps r]. reflexivity.
    + exists ch, ln. reflexivity.
Qed.

Lemma wchunk_loop_S0 {St : Type} (S0 : wcore -> St) (T : wcore -> list N -> list V128 -> St) (step : list N -> St -> res St) :
  (forall c x, step x (S0 c) = Ok (T (WF c x) x (WG x))) ->
  (forall c ch ln x, step x (T c ch ln) = Ok (T (WF c x) x (WG x))) ->
  forall k l c,
    (fst (chunks_fuel k l) = [] /\ chunk_loop 32 step k l (S0 c) = Ok (S0 c)) \/
    (exists ch' ln', chunk_loop 32 step k l (S0 c) = Ok (T (fold_left WF (fst (chunks_fuel k l)) c) ch' ln')).
Proof.
  intros H0 HT k l c. destruct k as [|k]; cbn [chunk_loop chunks_fuel fst].
  - left. split; reflexivity.
  - rewrite chunk_cond. destruct (at_least_32 l).
    + right. rewrite H0. cbn [bind].
      destruct (wchunk_loop_T T step HT k (skipn 32 l) (WF c (firstn 32 l)) (firstn 32 l) (WG (firstn 32 l))) as [ch' [ln' E]].
      exists ch', ln'. rewrite E. destruct (chunks_fuel k (skipn 32 l)) as [ps r]. reflexivity.
    + left. split; reflexivity.
Qed.

Ltac fixlen l :=
  repeat match goal with
         | |- context [chunks_fuel ?k l] => progress change k with (List.length l)
         | |- context [chunk_rem 32 ?k l] => progress change k with (List.length l)
         end.

Lemma w_append_src fuel c b data : wfp b ->
  call (S (S (S (S (S fuel))))) "WasmHash::append" (wgenv_of c b) [VA data]
  = lift (w_append p {| w_core := c; w_buffer := b |} data)
         (fun s' => (wgenv_of (w_core s') (w_buffer s'), [Some (VA data)], None)).
Proof.
  intros W. rewrite wcall_step. unfold w_append, w_append_at, g_append, lift. cbn [w_core w_buffer].
  next_call. fold_penv b. step wpkt_is_empty_ok.
  destruct (is_empty b) eqn:Eb; next_call.
  - match goal with |- context [chunk_loop 32 ?f _ _ _] => set (STEP := f) end.
    set (S0 := fun c1 : wcore => {| genv := wgenv_of c1 b; lenv := [("data"%string, VA data); ("%b1"%string, VN 1)] |}).
    set (T := fun (c1 : wcore) (ch : list N) (tv : list V128) =>
                {| genv := wgenv_of c1 b;
                   lenv := [("data"%string, VA data); ("%b1"%string, VN 1); ("chunk"%string, VA ch); ("%t2"%string, VTV tv)] |}).
    assert (H0 : forall c1 x, STEP x (S0 c1) = Ok (T (WF c1 x) x (WG x))).
    { intros c1 x. subst STEP S0 T. cbv beta. next_call. step w_data_to_lanes_src.
      fold_wenv c1 b. step w_update_src. reflexivity. }
    assert (HT : forall c1 ch ln x, STEP x (T c1 ch ln) = Ok (T (WF c1 x) x (WG x))).
    { intros c1 ch ln x. subst STEP S0 T. cbv beta. next_call. step w_data_to_lanes_src.
      fold_wenv c1 b. step w_update_src. reflexivity. }
    match goal with |- context [chunk_loop 32 STEP ?k _ ?st] => change st with (S0 c); change k with (List.length data) end.
    unfold chunks32.
    destruct (wchunk_loop_S0 S0 T STEP H0 HT (List.length data) data c) as [[Eps EL]|[ch' [ln' EL]]]; rewrite EL; clear EL; subst S0 T; cbv beta.
    + next_call. fixlen data. rewrite chunk_rem_spec.
      destruct (chunks_fuel (List.length data) data) as [ps r] eqn:Ech. cbn [fst snd] in *. subst ps. cbn [g_absorb_chunks bind].
      fold_penv b. rewrite (wpkt_set_to_ok _ _ _ (proj1 W)). unfold plift.
      destruct (set_to p b r) as [b'| |]; next_call; cbn [bind fst snd w_core w_buffer]; reflexivity.
    + next_call. fixlen data. rewrite chunk_rem_spec.
      destruct (chunks_fuel (List.length data) data) as [ps r] eqn:Ech. cbn [fst snd] in *. rewrite g_absorb_w. cbn [bind].
      fold_penv b. rewrite (wpkt_set_to_ok _ _ _ (proj1 W)). unfold plift.
      destruct (set_to p b r) as [b'| |]; next_call; cbn [bind fst snd w_core w_buffer]; reflexivity.
  - fold_penv b. rewrite (wpkt_fill_ok _ _ _ (proj1 W)). next_call.
    pose proof (fill_buf_length b data (proj1 W)) as Hl'.
    destruct (fill b data) as [b' [tail|]] eqn:Ef; cbn [fst snd] in *; next_call; [|reflexivity].
    fold_penv b'. step wpkt_inner_ok.
    step w_data_to_lanes_src.
    fold_wenv c b'. step w_update_src.
    unfold w_step at 1. cbn [bind mbytes self_buf].
    set (c1 := w_update c (fst (w_data_to_lanes (inner b'))) (snd (w_data_to_lanes (inner b')))).
    match goal with |- context [chunk_loop 32 ?f _ _ _] => set (STEP := f) end.
    set (L0 := [("data"%string, VA data); ("%b1"%string, VN 0); ("%o4"%string, VO (Some tail)); ("tail"%string, VA tail);
                ("%a5"%string, VA (inner b')); ("%t6"%string, VTV (WG (inner b')))]).
    set (S0 := fun c2 : wcore => {| genv := wgenv_of c2 b'; lenv := L0 |}).
    set (T := fun (c2 : wcore) (ch : list N) (tv : list V128) =>
                {| genv := wgenv_of c2 b'; lenv := L0 ++ [("chunk"%string, VA ch); ("%t7"%string, VTV tv)] |}).
    assert (H0 : forall c2 x, STEP x (S0 c2) = Ok (T (WF c2 x) x (WG x))).
    { intros c2 x. subst STEP S0 T L0. cbv beta. next_call. step w_data_to_lanes_src.
      fold_wenv c2 b'. step w_update_src. reflexivity. }
    assert (HT : forall c2 ch ln x, STEP x (T c2 ch ln) = Ok (T (WF c2 x) x (WG x))).
    { intros c2 ch ln x. subst STEP S0 T L0. cbv beta. next_call. step w_data_to_lanes_src.
      fold_wenv c2 b'. step w_update_src. reflexivity. }
    match goal with |- context [chunk_loop 32 STEP ?k _ ?st] => change st with (S0 c1); change k with (List.length tail) end.
    unfold chunks32. fixlen tail.
    destruct (wchunk_loop_S0 S0 T STEP H0 HT (List.length tail) tail c1) as [[Eps EL]|[ch' [ln' EL]]]; rewrite EL; clear EL; subst S0 T L0; cbv beta.
    + next_call. fixlen tail. rewrite chunk_rem_spec.
      destruct (chunks_fuel (List.length tail) tail) as [ps r] eqn:Ech. cbn [fst snd] in *. subst ps. cbn [g_absorb_chunks bind].
      fold_penv b'. rewrite (wpkt_set_to_ok _ _ _ Hl'). unfold plift.
      destruct (set_to p b' r) as [b''| |]; next_call; cbn [bind fst snd w_core w_buffer]; reflexivity.
    + next_call. fixlen tail. rewrite chunk_rem_spec.
      destruct (chunks_fuel (List.length tail) tail) as [ps r] eqn:Ech. cbn [fst snd] in *. rewrite g_absorb_w. cbn [bind].
      fold_penv b'. rewrite (wpkt_set_to_ok _ _ _ Hl'). unfold plift.
      destruct (set_to p b' r) as [b''| |]; next_call; cbn [bind fst snd w_core w_buffer]; reflexivity.
Qed.
End Bytes.
