(* SourceTieSse.v — the SSE4.1 kernel (src/x86/sse.rs) and the V2x64U wrapper (src/x86/v2x64u.rs), translated from the
   current source into VecLite (gen/SrcSse.v), interpreted with the intrinsic models of X86.v as primitives, are the
   hand-written model Sse.v, function by function. *)
From Coq Require Import NArith ZArith List String Bool Arith Lia.
From HW Require Import Word Packet Mem X86 Portable Sse.
From HW.Facts Require Import VecLite.
From HWGen Require Import SrcSse.
Import ListNotations.
Local Open Scope string_scope.
Local Open Scope N_scope.

(* signed 64-bit subtraction, with the overflow check of a build that has overflow checks *)
Definition sgn64 (x : N) : Z := if N.testbit (t64 x) 63 then (Z.of_N (t64 x) - 18446744073709551616)%Z else Z.of_N (t64 x).
Definition sub_i64 (p : profile) (a b : N) : res N :=
  let r := (sgn64 a - sgn64 b)%Z in
  if ovf p && ((r <? -9223372036854775808)%Z || (9223372036854775807 <? r)%Z) then Panic
  else Ok (t64 (t64 a + 18446744073709551616 - t64 b)).

Definition on1 (f : vval -> option (res vval)) (vs : list vval) := match vs with [a] => f a | _ => None end.
Definition on2 (f : vval -> vval -> option (res vval)) (vs : list vval) := match vs with [a; b] => f a b | _ => None end.
Definition vv (f : V128 -> V128 -> V128) : list vval -> option (res vval) :=
  on2 (fun a b => match a, b with X2 x, X2 y => Some (Ok (X2 (f x y))) | _, _ => None end).
Definition vn (f : V128 -> N -> V128) : list vval -> option (res vval) :=
  on2 (fun a b => match a, b with X2 x, XN y => Some (Ok (X2 (f x y))) | _, _ => None end).
Definition nv (f : N -> V128) : list vval -> option (res vval) :=
  on1 (fun a => match a with XN x => Some (Ok (X2 (f x))) | _ => None end).
Definition nn (f : N -> N) : list vval -> option (res vval) :=
  on1 (fun a => match a with XN x => Some (Ok (XN (f x))) | _ => None end).

(* primitives: SSE intrinsics (X86.v), integer casts, From::from (see [sse_from_impls_are_identities]), and — for
   update_remainder — the byte-level helpers of a hasher whose pending buffer is [b], given by the hand-written model *)
Definition sse_prims (p : profile) (b : packet) : list (string * (list vval -> option (res vval))) :=
  [("_mm_add_epi64", vv mm_add_epi64); ("_mm_sub_epi64", vv mm_sub_epi64); ("_mm_and_si128", vv mm_and_si128);
   ("_mm_or_si128", vv mm_or_si128); ("_mm_xor_si128", vv mm_xor_si128); ("_mm_andnot_si128", vv mm_andnot_si128);
   ("_mm_mul_epu32", vv mm_mul_epu32); ("_mm_shuffle_epi8", vv mm_shuffle_epi8);
   ("_mm_sll_epi32", vv mm_sll_epi32); ("_mm_srl_epi32", vv mm_srl_epi32);
   ("_mm_srli_epi64", vn mm_srli_epi64); ("_mm_shuffle_epi32", vn mm_shuffle_epi32);
   ("_mm_slli_si128", on2 (fun a k => match a, k with X2 x, XN 8 => Some (Ok (X2 (mm_slli_si128_8 x))) | _, _ => None end));
   ("_mm_insert_epi32", fun vs => match vs with [X2 a; XN x; XN 3] => Some (Ok (X2 (mm_insert_epi32_3 a x))) | _ => None end);
   ("_mm_setzero_si128", fun vs => match vs with [] => Some (Ok (X2 mm_setzero_si128)) | _ => None end);
   ("_mm_set_epi64x", on2 (fun a b => match a, b with XN hi, XN lo => Some (Ok (X2 (mm_set_epi64x hi lo))) | _, _ => None end));
   ("_mm_set1_epi32", nv mm_set1_epi32); ("_mm_cvtsi64_si128", nv mm_cvtsi64_si128);
   (* x86/macros.rs: _mm_shuffle!(z, y, x, w) = (z << 6) | (y << 4) | (x << 2) | w *)
   ("_mm_shuffle!", fun vs => match vs with
                              | [XN z; XN y; XN x; XN w] => Some (Ok (XN (N.lor (N.lor (N.lor (N.shiftl z 6) (N.shiftl y 4)) (N.shiftl x 2)) w)))
                              | _ => None end);
   ("From::from", on1 (fun a => Some (Ok a)));
   ("as_i32", nn t32); ("as_i64", nn t64);
   ("sub_i64", on2 (fun a c => match a, c with XN x, XN y => Some (do r <- sub_i64 p x y ;; Ok (XN r)) | _, _ => None end));
   (* finalize*: bool as 0/1; a local [u64; 2] / [u64; 4] as a tuple of integers; a store through a pointer to a local
      (see veclite.rs, store) yields the local's new value — offset k is in units of __m128i, i.e. elements 2k, 2k+1;
      any other shape (in particular an offset outside the array) has no meaning here and evaluates to Fault *)
   ("buffer.is_empty", fun vs => match vs with [] => Some (Ok (XN (if is_empty b then 1 else 0))) | _ => None end);
   ("not_bool", fun vs => match vs with [XN 0] => Some (Ok (XN 1)) | [XN 1] => Some (Ok (XN 0)) | _ => None end);
   ("array_repeat", fun vs => match vs with
                              | [XN v; XN 2] => Some (Ok (XT [XN v; XN v]))
                              | [XN v; XN 4] => Some (Ok (XT [XN v; XN v; XN v; XN v]))
                              | _ => None end);
   ("_mm_storel_epi64", fun vs => match vs with [XN _; XN 0; X2 v] => Some (Ok (XN (t64 (fst v)))) | _ => None end);
   ("_mm_storeu_si128", fun vs => match vs with
                                  | [XT [_; _]; XN 0; X2 v] => Some (Ok (XT [XN (t64 (fst v)); XN (t64 (snd v))]))
                                  | [XT [_; _; c; d]; XN 0; X2 v] => Some (Ok (XT [XN (t64 (fst v)); XN (t64 (snd v)); c; d]))
                                  | [XT [a0; a1; _; _]; XN 1; X2 v] => Some (Ok (XT [a0; a1; XN (t64 (fst v)); XN (t64 (snd v))]))
                                  | _ => None end);
   ("buffer.len", fun vs => match vs with [] => Some (Ok (XN (N.of_nat (plen b)))) | _ => None end);
   ("buffer.as_slice", fun vs => match vs with [] => Some (do sl <- as_slice p b ;; Ok (XB sl)) | _ => None end);
   ("SseHash::remainder", on1 (fun a => match a with
                                        | XB sl => Some (do r <- s_remainder p (self_buf S_BUF_ADDR sl) ;; Ok (XT [X2 (fst r); X2 (snd r)]))
                                        | _ => None end))].
Fixpoint tbl_find {A} (t : list (string * A)) (f : string) : option A :=
  match t with [] => None | (g, x) :: t' => if String.eqb g f then Some x else tbl_find t' f end.
Definition sse_prim (p : profile) (b : packet) (f : string) (vs : list vval) : option (res vval) :=
  match tbl_find (sse_prims p b) f with Some h => h vs | None => None end.

Definition core_vals (c : score) : list vval :=
  [X2 (v0L c); X2 (v0H c); X2 (v1L c); X2 (v1H c); X2 (mul0L c); X2 (mul0H c); X2 (mul1L c); X2 (mul1H c)].

Ltac vl :=
  cbv beta iota zeta delta
    [vcall vapp veval vfind vbind vlookup String.eqb Ascii.eqb Bool.eqb bind app src_sse vf_params vf_body vf_ret
     sse_prim sse_prims tbl_find on1 on2 vv vn nv nn Nat.add core_vals v0L v0H v1L v1H mul0L mul0H mul1L mul1H].


Section SseKernel.
Variable p : profile.
Variable b : packet.
Notation call := (vcall (sse_prim p b) src_sse).

Lemma sse_zipper_merge_ok fuel v :
  call (10 + fuel)%nat "SseHash::zipper_merge" [X2 v] = Ok (X2 (s_zipper_merge v)).
Proof. vl. reflexivity. Qed.

Lemma sse_update_ok fuel c pH pL :
  call (12 + fuel)%nat "SseHash::update" (core_vals c ++ [XT [X2 pH; X2 pL]]) = Ok (XT (core_vals (s_update c pH pL))).
Proof. destruct c. vl. reflexivity. Qed.

Lemma sse_permute_and_update_ok fuel c :
  call (16 + fuel)%nat "SseHash::permute_and_update" (core_vals c) = Ok (XT (core_vals (s_permute_and_update c))).
Proof. destruct c. vl. reflexivity. Qed.

Lemma sse_modular_reduction_ok fuel x init :
  call (12 + fuel)%nat "SseHash::modular_reduction" [X2 x; X2 init] = Ok (X2 (s_modular_reduction x init)).
Proof. vl. reflexivity. Qed.

(* the wrapper's operators are the intrinsics *)
Lemma sse_wrapper_ops fuel x y :
  call (8 + fuel)%nat "V2x64U::Add::add" [X2 x; X2 y] = Ok (X2 (mm_add_epi64 x y)) /\
  call (8 + fuel)%nat "V2x64U::BitXor::bitxor" [X2 x; X2 y] = Ok (X2 (mm_xor_si128 x y)) /\
  call (8 + fuel)%nat "V2x64U::BitOr::bitor" [X2 x; X2 y] = Ok (X2 (mm_or_si128 x y)) /\
  call (8 + fuel)%nat "V2x64U::BitAnd::bitand" [X2 x; X2 y] = Ok (X2 (mm_and_si128 x y)) /\
  call (8 + fuel)%nat "V2x64U::AddAssign::add_assign" [X2 x; X2 y] = Ok (X2 (mm_add_epi64 x y)) /\
  call (8 + fuel)%nat "V2x64U::BitXorAssign::bitxor_assign" [X2 x; X2 y] = Ok (X2 (mm_xor_si128 x y)) /\
  call (8 + fuel)%nat "V2x64U::BitOrAssign::bitor_assign" [X2 x; X2 y] = Ok (X2 (mm_or_si128 x y)) /\
  call (8 + fuel)%nat "V2x64U::BitAndAssign::bitand_assign" [X2 x; X2 y] = Ok (X2 (mm_and_si128 x y)) /\
  call (8 + fuel)%nat "V2x64U::rotate_by_32" [X2 x] = Ok (X2 (V2_rotate_by_32 x)) /\
  call (8 + fuel)%nat "V2x64U::and_not" [X2 x; X2 y] = Ok (X2 (V2_and_not x y)) /\
  call (8 + fuel)%nat "V2x64U::shuffle" [X2 x; X2 y] = Ok (X2 (mm_shuffle_epi8 x y)).
Proof. repeat split; vl; reflexivity. Qed.
Lemma sse_new_ok fuel hi lo :
  call (8 + fuel)%nat "V2x64U::new" [XN hi; XN lo] = Ok (X2 (V2_new hi lo)).
Proof.
  vl. unfold V2_new, mm_set_epi64x, t64.
  rewrite <- (N.land_assoc lo), <- (N.land_assoc hi), N.land_diag. reflexivity.
Qed.

(* every  impl From<..> for V2x64U  is the identity on the vector, so reading  V2x64U::from(e)  as e is sound whichever
   impl rustc selects *)
Lemma sse_from_impls_are_identities fuel v :
  forallb (fun f => match call (6 + fuel)%nat f [X2 v] with Ok (X2 w) => true | _ => false end) src_sse_from_impls = true /\
  forall f, In f src_sse_from_impls -> call (6 + fuel)%nat f [X2 v] = Ok (X2 v).
Proof.
  split.
  - cbv [src_sse_from_impls forallb]. vl. reflexivity.
  - intros f Hf. cbv [src_sse_from_impls In] in Hf.
    repeat match goal with H : _ \/ _ |- _ => destruct H as [H|H] end; try contradiction; subst f; vl; reflexivity.
Qed.

(* rotate_32_by(&mut self, count: i64):  32 - count  is i64 arithmetic; no overflow for a count below 2^63 *)
Lemma sub_i64_32 count : count < 9223372036854775808 -> sub_i64 p 32 count = Ok (i64_sub_32 count).
Proof.
  intros H. unfold sub_i64, i64_sub_32.
  assert (E : t64 count = count).
  { unfold t64. change M64 with (N.ones 64). rewrite N.land_ones. apply N.mod_small. lia. }
  assert (S32 : sgn64 32 = 32%Z) by reflexivity.
  assert (SC : sgn64 count = Z.of_N count).
  { unfold sgn64. rewrite E. rewrite (N.bits_above_log2 count 63); [reflexivity|].
    destruct (N.eq_dec count 0) as [->|NZ]; [reflexivity|]. apply N.log2_lt_pow2; lia. }
  rewrite S32, SC.
  replace ((32 - Z.of_N count <? -9223372036854775808)%Z) with false by (symmetry; apply Z.ltb_ge; lia).
  replace ((9223372036854775807 <? 32 - Z.of_N count)%Z) with false by (symmetry; apply Z.ltb_ge; lia).
  rewrite andb_false_r. reflexivity.
Qed.

Lemma sse_rotate_32_by_ok fuel c count : count < 9223372036854775808 ->
  call (12 + fuel)%nat "SseHash::rotate_32_by" (core_vals c ++ [XN count]) = Ok (XT (core_vals (s_rotate_32_by c count))).
Proof. intros H. destruct c. vl. rewrite (sub_i64_32 _ H). vl. reflexivity. Qed.

(* update_remainder(&mut self); the byte-level helpers (HashPacket::len / as_slice, SseHash::remainder) are supplied by
   the hand-written model; the pending length is assumed below 2^63 (it is at most 32) *)
Definition lift {A} (r : res A) (k : A -> vval) : res vval :=
  match r with Ok a => Ok (k a) | Panic => Panic | Fault => Fault end.

Lemma sse_update_remainder_ok fuel c : N.of_nat (plen b) < 9223372036854775808 ->
  call (20 + fuel)%nat "SseHash::update_remainder" (core_vals c)
  = lift (s_update_remainder p {| s_core := c; s_buffer := b |}) (fun c' => XT (core_vals c')).
Proof.
  intros H. destruct c. unfold s_update_remainder, lift. cbn [s_core s_buffer].
  assert (E : t64 (N.of_nat (plen b)) = N.of_nat (plen b)).
  { unfold t64. change M64 with (N.ones 64). rewrite N.land_ones. apply N.mod_small. lia. }
  vl. rewrite E, (sub_i64_32 _ H). vl.
  destruct (as_slice p b) as [sl| |]; vl; [|reflexivity|reflexivity].
  destruct (s_remainder p (self_buf S_BUF_ADDR sl)) as [[pH pL]| |]; vl; reflexivity.
Qed.
End SseKernel.
