(* X86.v — semantics of the SSE4.1 / AVX2 intrinsics used by src/x86/*.rs, after the pseudocode of
   the Intel Intrinsics Guide.  A 128-bit vector is its two 64-bit lanes (low, high); a 256-bit
   vector its four.  Every output lane is truncated to 64 bits. *)
From Coq Require Import NArith ZArith List Lia Bool Arith.
From HW Require Import Word Mem.
Import ListNotations.
Local Open Scope N_scope.

Definition V128 : Type := (N * N)%type.
Definition V256 : Type := lanes.

(* ---- lane-wise helpers *)
Definition v2map2 (f : N -> N -> N) (a b : V128) : V128 := (f (fst a) (fst b), f (snd a) (snd b)).
Definition v2map (f : N -> N) (a : V128) : V128 := (f (fst a), f (snd a)).

(* 32-bit elements e0..e3 of a 128-bit vector *)
Definition e32 (v : V128) (i : N) : N :=
  match i with
  | 0 => lo32 (fst v) | 1 => lo32 (hi32 (fst v)) | 2 => lo32 (snd v) | _ => lo32 (hi32 (snd v))
  end.
Definition of_e32 (e0 e1 e2 e3 : N) : V128 := (t64 (mk64 (t32 e0) (t32 e1)), t64 (mk64 (t32 e2) (t32 e3))).
(* bytes 0..15 of a 128-bit vector *)
Definition bytes_of_v128 (v : V128) : list N :=
  map (byte_of (fst v)) [0;1;2;3;4;5;6;7] ++ map (byte_of (snd v)) [0;1;2;3;4;5;6;7].
Definition v128_of_bytes (l : list N) : V128 := (t64 (le_bytes (sub l 0 8)), t64 (le_bytes (sub l 8 8))).

(* ---- SSE *)
Definition mm_setzero_si128 : V128 := (0, 0).
Definition mm_set_epi64x (hi lo : N) : V128 := (t64 lo, t64 hi).
Definition mm_add_epi64 : V128 -> V128 -> V128 := v2map2 add64.
Definition mm_sub_epi64 (a b : V128) : V128 := v2map2 (fun x y => t64 (x + 18446744073709551616 - y)) a b.
Definition mm_and_si128 : V128 -> V128 -> V128 := v2map2 N.land.
Definition mm_or_si128 : V128 -> V128 -> V128 := v2map2 N.lor.
Definition mm_xor_si128 : V128 -> V128 -> V128 := v2map2 N.lxor.
(* _mm_andnot_si128(a, b) = (NOT a) AND b *)
Definition mm_andnot_si128 (a b : V128) : V128 := v2map2 (fun x y => N.land (N.lxor (t64 x) M64) y) a b.
(* _mm_mul_epu32: low 32 bits of each 64-bit lane, 32x32 -> 64 *)
Definition mm_mul_epu32 : V128 -> V128 -> V128 := v2map2 (fun x y => mul64 (lo32 x) (lo32 y)).
Definition mm_srli_epi64 (a : V128) (imm : N) : V128 :=
  if 63 <? imm then (0, 0) else v2map (fun x => N.shiftr (t64 x) imm) a.
(* _mm_shuffle_epi32(a, imm8): dst.e[i] = a.e[(imm >> 2i) & 3] *)
Definition mm_shuffle_epi32 (a : V128) (imm : N) : V128 :=
  let sel i := e32 a (N.land (N.shiftr imm (2 * i)) 3) in
  of_e32 (sel 0) (sel 1) (sel 2) (sel 3).
(* _mm_shuffle_epi8(a, b): dst.b[i] = b.b[i] & 0x80 ? 0 : a.b[b.b[i] & 15] *)
Definition mm_shuffle_epi8 (a b : V128) : V128 :=
  let ab := bytes_of_v128 a in
  v128_of_bytes (map (fun c => if N.testbit c 7 then 0 else nth0 ab (N.to_nat (N.land c 15))) (bytes_of_v128 b)).
(* _mm_insert_epi32(a, i, 3) *)
Definition mm_insert_epi32_3 (a : V128) (x : N) : V128 := (t64 (fst a), t64 (mk64 (lo32 (snd a)) (t32 x))).
(* _mm_slli_si128(a, 8): byte shift left by 8 *)
Definition mm_slli_si128_8 (a : V128) : V128 := (0, t64 (fst a)).
(* _mm_cvtsi64_si128(x): x is an i64 given by its 64-bit pattern *)
Definition mm_cvtsi64_si128 (x : N) : V128 := (t64 x, 0).
Definition mm_cvtsi32_si128 (x : N) : V128 := (t32 x, 0).
Definition mm_set1_epi32 (x : N) : V128 := of_e32 x x x x.
(* _mm_set_epi32(e3, e2, e1, e0) *)
Definition mm_set_epi32 (e3 e2 e1 e0 : N) : V128 := of_e32 e0 e1 e2 e3.
(* _mm_sll_epi32(a, count): count = low 64 bits of the count vector; > 31 gives 0 *)
Definition map32 (f : N -> N) (v : V128) : V128 := of_e32 (f (e32 v 0)) (f (e32 v 1)) (f (e32 v 2)) (f (e32 v 3)).
Definition mm_sll_epi32 (a count : V128) : V128 :=
  let c := t64 (fst count) in map32 (fun x => if 31 <? c then 0 else t32 (N.shiftl x c)) a.
Definition mm_srl_epi32 (a count : V128) : V128 :=
  let c := t64 (fst count) in map32 (fun x => if 31 <? c then 0 else N.shiftr x c) a.
(* _mm_cmpgt_epi32: signed compare, all-ones / zero per element *)
Definition sgn32 (x : N) : Z := if N.testbit x 31 then (Z.of_N x - 4294967296)%Z else Z.of_N x.
Definition mm_cmpgt_epi32 (a b : V128) : V128 :=
  let f i := if (sgn32 (e32 b i) <? sgn32 (e32 a i))%Z then M32 else 0 in
  of_e32 (f 0) (f 1) (f 2) (f 3).

(* loads: checked against the slice (Mem.v) *)
Definition mm_loadu_si128 (m : mem) (off : nat) : res V128 :=
  do b <- load m off 16 1 ;; Ok (v128_of_bytes b).
Definition mm_load_si128 (m : mem) (off : nat) : res V128 :=
  do b <- load m off 16 16 ;; Ok (v128_of_bytes b).
Definition mm_loadl_epi64 (m : mem) (off : nat) : res V128 :=
  do b <- load m off 8 1 ;; Ok (t64 (le_bytes b), 0).
(* _mm_maskload_epi32(ptr, mask): element i is read only when the top bit of mask.e[i] is set *)
Definition mm_maskload_epi32 (m : mem) (off : nat) (mask : V128) : res V128 :=
  let elt (i : nat) : res N :=
    if N.testbit (e32 mask (N.of_nat i)) 31
    then do b <- load m (off + 4 * i) 4 1 ;; Ok (le_bytes b)
    else Ok 0 in
  do x0 <- elt 0%nat ;; do x1 <- elt 1%nat ;; do x2 <- elt 2%nat ;; do x3 <- elt 3%nat ;;
  Ok (of_e32 x0 x1 x2 x3).

(* ---- AVX2 (a V256 is two 128-bit halves: lanes (l0,l1 | l2,l3)) *)
Definition lo128 (v : V256) : V128 := let '(a,b,_,_) := v in (a, b).
Definition hi128 (v : V256) : V128 := let '(_,_,c,d) := v in (c, d).
Definition join128 (l h : V128) : V256 := (fst l, snd l, fst h, snd h).
Definition per128 (f : V128 -> V128) (v : V256) : V256 := join128 (f (lo128 v)) (f (hi128 v)).
Definition per128_2 (f : V128 -> V128 -> V128) (a b : V256) : V256 :=
  join128 (f (lo128 a) (lo128 b)) (f (hi128 a) (hi128 b)).

Definition mm256_setzero_si256 : V256 := (0, 0, 0, 0).
Definition mm256_set_epi64x (e3 e2 e1 e0 : N) : V256 := (t64 e0, t64 e1, t64 e2, t64 e3).
Definition mm256_add_epi64 : V256 -> V256 -> V256 := zip4 add64.
Definition mm256_and_si256 : V256 -> V256 -> V256 := zip4 N.land.
Definition mm256_or_si256 : V256 -> V256 -> V256 := zip4 N.lor.
Definition mm256_xor_si256 : V256 -> V256 -> V256 := zip4 N.lxor.
Definition mm256_andnot_si256 (a b : V256) : V256 := zip4 (fun x y => N.land (N.lxor (t64 x) M64) y) a b.
Definition mm256_mul_epu32 : V256 -> V256 -> V256 := zip4 (fun x y => mul64 (lo32 x) (lo32 y)).
Definition mm256_srli_epi64 (a : V256) (imm : N) : V256 :=
  if 63 <? imm then (0,0,0,0) else map4 (fun x => N.shiftr (t64 x) imm) a.
Definition mm256_slli_epi64 (a : V256) (imm : N) : V256 :=
  if 63 <? imm then (0,0,0,0) else map4 (fun x => shl64 x imm) a.
Definition mm256_shuffle_epi32 (a : V256) (imm : N) : V256 := per128 (fun v => mm_shuffle_epi32 v imm) a.
Definition mm256_shuffle_epi8 : V256 -> V256 -> V256 := per128_2 mm_shuffle_epi8.
Definition mm256_castsi256_si128 (a : V256) : V128 := lo128 a.
Definition mm256_extracti128_si256_1 (a : V256) : V128 := hi128 a.
(* _mm256_castsi128_si256: upper half undefined; the crate always overwrites it with inserti128(.., 1),
   so the model makes the pair explicit *)
Definition mm256_set_m128i (hi lo : V128) : V256 := join128 (v2map t64 lo) (v2map t64 hi).
Definition mm256_broadcastd_epi32 (a : V128) : V256 := let x := e32 a 0 in per128 (fun _ => mm_set1_epi32 x) (0,0,0,0).
Definition mm256_sub_epi32 (a b : V256) : V256 :=
  per128_2 (fun x y => of_e32 (e32 x 0 + 4294967296 - e32 y 0) (e32 x 1 + 4294967296 - e32 y 1)
                               (e32 x 2 + 4294967296 - e32 y 2) (e32 x 3 + 4294967296 - e32 y 3)) a b.
(* _mm256_sllv_epi32 / _mm256_srlv_epi32: per-element counts; count > 31 gives 0 *)
Definition zip32 (f : N -> N -> N) (a b : V128) : V128 :=
  of_e32 (f (e32 a 0) (e32 b 0)) (f (e32 a 1) (e32 b 1)) (f (e32 a 2) (e32 b 2)) (f (e32 a 3) (e32 b 3)).
Definition mm256_sllv_epi32 : V256 -> V256 -> V256 :=
  per128_2 (zip32 (fun x c => if 31 <? c then 0 else t32 (N.shiftl x c))).
Definition mm256_srlv_epi32 : V256 -> V256 -> V256 :=
  per128_2 (zip32 (fun x c => if 31 <? c then 0 else N.shiftr x c)).
(* _mm256_permutevar8x32_epi32(a, idx): dst.e[i] = a.e[idx.e[i] & 7] across the whole 256 bits *)
Definition e32_256 (v : V256) (i : N) : N := if i <? 4 then e32 (lo128 v) i else e32 (hi128 v) (i - 4).
Definition mm256_permutevar8x32_epi32 (a idx : V256) : V256 :=
  let sel i := e32_256 a (N.land (e32_256 idx i) 7) in
  join128 (of_e32 (sel 0) (sel 1) (sel 2) (sel 3)) (of_e32 (sel 4) (sel 5) (sel 6) (sel 7)).
Definition mm256_cmpeq_epi64 : V256 -> V256 -> V256 := zip4 (fun x y => if t64 x =? t64 y then M64 else 0).
(* _mm256_slli_si256(a, 8): byte shift by 8 within each 128-bit half *)
Definition mm256_slli_si256_8 : V256 -> V256 := per128 mm_slli_si128_8.
(* _mm256_unpacklo_epi64(a, b): per half, (a.lo, b.lo) *)
Definition mm256_unpacklo_epi64 : V256 -> V256 -> V256 := per128_2 (fun x y => (t64 (fst x), t64 (fst y))).

Definition v256_of_bytes (l : list N) : V256 :=
  (t64 (le_bytes (sub l 0 8)), t64 (le_bytes (sub l 8 8)), t64 (le_bytes (sub l 16 8)), t64 (le_bytes (sub l 24 8))).
Definition mm256_loadu_si256 (m : mem) (off : nat) : res V256 :=
  do b <- load m off 32 1 ;; Ok (v256_of_bytes b).
Definition mm256_load_si256 (m : mem) (off : nat) : res V256 :=
  do b <- load m off 32 32 ;; Ok (v256_of_bytes b).
