(* Dispatch.v — executable model of src/builder.rs (HighwayHasher: tag + union) and of the
   Option-returning constructors of SseHash / AvxHash, parameterised by the build configuration. *)
From Coq Require Import NArith List Lia Bool Arith.
From HW Require Import Word Chunks Packet Mem X86 Portable Sse Avx Neon Wasm.
Import ListNotations.
Local Open Scope N_scope.

Inductive arch := X86_64 | AArch64 | Wasm32 | OtherArch.
Definition arch_eqb (a b : arch) : bool :=
  match a, b with X86_64, X86_64 | AArch64, AArch64 | Wasm32, Wasm32 | OtherArch, OtherArch => true | _, _ => false end.

(* what the crate's cfg attributes, cfg!() and is_x86_feature_detected!() can observe *)
Record config := {
  c_arch : arch;
  tf_avx2 : bool;      (* cfg!(target_feature = "avx2") *)
  tf_sse41 : bool;     (* cfg!(target_feature = "sse4.1") *)
  c_std : bool;        (* feature = "std" *)
  det_avx2 : bool;     (* is_x86_feature_detected!("avx2") at run time *)
  det_sse41 : bool;    (* is_x86_feature_detected!("sse4.1") at run time *)
  c_simd128 : bool     (* target_feature = "simd128" (wasm) *)
}.

(* the value stored in the union *)
Inductive hcore := CP (s : pstate) | CS (s : sstate) | CA (s : astate) | CN (s : nstate) | CW (s : wstate).

(* builder.rs:39-42  struct HighwayHasher { tag: u8, inner: HighwayChoices } *)
Record dstate := { d_tag : N; d_inner : hcore }.

Definition cfg_wasm_simd (c : config) : bool := arch_eqb (c_arch c) Wasm32 && c_simd128 c.
Definition cfg_portable_arm (c : config) : bool := negb (cfg_wasm_simd c || arch_eqb (c_arch c) AArch64).
Definition cfg_x86 (c : config) : bool := arch_eqb (c_arch c) X86_64.

(* which backend HighwayHasher::new / from_checkpoint select (builder.rs:147-219 / 223-295):
   the same ladder, instantiated with the constructor or the restore function of each backend *)
Inductive choice := ChAvx | ChSse | ChNeon | ChWasm | ChPortable.
Definition ladder (c : config) : choice :=
  if cfg_x86 c then
    if tf_avx2 c then ChAvx
    else if tf_sse41 c then ChSse
    else if c_std c && det_avx2 c then ChAvx
    else if c_std c && det_sse41 c then ChSse
    else ChPortable
  else if arch_eqb (c_arch c) AArch64 then ChNeon
  else if cfg_wasm_simd c then ChWasm
  else ChPortable.
Definition tag_of_choice (ch : choice) : N :=
  match ch with ChPortable => 0 | ChAvx => 1 | ChSse => 2 | ChNeon => 3 | ChWasm => 4 end.

Definition d_new (c : config) (key : lanes) : res dstate :=
  match ladder c with
  | ChAvx => do s <- a_force_new key ;; Ok {| d_tag := 1; d_inner := CA s |}
  | ChSse => do s <- s_force_new key ;; Ok {| d_tag := 2; d_inner := CS s |}
  | ChNeon => Ok {| d_tag := 3; d_inner := CN (n_force_new key) |}
  | ChWasm => Ok {| d_tag := 4; d_inner := CW (w_new key) |}
  | ChPortable => Ok {| d_tag := 0; d_inner := CP (p_new key) |}
  end.

Definition d_from_checkpoint (prof : profile) (c : config) (data : list N) : res dstate :=
  match ladder c with
  | ChAvx => do s <- a_force_from_checkpoint prof data ;; Ok {| d_tag := 1; d_inner := CA s |}
  | ChSse => do s <- s_force_from_checkpoint prof data ;; Ok {| d_tag := 2; d_inner := CS s |}
  | ChNeon => do s <- n_force_from_checkpoint prof data ;; Ok {| d_tag := 3; d_inner := CN s |}
  | ChWasm => do s <- w_from_checkpoint prof data ;; Ok {| d_tag := 4; d_inner := CW s |}
  | ChPortable => do s <- p_from_checkpoint prof data ;; Ok {| d_tag := 0; d_inner := CP s |}
  end.

(* every method of HighwayHasher:  match self.tag { 0 => portable, 1 => avx, 2 => sse, 3 => neon,
   4 => wasm, _ => unreachable_unchecked() }  with each arm present only under its cfg.
   [arm c tag] is the union field the arm reads, or None when no arm is compiled in for that tag
   (then unreachable_unchecked is reached: undefined behaviour). *)
Definition arm (c : config) (tag : N) : option choice :=
  match tag with
  | 0 => if cfg_portable_arm c then Some ChPortable else None
  | 1 => if cfg_x86 c then Some ChAvx else None
  | 2 => if cfg_x86 c then Some ChSse else None
  | 3 => if arch_eqb (c_arch c) AArch64 then Some ChNeon else None
  | 4 => if cfg_wasm_simd c then Some ChWasm else None
  | _ => None
  end.

(* reading union field [ch] of a value that holds [h]: defined only when they agree *)
Definition field_ok (ch : choice) (h : hcore) : bool :=
  match ch, h with
  | ChPortable, CP _ | ChAvx, CA _ | ChSse, CS _ | ChNeon, CN _ | ChWasm, CW _ => true
  | _, _ => false
  end.

Definition d_dispatch {A} (c : config) (d : dstate) (k : hcore -> res A) : res A :=
  match arm c (d_tag d) with
  | Some ch => if field_ok ch (d_inner d) then k (d_inner d) else Fault
  | None => Fault
  end.

(* backend operations on the union payload; [addr] is the address of the caller's data *)
Definition c_append (prof : profile) (addr : N) (h : hcore) (data : list N) : res hcore :=
  match h with
  | CP s => do s' <- p_append prof s data ;; Ok (CP s')
  | CS s => do s' <- s_append prof addr s data ;; Ok (CS s')
  | CA s => do s' <- a_append prof addr s data ;; Ok (CA s')
  | CN s => do s' <- n_append prof addr s data ;; Ok (CN s')
  | CW s => do s' <- w_append prof s data ;; Ok (CW s')
  end.
Definition pair_list (x : N * N) : list N := [fst x; snd x].
Definition c_finalize (prof : profile) (w : width) (h : hcore) : res (list N) :=
  match h, w with
  | CP s, W64 => do x <- p_finalize64 prof s ;; Ok [x]
  | CP s, W128 => do x <- p_finalize128 prof s ;; Ok (pair_list x)
  | CP s, W256 => do x <- p_finalize256 prof s ;; Ok (lanes_list x)
  | CS s, W64 => do x <- s_finalize64 prof s ;; Ok [x]
  | CS s, W128 => do x <- s_finalize128 prof s ;; Ok (pair_list x)
  | CS s, W256 => do x <- s_finalize256 prof s ;; Ok (lanes_list x)
  | CA s, W64 => do x <- a_finalize64 prof s ;; Ok [x]
  | CA s, W128 => do x <- a_finalize128 prof s ;; Ok (pair_list x)
  | CA s, W256 => do x <- a_finalize256 prof s ;; Ok (lanes_list x)
  | CN s, W64 => do x <- n_finalize64 prof s ;; Ok [x]
  | CN s, W128 => do x <- n_finalize128 prof s ;; Ok (pair_list x)
  | CN s, W256 => do x <- n_finalize256 prof s ;; Ok (lanes_list x)
  | CW s, W64 => do x <- w_finalize64 prof s ;; Ok [x]
  | CW s, W128 => do x <- w_finalize128 prof s ;; Ok (pair_list x)
  | CW s, W256 => do x <- w_finalize256 prof s ;; Ok (lanes_list x)
  end.
Definition c_checkpoint (prof : profile) (h : hcore) : res (list N) :=
  match h with
  | CP s => p_checkpoint prof s | CS s => s_checkpoint prof s | CA s => a_checkpoint prof s
  | CN s => n_checkpoint prof s | CW s => w_checkpoint prof s
  end.

(* HighwayHasher's methods *)
Definition d_append (prof : profile) (c : config) (addr : N) (d : dstate) (data : list N) : res dstate :=
  d_dispatch c d (fun h => do h' <- c_append prof addr h data ;; Ok {| d_tag := d_tag d; d_inner := h' |}).
Definition d_finalize (prof : profile) (c : config) (w : width) (d : dstate) : res (list N) :=
  d_dispatch c d (c_finalize prof w).
Definition d_checkpoint (prof : profile) (c : config) (d : dstate) : res (list N) :=
  d_dispatch c d (c_checkpoint prof).
(* Clone: per-arm clone of the payload, same tag *)
Definition d_clone (c : config) (d : dstate) : res dstate :=
  d_dispatch c d (fun h => Ok {| d_tag := d_tag d; d_inner := h |}).
(* Debug: prints the tag, then the arm's payload *)
Definition d_debug (c : config) (d : dstate) : res N := d_dispatch c d (fun _ => Ok (d_tag d)).

(* the Option-returning constructors: SseHash::new / from_checkpoint, AvxHash::new / from_checkpoint *)
Definition s_new (c : config) (key : lanes) : res (option sstate) :=
  if c_std c && det_sse41 c then do s <- s_force_new key ;; Ok (Some s) else Ok None.
Definition s_from_checkpoint (prof : profile) (c : config) (data : list N) : res (option sstate) :=
  if c_std c && det_sse41 c then do s <- s_force_from_checkpoint prof data ;; Ok (Some s) else Ok None.
Definition a_new (c : config) (key : lanes) : res (option astate) :=
  if c_std c && det_avx2 c then do s <- a_force_new key ;; Ok (Some s) else Ok None.
Definition a_from_checkpoint (prof : profile) (c : config) (data : list N) : res (option astate) :=
  if c_std c && det_avx2 c then do s <- a_force_from_checkpoint prof data ;; Ok (Some s) else Ok None.
