(* FactsC05.v — the one-shot helpers hash64 / hash128 / hash256 are the provided methods of the trait HighwayHash, their text is
   { self.append(data); self.finalizeN() }  (what History.v's OHash models), and no hasher type overrides them: every
   impl HighwayHash for T  writes out exactly the five required methods.  Likewise every other trait impl in the crate writes out
   only methods the model knows: Clone::clone (never clone_from), Default::default, Debug::fmt, BuildHasher::build_hasher
   (never hash_one), the operator traits of the vector wrappers, Index::index, From::from. *)
From Coq Require Import String List NArith Bool.
From HW.Facts Require Import FactTypes FactChecks.
From HWGen Require Import SrcFacts.
Import ListNotations.
Local Open Scope string_scope.

Definition expected_trait : list (string * string * string) :=
  [("HighwayHash", "hash64", "{ self . append ( data ) ; self . finalize64 ( ) }");
   ("HighwayHash", "hash128", "{ self . append ( data ) ; self . finalize128 ( ) }");
   ("HighwayHash", "hash256", "{ self . append ( data ) ; self . finalize256 ( ) }");
   ("HighwayHash", "append", ""); ("HighwayHash", "finalize64", ""); ("HighwayHash", "finalize128", "");
   ("HighwayHash", "finalize256", ""); ("HighwayHash", "checkpoint", "")].

Fixpoint triples_eqb (a b : list (string * string * string)) : bool :=
  match a, b with
  | [], [] => true
  | (x1, x2, x3) :: a', (y1, y2, y3) :: b' => String.eqb x1 y1 && String.eqb x2 y2 && String.eqb x3 y3 && triples_eqb a' b'
  | _, _ => false
  end.

(* the methods a trait impl may write out, by the last segment of the trait's name *)
Definition allowed_methods (tr : string) : option (list string) :=
  let is s := String.eqb tr s in
  if is "HighwayHash" then Some ["append"; "finalize64"; "finalize128"; "finalize256"; "checkpoint"]
  else if is "Clone" then Some ["clone"]
  else if is "Default" then Some ["default"]
  else if is "core : : fmt : : Debug" then Some ["fmt"] else if is "Debug" then Some ["fmt"]
  else if is "BuildHasher" then Some ["build_hasher"]
  else if is "Index < usize >" then Some ["index"]
  else if is "AddAssign" then Some ["add_assign"] else if is "SubAssign" then Some ["sub_assign"]
  else if is "BitAndAssign" then Some ["bitand_assign"] else if is "BitOrAssign" then Some ["bitor_assign"]
  else if is "BitXorAssign" then Some ["bitxor_assign"] else if is "ShlAssign < __m128i >" then Some ["shl_assign"]
  else if is "ShrAssign < __m128i >" then Some ["shr_assign"]
  else if is "ShlAssign < __m256i >" then Some ["shl_assign"] else if is "ShrAssign < __m256i >" then Some ["shr_assign"]
  else if is "ShlAssign < u32 >" then Some ["shl_assign"] else if is "ShrAssign < u32 >" then Some ["shr_assign"]
  else if is "BitAnd" then Some ["bitand"] else if is "BitOr" then Some ["bitor"] else if is "BitXor" then Some ["bitxor"]
  else if is "Add" then Some ["add"]
  else if String.prefix "From <" tr then Some ["from"]
  else None.

Definition impl_ok (e : string * string * list string) : bool :=
  let '(ty, tr, ms) := e in
  match allowed_methods tr with
  | Some allowed =>
      subset ms allowed &&
      (* the five required methods of HighwayHash are all there (rustc demands it; stated for completeness) *)
      (if String.eqb tr "HighwayHash" then subset allowed ms else true)
  | None => false
  end.

Definition provided_methods_ok : bool :=
  triples_eqb trait_defs expected_trait && forallb impl_ok trait_impl_methods.

(* the streaming append of the four SIMD hashers is, token for token, the text of PortableHash::append — the text the translator
   tie proves equal to the model (SRC_append); only the update / data_to_lanes it calls are the backend's own *)
Definition append_body (ty : string) : option string := body_of impl_bodies ty "" "append".
Definition append_text_shared : bool :=
  match append_body "PortableHash" with
  | Some b0 => forallb (fun ty => match append_body ty with Some b => String.eqb b b0 | None => false end)
                       ["SseHash"; "AvxHash"; "NeonHash"; "WasmHash"]
  | None => false
  end.

Theorem C05_append_text_shared : append_text_shared = true.
Proof. vm_compute. reflexivity. Qed.

Theorem C05_provided_methods : provided_methods_ok = true.
Proof. vm_compute. reflexivity. Qed.
Print Assumptions C05_provided_methods.
Print Assumptions C05_append_text_shared.
