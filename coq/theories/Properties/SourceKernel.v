(* SourceKernel — the word-level kernel of src/portable.rs, translated from the current source text on every run
   (gen/SrcPortable.v) and interpreted by Facts/RustLite.v, is the hand-written model of Portable.v, function by
   function, for every state, every argument, every build profile and every call depth the interpreter is given.
   (Part of C01: the model C01 is proved about is, for these functions, what the source says today.) *)
From Coq Require Import NArith List String Bool.
From HW Require Import Word Packet Portable.
From HW.Facts Require Import RustLite.
From HWGen Require Import SrcPortable.
From HW.Refine Require Import SourceTie.
Import ListNotations.
Local Open Scope N_scope.

Notation call p b := (call_fn p (ext p b) src_fns).
Notation flag_of b := (if is_empty b then 1%nat else 0%nat).

Theorem SRC_new : forall p b fuel c e k0 k1 k2 k3,
  call p b (S fuel) "new" (genv_of c e) [VA [k0;k1;k2;k3]]
  = Ok (genv_of (core (p_new (k0,k1,k2,k3))) e, [Some (VA [k0;k1;k2;k3])], None).
Proof. exact new_ok. Qed.

Theorem SRC_zipper_merge_and_add : forall p b fuel g x1 x0 l0 l1 l2 l3,
  call p b (S fuel) "zipper_merge_and_add" g [VN x1; VN x0; VA [l0;l1;l2;l3]; VK 1%nat; VK 0%nat]
  = Ok (g, [Some (VN x1); Some (VN x0); Some (VA [add64 l0 (zip_lo x1 x0); add64 l1 (zip_hi x1 x0); l2; l3]);
            Some (VK 1%nat); Some (VK 0%nat)], None) /\
  call p b (S fuel) "zipper_merge_and_add" g [VN x1; VN x0; VA [l0;l1;l2;l3]; VK 3%nat; VK 2%nat]
  = Ok (g, [Some (VN x1); Some (VN x0); Some (VA [l0; l1; add64 l2 (zip_lo x1 x0); add64 l3 (zip_hi x1 x0)]);
            Some (VK 3%nat); Some (VK 2%nat)], None).
Proof. intros. split; [apply zipper_10 | apply zipper_32]. Qed.

Theorem SRC_update : forall p b fuel c e x0 x1 x2 x3,
  call p b (S (S fuel)) "update" (genv_of c e) [VA [x0;x1;x2;x3]]
  = Ok (genv_of (p_update c (x0,x1,x2,x3)) e, [Some (VA [x0;x1;x2;x3])], None).
Proof. exact update_ok. Qed.

Theorem SRC_permute : forall p b fuel g a0 a1 a2 a3,
  call p b (S fuel) "permute" g [VA [a0;a1;a2;a3]]
  = Ok (g, [Some (VA [a0;a1;a2;a3])], Some (VA (ll (p_permute (a0,a1,a2,a3))))).
Proof. exact permute_ok. Qed.

Theorem SRC_permute_and_update : forall p b fuel c e,
  call p b (S (S (S fuel))) "permute_and_update" (genv_of c e) [] = Ok (genv_of (p_permute_and_update c) e, [], None).
Proof. exact permute_and_update_ok. Qed.

Theorem SRC_module_reduction : forall p b fuel g a3 a2 a1 a0,
  call p b (S fuel) "module_reduction" g [VN a3; VN a2; VN a1; VN a0]
  = Ok (g, [Some (VN a3); Some (VN a2); Some (VN a1); Some (VN a0)],
        Some (VT [fst (p_module_reduction a3 a2 a1 a0); snd (p_module_reduction a3 a2 a1 a0)])).
Proof. exact module_reduction_ok. Qed.

(* with the shift-amount / subtraction / addition checks of the build profile: equal as results, panics included *)
Theorem SRC_rotate_32_by : forall p b fuel g count a0 a1 a2 a3,
  call p b (S fuel) "rotate_32_by" g [VN count; VA [a0;a1;a2;a3]]
  = lift (p_rotate_32_by p count (a0,a1,a2,a3)) (fun l => (g, [Some (VN count); Some (VA (ll l))], None)).
Proof. exact rotate_32_by_ok. Qed.

Theorem SRC_update_lanes : forall p b fuel c e size,
  call p b (S (S fuel)) "update_lanes" (genv_of c e) [VN size]
  = lift (p_update_lanes p size c) (fun c' => (genv_of c' e, [Some (VN size)], None)).
Proof. exact update_lanes_ok. Qed.

(* byte-level: for a slice of ANY length *)
Theorem SRC_data_to_lanes : forall p b fuel g d,
  call p b (S fuel) "data_to_lanes" g [VA d] = Ok (g, [Some (VA d)], Some (VA (ll (p_data_to_lanes d)))).
Proof. exact data_to_lanes_ok. Qed.

Theorem SRC_remainder : forall p b fuel g bytes,
  call p b (S fuel) "remainder" g [VA bytes] = lift (p_remainder p bytes) (fun r => (g, [Some (VA bytes)], Some (VA r))).
Proof. exact remainder_ok. Qed.

(* from here on the two HashPacket accessors (len / as_slice) are supplied by the hand-written model; the pending length is
   assumed to fit a u64 (it is at most 32) *)
Theorem SRC_update_remainder : forall p b, N.of_nat (plen b) <= M64 -> forall fuel c e,
  call p b (S (S (S fuel))) "update_remainder" (genv_of c e) []
  = lift (p_update_remainder p {| core := c; buffer := b |}) (fun c' => (genv_of c' e, [], None)).
Proof. exact update_remainder_ok. Qed.

Theorem SRC_finalize : forall p b, N.of_nat (plen b) <= M64 -> forall fuel c e, e = flag_of b ->
  ret_of (call p b (S (S (S (S (S fuel))))) "finalize64" (genv_of c e) [])
    = lift_ret (p_finalize64 p {| core := c; buffer := b |}) VN /\
  ret_of (call p b (S (S (S (S (S fuel))))) "finalize128" (genv_of c e) [])
    = lift_ret (p_finalize128 p {| core := c; buffer := b |}) (fun lh => VA [fst lh; snd lh]) /\
  ret_of (call p b (S (S (S (S (S fuel))))) "finalize256" (genv_of c e) [])
    = lift_ret (p_finalize256 p {| core := c; buffer := b |}) (fun l => VA (ll l)).
Proof.
  intros p b Hb fuel c e E. split; [|split].
  - apply finalize64_ok; assumption.
  - apply finalize128_ok; assumption.
  - apply finalize256_ok; assumption.
Qed.

(* non-vacuity, and an end-to-end run of the interpreter on the generated source: new(zero key) followed by
   finalize64 with nothing pending is the published HighwayHash64 of the empty string under the zero key *)
Example SRC_runs_the_source :
  match call prof_dev packet_default 8 "new" (genv_of (core (p_new (9,9,9,9))) 1) [VA [0;0;0;0]] with
  | Ok (g, _, _) => ret_of (call prof_dev packet_default 8 "finalize64" g [])
  | _ => Fault
  end = Ok (Some (VN 0x7035da75b9d54469)).
Proof. vm_compute. reflexivity. Qed.

Print Assumptions SRC_new.
Print Assumptions SRC_zipper_merge_and_add.
Print Assumptions SRC_update.
Print Assumptions SRC_permute.
Print Assumptions SRC_permute_and_update.
Print Assumptions SRC_module_reduction.
Print Assumptions SRC_rotate_32_by.
Print Assumptions SRC_update_lanes.
Print Assumptions SRC_data_to_lanes.
Print Assumptions SRC_remainder.
Print Assumptions SRC_update_remainder.
Print Assumptions SRC_finalize.
