(* SourceKernel — src/portable.rs (key schedule, update, permute, zipper merge, modular reduction, length injection and
   rotation, remainder packing, data_to_lanes, update_remainder, finalize64/128/256 and the streaming append) and HashPacket
   of src/internal.rs (len, is_empty, as_slice, inner, fill, set_to), translated from the current source text on every run
   (gen/SrcPortable.v, gen/SrcPacket.v) and interpreted by Facts/RustLite.v, are the hand-written models Portable.v and
   Packet.v, function by function, for every state, every argument, every data slice, every build profile and every call depth
   the interpreter is given — and so are checkpoint and from_checkpoint.  No function is supplied to the interpreter from outside.
   Not in the fragment: Default and the trait wrappers that forward to these functions.
   (Part of C01: the model C01 is proved about is, for these functions, what the source says today.) *)
From Coq Require Import NArith List String Bool.
From HW Require Import Word Packet Portable.
From HW.Facts Require Import RustLite.
From HWGen Require Import SrcPortable SrcPacket.
From HW.Refine Require Import SourceTie SourceTieFinal SourceTieAppend SourceTieCkpt.
Import ListNotations.
Local Open Scope N_scope.

Notation call p := (call_fn p noext all_fns).

Theorem SRC_new : forall p fuel c e k0 k1 k2 k3,
  call p (S fuel) "new" (genv_of c e) [VA [k0;k1;k2;k3]]
  = Ok (genv_of (core (p_new (k0,k1,k2,k3))) packet_default, [Some (VA [k0;k1;k2;k3])], None).
Proof. exact new_ok. Qed.

Theorem SRC_zipper_merge_and_add : forall p fuel g x1 x0 l0 l1 l2 l3,
  call p (S fuel) "zipper_merge_and_add" g [VN x1; VN x0; VA [l0;l1;l2;l3]; VK 1%nat; VK 0%nat]
  = Ok (g, [Some (VN x1); Some (VN x0); Some (VA [add64 l0 (zip_lo x1 x0); add64 l1 (zip_hi x1 x0); l2; l3]);
            Some (VK 1%nat); Some (VK 0%nat)], None) /\
  call p (S fuel) "zipper_merge_and_add" g [VN x1; VN x0; VA [l0;l1;l2;l3]; VK 3%nat; VK 2%nat]
  = Ok (g, [Some (VN x1); Some (VN x0); Some (VA [l0; l1; add64 l2 (zip_lo x1 x0); add64 l3 (zip_hi x1 x0)]);
            Some (VK 3%nat); Some (VK 2%nat)], None).
Proof. intros. split; [apply zipper_10 | apply zipper_32]. Qed.

Theorem SRC_update : forall p fuel c e x0 x1 x2 x3,
  call p (S (S fuel)) "update" (genv_of c e) [VA [x0;x1;x2;x3]]
  = Ok (genv_of (p_update c (x0,x1,x2,x3)) e, [Some (VA [x0;x1;x2;x3])], None).
Proof. exact update_ok. Qed.

Theorem SRC_permute : forall p fuel g a0 a1 a2 a3,
  call p (S fuel) "permute" g [VA [a0;a1;a2;a3]]
  = Ok (g, [Some (VA [a0;a1;a2;a3])], Some (VA (ll (p_permute (a0,a1,a2,a3))))).
Proof. exact permute_ok. Qed.

Theorem SRC_permute_and_update : forall p fuel c e,
  call p (S (S (S fuel))) "permute_and_update" (genv_of c e) [] = Ok (genv_of (p_permute_and_update c) e, [], None).
Proof. exact permute_and_update_ok. Qed.

Theorem SRC_module_reduction : forall p fuel g a3 a2 a1 a0,
  call p (S fuel) "module_reduction" g [VN a3; VN a2; VN a1; VN a0]
  = Ok (g, [Some (VN a3); Some (VN a2); Some (VN a1); Some (VN a0)],
        Some (VT [fst (p_module_reduction a3 a2 a1 a0); snd (p_module_reduction a3 a2 a1 a0)])).
Proof. exact module_reduction_ok. Qed.

(* with the shift-amount / subtraction / addition checks of the build profile: equal as results, panics included *)
Theorem SRC_rotate_32_by : forall p fuel g count a0 a1 a2 a3,
  call p (S fuel) "rotate_32_by" g [VN count; VA [a0;a1;a2;a3]]
  = lift (p_rotate_32_by p count (a0,a1,a2,a3)) (fun l => (g, [Some (VN count); Some (VA (ll l))], None)).
Proof. exact rotate_32_by_ok. Qed.

Theorem SRC_update_lanes : forall p fuel c e size,
  call p (S (S fuel)) "update_lanes" (genv_of c e) [VN size]
  = lift (p_update_lanes p size c) (fun c' => (genv_of c' e, [Some (VN size)], None)).
Proof. exact update_lanes_ok. Qed.

(* byte-level: for a slice of ANY length *)
Theorem SRC_data_to_lanes : forall p fuel g d,
  call p (S fuel) "data_to_lanes" g [VA d] = Ok (g, [Some (VA d)], Some (VA (ll (p_data_to_lanes d)))).
Proof. exact data_to_lanes_ok. Qed.

Theorem SRC_remainder : forall p fuel g bytes,
  call p (S fuel) "remainder" g [VA bytes] = lift (p_remainder p bytes) (fun r => (g, [Some (VA bytes)], Some (VA r))).
Proof. exact remainder_ok. Qed.

(* HashPacket: for every packet whose buf is the 32-byte array it is, every fill index (a usize: also values above 32,
   which no safe sequence produces), every data slice *)
Theorem SRC_packet : forall p fuel pk data, List.length (buf pk) = 32%nat ->
  call p (S fuel) "buffer.len" (penv pk) [] = Ok (penv pk, [], Some (VN (N.of_nat (plen pk)))) /\
  call p (S fuel) "buffer.is_empty" (penv pk) [] = Ok (penv pk, [], Some (VN (if is_empty pk then 1 else 0))) /\
  call p (S fuel) "buffer.inner" (penv pk) [] = Ok (penv pk, [], Some (VA (inner pk))) /\
  call p (S fuel) "buffer.as_slice" (penv pk) [] = plift (as_slice p pk) (fun sl => (penv pk, [], Some (VA sl))) /\
  call p (S fuel) "buffer.set_to" (penv pk) [VA data]
    = plift (set_to p pk data) (fun pk' => (penv pk', [Some (VA data)], None)) /\
  call p (S fuel) "buffer.fill" (penv pk) [VA data]
    = Ok (penv (fst (fill pk data)), [Some (VA data)], Some (VO (snd (fill pk data)))).
Proof.
  intros p fuel pk data H.
  repeat match goal with |- _ /\ _ => split end;
    [apply pkt_len_ok | apply pkt_is_empty_ok | apply pkt_inner_ok | apply pkt_as_slice_ok; exact H
    | apply pkt_set_to_ok; exact H | apply pkt_fill_ok; exact H].
Qed.

(* wfp b: the pending buffer is a 32-byte array and its fill index fits a u64 *)
Theorem SRC_update_remainder : forall p fuel c b, wfp b ->
  call p (S (S (S fuel))) "update_remainder" (genv_of c b) []
  = lift (p_update_remainder p {| core := c; buffer := b |}) (fun c' => (genv_of c' b, [], None)).
Proof. exact update_remainder_ok. Qed.

Theorem SRC_finalize : forall p fuel c b, wfp b ->
  ret_of (call p (S (S (S (S (S fuel))))) "finalize64" (genv_of c b) [])
    = lift_ret (p_finalize64 p {| core := c; buffer := b |}) VN /\
  ret_of (call p (S (S (S (S (S fuel))))) "finalize128" (genv_of c b) [])
    = lift_ret (p_finalize128 p {| core := c; buffer := b |}) (fun lh => VA [fst lh; snd lh]) /\
  ret_of (call p (S (S (S (S (S fuel))))) "finalize256" (genv_of c b) [])
    = lift_ret (p_finalize256 p {| core := c; buffer := b |}) (fun l => VA (ll l)).
Proof.
  intros p fuel c b W. split; [|split].
  - apply finalize64_ok; assumption.
  - apply finalize128_ok; assumption.
  - apply finalize256_ok; assumption.
Qed.

(* the streaming append: whole 32-byte chunks through update, the rest through HashPacket *)
Theorem SRC_append : forall p fuel c b data, wfp b ->
  call p (S (S (S (S fuel)))) "append" (genv_of c b) [VA data]
  = lift (p_append p {| core := c; buffer := b |} data)
         (fun s' => (genv_of (core s') (buffer s'), [Some (VA data)], None)).
Proof. exact append_ok. Qed.

(* checkpoint (the 164 bytes) and from_checkpoint (any 164 bytes: decode, then the pending bytes through append) *)
Theorem SRC_checkpoint : forall p fuel c b, wfp b ->
  ret_of' (call p (S (S fuel)) "checkpoint" (genv_of c b) []) = lift_ret' (p_checkpoint p {| core := c; buffer := b |}) VA.
Proof. exact checkpoint_ok. Qed.

Theorem SRC_from_checkpoint : forall p fuel c b data, List.length data = 164%nat ->
  call p (S (S (S (S (S fuel))))) "from_checkpoint" (genv_of c b) [VA data]
  = lift (p_from_checkpoint p data) (fun s' => (genv_of (core s') (buffer s'), [Some (VA data)], None)).
Proof. exact from_checkpoint_ok. Qed.

(* non-vacuity, and an end-to-end run of the interpreter on the generated source:  new(zero key), append of the 3 bytes
   "abc" in two calls, finalize64 — evaluates to what the extracted model computes for the same history *)
Example SRC_runs_the_source :
  match call prof_dev 9 "new" (genv_of (core (p_new (9,9,9,9))) packet_default) [VA [0;0;0;0]] with
  | Ok (g, _, _) =>
      match call prof_dev 9 "append" g [VA [97; 98]] with
      | Ok (g1, _, _) =>
          match call prof_dev 9 "append" g1 [VA [99]] with
          | Ok (g2, _, _) => ret_of (call prof_dev 9 "finalize64" g2 [])
          | _ => Fault
          end
      | _ => Fault
      end
  | _ => Fault
  end
  = match p_append prof_dev (p_new (0,0,0,0)) [97; 98] with
    | Ok s1 => match p_append prof_dev s1 [99] with
               | Ok s2 => lift_ret (p_finalize64 prof_dev s2) VN
               | _ => Fault
               end
    | _ => Fault
    end.
Proof. vm_compute. reflexivity. Qed.

Example SRC_runs_empty :
  match call prof_dev 9 "new" (genv_of (core (p_new (9,9,9,9))) packet_default) [VA [0;0;0;0]] with
  | Ok (g, _, _) => ret_of (call prof_dev 9 "finalize64" g [])
  | _ => Fault
  end = Ok (Some (VN 0x7035da75b9d54469)).
Proof. vm_compute. reflexivity. Qed.

Print Assumptions SRC_new.
Print Assumptions SRC_zipper_merge_and_add.
Print Assumptions SRC_update.
Print Assumptions SRC_permute.
Print Assumptions SRC_permute_and_update.
Print Assumptions SRC_module_reduction.
Print Assumptions SRC_rotate_32_by.
Print Assumptions SRC_update_lanes.
Print Assumptions SRC_data_to_lanes.
Print Assumptions SRC_remainder.
Print Assumptions SRC_packet.
Print Assumptions SRC_update_remainder.
Print Assumptions SRC_finalize.
Print Assumptions SRC_append.
Print Assumptions SRC_checkpoint.
Print Assumptions SRC_from_checkpoint.
