(* SourceKernelWasm — the Wasm SIMD kernel, its helper functions and the V2x64U wrapper of src/wasm.rs, translated from the
   current source text on every run (gen/SrcWasm.v) and interpreted by Facts/VecLite.v over the models of the Wasm SIMD
   operations in Wasm.v, are the hand-written model Wasm.v, function by function.  (Part of C04.) *)
From Coq Require Import NArith List String Bool.
From HW Require Import Word Packet Mem X86 Portable Wasm.
From HW.Facts Require Import VecLite.
From HWGen Require Import SrcWasm.
From HW.Refine Require Import SourceTieSse SourceTieWasm.
Import ListNotations.
Local Open Scope string_scope.
Local Open Scope N_scope.

Notation wcall p b := (vcall (wasm_prim p b) src_wasm).

Theorem SRC_wasm_kernel : forall p b fuel c pH pL x init,
  wcall p b (14 + fuel)%nat "WasmHash::update" (wcore_vals c ++ [XT [X2 pH; X2 pL]]) = Ok (XT (wcore_vals (w_update c pH pL))) /\
  wcall p b (18 + fuel)%nat "WasmHash::permute_and_update" (wcore_vals c) = Ok (XT (wcore_vals (w_permute_and_update c))) /\
  wcall p b (10 + fuel)%nat "WasmHash::zipper_merge" [X2 x] = Ok (X2 (w_zipper_merge x)) /\
  wcall p b (14 + fuel)%nat "WasmHash::modular_reduction" [X2 x; X2 init] = Ok (X2 (w_modular_reduction x init)).
Proof.
  intros. repeat match goal with |- _ /\ _ => split end; [apply wasm_update_ok | apply wasm_permute_and_update_ok | apply wasm_zipper_merge_ok
                        | apply wasm_modular_reduction_ok].
Qed.

(* with the underflow check of  32 - count  in every profile: equal as results, panics included *)
Theorem SRC_wasm_remainder_path : forall p b fuel c count,
  wcall p b (14 + fuel)%nat "WasmHash::rotate_32_by" (wcore_vals c ++ [XN count])
    = lift_w (w_rotate_32_by p c count) (fun c' => XT (wcore_vals c')) /\
  wcall p b (22 + fuel)%nat "WasmHash::update_remainder" (wcore_vals c)
    = lift_w (w_update_remainder p {| w_core := c; w_buffer := b |}) (fun c' => XT (wcore_vals c')).
Proof. intros. split; [apply wasm_rotate_32_by_ok | apply wasm_update_remainder_ok]. Qed.

Theorem SRC_wasm_helpers : forall p b fuel x y k,
  wcall p b (8 + fuel)%nat "_mm_mul_epu32" [X2 x; X2 y] = Ok (X2 (w_mm_mul_epu32 x y)) /\
  wcall p b (8 + fuel)%nat "_mm_srli_epi64" [X2 x; XN k] = Ok (X2 (w_mm_srli_epi64 x k)) /\
  wcall p b (8 + fuel)%nat "_mm_srl_epi32" [X2 x; XN k] = Ok (X2 (w_mm_srl_epi32 x k)) /\
  wcall p b (8 + fuel)%nat "_mm_sll_epi32" [X2 x; XN k] = Ok (X2 (w_mm_sll_epi32 x k)) /\
  wcall p b (8 + fuel)%nat "_mm_slli_si128_8" [X2 x] = Ok (X2 (w_mm_slli_si128_8 x)).
Proof. exact wasm_helpers_ok. Qed.

Theorem SRC_wasm_wrapper : forall p b fuel x y hi lo,
  wcall p b (8 + fuel)%nat "V2x64U::Add::add" [X2 x; X2 y] = Ok (X2 (u64x2_add x y)) /\
  wcall p b (8 + fuel)%nat "V2x64U::BitXor::bitxor" [X2 x; X2 y] = Ok (X2 (v128_xor x y)) /\
  wcall p b (8 + fuel)%nat "V2x64U::BitOr::bitor" [X2 x; X2 y] = Ok (X2 (v128_or x y)) /\
  wcall p b (8 + fuel)%nat "V2x64U::BitAnd::bitand" [X2 x; X2 y] = Ok (X2 (v128_and x y)) /\
  wcall p b (8 + fuel)%nat "V2x64U::rotate_by_32" [X2 x] = Ok (X2 (WV2_rotate_by_32 x)) /\
  wcall p b (8 + fuel)%nat "V2x64U::and_not" [X2 x; X2 y] = Ok (X2 (WV2_and_not x y)) /\
  wcall p b (8 + fuel)%nat "V2x64U::new" [XN hi; XN lo] = Ok (X2 (WV2_new hi lo)).
Proof.
  intros. pose proof (wasm_wrapper_ops p b fuel x y) as H. repeat match goal with |- _ /\ _ => split end; try apply H. apply wasm_new_ok.
Qed.

Theorem SRC_wasm_from_identity : forall p b fuel v f, In f src_wasm_from_impls -> wcall p b (6 + fuel)%nat f [X2 v] = Ok (X2 v).
Proof. exact wasm_from_impls_are_identities. Qed.

Print Assumptions SRC_wasm_kernel.
Print Assumptions SRC_wasm_remainder_path.
Print Assumptions SRC_wasm_helpers.
Print Assumptions SRC_wasm_wrapper.
Print Assumptions SRC_wasm_from_identity.
