(* C04 — the Wasm simd128 hasher returns exactly the portable result for every key, feed list and width, and
   its checkpoints are interchangeable with every other backend's at every cut position. *)
From Coq Require Import NArith List Lia Bool.
From HW Require Import Word Packet Portable Spec Dispatch History.
From HW.Refine Require Import Logical Codec Backends Generic.
From HW.Properties Require Import Common.
Import ListNotations.

Theorem C04_wasm_equals_portable :
  forall (e : env) (k : lanes) (fs : list (list N)) (w : width),
  wlanesb k = true -> wbs fs ->
  exists h p, feed e (HPlain (CW (Wasm.w_new k))) fs = Ok h /\ feed e (HPlain (CP (p_new k))) fs = Ok p /\
              h_finalize e w h = h_finalize e w p /\ h_finalize e w h = Ok (HH w k (concat fs)) /\
              h_checkpoint e h = h_checkpoint e p.
Proof.
  intros e k fs w Hk Hfs.
  destruct (h_new_ok e BW true k Hk) as [E|(h0 & E & I & A)]; [discriminate|]. injection E as <-.
  destruct (h_new_ok e BP true k Hk) as [E|(p0 & E & I' & A')]; [discriminate|]. injection E as <-.
  destruct (feed_ok e fs Hfs _ I) as (h & F & Ih & Ah). destruct (feed_ok e fs Hfs _ I') as (p & F' & Ip & Ap).
  exists h, p. rewrite !h_finalize_ok, !h_checkpoint_ok by assumption.
  rewrite Ah, Ap, A, A', <- spec_as_absorb. auto.
Qed.

(* a checkpoint taken on Wasm simd128 at any cut restores on any hasher type (and vice versa) and every later
   result is that of the uninterrupted stream *)
Theorem C04_checkpoints_interchangeable :
  forall (e : env) (b : backend) (force : bool) (k : lanes) (fs : list (list N)) (segs : list seg) (w : width) (h0 h1 hn : hasher),
  wlanesb k = true -> wbs fs -> segs_ok segs ->
  h_new e b force k = Ok (Some h0) -> feed e h0 fs = Ok h1 -> hops e h1 segs = Ok (Some hn) ->
  h_finalize e w hn = Ok (HH w k (concat fs ++ segs_bytes segs)).
Proof. exact checkpoint_transparent. Qed.

Example C04_example :
  let e := env_of prof_release cfg_wasm in
  match h_new e BW true kdoc with
  | Ok (Some h0) =>
      match feed e h0 [sample 45] with
      | Ok h1 => match hops e h1 [(BP, false, [sample 7]); (BW, true, [sample 70; []]); (BD, false, [sample 3])] with
                 | Ok (Some hn) => h_finalize e W128 hn = Ok (HH W128 kdoc (sample 45 ++ sample 7 ++ sample 70 ++ sample 3))
                 | _ => False end
      | _ => False end
  | _ => False end.
Proof. vm_compute. reflexivity. Qed.

Print Assumptions C04_wasm_equals_portable.
Print Assumptions C04_checkpoints_interchangeable.
