(* SourceKernelNeonFull — src/aarch64.rs as a whole: NeonHash (force_new, update, zipper_merge, permute_and_update,
   modular_reduction, data_to_lanes, load_multiple_of_four, remainder, rotate_32_by, update_remainder, finalize64/128/256, append,
   checkpoint, force_from_checkpoint), the vector wrapper V2x64U with all its operator impls and its five From impls, and
   _mm_slli_si128_8 — translated from the current source text on every run (gen/SrcNeonFull.v) and interpreted by
   Facts/RustLite.v in the one function table SourceTie.all_fns (names under the module path "aarch64::") — is the hand-written
   model Neon.v, function by function.  `unsafe` is dropped by the translator; the raw-pointer constructs are read by the
   interpreter: vld1q_u8 through `a.as_ptr()` / `ptr.offset(16)` is a 16-byte load from the byte array (Fault outside it),
   vld1q_u64([low, hi].as_ptr()) builds the vector from two scalars, vst1q_u64(arr.as_mut_ptr(), v) stores the two lanes, and
   take::<N>(data) — recognised by its exact text — is debug_assert!(data.len() >= N) followed by an unchecked read (Fault when
   too short).  internal::unordered_load3, HashPacket and the PortableHash functions that checkpoint / force_from_checkpoint call are
   the translated ones of the same table; only the NEON instructions get their meaning from outside (RustLite.vprim: the
   intrinsic models of Neon.v).  Hypotheses where needed: the pending buffer holds bytes (each below 256) and its index is at
   most 32; rotate_32_by's count is a non-negative i32.  Not in the fragment: new / from_checkpoint (feature detection around the
   force_ functions), Default, the trait impls that forward.
   (Part of C03: the model C03 is proved about is, for these functions, what the source says today.) *)
From Coq Require Import NArith List String Bool.
From HW Require Import Word Packet Mem X86 Portable Neon.
From HW.Facts Require Import RustLite.
From HWGen Require Import SrcPacket SrcNeonFull.
From HW.Refine Require Import SourceTie SourceTieCkpt SourceTieWasmFull SourceTieWasmBytes SourceTieNeonFull SourceTieNeonBytes SourceTieNeonState SourceTieNeonAppend SourceTieNeonCkpt.
Import ListNotations.
Local Open Scope N_scope.

Notation call p := (call_fn p (wext p) wall_fns).   (* = call_fn p noext all_fns *)

Theorem SRCN_force_new : forall p fuel c e k0 k1 k2 k3,
  call p (S (S (S (S fuel)))) "aarch64::NeonHash::force_new" (ngenv_of c e) [VA [k0;k1;k2;k3]]
  = Ok (ngenv_of (n_core (n_force_new (k0,k1,k2,k3))) packet_default, [Some (VA [k0;k1;k2;k3])], None).
Proof. exact n_force_new_src. Qed.

Theorem SRCN_zipper_merge : forall p fuel g v,
  call p (S (S fuel)) "aarch64::NeonHash::zipper_merge" g [VX v] = Ok (g, [Some (VX v)], Some (VX (n_zipper_merge v))).
Proof. exact n_zipper_merge_src. Qed.

Theorem SRCN_update : forall p fuel c e pH pL,
  call p (S (S (S fuel))) "aarch64::NeonHash::update" (ngenv_of c e) [VTV [pH; pL]]
  = Ok (ngenv_of (n_update c pH pL) e, [Some (VTV [pH; pL])], None).
Proof. exact n_update_src. Qed.

Theorem SRCN_permute_and_update : forall p fuel c e,
  call p (S (S (S (S fuel)))) "aarch64::NeonHash::permute_and_update" (ngenv_of c e) []
  = Ok (ngenv_of (n_permute_and_update c) e, [], None).
Proof. exact n_permute_and_update_src. Qed.

Theorem SRCN_modular_reduction : forall p fuel g x i,
  call p (S (S (S (S fuel)))) "aarch64::NeonHash::modular_reduction" g [VX x; VX i]
  = Ok (g, [Some (VX x); Some (VX i)], Some (VX (n_modular_reduction x i))).
Proof. exact n_modular_reduction_src. Qed.

Theorem SRCN_wrapper : forall p fuel g a b x y,
  call p (S fuel) "aarch64::V2x64U::new" g [VN x; VN y] = Ok (g, [Some (VN x); Some (VN y)], Some (VX (NV2_new x y))) /\
  call p (S fuel) "aarch64::V2x64U::as_arr" g [VX a] = Ok (g, [Some (VX a)], Some (VA [fst (NV2_as_arr a); snd (NV2_as_arr a)])) /\
  call p (S fuel) "aarch64::V2x64U::rotate_by_32" g [VX a] = Ok (g, [Some (VX a)], Some (VX (NV2_rotate_by_32 a))) /\
  call p (S (S (S fuel))) "aarch64::V2x64U::Add::add" g [VX a; VX b] = Ok (g, [Some (VX a); Some (VX b)], Some (VX (vaddq_u64 a b))) /\
  call p (S (S (S fuel))) "aarch64::V2x64U::BitXor::bitxor" g [VX a; VX b] = Ok (g, [Some (VX a); Some (VX b)], Some (VX (veorq_u64 a b))) /\
  call p (S (S (S fuel))) "aarch64::V2x64U::BitOr::bitor" g [VX a; VX b] = Ok (g, [Some (VX a); Some (VX b)], Some (VX (vorrq_u64 a b))) /\
  call p (S (S (S fuel))) "aarch64::V2x64U::BitAnd::bitand" g [VX a; VX b] = Ok (g, [Some (VX a); Some (VX b)], Some (VX (vandq_u64 a b))) /\
  call p (S (S fuel)) "aarch64::V2x64U::AddAssign::add_assign" g [VX a; VX b] = Ok (g, [Some (VX (vaddq_u64 a b)); Some (VX b)], None) /\
  call p (S fuel) "aarch64::_mm_slli_si128_8" g [VX a] = Ok (g, [Some (VX a)], Some (VX (n_slli_si128_8 a))).
Proof.
  intros. repeat match goal with |- _ /\ _ => split end;
    [apply n_new2_src | apply n_as_arr_src | apply n_rotate_by_32_src | apply n_add_src | apply n_xor_src | apply n_or_src | apply n_and_src
     | apply n_add_assign_src | apply n_slli_src].
Qed.

(* every `impl From<T> for V2x64U` is the identity on the 128 bits *)
Theorem SRCN_from_identity : forall p fuel g a,
  call p (S fuel) "aarch64::V2x64U::From<uint64x2_t>::from" g [VX a] = Ok (g, [Some (VX a)], Some (VX a)) /\
  call p (S fuel) "aarch64::V2x64U::From<uint32x4_t>::from" g [VX a] = Ok (g, [Some (VX a)], Some (VX a)) /\
  call p (S fuel) "aarch64::V2x64U::From<int32x4_t>::from" g [VX a] = Ok (g, [Some (VX a)], Some (VX a)) /\
  call p (S fuel) "aarch64::V2x64U::From<uint16x8_t>::from" g [VX a] = Ok (g, [Some (VX a)], Some (VX a)) /\
  call p (S fuel) "aarch64::V2x64U::From<uint8x16_t>::from" g [VX a] = Ok (g, [Some (VX a)], Some (VX a)).
Proof. exact n_from_src. Qed.

(* byte-level: the two 16-byte loads of data_to_lanes, for a slice of ANY length (shorter than 32 bytes: Fault on both sides) *)
Theorem SRCN_data_to_lanes : forall p fuel g d a,
  call p (S (S fuel)) "aarch64::NeonHash::data_to_lanes" g [VA d]
  = lift (n_data_to_lanes {| mbytes := d; maddr := a |}) (fun r => (g, [Some (VA d)], Some (VTV [fst r; snd r]))).
Proof. exact n_data_to_lanes_src. Qed.

Theorem SRCN_load_multiple_of_four : forall p fuel g bytes, ((List.length bytes <= 15)%nat \/ List.length bytes = 32%nat) ->
  call p (S (S (S (S fuel)))) "aarch64::NeonHash::load_multiple_of_four" g [VA bytes; VN (N.of_nat (List.length bytes))]
  = lift (n_load_multiple_of_four p {| mbytes := bytes; maddr := N_BUF_ADDR |} (List.length bytes))
         (fun r => (g, [Some (VA bytes); Some (VN (N.of_nat (List.length bytes)))], Some (VX r))).
Proof. exact n_load4_src. Qed.

Theorem SRCN_remainder : forall p fuel g bytes, (List.length bytes <= 32)%nat -> wbytesb bytes = true ->
  call p (S (S (S (S (S fuel))))) "aarch64::NeonHash::remainder" g [VA bytes]
  = lift (n_remainder p {| mbytes := bytes; maddr := N_BUF_ADDR |}) (fun r => (g, [Some (VA bytes)], Some (VTV [fst r; snd r]))).
Proof. exact n_remainder_src. Qed.

Theorem SRCN_rotate_32_by : forall p fuel c e count, count < 2147483648 ->
  call p (S (S (S (S fuel)))) "aarch64::NeonHash::rotate_32_by" (ngenv_of c e) [VN count]
  = Ok (ngenv_of (n_rotate_32_by c count) e, [Some (VN count)], None).
Proof. exact n_rotate_32_by_src. Qed.

Theorem SRCN_update_remainder : forall p fuel c b, wfpb b -> (Packet.idx b <= 32)%nat ->
  call p (S (S (S (S (S (S fuel)))))) "aarch64::NeonHash::update_remainder" (ngenv_of c b) []
  = lift (n_update_remainder p {| n_core := c; n_buffer := b |}) (fun c' => (ngenv_of c' b, [], None)).
Proof. exact n_update_remainder_src. Qed.

Theorem SRCN_finalize : forall p fuel c b, wfpb b -> (Packet.idx b <= 32)%nat ->
  ret_of (call p (S (S (S (S (S (S (S fuel))))))) "aarch64::NeonHash::finalize64" (ngenv_of c b) [])
    = lift_ret (n_finalize64 p {| n_core := c; n_buffer := b |}) VN /\
  ret_of (call p (S (S (S (S (S (S (S fuel))))))) "aarch64::NeonHash::finalize128" (ngenv_of c b) [])
    = lift_ret (n_finalize128 p {| n_core := c; n_buffer := b |}) (fun lh => VA [fst lh; snd lh]) /\
  ret_of (call p (S (S (S (S (S (S (S fuel))))))) "aarch64::NeonHash::finalize256" (ngenv_of c b) [])
    = lift_ret (n_finalize256 p {| n_core := c; n_buffer := b |}) (fun l => VA (ll l)).
Proof.
  intros p fuel c b W H. repeat match goal with |- _ /\ _ => split end;
    [apply n_finalize64_src | apply n_finalize128_src | apply n_finalize256_src]; assumption.
Qed.

Theorem SRCN_append : forall p fuel c b data addr, wfp b ->
  call p (S (S (S (S (S fuel))))) "aarch64::NeonHash::append" (ngenv_of c b) [VA data]
  = lift (n_append p addr {| n_core := c; n_buffer := b |} data)
         (fun s' => (ngenv_of (n_core s') (n_buffer s'), [Some (VA data)], None)).
Proof. exact n_append_src. Qed.

Theorem SRCN_checkpoint : forall p fuel c b, wfp b ->
  ret_of' (call p (S (S (S fuel))) "aarch64::NeonHash::checkpoint" (ngenv_of c b) [])
  = lift_ret' (n_checkpoint p {| n_core := c; n_buffer := b |}) VA.
Proof. exact n_checkpoint_src. Qed.

Theorem SRCN_force_from_checkpoint : forall p fuel c b data, List.length data = 164%nat ->
  call p (S (S (S (S (S (S fuel)))))) "aarch64::NeonHash::force_from_checkpoint" (ngenv_of c b) [VA data]
  = lift (n_force_from_checkpoint p data) (fun s' => (ngenv_of (n_core s') (n_buffer s'), [Some (VA data)], None)).
Proof. exact n_force_from_checkpoint_src. Qed.

(* non-vacuity: the interpreter runs the translated aarch64.rs *)
Example SRCN_runs :
  exists g, call prof_dev 9 "aarch64::NeonHash::force_new" (ngenv_of (n_core (n_force_new (0,0,0,0))) packet_default) [VA [1;2;3;4]] = Ok (g, [Some (VA [1;2;3;4])], None)
            /\ g = ngenv_of (n_core (n_force_new (1,2,3,4))) packet_default.
Proof. eexists. split; vm_compute; reflexivity. Qed.

Print Assumptions SRCN_force_new.
Print Assumptions SRCN_update.
Print Assumptions SRCN_wrapper.
Print Assumptions SRCN_remainder.
Print Assumptions SRCN_update_remainder.
Print Assumptions SRCN_finalize.
Print Assumptions SRCN_append.
Print Assumptions SRCN_checkpoint.
Print Assumptions SRCN_force_from_checkpoint.
