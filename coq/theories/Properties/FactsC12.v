(* FactsC12.v — the std adapters of every hasher type come from the two macros of src/macros.rs and from nowhere else, and
   those macros have exactly the audited text:  io::Write::write = { HighwayHash::append(self, bytes); Ok(bytes.len()) },
   flush = Ok(()),  Hasher::write = HighwayHash::append,  Hasher::finish = HighwayHash::finalize64(self.clone())  — which is what
   History.v models (OWrite / OHWrite / OFinish).  No file writes out an impl of Hasher or io::Write by hand, so none can override a
   provided method (write_u64 ..., write_all, write_vectored) either. *)
From Coq Require Import String List NArith Bool.
From HW.Facts Require Import FactTypes FactChecks.
From HWGen Require Import SrcFacts.
Import ListNotations.
Local Open Scope string_scope.

Definition expected_adapter_macros : list (string * list string) :=
  [("impl_write", ["("; "$"; "hasher_struct"; ":"; "ty"; ")"; "="; ">"; "{"; "#"; "["; "cfg"; "("; "feature"; "="; """std"""; ")"; "]"; "impl"; ":"; ":"; "std"; ":"; ":"; "io"; ":"; ":"; "Write"; "for"; "$"; "hasher_struct"; "{"; "fn"; "write"; "("; "&"; "mut"; "self"; ","; "bytes"; ":"; "&"; "["; "u8"; "]"; ")"; "-"; ">"; ":"; ":"; "std"; ":"; ":"; "io"; ":"; ":"; "Result"; "<"; "usize"; ">"; "{"; "$"; "crate"; ":"; ":"; "HighwayHash"; ":"; ":"; "append"; "("; "self"; ","; "bytes"; ")"; ";"; "Ok"; "("; "bytes"; "."; "len"; "("; ")"; ")"; "}"; "fn"; "flush"; "("; "&"; "mut"; "self"; ")"; "-"; ">"; ":"; ":"; "std"; ":"; ":"; "io"; ":"; ":"; "Result"; "<"; "("; ")"; ">"; "{"; "Ok"; "("; "("; ")"; ")"; "}"; "}"; "}"; ";"]); ("impl_hasher", ["("; "$"; "hasher_struct"; ":"; "ty"; ")"; "="; ">"; "{"; "impl"; ":"; ":"; "core"; ":"; ":"; "hash"; ":"; ":"; "Hasher"; "for"; "$"; "hasher_struct"; "{"; "fn"; "write"; "("; "&"; "mut"; "self"; ","; "bytes"; ":"; "&"; "["; "u8"; "]"; ")"; "{"; "$"; "crate"; ":"; ":"; "HighwayHash"; ":"; ":"; "append"; "("; "self"; ","; "bytes"; ")"; ";"; "}"; "fn"; "finish"; "("; "&"; "self"; ")"; "-"; ">"; "u64"; "{"; "$"; "crate"; ":"; ":"; "HighwayHash"; ":"; ":"; "finalize64"; "("; "self"; "."; "clone"; "("; ")"; ")"; "}"; "}"; "}"; ";"])].

Fixpoint strs_eqb (a b : list string) : bool :=
  match a, b with
  | [], [] => true
  | x :: a', y :: b' => String.eqb x y && strs_eqb a' b'
  | _, _ => false
  end.
Fixpoint macro_defs_eqb (a b : list (string * list string)) : bool :=
  match a, b with
  | [], [] => true
  | (n, t) :: a', (m, u) :: b' => String.eqb n m && strs_eqb t u && macro_defs_eqb a' b'
  | _, _ => false
  end.

Definition adapters_ok (fs : list file_facts) : bool :=
  forallb (fun f => forallb (fun ti => negb (mem_str (fst ti) ["Hasher"; "Write"])) (ff_trait_impls f)) fs
  && match find_file fs "src/macros.rs" with
     | Some f => macro_defs_eqb (ff_macro_defs f) expected_adapter_macros
     | None => false
     end
  (* nobody else defines macros of these names *)
  && forallb (fun f => String.eqb (ff_path f) "src/macros.rs"
                       || forallb (fun d => negb (mem_str (fst d) ["impl_write"; "impl_hasher"])) (ff_macro_defs f)) fs.

Theorem C12_adapter_macros : adapters_ok all_files = true.
Proof. vm_compute. reflexivity. Qed.
Print Assumptions C12_adapter_macros.
