(* Common.v — vocabulary shared by the property files. *)
From Coq Require Import NArith List Bool.
From HW Require Import Word Packet Portable Spec Dispatch History.
Import ListNotations.

(* a few concrete environments and inputs for the non-vacuity examples *)
Definition cfg_host : config :=
  {| c_arch := X86_64; tf_avx2 := false; tf_sse41 := false; c_std := true; det_avx2 := true; det_sse41 := true; c_simd128 := false |}.
Definition cfg_arm : config :=
  {| c_arch := AArch64; tf_avx2 := false; tf_sse41 := false; c_std := true; det_avx2 := false; det_sse41 := false; c_simd128 := false |}.
Definition cfg_wasm : config :=
  {| c_arch := Wasm32; tf_avx2 := false; tf_sse41 := false; c_std := false; det_avx2 := false; det_sse41 := false; c_simd128 := true |}.
Definition env_of (p : profile) (c : config) : env := {| e_prof := p; e_cfg := c; e_addr := 13%N |}.
Definition sample (n : nat) : list N := map (fun i => N.land (N.of_nat i * 37 + 200) 255) (seq 0 n).
Definition kdoc : lanes := (1, 2, 3, 4)%N.
