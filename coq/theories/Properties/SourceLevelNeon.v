(* SourceLevelNeon — properties of the SOURCE TEXT of src/aarch64.rs.  [nsrc_hash] runs, with the interpreter of Facts/RustLite.v,
   the functions translated from the current src/aarch64.rs and src/internal.rs (gen/SrcNeonFull.v, gen/SrcPacket.v):
       NeonHash::force_new(key);  append(d1); ...; append(dn);  finalize64 / 128 / 256
   For every key (four u64), every list of byte slices, every width and every build profile the result is Ok (no panic, no
   out-of-bounds raw load), equals HighwayHash of the concatenation, does not depend on how the bytes were cut into appends, and is
   the result the interpreted source of PortableHash gives (C03).  Checkpoints: the 164 bytes are encode of the logical state (the
   same bytes the interpreted portable.rs writes), any 164 bytes restore, checkpoint/restore is transparent.
   Obtained by composing the translator tie (SourceKernelNeonFull.v) with the model's refinement theorems (NeonRefine.v). *)
From Coq Require Import NArith List String Bool Lia.
From HW Require Import Word Packet Mem Portable Spec X86 Neon.
From HW.Facts Require Import RustLite.
From HWGen Require Import SrcPortable SrcPacket SrcNeonFull.
From HW.Refine Require Import Logical Codec PortableRefine PortableCodec StreamRefine Generic NeonRefine SourceTie SourceTieCkpt SourceTieWasmFull SourceTieWasmBytes SourceTieNeonFull SourceTieNeonBytes SourceTieNeonState SourceTieNeonAppend SourceTieNeonCkpt.
From HW.Properties Require Import SourceLevel SourceLevelWasm.
Import ListNotations.
Local Open Scope N_scope.

Notation nscall p := (call_fn p (wext p) wall_fns).

Definition NG0 : env := ngenv_of (n_core (n_force_new (0,0,0,0))) packet_default.

Fixpoint nsrc_feed (p : profile) (g : env) (ds : list (list N)) : res env :=
  match ds with
  | [] => Ok g
  | d :: ds' => do r <- nscall p 9 "aarch64::NeonHash::append" g [VA d] ;; nsrc_feed p (fst (fst r)) ds'
  end.
Definition nfin_name (w : width) : string :=
  match w with W64 => "aarch64::NeonHash::finalize64" | W128 => "aarch64::NeonHash::finalize128" | W256 => "aarch64::NeonHash::finalize256" end%string.
Definition nsrc_finish (p : profile) (w : width) (g : env) : res (option val) := ret_of (nscall p 9 (nfin_name w) g []).
Definition nsrc_hash (p : profile) (w : width) (k : lanes) (ds : list (list N)) : res (option val) :=
  do r0 <- nscall p 9 "aarch64::NeonHash::force_new" NG0 [VA (ll k)] ;;
  do g <- nsrc_feed p (fst (fst r0)) ds ;;
  nsrc_finish p w g.

Definition all_bytes (ds : list (list N)) : bool := forallb wbytesb ds.
Lemma all_bytes_concat ds : all_bytes ds = true -> wbytesb (List.concat ds) = true.
Proof.
  induction ds as [|d ds IH]; cbn [all_bytes forallb List.concat]; [reflexivity|].
  intros H. apply andb_true_iff in H as [Hd Hs]. unfold wbytesb. rewrite forallb_app. apply andb_true_iff. split; [exact Hd|apply IH; exact Hs].
Qed.

Lemma NInv_wfp s : NInv s -> wfp (n_buffer s).
Proof. intros [_ [[Hl Hi] _]]. split; [exact Hl|]. unfold M64. lia. Qed.
Lemma NInv_wfpb s : NInv s -> wfpb (n_buffer s).
Proof. intros HI. split; [apply NInv_wfp; exact HI|]. destruct HI as [_ [_ Hb]]. exact Hb. Qed.

Lemma nsrc_feed_ok p ds : forall s, NInv s -> all_bytes ds = true ->
  exists s', nsrc_feed p (ngenv_of (n_core s) (n_buffer s)) ds = Ok (ngenv_of (n_core s') (n_buffer s')) /\ NInv s' /\
             nabs s' = absorb (nabs s) (List.concat ds).
Proof.
  induction ds as [|d ds IH]; intros s HI HB; cbn [nsrc_feed List.concat].
  - exists s. split; [reflexivity|]. split; [exact HI|]. symmetry. apply absorb_nil.
    destruct HI as [_ [[Hl Hi] _]]. unfold Lwf, nabs, pending. cbn [snd]. rewrite firstn_length. lia.
  - cbn [all_bytes forallb] in HB. apply andb_true_iff in HB as [Hd Hs].
    destruct (n_append_ok p 0 s d HI Hd) as (s1 & E1 & HI1 & A1).
    change (call_fn p (wext p) wall_fns 9 "aarch64::NeonHash::append" ?g ?a)
      with (call_fn p (wext p) wall_fns (S (S (S (S (S 4))))) "aarch64::NeonHash::append" g a).
    rewrite (n_append_src p 4 (n_core s) (n_buffer s) d 0 (NInv_wfp s HI)).
    replace {| n_core := n_core s; n_buffer := n_buffer s |} with s by (destruct s; reflexivity).
    rewrite E1. cbn [lift bind fst].
    destruct (IH s1 HI1 Hs) as (s' & E' & HI' & A').
    exists s'. split; [exact E'|]. split; [exact HI'|]. rewrite A', A1. apply absorb_app.
Qed.

Lemma nsrc_finish_ok p w s : NInv s ->
  nsrc_finish p w (ngenv_of (n_core s) (n_buffer s)) = Ok (Some (val_of_digest w (out w (nabs s)))).
Proof.
  intros HI. unfold nsrc_finish.
  pose proof (n_finalize_ok p w s HI) as F.
  pose proof (NInv_wfpb s HI) as W'.
  assert (H32 : (Packet.idx (n_buffer s) <= 32)%nat) by (destruct HI as [_ [[_ Hi] _]]; lia).
  destruct s as [c b]. cbn [n_core n_buffer] in *.
  destruct w; cbn [n_finalize nfin_name] in F |- *.
  - change (call_fn p (wext p) wall_fns 9 "aarch64::NeonHash::finalize64"%string ?g ?a)
      with (call_fn p (wext p) wall_fns (S (S (S (S (S (S (S 2))))))) "aarch64::NeonHash::finalize64"%string g a).
    rewrite (n_finalize64_src p 2 c b W' H32).
    destruct (n_finalize64 p {| n_core := c; n_buffer := b |}) as [x| |]; cbn [bind] in F; try discriminate.
    apply (f_equal (fun r => match r with Ok l => l | _ => [] end)) in F. cbv beta iota in F. rewrite <- F. reflexivity.
  - change (call_fn p (wext p) wall_fns 9 "aarch64::NeonHash::finalize128"%string ?g ?a)
      with (call_fn p (wext p) wall_fns (S (S (S (S (S (S (S 2))))))) "aarch64::NeonHash::finalize128"%string g a).
    rewrite (n_finalize128_src p 2 c b W' H32).
    destruct (n_finalize128 p {| n_core := c; n_buffer := b |}) as [x| |]; cbn [bind] in F; try discriminate.
    apply (f_equal (fun r => match r with Ok l => l | _ => [] end)) in F. cbv beta iota in F. rewrite <- F. reflexivity.
  - change (call_fn p (wext p) wall_fns 9 "aarch64::NeonHash::finalize256"%string ?g ?a)
      with (call_fn p (wext p) wall_fns (S (S (S (S (S (S (S 2))))))) "aarch64::NeonHash::finalize256"%string g a).
    rewrite (n_finalize256_src p 2 c b W' H32).
    destruct (n_finalize256 p {| n_core := c; n_buffer := b |}) as [x| |]; cbn [bind] in F; try discriminate.
    apply (f_equal (fun r => match r with Ok l => l | _ => [] end)) in F. cbv beta iota in F. rewrite <- F.
    destruct x as [[[x0 x1] x2] x3]. reflexivity.
Qed.

(* from any reachable state: further appends and a finalize are Ok and a function of the logical state and the bytes *)
Theorem SRCN_source_continue : forall p w s ds, NInv s -> all_bytes ds = true ->
  (do g <- nsrc_feed p (ngenv_of (n_core s) (n_buffer s)) ds ;; nsrc_finish p w g)
  = Ok (Some (val_of_digest w (out w (absorb (nabs s) (List.concat ds))))).
Proof.
  intros p w s ds HI HB. destruct (nsrc_feed_ok p ds s HI HB) as (s' & E' & HI' & A').
  rewrite E'. cbn [bind]. rewrite (nsrc_finish_ok p w s' HI'), A'. reflexivity.
Qed.

(* the interpreted aarch64.rs computes HighwayHash: for every key of four u64, all byte slices, every width, every profile *)
Theorem SRCN_source_is_highwayhash : forall (p : profile) (w : width) (k0 k1 k2 k3 : N) (ds : list (list N)),
  wlanesb (k0,k1,k2,k3) = true -> all_bytes ds = true ->
  nsrc_hash p w (k0,k1,k2,k3) ds = Ok (Some (val_of_digest w (HH w (k0,k1,k2,k3) (List.concat ds)))).
Proof.
  intros p w k0 k1 k2 k3 ds HK HB. unfold nsrc_hash, NG0.
  change (call_fn p (wext p) wall_fns 9 "aarch64::NeonHash::force_new"%string ?g ?a) with (call_fn p (wext p) wall_fns (S (S (S (S 5)))) "aarch64::NeonHash::force_new"%string g a).
  cbn [ll lane0 lane1 lane2 lane3].
  rewrite (n_force_new_src p 5 _ packet_default k0 k1 k2 k3). cbn [bind fst].
  set (k := (k0,k1,k2,k3)) in *.
  destruct (n_force_new_ok k HK) as [I0 A0].
  change (ngenv_of (n_core (n_force_new k)) packet_default) with (ngenv_of (n_core (n_force_new k)) (n_buffer (n_force_new k))).
  rewrite (SRCN_source_continue p w (n_force_new k) ds I0 HB), A0, <- spec_as_absorb. reflexivity.
Qed.

Corollary SRCN_source_streaming_invariance : forall p w k0 k1 k2 k3 ds1 ds2,
  wlanesb (k0,k1,k2,k3) = true -> all_bytes ds1 = true -> all_bytes ds2 = true -> List.concat ds1 = List.concat ds2 ->
  nsrc_hash p w (k0,k1,k2,k3) ds1 = nsrc_hash p w (k0,k1,k2,k3) ds2.
Proof. intros. rewrite !SRCN_source_is_highwayhash by assumption. congruence. Qed.

(* C03 between the two source texts: aarch64.rs and portable.rs, both interpreted, give the same digest *)
Corollary SRCN_source_agrees_with_portable_source : forall p p' w k0 k1 k2 k3 ds,
  wlanesb (k0,k1,k2,k3) = true -> all_bytes ds = true ->
  nsrc_hash p w (k0,k1,k2,k3) ds = src_hash p' w (k0,k1,k2,k3) ds.
Proof. intros. rewrite SRCN_source_is_highwayhash by assumption. rewrite SRC_source_is_highwayhash. reflexivity. Qed.

(* the two SIMD source texts against each other: aarch64.rs and wasm.rs, both interpreted, give the same digest *)
Corollary SRCN_source_agrees_with_wasm_source : forall p p' w k0 k1 k2 k3 ds,
  wlanesb (k0,k1,k2,k3) = true -> all_bytes ds = true ->
  nsrc_hash p w (k0,k1,k2,k3) ds = wsrc_hash p' w (k0,k1,k2,k3) ds.
Proof.
  intros. rewrite SRCN_source_is_highwayhash by assumption.
  rewrite (SRCW_source_is_highwayhash p' w k0 k1 k2 k3 ds) by assumption. reflexivity.
Qed.

(* ---- checkpoints, at the level of the source text of aarch64.rs *)
(* C14: the 164 bytes are encode of the logical state — hence the same bytes the interpreted portable.rs produces for a state with
   the same logical state (C03/C06: checkpoints are interchangeable between backends) *)
Theorem SRCN_source_checkpoint_canonical : forall p s, NInv s ->
  ret_of' (nscall p 9 "aarch64::NeonHash::checkpoint" (ngenv_of (n_core s) (n_buffer s)) []) = Ok (Some (VA (encode (nabs s)))).
Proof.
  intros p s HI.
  change (call_fn p (wext p) wall_fns 9 "aarch64::NeonHash::checkpoint"%string ?g ?a) with (call_fn p (wext p) wall_fns (S (S (S 6))) "aarch64::NeonHash::checkpoint"%string g a).
  rewrite (n_checkpoint_src p 6 (n_core s) (n_buffer s) (NInv_wfp s HI)).
  replace {| n_core := n_core s; n_buffer := n_buffer s |} with s by (destruct s; reflexivity).
  rewrite (n_checkpoint_ok p s HI). reflexivity.
Qed.

Corollary SRCN_source_checkpoint_interchangeable : forall p p' ws s, NInv ws -> Inv s -> nabs ws = abs s ->
  ret_of' (nscall p 9 "aarch64::NeonHash::checkpoint" (ngenv_of (n_core ws) (n_buffer ws)) [])
  = ret_of' (call_fn p' noext all_fns 9 "checkpoint" (genv_of (core s) (buffer s)) []).
Proof.
  intros p p' ws s HW HI E. rewrite (SRCN_source_checkpoint_canonical p ws HW), (SRC_source_checkpoint_canonical p' s HI), E. reflexivity.
Qed.

(* C11: ANY 164 bytes restore, in every profile, to a state in the invariant whose logical state is decode of the bytes *)
Theorem SRCN_source_restore_total : forall p c0 b0 c, List.length c = 164%nat -> wbytesb c = true ->
  exists s', nscall p 9 "aarch64::NeonHash::force_from_checkpoint" (ngenv_of c0 b0) [VA c] = Ok (ngenv_of (n_core s') (n_buffer s'), [Some (VA c)], None) /\
             NInv s' /\ nabs s' = decode c.
Proof.
  intros p c0 b0 c Hc Hb.
  change (call_fn p (wext p) wall_fns 9 "aarch64::NeonHash::force_from_checkpoint"%string ?g ?a)
    with (call_fn p (wext p) wall_fns (S (S (S (S (S (S 3)))))) "aarch64::NeonHash::force_from_checkpoint"%string g a).
  rewrite (n_force_from_checkpoint_src p 3 c0 b0 c Hc).
  destruct (n_restore_ok p c Hb) as (s' & E & HI & A). exists s'. rewrite E. cbn [lift]. split; [reflexivity|]. split; assumption.
Qed.

(* C06: checkpoint, restore (into any hasher value), and carry on — same results as carrying on directly *)
Definition nsrc_hop (p : profile) (g g0 : env) : res env :=
  do o <- ret_of' (nscall p 9 "aarch64::NeonHash::checkpoint" g []) ;;
  match o with
  | Some (VA ck) => do r <- nscall p 9 "aarch64::NeonHash::force_from_checkpoint" g0 [VA ck] ;; Ok (fst (fst r))
  | _ => Fault
  end.

Theorem SRCN_source_checkpoint_transparent : forall p w s c0 b0 ds, NInv s -> all_bytes ds = true ->
  (do g' <- nsrc_hop p (ngenv_of (n_core s) (n_buffer s)) (ngenv_of c0 b0) ;; do g <- nsrc_feed p g' ds ;; nsrc_finish p w g)
  = (do g <- nsrc_feed p (ngenv_of (n_core s) (n_buffer s)) ds ;; nsrc_finish p w g).
Proof.
  intros p w s c0 b0 ds HI HB. unfold nsrc_hop.
  rewrite (SRCN_source_checkpoint_canonical p s HI). cbn [bind].
  assert (HL : Lwf (nabs s)).
  { destruct HI as [_ [[Hl Hi] _]]. unfold Lwf, nabs, pending. cbn [snd]. rewrite firstn_length. lia. }
  assert (HH : Hwf (fst (nabs s))) by (apply NCwf_Hwf; exact (proj1 HI)).
  assert (Hpb : wbytesb (snd (nabs s)) = true).
  { destruct HI as [_ [_ Hb]]. unfold nabs, pending. cbn [snd]. apply wbytesb_firstn. exact Hb. }
  destruct (SRCN_source_restore_total p c0 b0 (encode (nabs s)) (encode_length _ HL) (encode_wb _ Hpb)) as (s' & E & HI' & A).
  rewrite E. cbn [bind fst].
  rewrite (SRCN_source_continue p w s' ds HI' HB), (SRCN_source_continue p w s ds HI HB), A.
  rewrite (decode_encode (nabs s) HL HH). reflexivity.
Qed.

(* non-vacuity: a published vector through three appends, run by the interpreter on the translated aarch64.rs *)
Example SRCN_source_vector :
  nsrc_hash prof_dev W64 (0x0706050403020100, 0x0F0E0D0C0B0A0908, 0x1716151413121110, 0x1F1E1D1C1B1A1918) [[0]; []; [1; 2]]
  = Ok (Some (VN (nth0 (HH W64 (0x0706050403020100, 0x0F0E0D0C0B0A0908, 0x1716151413121110, 0x1F1E1D1C1B1A1918) [0; 1; 2]) 0))).
Proof. vm_compute. reflexivity. Qed.

Print Assumptions SRCN_source_continue.
Print Assumptions SRCN_source_is_highwayhash.
Print Assumptions SRCN_source_streaming_invariance.
Print Assumptions SRCN_source_agrees_with_portable_source.
Print Assumptions SRCN_source_agrees_with_wasm_source.
Print Assumptions SRCN_source_checkpoint_canonical.
Print Assumptions SRCN_source_checkpoint_interchangeable.
Print Assumptions SRCN_source_restore_total.
Print Assumptions SRCN_source_checkpoint_transparent.
