(* C05 — streaming invariance: for every hasher type, key, environment and ANY list of chunks
   (empty and single-byte ones included), feeding the chunks one after the other and finalizing gives
   HighwayHash of the concatenation.  write / write_all / io::copy / Hasher::write / the one-shot
   helpers are [h_append] by the definition of the interpreter (History.step), i.e. by macros.rs. *)
From Coq Require Import NArith List Lia Bool.
From HW Require Import Word Packet Portable Spec Dispatch History.
From HW.Refine Require Import Logical Backends Generic.
From HW.Properties Require Import Common.
Import ListNotations.

Theorem C05_streaming_invariance :
  forall (e : env) (b : backend) (force : bool) (k : lanes) (fs : list (list N)) (w : width) (h0 : hasher),
  wlanesb k = true -> wbs fs -> h_new e b force k = Ok (Some h0) ->
  exists h, feed e h0 fs = Ok h /\ h_finalize e w h = Ok (HH w k (concat fs)).
Proof. exact streaming. Qed.

(* two chunkings of the same bytes: same digest *)
Corollary C05_two_chunkings :
  forall e b force k fs1 fs2 w h0, wlanesb k = true -> wbs fs1 -> wbs fs2 -> concat fs1 = concat fs2 ->
  h_new e b force k = Ok (Some h0) ->
  exists x y, feed e h0 fs1 = Ok x /\ feed e h0 fs2 = Ok y /\ h_finalize e w x = h_finalize e w y.
Proof.
  intros e b force k fs1 fs2 w h0 Hk H1 H2 Hc Hn.
  destruct (streaming e b force k fs1 w h0 Hk H1 Hn) as (x & F & D).
  destruct (streaming e b force k fs2 w h0 Hk H2 Hn) as (y & F' & D').
  exists x, y. rewrite D, D', Hc. auto.
Qed.

(* from any reachable state (e.g. a restored hasher), not only from a fresh one *)
Theorem C05_from_any_state :
  forall e h fs, HInv e h -> wbs fs ->
  exists h', feed e h fs = Ok h' /\ HInv e h' /\ habs h' = absorb (habs h) (concat fs).
Proof. intros e h fs HI Hfs. exact (feed_ok e fs Hfs h HI). Qed.

(* the entry points of the interpreter are the same function *)
Theorem C05_entry_points : forall e rs r d,
  fst (fst (step e rs (OWrite r d))) = fst (fst (step e rs (OAppend r d))) /\
  fst (fst (step e rs (OHWrite r d))) = fst (fst (step e rs (OAppend r d))) /\
  fst (fst (step e rs (OWriteAll r d))) = fst (fst (step e rs (OAppend r d))) /\
  fst (fst (step e rs (OIoCopy r d))) = fst (fst (step e rs (OAppend r d))).
Proof.
  intros e rs r d. cbn [step]. destruct (lookup rs r) as [h|]; [|auto].
  destruct (h_append e h d); auto.
Qed.

Example C05_example :
  let e := env_of prof_dev cfg_host in
  map (fun b => match h_new e b true kdoc with
                | Ok (Some h) => match feed e h [sample 31; []; sample 1; sample 97; []; sample 2] with
                                 | Ok h' => h_finalize e W64 h' | _ => Panic end
                | _ => Panic end) [BP; BS; BA; BN; BW; BD]
  = repeat (Ok (HH W64 kdoc (sample 31 ++ sample 1 ++ sample 97 ++ sample 2))) 6.
Proof. vm_compute. reflexivity. Qed.

Print Assumptions C05_streaming_invariance.
Print Assumptions C05_from_any_state.
Print Assumptions C05_entry_points.
