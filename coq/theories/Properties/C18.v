(* C18 — no operation allocates (partial: allocation is run-time library behaviour no Gallina model exhibits).
   What the proof carries: (a) over the regenerated inventory: no allocation-capable construct anywhere in
   the crate outside #[cfg(test)], no non-dev dependency, no build script, `std` is the only feature;
   (b) in the model every reachable hasher has a 32-byte packet buffer and fixed-size lanes: no operation
   needs storage that grows with the input.  The counting allocator in the harness observes the rest. *)
From Coq Require Import String List NArith Bool.
From HW Require Import Word Packet Portable Dispatch History.
From HW.Refine Require Import Logical PortableRefine StreamRefine Backends Generic.
From HW.Facts Require Import FactTypes FactChecks.
From HWGen Require Import SrcFacts.
Import ListNotations.
Local Open Scope string_scope.

Theorem C18_no_alloc_constructs : no_alloc all_files cargo_features cargo_deps cargo_has_build_script = true.
Proof. vm_compute. reflexivity. Qed.

Definition buffer_of (h : hcore) : packet :=
  match h with
  | CP s => buffer s | CS s => Sse.s_buffer s | CA s => Avx.a_buffer s | CN s => Neon.n_buffer s | CW s => Wasm.w_buffer s
  end.

(* every hasher in the invariant has a 32-byte buffer holding fewer than 32 pending bytes *)
Theorem C18_fixed_size_state : forall e h, HInv e h ->
  length (buf (buffer_of (hcore_of h))) = 32%nat /\ (idx (buffer_of (hcore_of h)) < 32)%nat.
Proof.
  intros e h HI. assert (HC : CInv (hcore_of h)) by (destruct h; [exact HI|exact (proj1 HI)]).
  destruct (hcore_of h) as [s|s|s|s|s]; cbn [CInv buffer_of] in *.
  - exact (proj1 HC).
  - exact (proj1 (proj2 HC)).
  - exact (proj1 (proj2 HC)).
  - exact (proj1 (proj2 HC)).
  - exact (proj1 (proj2 HC)).
Qed.

(* ... and this holds for every register after every well-formed history (Generic.step_safe) *)
Theorem C18_reachable : forall e rs o, regs_ok e rs -> wf_op o -> regs_ok e (fst (fst (step e rs o))).
Proof.
  intros e rs o Hr Hw. pose proof (step_safe e rs o Hr Hw) as S. destruct (step e rs o) as [[rs' outs] c]. exact (proj1 S).
Qed.

Print Assumptions C18_no_alloc_constructs.
Print Assumptions C18_fixed_size_state.
