(* SourceKernelWasmFull — src/wasm.rs as a whole: WasmHash (new, update, zipper_merge, permute_and_update, modular_reduction,
   le_u64, data_to_lanes, load_multiple_of_four, remainder, rotate_32_by, update_remainder, finalize64/128/256, append), the
   vector wrapper V2x64U with all its operator impls, and the helper functions named after x86 intrinsics — translated from the
   current source text on every run (gen/SrcWasmFull.v, with HashPacket from gen/SrcPacket.v) and interpreted by
   Facts/RustLite.v — is the hand-written model Wasm.v, function by function, for every state, every argument, every data
   slice, every build profile and every call depth the interpreter is given.  internal::unordered_load3, which wasm.rs calls,
   is translated from src/internal.rs and run by the interpreter like the rest; the ONLY thing supplied from outside is the
   meaning of the wasm32 SIMD instructions (RustLite.vprim / sprim: the intrinsic models of Wasm.v).  Where the path goes
   through unordered_load3 the slices are slices of bytes (each element below 256: its u64 sums then cannot overflow, whatever
   the build profile checks).  checkpoint (written in `impl HighwayHash for WasmHash`) and from_checkpoint go through
   PortableHash: the PortableHash functions they call are the translated ones of the same table (SourceTie.all_fns).
   Not in the fragment: Default, and the trait impls that forward.
   (Part of C04: the model C04 is proved about is, for these functions, what the source says today.) *)
From Coq Require Import NArith List String Bool.
From HW Require Import Word Packet X86 Portable Wasm.
From HW.Facts Require Import RustLite.
From HWGen Require Import SrcPacket SrcWasmFull.
From HW.Refine Require Import SourceTie SourceTieCkpt SourceTieWasmFull SourceTieWasmBytes SourceTieWasmCkpt.
Import ListNotations.
Local Open Scope N_scope.

Notation call p := (call_fn p (wext p) wall_fns).

Theorem SRCW_new : forall p fuel c e k0 k1 k2 k3,
  call p (S (S (S (S fuel)))) "WasmHash::new" (wgenv_of c e) [VA [k0;k1;k2;k3]]
  = Ok (wgenv_of (w_core (w_new (k0,k1,k2,k3))) packet_default, [Some (VA [k0;k1;k2;k3])], None).
Proof. exact w_new_src. Qed.

Theorem SRCW_zipper_merge : forall p fuel g v,
  call p (S (S fuel)) "WasmHash::zipper_merge" g [VX v] = Ok (g, [Some (VX v)], Some (VX (w_zipper_merge v))).
Proof. exact w_zipper_merge_src. Qed.

Theorem SRCW_update : forall p fuel c e pH pL,
  call p (S (S (S fuel))) "WasmHash::update" (wgenv_of c e) [VTV [pH; pL]]
  = Ok (wgenv_of (w_update c pH pL) e, [Some (VTV [pH; pL])], None).
Proof. exact w_update_src. Qed.

Theorem SRCW_permute_and_update : forall p fuel c e,
  call p (S (S (S (S fuel)))) "WasmHash::permute_and_update" (wgenv_of c e) []
  = Ok (wgenv_of (w_permute_and_update c) e, [], None).
Proof. exact w_permute_and_update_src. Qed.

Theorem SRCW_modular_reduction : forall p fuel g x i,
  call p (S (S (S (S fuel)))) "WasmHash::modular_reduction" g [VX x; VX i]
  = Ok (g, [Some (VX x); Some (VX i)], Some (VX (w_modular_reduction x i))).
Proof. exact w_modular_reduction_src. Qed.

(* the wrapper's operators (through the trait impl, the inherent method it forwards to, and the SIMD instruction) *)
Theorem SRCW_wrapper : forall p fuel g a b,
  call p (S (S (S fuel))) "V2x64U::Add::add" g [VX a; VX b] = Ok (g, [Some (VX a); Some (VX b)], Some (VX (u64x2_add a b))) /\
  call p (S (S (S fuel))) "V2x64U::BitXor::bitxor" g [VX a; VX b] = Ok (g, [Some (VX a); Some (VX b)], Some (VX (v128_xor a b))) /\
  call p (S (S (S fuel))) "V2x64U::BitOr::bitor" g [VX a; VX b] = Ok (g, [Some (VX a); Some (VX b)], Some (VX (v128_or a b))) /\
  call p (S (S (S fuel))) "V2x64U::BitAnd::bitand" g [VX a; VX b] = Ok (g, [Some (VX a); Some (VX b)], Some (VX (v128_and a b))) /\
  call p (S (S fuel)) "V2x64U::AddAssign::add_assign" g [VX a; VX b] = Ok (g, [Some (VX (u64x2_add a b)); Some (VX b)], None) /\
  call p (S fuel) "V2x64U::From::from" g [VX a] = Ok (g, [Some (VX a)], Some (VX a)) /\
  call p (S (S fuel)) "V2x64U::rotate_by_32" g [VX a] = Ok (g, [Some (VX a)], Some (VX (WV2_rotate_by_32 a))) /\
  call p (S fuel) "V2x64U::as_arr" g [VX a] = Ok (g, [Some (VX a)], Some (VA [fst (WV2_as_arr a); snd (WV2_as_arr a)])).
Proof.
  intros. repeat match goal with |- _ /\ _ => split end; [apply w_add_src | apply w_xor_src | apply w_or_src | apply w_and_src | apply w_add_assign_src
                        | apply w_from_src | apply w_rotate_by_32_src | apply w_as_arr_src].
Qed.

Theorem SRCW_helpers : forall p fuel g a b k,
  call p (S fuel) "_mm_mul_epu32" g [VX a; VX b] = Ok (g, [Some (VX a); Some (VX b)], Some (VX (w_mm_mul_epu32 a b))) /\
  call p (S fuel) "_mm_sll_epi32" g [VX a; VN k] = Ok (g, [Some (VX a); Some (VN k)], Some (VX (w_mm_sll_epi32 a k))) /\
  call p (S fuel) "_mm_srl_epi32" g [VX a; VN k] = Ok (g, [Some (VX a); Some (VN k)], Some (VX (w_mm_srl_epi32 a k))).
Proof. intros. repeat match goal with |- _ /\ _ => split end; [apply w_mul_epu32_src | apply w_sll_src | apply w_srl_src]. Qed.

(* byte-level: for a slice of ANY length (load_multiple_of_four: of the lengths remainder passes it) *)
Theorem SRCW_le_u64 : forall p fuel g x,
  call p (S fuel) "le_u64" g [VA x] = lift (w_le_u64 x) (fun r => (g, [Some (VA x)], Some (VN r))).
Proof. exact w_le_u64_src. Qed.

Theorem SRCW_data_to_lanes : forall p fuel g d,
  call p (S (S fuel)) "WasmHash::data_to_lanes" g [VA d]
  = Ok (g, [Some (VA d)], Some (VTV [fst (w_data_to_lanes d); snd (w_data_to_lanes d)])).
Proof. exact w_data_to_lanes_src. Qed.

Theorem SRCW_load_multiple_of_four : forall p fuel g bytes, (List.length bytes <= 16)%nat ->
  call p (S (S (S (S fuel)))) "WasmHash::load_multiple_of_four" g [VA bytes]
  = lift (w_load_multiple_of_four bytes) (fun r => (g, [Some (VA bytes)], Some (VX r))).
Proof. exact w_load_multiple_of_four_src. Qed.

Theorem SRCW_unordered_load3 : forall p fuel g from, (List.length from <= 3)%nat -> wbytesb from = true ->
  call p (S fuel) "unordered_load3" g [VA from] = lift (unordered_load3 p from) (fun r => (g, [Some (VA from)], Some (VN r))).
Proof. exact w_ul3_src. Qed.

Theorem SRCW_remainder : forall p fuel g bytes, wbytesb bytes = true ->
  call p (S (S (S (S (S fuel))))) "WasmHash::remainder" g [VA bytes]
  = lift (w_remainder p bytes) (fun r => (g, [Some (VA bytes)], Some (VTV [fst r; snd r]))).
Proof. exact w_remainder_src. Qed.

(* with the subtraction check of the build profile: equal as results, panics included *)
Theorem SRCW_rotate_32_by : forall p fuel c e count,
  call p (S (S (S (S fuel)))) "WasmHash::rotate_32_by" (wgenv_of c e) [VN count]
  = lift (w_rotate_32_by p c count) (fun c' => (wgenv_of c' e, [Some (VN count)], None)).
Proof. exact w_rotate_32_by_src. Qed.

(* HashPacket's methods, run under WasmHash's function table *)
Theorem SRCW_packet : forall p fuel pk data, List.length (buf pk) = 32%nat ->
  call p (S fuel) "buffer.len" (penv pk) [] = Ok (penv pk, [], Some (VN (N.of_nat (plen pk)))) /\
  call p (S fuel) "buffer.is_empty" (penv pk) [] = Ok (penv pk, [], Some (VN (if is_empty pk then 1 else 0))) /\
  call p (S fuel) "buffer.inner" (penv pk) [] = Ok (penv pk, [], Some (VA (inner pk))) /\
  call p (S fuel) "buffer.as_slice" (penv pk) [] = plift (as_slice p pk) (fun sl => (penv pk, [], Some (VA sl))) /\
  call p (S fuel) "buffer.set_to" (penv pk) [VA data]
    = plift (set_to p pk data) (fun pk' => (penv pk', [Some (VA data)], None)) /\
  call p (S fuel) "buffer.fill" (penv pk) [VA data]
    = Ok (penv (fst (fill pk data)), [Some (VA data)], Some (VO (snd (fill pk data)))).
Proof.
  intros p fuel pk data H. repeat match goal with |- _ /\ _ => split end;
    [apply wpkt_len_ok | apply wpkt_is_empty_ok | apply wpkt_inner_ok | apply wpkt_as_slice_ok; exact H
     | apply wpkt_set_to_ok; exact H | apply wpkt_fill_ok; exact H].
Qed.

Theorem SRCW_update_remainder : forall p fuel c b, wfpb b ->
  call p (S (S (S (S (S (S fuel)))))) "WasmHash::update_remainder" (wgenv_of c b) []
  = lift (w_update_remainder p {| w_core := c; w_buffer := b |}) (fun c' => (wgenv_of c' b, [], None)).
Proof. exact w_update_remainder_src. Qed.

Theorem SRCW_finalize : forall p fuel c b, wfpb b ->
  ret_of (call p (S (S (S (S (S (S (S fuel))))))) "WasmHash::finalize64" (wgenv_of c b) [])
    = lift_ret (w_finalize64 p {| w_core := c; w_buffer := b |}) VN /\
  ret_of (call p (S (S (S (S (S (S (S fuel))))))) "WasmHash::finalize128" (wgenv_of c b) [])
    = lift_ret (w_finalize128 p {| w_core := c; w_buffer := b |}) (fun lh => VA [fst lh; snd lh]) /\
  ret_of (call p (S (S (S (S (S (S (S fuel))))))) "WasmHash::finalize256" (wgenv_of c b) [])
    = lift_ret (w_finalize256 p {| w_core := c; w_buffer := b |}) (fun l => VA (ll l)).
Proof.
  intros p fuel c b W. repeat match goal with |- _ /\ _ => split end; [apply w_finalize64_src | apply w_finalize128_src | apply w_finalize256_src]; exact W.
Qed.

Theorem SRCW_append : forall p fuel c b data, wfp b ->
  call p (S (S (S (S (S fuel))))) "WasmHash::append" (wgenv_of c b) [VA data]
  = lift (w_append p {| w_core := c; w_buffer := b |} data)
         (fun s' => (wgenv_of (w_core s') (w_buffer s'), [Some (VA data)], None)).
Proof. exact w_append_src. Qed.

(* checkpoint: V2x64U::as_arr + copy_from_slice into a PortableHash value, then the translated PortableHash::checkpoint *)
Theorem SRCW_checkpoint : forall p fuel c b, wfp b ->
  ret_of' (call p (S (S (S fuel))) "WasmHash::checkpoint" (wgenv_of c b) [])
  = lift_ret' (w_checkpoint p {| w_core := c; w_buffer := b |}) VA.
Proof. exact w_checkpoint_src. Qed.

(* from_checkpoint: the translated PortableHash::from_checkpoint on ANY 164 bytes, then V2x64U::new on its lanes *)
Theorem SRCW_from_checkpoint : forall p fuel c b data, List.length data = 164%nat ->
  call p (S (S (S (S (S (S fuel)))))) "WasmHash::from_checkpoint" (wgenv_of c b) [VA data]
  = lift (w_from_checkpoint p data) (fun s' => (wgenv_of (w_core s') (w_buffer s'), [Some (VA data)], None)).
Proof. exact w_from_checkpoint_src. Qed.

(* non-vacuity: the interpreter runs the translated wasm.rs — key schedule and one update on concrete values *)
Example SRCW_runs :
  exists g, call prof_dev 9 "WasmHash::new" (wgenv_of (w_core (w_new (0,0,0,0))) packet_default) [VA [1;2;3;4]] = Ok (g, [Some (VA [1;2;3;4])], None)
            /\ g = wgenv_of (w_core (w_new (1,2,3,4))) packet_default.
Proof. eexists. split; vm_compute; reflexivity. Qed.

Print Assumptions SRCW_new.
Print Assumptions SRCW_update.
Print Assumptions SRCW_wrapper.
Print Assumptions SRCW_unordered_load3.
Print Assumptions SRCW_remainder.
Print Assumptions SRCW_update_remainder.
Print Assumptions SRCW_finalize.
Print Assumptions SRCW_append.
Print Assumptions SRCW_packet.
Print Assumptions SRCW_checkpoint.
Print Assumptions SRCW_from_checkpoint.
