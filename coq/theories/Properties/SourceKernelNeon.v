(* SourceKernelNeon — the NEON kernel and V2x64U wrapper of src/aarch64.rs, translated from the current source text on
   every run (gen/SrcNeon.v) and interpreted by Facts/VecLite.v over the intrinsic models of Neon.v, are the hand-written
   model Neon.v, function by function.  (Part of C03.) *)
From Coq Require Import NArith List String Bool.
From HW Require Import Word Packet Mem X86 Portable Neon.
From HW.Facts Require Import VecLite.
From HWGen Require Import SrcNeon.
From HW.Refine Require Import SourceTieSse SourceTieNeon.
Import ListNotations.
Local Open Scope string_scope.
Local Open Scope N_scope.

Notation ncall p b := (vcall (neon_prim p b) src_neon).

Theorem SRC_neon_kernel : forall p b fuel c pH pL x init,
  ncall p b (14 + fuel)%nat "NeonHash::update" (ncore_vals c ++ [XT [X2 pH; X2 pL]]) = Ok (XT (ncore_vals (n_update c pH pL))) /\
  ncall p b (18 + fuel)%nat "NeonHash::permute_and_update" (ncore_vals c) = Ok (XT (ncore_vals (n_permute_and_update c))) /\
  ncall p b (10 + fuel)%nat "NeonHash::zipper_merge" [X2 x] = Ok (X2 (n_zipper_merge x)) /\
  ncall p b (14 + fuel)%nat "NeonHash::modular_reduction" [X2 x; X2 init] = Ok (X2 (n_modular_reduction x init)) /\
  ncall p b (8 + fuel)%nat "_mm_slli_si128_8" [X2 x] = Ok (X2 (n_slli_si128_8 x)).
Proof.
  intros. repeat match goal with |- _ /\ _ => split end; [apply neon_update_ok | apply neon_permute_and_update_ok | apply neon_zipper_merge_ok
                        | apply neon_modular_reduction_ok | apply neon_slli_ok].
Qed.

Theorem SRC_neon_remainder_path : forall p b fuel c count,
  (count < 2147483648 ->
   ncall p b (14 + fuel)%nat "NeonHash::rotate_32_by" (ncore_vals c ++ [XN count]) = Ok (XT (ncore_vals (n_rotate_32_by c count)))) /\
  (N.of_nat (plen b) < 2147483648 ->
   ncall p b (22 + fuel)%nat "NeonHash::update_remainder" (ncore_vals c)
   = lift_n (n_update_remainder p {| n_core := c; n_buffer := b |}) (fun c' => XT (ncore_vals c'))).
Proof. intros. split; [apply neon_rotate_32_by_ok | apply neon_update_remainder_ok]. Qed.

Theorem SRC_neon_wrapper : forall p b fuel x y hi lo,
  ncall p b (8 + fuel)%nat "V2x64U::Add::add" [X2 x; X2 y] = Ok (X2 (vaddq_u64 x y)) /\
  ncall p b (8 + fuel)%nat "V2x64U::BitXor::bitxor" [X2 x; X2 y] = Ok (X2 (veorq_u64 x y)) /\
  ncall p b (8 + fuel)%nat "V2x64U::BitOr::bitor" [X2 x; X2 y] = Ok (X2 (vorrq_u64 x y)) /\
  ncall p b (8 + fuel)%nat "V2x64U::BitAnd::bitand" [X2 x; X2 y] = Ok (X2 (vandq_u64 x y)) /\
  ncall p b (8 + fuel)%nat "V2x64U::rotate_by_32" [X2 x] = Ok (X2 (NV2_rotate_by_32 x)) /\
  ncall p b (8 + fuel)%nat "V2x64U::and_not" [X2 x; X2 y] = Ok (X2 (NV2_and_not x y)) /\
  ncall p b (8 + fuel)%nat "V2x64U::new" [XN hi; XN lo] = Ok (X2 (NV2_new hi lo)).
Proof.
  intros. pose proof (neon_wrapper_ops p b fuel x y) as H. repeat match goal with |- _ /\ _ => split end; try apply H. apply neon_new_ok.
Qed.

Theorem SRC_neon_from_identity : forall p b fuel v f, In f src_neon_from_impls -> ncall p b (6 + fuel)%nat f [X2 v] = Ok (X2 v).
Proof. exact neon_from_impls_are_identities. Qed.

Print Assumptions SRC_neon_kernel.
Print Assumptions SRC_neon_remainder_path.
Print Assumptions SRC_neon_wrapper.
Print Assumptions SRC_neon_from_identity.
