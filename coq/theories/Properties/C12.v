(* C12 — the std adapters are thin: Hasher::finish is the 64-bit hash of exactly the bytes written so
   far and leaves the hasher untouched (so it can be repeated and interleaved with writes);
   io::Write::write consumes the whole buffer, reports its length and cannot fail; flush is a no-op;
   HighwayBuildHasher::build_hasher is HighwayHasher::new(key). *)
From Coq Require Import NArith List Lia Bool.
From HW Require Import Word Packet Portable Spec Dispatch History.
From HW.Refine Require Import Logical Backends Generic.
From HW.Properties Require Import Common.
Import ListNotations.

(* finish after any chunks = HH64 of the concatenation; the register file is unchanged *)
Theorem C12_finish :
  forall e b force k fs h0, wlanesb k = true -> wbs fs -> h_new e b force k = Ok (Some h0) ->
  exists h, feed e h0 fs = Ok h /\ h_finish e h = Ok (nth0 (HH W64 k (concat fs)) 0).
Proof.
  intros e b force k fs h0 Hk Hfs Hn. destruct (h_new_ok e b force k Hk) as [E|(h & E & I & A)]; [congruence|].
  rewrite Hn in E. injection E as <-.
  destruct (feed_ok e fs Hfs h0 I) as (h' & F & I' & A'). exists h'. split; [exact F|].
  rewrite h_finish_ok by exact I'. rewrite A', A, <- spec_as_absorb. reflexivity.
Qed.

Theorem C12_finish_does_not_consume : forall e rs r h rest, regs_ok e rs -> lookup rs r = Some h ->
  exists x, run_from e rs (OFinish r :: rest) = OutFin x :: run_from e rs rest.
Proof.
  intros e rs r h rest Hr El. cbn [run_from step]. rewrite El. rewrite h_finish_ok by exact (Hr _ _ El).
  cbn [of_res app]. eexists. reflexivity.
Qed.

(* write: Ok(len), whole buffer appended; flush: Ok, nothing changes *)
Theorem C12_write : forall e rs r h d, regs_ok e rs -> lookup rs r = Some h -> wbytesb d = true ->
  exists h', h_append e h d = Ok h' /\ step e rs (OWrite r d) = ((store rs r h', [OutW (N.of_nat (length d))]), true).
Proof.
  intros e rs r h d Hr El Hd. destruct (h_append_ok e h d (Hr _ _ El) Hd) as (h' & E & _).
  exists h'. split; [exact E|]. cbn [step]. rewrite El, E. reflexivity.
Qed.
Theorem C12_flush : forall e rs r h, lookup rs r = Some h -> step e rs (OFlush r) = ((rs, [OutOk]), true).
Proof. intros e rs r h El. cbn [step]. rewrite El. reflexivity. Qed.

(* build_hasher = HighwayHasher::new(key): a function of the key (and the configuration) only *)
Theorem C12_build_hasher : forall e force k, h_new e BB force k = h_new e BD force k.
Proof. reflexivity. Qed.

Example C12_example :
  run (env_of prof_dev cfg_host)
      [ONew 0 BB false kdoc; OFinish 0; OWrite 0 (sample 5); OFinish 0; OFinish 0; OFlush 0; OHWrite 0 (sample 40); OFinish 0]
  = [OutOk; OutFin (nth0 (HH W64 kdoc []) 0); OutW 5; OutFin (nth0 (HH W64 kdoc (sample 5)) 0);
     OutFin (nth0 (HH W64 kdoc (sample 5)) 0); OutOk; OutOk; OutFin (nth0 (HH W64 kdoc (sample 5 ++ sample 40)) 0)].
Proof. vm_compute. reflexivity. Qed.

Print Assumptions C12_finish.
Print Assumptions C12_finish_does_not_consume.
Print Assumptions C12_write.
Print Assumptions C12_build_hasher.
