(* C09 — memory safety and address independence, on the checked-memory model (Mem.v): every load
   intrinsic of the SSE / AVX / NEON models is checked against the slice it is given and against the
   intrinsic's alignment requirement, and is a Fault otherwise.
   (1) no history ever Faults: all loads stay inside their slices, for every length and chunking,
       including the masked loads and the 8-byte low load; aligned loads only touch the Key object
       (repr(align(32))) and the hasher's own packet buffer;
   (2) the transcript does not depend on the address of the caller's data.
   Real page faults, struct layout and codegen are observed by the harness (placement sweep, Miri). *)
From Coq Require Import NArith List Lia Bool.
From HW Require Import Word Packet Portable Spec Dispatch History.
From HW.Refine Require Import Logical Backends Generic AddrIndep.
From HW.Properties Require Import Common.
Import ListNotations.

Theorem C09_no_fault : forall (e : env) (h : list op), Forall wf_op h -> ~ In OutFault (run e h).
Proof. intros e h Hw. exact (proj2 (run_safe e h Hw)). Qed.

Theorem C09_address_independent : forall (e : env) (a : N) (h : list op), run (with_addr e a) h = run e h.
Proof. exact run_addr_independent. Qed.

Example C09_example :
  let h := [ONew 0 BA true kdoc; OAppend 0 (sample 33); OAppend 0 (sample 70); OFin W64 0] in
  run (with_addr (env_of prof_dev cfg_host) 1) h = run (with_addr (env_of prof_dev cfg_host) 63) h /\ Forall wf_op h.
Proof. split; [vm_compute; reflexivity|repeat constructor]. Qed.

Print Assumptions C09_no_fault.
Print Assumptions C09_address_independent.
