(* C16 — the portable path contains no unsafe code in any configuration.  A theorem over the syntactic
   inventory regenerated from /repo/src on this run: for portable.rs, internal.rs, key.rs, traits.rs and
   every crate module they reach through `crate::` paths, plus lib.rs, macros.rs and hash.rs as files:
   no unsafe block / fn / impl / trait / extern block, no `unsafe` token in a macro_rules body or macro
   argument, no allow(unsafe_code)-style attribute, only known-safe macros; and lib.rs carries
   deny(unsafe_code).  The scan ignores cfg attributes, so it covers every cfg combination. *)
From Coq Require Import String List NArith Bool.
From HW.Facts Require Import FactTypes FactChecks.
From HWGen Require Import SrcFacts.
Import ListNotations.
Local Open Scope string_scope.

Theorem C16_portable_path_has_no_unsafe : portable_path_safe all_files = true.
Proof. vm_compute. reflexivity. Qed.

(* what `true` means *)
Theorem C16_meaning :
  exists lib, find_file all_files "src/lib.rs" = Some lib /\ lib_denies_unsafe lib = true /\
  forall p, In p (portable_path all_files lib) ->
    exists f, find_file all_files p = Some f /\ ff_unsafe f = [] /\ subset (ff_macros f) safe_macros = true.
Proof. apply portable_path_safe_spec. exact C16_portable_path_has_no_unsafe. Qed.

(* non-vacuity: the path is what one expects, and the scanner does see unsafe code where there is some *)
Example C16_path :
  match find_file all_files "src/lib.rs" with
  | Some lib => portable_path all_files lib
  | None => [] end
  = ["src/traits.rs"; "src/key.rs"; "src/internal.rs"; "src/portable.rs"; "src/lib.rs"; "src/macros.rs"; "src/hash.rs"].
Proof. vm_compute. reflexivity. Qed.
Example C16_scanner_sees_unsafe :
  match find_file all_files "src/builder.rs" with Some f => negb (file_safe f) | None => false end = true.
Proof. vm_compute. reflexivity. Qed.

Print Assumptions C16_portable_path_has_no_unsafe.
Print Assumptions C16_meaning.
