(* C10 — backend selection is valid and consistent in EVERY build configuration (4 architectures x
   {compile-time avx2, sse4.1, simd128} x {std} x {run-time avx2, sse4.1}: 256 configurations, all
   enumerated), for the dispatcher model (Dispatch.v) AND for the selection ladders / dispatch tables
   regenerated from src/builder.rs, src/x86/sse.rs, src/x86/avx.rs on this run (gen/Ladder.v). *)
From Coq Require Import String List NArith Bool.
From HW Require Import Word Portable Dispatch History.
From HW.Refine Require Import Logical Backends Generic.
From HW.Facts Require Import FactTypes FactChecks.
From HWGen Require Import Ladder SrcFacts.
Import ListNotations.
Local Open Scope string_scope.

(* (1) the selected backend is permitted by the configuration *)
Definition permitted (c : config) (ch : choice) : bool :=
  match ch with
  | ChAvx => cfg_x86 c && (tf_avx2 c || (c_std c && det_avx2 c))
  | ChSse => cfg_x86 c && (tf_sse41 c || (c_std c && det_sse41 c)) && negb (tf_avx2 c)
  | ChNeon => arch_eqb (c_arch c) AArch64
  | ChWasm => cfg_wasm_simd c
  | ChPortable => negb (cfg_x86 c && (tf_avx2 c || tf_sse41 c || (c_std c && (det_avx2 c || det_sse41 c))))
                  && negb (arch_eqb (c_arch c) AArch64) && negb (cfg_wasm_simd c)
  end.
Theorem C10_selection_permitted : forall c, permitted c (ladder c) = true.
Proof. intros c. all_configs c; reflexivity. Qed.

(* (2) the source's ladders for new and from_checkpoint ARE the model's ladder, with the right tag, union
   field and constructor, in every configuration — so new / from_checkpoint / default / clone / the
   BuildHasher all select the same backend *)
Theorem C10_source_ladders : forall c, ladder_matches c gen_ladder_new gen_ladder_from_checkpoint = true.
Proof. intros c. all_configs c; vm_compute; reflexivity. Qed.

(* (3) every method's dispatch table has, for the selected tag, an arm compiled in under that
   configuration that reads the matching union field and calls the matching backend: unreachable_unchecked
   is unreachable *)
Definition all_tables : list (string * (string * list (cpred * string * string * string * bool))) :=
  [("append", gen_dispatch_append); ("finalize64", gen_dispatch_finalize64); ("finalize128", gen_dispatch_finalize128);
   ("finalize256", gen_dispatch_finalize256); ("checkpoint", gen_dispatch_checkpoint); ("clone", gen_dispatch_Clone_clone);
   ("field", gen_dispatch_Debug_fmt)].
Theorem C10_dispatch_tables : forall c, forallb (fun mt => dispatch_matches c (fst mt) (snd mt)) all_tables = true.
Proof. intros c. all_configs c; vm_compute; reflexivity. Qed.

(* the model's arm function agrees: the tag chosen by the ladder always has an arm (Backends.ladder_arm) *)
Theorem C10_model_arm : forall c, arm c (tag_of_choice (ladder c)) = Some (ladder c).
Proof. exact ladder_arm. Qed.

(* (4) the explicit SIMD constructors return a hasher iff std and the feature is detected *)
Theorem C10_safe_constructors : forall c,
  safe_ctor_matches c (det_sse41 c) gen_safe_SseHash_new "Self::force_new" = true /\
  safe_ctor_matches c (det_sse41 c) gen_safe_SseHash_from_checkpoint "Self::force_from_checkpoint" = true /\
  safe_ctor_matches c (det_avx2 c) gen_safe_AvxHash_new "Self::force_new" = true /\
  safe_ctor_matches c (det_avx2 c) gen_safe_AvxHash_from_checkpoint "Self::force_from_checkpoint" = true.
Proof. intros c. all_configs c; vm_compute; repeat split; reflexivity. Qed.

(* (5) Default and build_hasher are new(Key::default()) / new(self.key) in the source *)
Theorem C10_default_and_builder : defaults_ok impl_bodies = true.
Proof. vm_compute. reflexivity. Qed.

(* (5b) the source distinguishes no build configuration that the 256 modelled ones do not *)
Theorem C10_configuration_space : cfg_space_ok all_files = true.
Proof. vm_compute. reflexivity. Qed.

(* (6) whatever is selected computes the portable result (every configuration, every way of obtaining it) *)
Theorem C10_results_equal_portable :
  forall (e : env) (b : backend) (force : bool) (k : lanes) (fs : list (list N)) (w : width) (h0 : hasher),
  b = BD \/ b = BB -> wlanesb k = true -> wbs fs -> h_new e b force k = Ok (Some h0) ->
  exists h, feed e h0 fs = Ok h /\ h_finalize e w h = Ok (Spec.HH w k (concat fs)).
Proof. intros e b force k fs w h0 _. apply streaming. Qed.

Print Assumptions C10_selection_permitted.
Print Assumptions C10_source_ladders.
Print Assumptions C10_dispatch_tables.
Print Assumptions C10_safe_constructors.
Print Assumptions C10_configuration_space.
Print Assumptions C10_results_equal_portable.
