(* FactsC15.v — no hidden global state anywhere in the crate (regenerated inventory): no `static`, thread_local!,
   atomics, interior-mutability cells, locks, lazy statics, clocks, environment or randomness; no non-dev dependency. *)
From Coq Require Import String List NArith Bool.
From HW Require Import Dispatch.
From HW.Facts Require Import FactTypes FactChecks MemSigExpected.
From HWGen Require Import SrcFacts MemSig.
Import ListNotations.
Local Open Scope string_scope.

Theorem facts_parse_ok : parse_errors = [].
Proof. reflexivity. Qed.

Theorem C15_no_global_state : no_global_state all_files cargo_deps = true.
Proof. vm_compute. reflexivity. Qed.
Print Assumptions C15_no_global_state.
