(* SourceLevel — properties of the SOURCE TEXT itself.  [src_hash] runs, with the interpreter of Facts/RustLite.v, the functions
   translated from the current src/portable.rs and src/internal.rs (gen/SrcPortable.v, gen/SrcPacket.v):
       PortableHash::new(key);  append(d1); ...; append(dn);  finalize64 / 128 / 256
   and the theorems say: for every key, every list of byte slices, every width and every build profile the result is Ok
   (no panic: C08 for this path), equals HighwayHash of the concatenation (C01), and therefore does not depend on how the bytes
   were cut into appends (C05).  They are obtained by composing the translator tie (SourceKernel.v) with the model's
   refinement theorems — nothing here is about a hand-written transcription any more. *)
From Coq Require Import NArith List String Bool Lia.
From HW Require Import Word Packet Portable Spec.
From HW.Facts Require Import RustLite.
From HWGen Require Import SrcPortable SrcPacket.
From HW.Refine Require Import Logical Codec PortableRefine PortableCodec SourceTie SourceTieFinal SourceTieAppend SourceTieCkpt.
Import ListNotations.
Local Open Scope N_scope.

Notation call p := (call_fn p noext all_fns).

(* the state every session starts from is irrelevant: new overwrites all of it *)
Definition G0 : env := genv_of {| v0 := (0,0,0,0); v1 := (0,0,0,0); mul0 := (0,0,0,0); mul1 := (0,0,0,0) |} packet_default.

Fixpoint src_feed (p : profile) (g : env) (ds : list (list N)) : res env :=
  match ds with
  | [] => Ok g
  | d :: ds' => do r <- call p 9 "append" g [VA d] ;; src_feed p (fst (fst r)) ds'
  end.

Definition src_hash (p : profile) (w : width) (k : lanes) (ds : list (list N)) : res (option val) :=
  do r0 <- call p 9 "new" G0 [VA (ll k)] ;;
  do g <- src_feed p (fst (fst r0)) ds ;;
  ret_of (call p 9 match w with W64 => "finalize64" | W128 => "finalize128" | W256 => "finalize256" end%string g []).

Definition val_of_digest (w : width) (d : list N) : val :=
  match w with W64 => VN (nth0 d 0) | _ => VA d end.

Lemma Inv_wfp s : Inv s -> wfp (buffer s).
Proof.
  intros [Hl Hi]. split; [exact Hl|]. unfold M64. lia.
Qed.

Lemma src_feed_ok p ds : forall s, Inv s ->
  exists s', src_feed p (genv_of (core s) (buffer s)) ds = Ok (genv_of (core s') (buffer s')) /\ Inv s' /\
             abs s' = absorb (abs s) (List.concat ds).
Proof.
  induction ds as [|d ds IH]; intros s HI; cbn [src_feed List.concat].
  - exists s. split; [reflexivity|]. split; [exact HI|]. symmetry. apply absorb_nil. apply abs_wf. exact HI.
  - destruct (p_append_ok p s d HI) as (s1 & E1 & HI1 & A1).
    change (call_fn p noext all_fns 9 "append" (genv_of (core s) (buffer s)) [VA d])
      with (call_fn p noext all_fns (S (S (S (S 5)))) "append" (genv_of (core s) (buffer s)) [VA d]).
    rewrite (append_ok p 5 (core s) (buffer s) d (Inv_wfp s HI)).
    replace {| core := core s; buffer := buffer s |} with s by (destruct s; reflexivity).
    rewrite E1. cbn [lift bind fst].
    destruct (IH s1 HI1) as (s' & E' & HI' & A').
    exists s'. split; [exact E'|]. split; [exact HI'|]. rewrite A', A1. apply absorb_app.
Qed.

Definition fin_name (w : width) : string :=
  match w with W64 => "finalize64" | W128 => "finalize128" | W256 => "finalize256" end%string.
Definition src_finish (p : profile) (w : width) (g : env) : res (option val) := ret_of (call p 9 (fin_name w) g []).

Lemma src_finish_ok p w s : Inv s ->
  src_finish p w (genv_of (core s) (buffer s)) = Ok (Some (val_of_digest w (out w (abs s)))).
Proof.
  intros HI. unfold src_finish.
  pose proof (p_finalize_ok p w s HI) as F.
  pose proof (Inv_wfp s HI) as W'.
  destruct s as [c b]. cbn [core buffer] in *.
  destruct w; cbn [p_finalize fin_name] in F |- *.
  - change (call_fn p noext all_fns 9 "finalize64"%string ?g ?a) with (call_fn p noext all_fns (S (S (S (S (S 4))))) "finalize64"%string g a).
    rewrite (finalize64_ok p 4 c b W').
    destruct (p_finalize64 p {| core := c; buffer := b |}) as [x| |]; cbn [bind] in F; try discriminate.
    apply (f_equal (fun r => match r with Ok l => l | _ => [] end)) in F. cbv beta iota in F. rewrite <- F. reflexivity.
  - change (call_fn p noext all_fns 9 "finalize128"%string ?g ?a) with (call_fn p noext all_fns (S (S (S (S (S 4))))) "finalize128"%string g a).
    rewrite (finalize128_ok p 4 c b W').
    destruct (p_finalize128 p {| core := c; buffer := b |}) as [x| |]; cbn [bind] in F; try discriminate.
    apply (f_equal (fun r => match r with Ok l => l | _ => [] end)) in F. cbv beta iota in F. rewrite <- F. reflexivity.
  - change (call_fn p noext all_fns 9 "finalize256"%string ?g ?a) with (call_fn p noext all_fns (S (S (S (S (S 4))))) "finalize256"%string g a).
    rewrite (finalize256_ok p 4 c b W').
    destruct (p_finalize256 p {| core := c; buffer := b |}) as [x| |]; cbn [bind] in F; try discriminate.
    apply (f_equal (fun r => match r with Ok l => l | _ => [] end)) in F. cbv beta iota in F. rewrite <- F.
    destruct x as [[[x0 x1] x2] x3]. reflexivity.
Qed.

(* from any reachable state: further appends and a finalize are Ok and a function of the logical state and the bytes *)
Theorem SRC_source_continue : forall p w s ds, Inv s ->
  (do g <- src_feed p (genv_of (core s) (buffer s)) ds ;; src_finish p w g)
  = Ok (Some (val_of_digest w (out w (absorb (abs s) (List.concat ds))))).
Proof.
  intros p w s ds HI. destruct (src_feed_ok p ds s HI) as (s' & E' & HI' & A').
  rewrite E'. cbn [bind]. rewrite (src_finish_ok p w s' HI'), A'. reflexivity.
Qed.

(* C01 / C05 / C08 for the source text: Ok, in every profile, and equal to HighwayHash of the concatenation *)
Theorem SRC_source_is_highwayhash : forall (p : profile) (w : width) (k0 k1 k2 k3 : N) (ds : list (list N)),
  src_hash p w (k0,k1,k2,k3) ds = Ok (Some (val_of_digest w (HH w (k0,k1,k2,k3) (List.concat ds)))).
Proof.
  intros p w k0 k1 k2 k3 ds. unfold src_hash, G0.
  change (call_fn p noext all_fns 9 "new"%string ?g ?a) with (call_fn p noext all_fns (S 8) "new"%string g a).
  cbn [ll lane0 lane1 lane2 lane3].
  rewrite (new_ok p 8 _ packet_default k0 k1 k2 k3). cbn [bind fst].
  set (k := (k0,k1,k2,k3)).
  destruct (abs_new k) as [A0 I0].
  change (genv_of (core (p_new k)) packet_default) with (genv_of (core (p_new k)) (buffer (p_new k))).
  pose proof (SRC_source_continue p w (p_new k) ds I0) as C. unfold src_finish in C.
  change (match w with W64 => "finalize64"%string | W128 => "finalize128"%string | W256 => "finalize256"%string end) with (fin_name w).
  rewrite C, A0, <- spec_as_absorb. reflexivity.
Qed.

(* C05 for the source text: only the concatenation matters *)
Corollary SRC_source_streaming_invariance : forall p w k0 k1 k2 k3 ds1 ds2, List.concat ds1 = List.concat ds2 ->
  src_hash p w (k0,k1,k2,k3) ds1 = src_hash p w (k0,k1,k2,k3) ds2.
Proof. intros. rewrite !SRC_source_is_highwayhash. congruence. Qed.

(* ---- checkpoints, at the level of the source text *)
(* C14: the 164 bytes are a function of the logical state (key schedule + absorbed packets, pending bytes) alone *)
Theorem SRC_source_checkpoint_canonical : forall p s, Inv s ->
  ret_of' (call p 9 "checkpoint" (genv_of (core s) (buffer s)) []) = Ok (Some (VA (encode (abs s)))).
Proof.
  intros p s HI.
  change (call_fn p noext all_fns 9 "checkpoint"%string ?g ?a) with (call_fn p noext all_fns (S (S 7)) "checkpoint"%string g a).
  rewrite (checkpoint_ok p 7 (core s) (buffer s) (Inv_wfp s HI)).
  replace {| core := core s; buffer := buffer s |} with s by (destruct s; reflexivity).
  rewrite (p_checkpoint_ok p s HI). reflexivity.
Qed.

(* C11: ANY 164 bytes restore, in every profile, to a state in the invariant whose logical state is decode of the bytes *)
Theorem SRC_source_restore_total : forall p c0 b0 c, List.length c = 164%nat ->
  exists s', call p 9 "from_checkpoint" (genv_of c0 b0) [VA c] = Ok (genv_of (core s') (buffer s'), [Some (VA c)], None) /\
             Inv s' /\ abs s' = decode c.
Proof.
  intros p c0 b0 c Hc.
  change (call_fn p noext all_fns 9 "from_checkpoint"%string ?g ?a) with (call_fn p noext all_fns (S (S (S (S (S 4))))) "from_checkpoint"%string g a).
  rewrite (from_checkpoint_ok p 4 c0 b0 c Hc).
  destruct (p_from_checkpoint_ok p c) as (s' & E & HI & A). exists s'. rewrite E. cbn [lift]. split; [reflexivity|]. split; assumption.
Qed.

(* C06: checkpoint, restore (into any hasher value), and carry on — same results as carrying on directly *)
Definition src_hop (p : profile) (g g0 : env) : res env :=
  do o <- ret_of' (call p 9 "checkpoint" g []) ;;
  match o with
  | Some (VA ck) => do r <- call p 9 "from_checkpoint" g0 [VA ck] ;; Ok (fst (fst r))
  | _ => Fault
  end.

Theorem SRC_source_checkpoint_transparent : forall p w s c0 b0 ds, Inv s -> Hwf (to_h (core s)) ->
  (do g' <- src_hop p (genv_of (core s) (buffer s)) (genv_of c0 b0) ;; do g <- src_feed p g' ds ;; src_finish p w g)
  = (do g <- src_feed p (genv_of (core s) (buffer s)) ds ;; src_finish p w g).
Proof.
  intros p w s c0 b0 ds HI HW. unfold src_hop.
  rewrite (SRC_source_checkpoint_canonical p s HI). cbn [bind].
  destruct (SRC_source_restore_total p c0 b0 (encode (abs s)) (encode_length _ (abs_wf s HI))) as (s' & E & HI' & A).
  rewrite E. cbn [bind fst].
  rewrite (SRC_source_continue p w s' ds HI'), (SRC_source_continue p w s ds HI), A.
  rewrite (decode_encode (abs s) (abs_wf s HI) HW). reflexivity.
Qed.

(* non-vacuity: the interpreter really runs the source — a published vector through three appends *)
Example SRC_source_vector :
  src_hash prof_dev W64 (0x0706050403020100, 0x0F0E0D0C0B0A0908, 0x1716151413121110, 0x1F1E1D1C1B1A1918) [[0]; []; [1; 2]]
  = Ok (Some (VN (nth0 (HH W64 (0x0706050403020100, 0x0F0E0D0C0B0A0908, 0x1716151413121110, 0x1F1E1D1C1B1A1918) [0; 1; 2]) 0))).
Proof. vm_compute. reflexivity. Qed.

Print Assumptions SRC_source_continue.
Print Assumptions SRC_source_is_highwayhash.
Print Assumptions SRC_source_checkpoint_canonical.
Print Assumptions SRC_source_restore_total.
Print Assumptions SRC_source_checkpoint_transparent.
Print Assumptions SRC_source_streaming_invariance.
