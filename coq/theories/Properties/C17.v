(* C17 — byte-order and word-size neutrality of the portable path.
   (a) Theorem over the regenerated inventory: on the portable path the only byte<->integer conversions
       are from_le_bytes / to_le_bytes; no native-endian or pointer-width-sensitive construct, no
       cfg(target_endian / target_pointer_width); the `as` casts are exactly the audited list.
   (b) The model of the portable hasher (Portable.v, Packet.v) has no target parameter: its results are
       functions of (profile, key, bytes) alone — [C17_model_target_free] states this for the interpreter:
       the configuration (architecture included) and the data address cannot change a PortableHash
       transcript.  The tie to real big-endian / 32-bit execution is the Miri run (s390x, powerpc, i686). *)
From Coq Require Import String List NArith Bool.
From HW Require Import Word Portable Dispatch History.
From HW.Refine Require Import Generic.
From HW.Facts Require Import FactTypes FactChecks.
From HWGen Require Import SrcFacts.
Import ListNotations.
Local Open Scope string_scope.

Theorem C17_endian_neutral_source : endian_neutral all_files = true.
Proof. vm_compute. reflexivity. Qed.

Definition portable_only (o : op) : bool :=
  match o with
  | ONew _ b _ _ | ODefault _ b | ORestore _ b _ _ | ORestoreFrom _ b _ _ => match b with BP => true | _ => false end
  | _ => true
  end.

Definition plain_portable (h : hasher) : Prop := match h with HPlain (CP _) => True | _ => False end.

Lemma step_portable_cfg p c1 c2 a1 a2 rs o :
  (forall r h, lookup rs r = Some h -> plain_portable h) -> portable_only o = true ->
  step {| e_prof := p; e_cfg := c1; e_addr := a1 |} rs o = step {| e_prof := p; e_cfg := c2; e_addr := a2 |} rs o /\
  (forall r h, lookup (fst (fst (step {| e_prof := p; e_cfg := c1; e_addr := a1 |} rs o))) r = Some h -> plain_portable h).
Proof.
  intros Hr Ho.
  assert (St : forall r (s : pstate) r' h, lookup (store rs r (HPlain (CP s))) r' = Some h -> plain_portable h).
  { intros r s r' h. rewrite lookup_store. destruct (Nat.eqb r r'); [intros [= <-]; exact I|apply Hr]. }
  assert (Rm : forall r r' h, lookup (remove rs r) r' = Some h -> plain_portable h).
  { intros r r' h. rewrite lookup_remove. destruct (Nat.eqb r r'); [discriminate|apply Hr]. }
  assert (Fin : True) by exact I.
  Ltac fin17 Hr St Rm := first [exact Hr | intros ? ?; first [apply St | apply Rm | apply Hr]].
  destruct o as [r b f k|r b|r b f c|r b f r2|r r2|r r2|r d|r d|r d|r d|r d|r|r|r|r|w r|w r d]; cbn [portable_only] in Ho;
    try (destruct b; try discriminate); cbn [step h_new h_default h_restore e_prof e_cfg e_addr].
  - split; [reflexivity|]. cbn [of_res fst]. fin17 Hr St Rm.
  - split; [reflexivity|]. cbn [of_res fst]. fin17 Hr St Rm.
  - unfold some_plain. destruct (p_from_checkpoint p c) as [s| |]; cbn [bind of_res fst]; (split; [reflexivity|]); fin17 Hr St Rm.
  - destruct (lookup rs r2) as [h2|] eqn:E2; cbn [fst]; [|split; [reflexivity|exact Hr]].
    pose proof (Hr _ _ E2) as P2. destruct h2 as [[s2| | | |]|]; try contradiction. cbn [h_checkpoint c_checkpoint e_prof].
    destruct (p_checkpoint p s2) as [ck| |]; cbn [fst]; [|split; [reflexivity|exact Hr]|split; [reflexivity|exact Hr]].
    unfold some_plain. destruct (p_from_checkpoint p ck) as [s| |]; cbn [bind of_res fst]; (split; [reflexivity|]); fin17 Hr St Rm.
  - destruct (lookup rs r2) as [h2|] eqn:E2; cbn [fst]; [|split; [reflexivity|exact Hr]].
    pose proof (Hr _ _ E2) as P2. destruct h2 as [[s2| | | |]|]; try contradiction. cbn [h_clone of_res fst].
    split; [reflexivity|]. fin17 Hr St Rm.
  - destruct (lookup rs r) as [h1|] eqn:E1; cbn [fst]; [|split; [reflexivity|exact Hr]].
    destruct (lookup rs r2) as [h2|] eqn:E2; cbn [fst]; [|split; [reflexivity|exact Hr]].
    pose proof (Hr _ _ E2) as P2. destruct h2 as [[s2| | | |]|]; try contradiction.
    destruct (Nat.eqb r r2 || negb (same_type h1 (HPlain (CP s2)))); cbn [h_clone of_res fst]; [split; [reflexivity|exact Hr]|].
    split; [reflexivity|]. fin17 Hr St Rm.
  - destruct (lookup rs r) as [h|] eqn:E; cbn [fst]; [|split; [reflexivity|exact Hr]].
    pose proof (Hr _ _ E) as P. destruct h as [[s| | | |]|]; try contradiction. cbn [h_append c_append e_prof e_addr].
    destruct (p_append p s d) as [s'| |]; cbn [bind of_res fst]; (split; [reflexivity|]); fin17 Hr St Rm.
  - destruct (lookup rs r) as [h|] eqn:E; cbn [fst]; [|split; [reflexivity|exact Hr]].
    pose proof (Hr _ _ E) as P. destruct h as [[s| | | |]|]; try contradiction. cbn [h_append c_append e_prof e_addr].
    destruct (p_append p s d) as [s'| |]; cbn [bind of_res fst]; (split; [reflexivity|]); fin17 Hr St Rm.
  - destruct (lookup rs r) as [h|] eqn:E; cbn [fst]; [|split; [reflexivity|exact Hr]].
    pose proof (Hr _ _ E) as P. destruct h as [[s| | | |]|]; try contradiction. cbn [h_append c_append e_prof e_addr].
    destruct (p_append p s d) as [s'| |]; cbn [bind of_res fst]; (split; [reflexivity|]); fin17 Hr St Rm.
  - destruct (lookup rs r) as [h|] eqn:E; cbn [fst]; [|split; [reflexivity|exact Hr]].
    pose proof (Hr _ _ E) as P. destruct h as [[s| | | |]|]; try contradiction. cbn [h_append c_append e_prof e_addr].
    destruct (p_append p s d) as [s'| |]; cbn [bind of_res fst]; (split; [reflexivity|]); fin17 Hr St Rm.
  - destruct (lookup rs r) as [h|] eqn:E; cbn [fst]; [|split; [reflexivity|exact Hr]].
    pose proof (Hr _ _ E) as P. destruct h as [[s| | | |]|]; try contradiction. cbn [h_append c_append e_prof e_addr].
    destruct (p_append p s d) as [s'| |]; cbn [bind of_res fst]; (split; [reflexivity|]); fin17 Hr St Rm.
  - destruct (lookup rs r) as [h|] eqn:E; cbn [fst]; split; try reflexivity; exact Hr.
  - destruct (lookup rs r) as [h|] eqn:E; cbn [fst]; [|split; [reflexivity|exact Hr]].
    pose proof (Hr _ _ E) as P. destruct h as [[s| | | |]|]; try contradiction.
    unfold h_finish. cbn [h_clone bind h_finalize c_finalize e_prof].
    destruct (p_finalize64 p s) as [x| |]; cbn [bind of_res fst]; (split; [reflexivity|exact Hr]).
  - destruct (lookup rs r) as [h|] eqn:E; cbn [fst]; [|split; [reflexivity|exact Hr]].
    pose proof (Hr _ _ E) as P. destruct h as [[s| | | |]|]; try contradiction. cbn [h_checkpoint c_checkpoint e_prof].
    destruct (p_checkpoint p s) as [x| |]; cbn [of_res fst]; (split; [reflexivity|exact Hr]).
  - destruct (lookup rs r) as [h|] eqn:E; cbn [fst]; [|split; [reflexivity|exact Hr]].
    pose proof (Hr _ _ E) as P. destruct h as [[s| | | |]|]; try contradiction. cbn [h_debug of_res fst]. split; [reflexivity|exact Hr].
  - destruct (lookup rs r) as [h|] eqn:E; cbn [fst]; [|split; [reflexivity|exact Hr]].
    pose proof (Hr _ _ E) as P. destruct h as [[s| | | |]|]; try contradiction. cbn [h_finalize e_prof].
    destruct (c_finalize p w (CP s)) as [x| |]; cbn [of_res fst]; (split; [reflexivity|]); fin17 Hr St Rm.
  - destruct (lookup rs r) as [h|] eqn:E; cbn [fst]; [|split; [reflexivity|exact Hr]].
    pose proof (Hr _ _ E) as P. destruct h as [[s| | | |]|]; try contradiction. cbn [h_append c_append h_finalize e_prof e_addr].
    destruct (p_append p s d) as [s'| |]; cbn [bind]; [|split; [reflexivity|exact Hr]|split; [reflexivity|exact Hr]].
    cbn [h_finalize e_prof].
    destruct (c_finalize p w (CP s')) as [x| |]; cbn [of_res fst]; (split; [reflexivity|]); fin17 Hr St Rm.
Qed.

Theorem C17_model_target_free : forall p c1 c2 a1 a2 h, forallb portable_only h = true ->
  run {| e_prof := p; e_cfg := c1; e_addr := a1 |} h = run {| e_prof := p; e_cfg := c2; e_addr := a2 |} h.
Proof.
  intros p c1 c2 a1 a2 h. unfold run.
  assert (H0 : forall r x, lookup [] r = Some x -> plain_portable x) by (intros r x; discriminate).
  revert H0. generalize (@nil (nat * hasher)) as rs.
  induction h as [|o h IH]; intros rs Hr Hp; cbn [run_from]; [reflexivity|].
  cbn [forallb] in Hp. apply andb_true_iff in Hp as [Ho Hh].
  destruct (step_portable_cfg p c1 c2 a1 a2 rs o Hr Ho) as [E K]. rewrite <- E.
  destruct (step {| e_prof := p; e_cfg := c1; e_addr := a1 |} rs o) as [[rs' outs] cont]. cbn [fst] in K.
  destruct cont; [|reflexivity]. rewrite (IH rs' K Hh). reflexivity.
Qed.

Print Assumptions C17_endian_neutral_source.
Print Assumptions C17_model_target_free.
