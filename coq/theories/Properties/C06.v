(* C06 — checkpoint / restore is transparent at every cut and across hasher types, through any number
   of hops: after new, any chunks, then any list of (checkpoint; restore on some type; more chunks),
   every width's result is HighwayHash of all the bytes. *)
From Coq Require Import NArith List Lia Bool.
From HW Require Import Word Packet Portable Spec Dispatch History.
From HW.Refine Require Import Logical Codec Backends Generic.
From HW.Properties Require Import Common.
Import ListNotations.

Theorem C06_checkpoint_transparent :
  forall (e : env) (b : backend) (force : bool) (k : lanes) (fs : list (list N)) (segs : list seg) (w : width) (h0 h1 hn : hasher),
  wlanesb k = true -> wbs fs -> segs_ok segs ->
  h_new e b force k = Ok (Some h0) -> feed e h0 fs = Ok h1 -> hops e h1 segs = Ok (Some hn) ->
  h_finalize e w hn = Ok (HH w k (concat fs ++ segs_bytes segs)).
Proof. exact checkpoint_transparent. Qed.

(* the hops never fail: each one either declines (a safe SSE/AVX constructor without std / detection)
   or carries the logical state over exactly *)
Theorem C06_hops_total :
  forall e segs h, segs_ok segs -> HInv e h -> ctor_ok e (absorb (habs h) (segs_bytes segs)) (hops e h segs).
Proof. intros e segs h Hs HI. exact (hops_ok e segs Hs h HI). Qed.

(* decode is a left inverse of encode on every well-formed logical state *)
Theorem C06_codec_roundtrip : forall l, Lwf l -> Hwf (fst l) -> decode (encode l) = l.
Proof. exact decode_encode. Qed.

Example C06_example :
  let e := env_of prof_dev cfg_host in
  match h_new e BP false kdoc with
  | Ok (Some h0) =>
      match feed e h0 [sample 31] with
      | Ok h1 => match hops e h1 [(BA, true, [sample 9; []]); (BS, false, [sample 70]); (BD, false, []); (BW, false, [sample 33])] with
                 | Ok (Some hn) => h_finalize e W256 hn = Ok (HH W256 kdoc (sample 31 ++ sample 9 ++ sample 70 ++ sample 33))
                 | _ => False end
      | _ => False end
  | _ => False end.
Proof. vm_compute. reflexivity. Qed.

Print Assumptions C06_checkpoint_transparent.
Print Assumptions C06_hops_total.
Print Assumptions C06_codec_roundtrip.
