(* C07 — Default-constructed hashers are the zero-key hasher, for every hasher type. *)
From Coq Require Import NArith List Lia Bool.
From HW Require Import Word Packet Portable Spec Dispatch History.
From HW.Refine Require Import Logical Backends Generic.
From HW.Properties Require Import Common.
Import ListNotations.

Theorem C07_default_is_zero_key : forall (e : env) (b : backend), h_default e b = h_new e b true key0.
Proof. exact h_default_is_new. Qed.

Theorem C07_default_hashes_with_zero_key :
  forall (e : env) (b : backend) (fs : list (list N)) (w : width) (h0 : hasher),
  wbs fs -> h_default e b = Ok (Some h0) ->
  exists h, feed e h0 fs = Ok h /\ h_finalize e w h = Ok (HH w key0 (concat fs)).
Proof.
  intros e b fs w h0 Hfs Hd. rewrite h_default_is_new in Hd.
  exact (streaming e b true key0 fs w h0 key0_wf Hfs Hd).
Qed.

(* Default never declines and never fails *)
Theorem C07_default_total : forall e b, exists h, h_default e b = Ok (Some h) /\ HInv e h /\ habs h = L0 key0.
Proof.
  intros e b. destruct (h_default_ok e b) as [E|H]; [|exact H].
  exfalso. destruct b; cbn [h_default] in E; try discriminate;
    try (vm_compute in E; discriminate);
    unfold some_disp, d_new in E; destruct (ladder (e_cfg e)); vm_compute in E; discriminate.
Qed.

Example C07_example :
  let e := env_of prof_dev cfg_host in
  map (fun b => match h_default e b with
                | Ok (Some h) => match feed e h [sample 3] with Ok h' => h_finalize e W64 h' | _ => Panic end
                | _ => Panic end) [BP; BS; BA; BN; BW; BD; BB]
  = repeat (Ok (HH W64 key0 (sample 3))) 7.
Proof. vm_compute. reflexivity. Qed.
Example C07_zero_key_empty : HH W64 key0 [] = [0x7035da75b9d54469%N].
Proof. vm_compute. reflexivity. Qed.

Print Assumptions C07_default_is_zero_key.
Print Assumptions C07_default_hashes_with_zero_key.
Print Assumptions C07_default_total.
