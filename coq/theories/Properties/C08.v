(* C08 — no sequence of safe operations panics, in any build profile and any configuration: the
   interpreter never prints PANIC (nor FAULT: undefined behaviour the model can see) for any history
   whose inputs are bytes and 64-bit words — constructors, appends, writes, finish, clone, checkpoint,
   restore from ARBITRARY bytes, finalize at any width, on every hasher type.
   (The clause about the absence of panic edges in an optimised binary is about rustc's output; it is
   checked by linking #[no_panic] wrappers, see DESIGN.md.) *)
From Coq Require Import NArith List Lia Bool.
From HW Require Import Word Packet Portable Spec Dispatch History.
From HW.Refine Require Import Logical Backends Generic.
From HW.Properties Require Import Common.
Import ListNotations.

Theorem C08_no_panic : forall (e : env) (h : list op), Forall wf_op h -> quiet (run e h).
Proof. exact run_safe. Qed.

Check C08_no_panic : forall e h, Forall wf_op h -> ~ In OutPanic (run e h) /\ ~ In OutFault (run e h).

(* non-vacuity: a history with a restore from a blob whose count field is 2^32-1, in the dev profile *)
Definition blob_ff : list N := repeat 255%N 164.
Example C08_example :
  let h := [ORestore 0 BP false blob_ff; ORestore 1 BA true blob_ff; OAppend 0 []; OAppend 1 (sample 40);
            OClone 2 1; OFinish 2; OCkpt 0; OFin W64 0; OFin W256 1; OHash W128 2 (sample 31)] in
  Forall wf_op h /\ length (run (env_of prof_dev cfg_host) h) = 10%nat.
Proof. split; [repeat constructor; try reflexivity; discriminate|vm_compute; reflexivity]. Qed.

Print Assumptions C08_no_panic.
