(* C02 — SseHash, AvxHash and HighwayHasher (also via HighwayBuildHasher) return exactly the portable
   result, for every key, every feed list, every width, every build profile and every build
   configuration (compile-time target features, std / no_std, run-time detection). *)
From Coq Require Import NArith List Lia Bool.
From HW Require Import Word Packet Portable Spec Dispatch History.
From HW.Refine Require Import Logical Backends Generic.
From HW.Properties Require Import Common.
Import ListNotations.

Definition x86_backend (b : backend) : Prop := b = BS \/ b = BA \/ b = BD \/ b = BB.

Theorem C02_x86_backends_equal_portable :
  forall (e : env) (b : backend) (force : bool) (k : lanes) (fs : list (list N)) (w : width) (h0 : hasher),
  x86_backend b -> wlanesb k = true -> wbs fs -> h_new e b force k = Ok (Some h0) ->
  exists h p, feed e h0 fs = Ok h /\ feed e (HPlain (CP (p_new k))) fs = Ok p /\
              h_finalize e w h = h_finalize e w p /\ h_finalize e w h = Ok (HH w k (concat fs)).
Proof.
  intros e b force k fs w h0 _ Hk Hfs Hn.
  destruct (streaming e b force k fs w h0 Hk Hfs Hn) as (h & F & D).
  destruct (streaming e BP false k fs w (HPlain (CP (p_new k))) Hk Hfs eq_refl) as (p & F' & D').
  exists h, p. rewrite D, D'. auto.
Qed.

(* the configuration cannot change a result: two environments, same digests *)
Theorem C02_config_independent :
  forall (e1 e2 : env) (b1 b2 : backend) (f1 f2 : bool) (k : lanes) (fs : list (list N)) (w : width) (h1 h2 : hasher),
  wlanesb k = true -> wbs fs -> h_new e1 b1 f1 k = Ok (Some h1) -> h_new e2 b2 f2 k = Ok (Some h2) ->
  exists x y, feed e1 h1 fs = Ok x /\ feed e2 h2 fs = Ok y /\ h_finalize e1 w x = h_finalize e2 w y.
Proof.
  intros e1 e2 b1 b2 f1 f2 k fs w h1 h2 Hk Hfs H1 H2.
  destruct (streaming e1 b1 f1 k fs w h1 Hk Hfs H1) as (x & F & D).
  destruct (streaming e2 b2 f2 k fs w h2 Hk Hfs H2) as (y & F' & D').
  exists x, y. rewrite D, D'. auto.
Qed.

(* the safe constructors, when they return a hasher, return the one force_new builds *)
Theorem C02_safe_constructors : forall (c : config) (k : lanes),
  (forall s, s_new c k = Ok (Some s) -> Sse.s_force_new k = Ok s) /\
  (forall s, a_new c k = Ok (Some s) -> Avx.a_force_new k = Ok s).
Proof.
  intros c k. unfold s_new, a_new. split; intros s.
  - destruct (c_std c && det_sse41 c); [|discriminate]. destruct (Sse.s_force_new k); cbn; congruence.
  - destruct (c_std c && det_avx2 c); [|discriminate]. destruct (Avx.a_force_new k); cbn; congruence.
Qed.

(* non-vacuity: all four types on a 75-byte high-bit input fed in three chunks *)
Example C02_example :
  let e := env_of prof_dev cfg_host in
  let fs := [sample 31; sample 9; sample 35] in
  map (fun b => match h_new e b true kdoc with
                | Ok (Some h) => match feed e h fs with Ok h' => h_finalize e W256 h' | _ => Panic end
                | _ => Panic end) [BS; BA; BD; BB]
  = repeat (Ok (HH W256 kdoc (concat fs))) 4.
Proof. vm_compute. reflexivity. Qed.

Print Assumptions C02_x86_backends_equal_portable.
Print Assumptions C02_config_independent.
Print Assumptions C02_safe_constructors.
