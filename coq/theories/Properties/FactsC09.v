(* FactsC09.v — the memory signature regenerated from the SIMD / dispatcher sources equals the one the model declares
   (Facts/MemSigExpected.v): same load/store intrinsics, pointer operations, slices of caller data and call sites of
   the memory-reading functions, in the same order, in every function. *)
From Coq Require Import String List NArith Bool.
From HW Require Import Dispatch.
From HW.Facts Require Import FactTypes FactChecks MemSigExpected.
From HWGen Require Import SrcFacts MemSig.
Import ListNotations.
Local Open Scope string_scope.

Theorem facts_parse_ok : parse_errors = [].
Proof. reflexivity. Qed.

Fixpoint strs_eqb (a b : list string) : bool :=
  match a, b with [], [] => true | x :: a', y :: b' => String.eqb x y && strs_eqb a' b' | _, _ => false end.
Fixpoint memsig_eqb (a b : list (string * list string)) : bool :=
  match a, b with
  | [], [] => true
  | (n, l) :: a', (n', l') :: b' => String.eqb n n' && strs_eqb l l' && memsig_eqb a' b'
  | _, _ => false
  end.
Theorem C09_memory_signature : memsig_eqb gen_memsig expected_memsig = true.
Proof. vm_compute. reflexivity. Qed.
Print Assumptions C09_memory_signature.
