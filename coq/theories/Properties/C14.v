(* C14 — checkpoint bytes are a canonical encoding of the logical state: [encode (habs h)], a function
   of the key and the bytes consumed so far only — whatever the chunking history or the hasher type;
   restore-then-checkpoint returns the same bytes; beyond the pending bytes the buffer field is zero. *)
From Coq Require Import NArith List Lia Bool Arith.
From HW Require Import Word Chunks Packet Portable Spec Dispatch History.
From HW.Refine Require Import ChunksFacts Logical Codec Backends Generic.
From HW.Properties Require Import Common.
Import ListNotations.

Theorem C14_checkpoint_canonical :
  forall e b force k fs h0, wlanesb k = true -> wbs fs -> h_new e b force k = Ok (Some h0) ->
  exists h, feed e h0 fs = Ok h /\ h_checkpoint e h = Ok (encode (absorb (L0 k) (concat fs))).
Proof.
  intros e b force k fs h0 Hk Hfs Hn. destruct (h_new_ok e b force k Hk) as [E|(h & E & I & A)]; [congruence|].
  rewrite Hn in E. injection E as <-.
  destruct (feed_ok e fs Hfs h0 I) as (h' & F & I' & A'). exists h'. split; [exact F|].
  rewrite h_checkpoint_ok by exact I'. rewrite A', A. reflexivity.
Qed.

(* same stream, any two chunkings, any two hasher types, any two environments: identical bytes *)
Corollary C14_same_stream_same_bytes :
  forall e1 e2 b1 b2 f1 f2 k fs1 fs2 h1 h2, wlanesb k = true -> wbs fs1 -> wbs fs2 -> concat fs1 = concat fs2 ->
  h_new e1 b1 f1 k = Ok (Some h1) -> h_new e2 b2 f2 k = Ok (Some h2) ->
  exists x y, feed e1 h1 fs1 = Ok x /\ feed e2 h2 fs2 = Ok y /\ h_checkpoint e1 x = h_checkpoint e2 y.
Proof.
  intros e1 e2 b1 b2 f1 f2 k fs1 fs2 h1 h2 Hk H1 H2 Hc N1 N2.
  destruct (C14_checkpoint_canonical e1 b1 f1 k fs1 h1 Hk H1 N1) as (x & F & C).
  destruct (C14_checkpoint_canonical e2 b2 f2 k fs2 h2 Hk H2 N2) as (y & F' & C').
  exists x, y. rewrite C, C', Hc. auto.
Qed.

(* restore a produced checkpoint and checkpoint again: the same 164 bytes *)
Theorem C14_idempotent : forall e h b force h', HInv e h -> b <> BB -> hop e h b force = Ok (Some h') ->
  h_checkpoint e h' = h_checkpoint e h.
Proof.
  intros e h b force h' HI Hb Hh. destruct (hop_ok e h b force HI Hb) as [E|(x & E & I & A)]; [congruence|].
  rewrite Hh in E. injection E as <-. rewrite !h_checkpoint_ok by assumption. rewrite A. reflexivity.
Qed.

(* layout: 164 bytes; bytes 128 .. 128+len are the pending bytes, 128+len .. 160 are zero, then len *)
Theorem C14_layout : forall l, Lwf l ->
  length (encode l) = 164%nat /\
  encode l = hstate_bytes (fst l) ++ snd l ++ repeat 0%N (32 - length (snd l)) ++ to_le_bytes 4 (t32 (N.of_nat (length (snd l)))).
Proof.
  intros l Hl. split; [apply encode_length; exact Hl|]. unfold encode. rewrite <- !app_assoc. reflexivity.
Qed.

(* the pending bytes are the LAST length mod 32 bytes of the stream: nothing already absorbed is kept *)
Theorem C14_only_unabsorbed_bytes : forall k d,
  snd (absorb (L0 k) d) = skipn (length d - Nat.modulo (length d) 32) d.
Proof.
  intros k d. unfold absorb, L0. cbn [fst snd app]. pose proof (chunks32_spec d) as S.
  destruct (chunks32 d) as [ps r]. cbn [snd]. destruct S as (E & F & L & M).
  assert (Hlen : length d = (length (concat ps) + length r)%nat) by (rewrite E at 1; apply app_length).
  assert (Hc : (length d - Nat.modulo (length d) 32 = length (concat ps))%nat) by lia.
  rewrite Hc. rewrite E at 1. rewrite skipn_app, Nat.sub_diag, skipn_all. reflexivity.
Qed.

Example C14_example :
  let e := env_of prof_dev cfg_host in
  map (fun bf => match h_new e (fst bf) true kdoc with
                 | Ok (Some h) => match feed e h (snd bf) with Ok h' => h_checkpoint e h' | _ => Panic end
                 | _ => Panic end)
      [(BP, [sample 31; skipn 31 (sample 40)]); (BA, [sample 40]); (BS, [sample 1; skipn 1 (sample 40)]); (BN, [sample 40; []]);
       (BW, [sample 32; skipn 32 (sample 40)]); (BD, [sample 40])]
  = repeat (Ok (encode (absorb (L0 kdoc) (sample 40)))) 6.
Proof. vm_compute. reflexivity. Qed.

Print Assumptions C14_checkpoint_canonical.
Print Assumptions C14_idempotent.
Print Assumptions C14_layout.
Print Assumptions C14_only_unabsorbed_bytes.
