(* C01 — the portable hasher computes exactly HighwayHash (64/128/256 bit), for every key, every
   byte string, every width and every build profile; the result is a pure function of
   (key, bytes, width). *)
From Coq Require Import NArith List Lia Bool.
From HW Require Import Word Packet Portable Spec SpecVectors Dispatch History.
From HW.Refine Require Import Logical PortableRefine HistoryFacts.
Import ListNotations.

(* append everything, then finalize at width w: Ok (HH w k d) — no panic in any profile *)
Theorem C01_portable_is_highwayhash : forall (prof : profile) (k : lanes) (d : list N) (w : width),
  exists s, p_append prof (p_new k) d = Ok s /\ p_finalize prof w s = Ok (HH w k d).
Proof. exact portable_is_spec. Qed.

(* the same statement about the interpreter the correspondence check runs, for both entry points
   (one-shot helper and append + finalize), in every environment *)
Theorem C01_run : forall (e : env) (k : lanes) (d : list N) (w : width),
  run e [ONew 0 BP false k; OHash w 0 d] = [OutOk; OutDigest (HH w k d)] /\
  run e [ONew 0 BP false k; OAppend 0 d; OFin w 0] = [OutOk; OutOk; OutDigest (HH w k d)].
Proof. exact portable_run_is_spec. Qed.

(* pure function of (key, bytes, width): nothing else in the environment (profile, build
   configuration, address of the data) can influence the result *)
Theorem C01_pure_function : forall (e1 e2 : env) (k : lanes) (d : list N) (w : width),
  run e1 [ONew 0 BP false k; OHash w 0 d] = run e2 [ONew 0 BP false k; OHash w 0 d].
Proof. intros. rewrite (proj1 (C01_run e1 k d w)), (proj1 (C01_run e2 k d w)). reflexivity. Qed.

Check C01_portable_is_highwayhash : forall prof k d w,
  exists s, p_append prof (p_new k) d = Ok s /\ p_finalize prof w s = Ok (HH w k d).

(* non-vacuity: a 40-byte input with high-bit bytes, evaluated *)
Example C01_example :
  run {| e_prof := prof_dev; e_cfg := {| c_arch := OtherArch; tf_avx2 := false; tf_sse41 := false; c_std := true;
                                         det_avx2 := false; det_sse41 := false; c_simd128 := false |}; e_addr := 0 |}
      [ONew 0 BP false (1, 2, 3, 4)%N; OHash W64 0 [255%N]] = [OutOk; OutDigest [0x7858f24d2d79b2b2%N]].
Proof. vm_compute. reflexivity. Qed.

Print Assumptions C01_portable_is_highwayhash.
Print Assumptions C01_run.
Print Assumptions C01_pure_function.
