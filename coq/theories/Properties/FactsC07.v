(* FactsC07.v — the Default impls in the source have the shape the model assumes (new(Key::default()) /
   force_new(Key::default())), for all six hasher types; build_hasher is new(self.key); Key is repr(align(32)). *)
From Coq Require Import String List NArith Bool.
From HW Require Import Dispatch.
From HW.Facts Require Import FactTypes FactChecks MemSigExpected.
From HWGen Require Import SrcFacts MemSig.
Import ListNotations.
Local Open Scope string_scope.

Theorem facts_parse_ok : parse_errors = [].
Proof. reflexivity. Qed.

Theorem C07_default_impls : defaults_ok impl_bodies = true.
Proof. vm_compute. reflexivity. Qed.
Print Assumptions C07_default_impls.
