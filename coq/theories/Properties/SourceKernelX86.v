(* SourceKernelX86 — the SSE4.1 and AVX2 kernels and their vector wrapper types, translated from the current source text
   on every run (gen/SrcSse.v, gen/SrcAvx.v) and interpreted by Facts/VecLite.v over the intrinsic models of X86.v, are
   the hand-written models Sse.v / Avx.v, function by function, for every state, argument and build profile.
   (Part of C02: the models C02 is proved about are, for these functions, what the source says today.) *)
From Coq Require Import NArith List String Bool.
From HW Require Import Word Packet Mem X86 Portable Sse Avx.
From HW.Facts Require Import VecLite.
From HWGen Require Import SrcSse SrcAvx.
From HW.Refine Require Import SourceTieSse SourceTieAvx.
Import ListNotations.
Local Open Scope string_scope.
Local Open Scope N_scope.

Notation scall p b := (vcall (sse_prim p b) src_sse).
Notation acall p b := (vcall (avx_prim p b) src_avx).

Theorem SRC_sse_kernel : forall p b fuel c pH pL x init,
  scall p b (12 + fuel)%nat "SseHash::update" (core_vals c ++ [XT [X2 pH; X2 pL]]) = Ok (XT (core_vals (s_update c pH pL))) /\
  scall p b (16 + fuel)%nat "SseHash::permute_and_update" (core_vals c) = Ok (XT (core_vals (s_permute_and_update c))) /\
  scall p b (10 + fuel)%nat "SseHash::zipper_merge" [X2 x] = Ok (X2 (s_zipper_merge x)) /\
  scall p b (12 + fuel)%nat "SseHash::modular_reduction" [X2 x; X2 init] = Ok (X2 (s_modular_reduction x init)).
Proof.
  intros. repeat match goal with |- _ /\ _ => split end; [apply sse_update_ok | apply sse_permute_and_update_ok | apply sse_zipper_merge_ok | apply sse_modular_reduction_ok].
Qed.

Theorem SRC_sse_remainder_path : forall p b fuel c count,
  (count < 9223372036854775808 ->
   scall p b (12 + fuel)%nat "SseHash::rotate_32_by" (core_vals c ++ [XN count]) = Ok (XT (core_vals (s_rotate_32_by c count)))) /\
  (N.of_nat (plen b) < 9223372036854775808 ->
   scall p b (20 + fuel)%nat "SseHash::update_remainder" (core_vals c)
   = SourceTieSse.lift (s_update_remainder p {| s_core := c; s_buffer := b |}) (fun c' => XT (core_vals c'))).
Proof. intros. split; [apply sse_rotate_32_by_ok | apply sse_update_remainder_ok]. Qed.

Theorem SRC_sse_wrapper : forall p b fuel x y,
  scall p b (8 + fuel)%nat "V2x64U::Add::add" [X2 x; X2 y] = Ok (X2 (mm_add_epi64 x y)) /\
  scall p b (8 + fuel)%nat "V2x64U::BitXor::bitxor" [X2 x; X2 y] = Ok (X2 (mm_xor_si128 x y)) /\
  scall p b (8 + fuel)%nat "V2x64U::BitOr::bitor" [X2 x; X2 y] = Ok (X2 (mm_or_si128 x y)) /\
  scall p b (8 + fuel)%nat "V2x64U::BitAnd::bitand" [X2 x; X2 y] = Ok (X2 (mm_and_si128 x y)) /\
  scall p b (8 + fuel)%nat "V2x64U::AddAssign::add_assign" [X2 x; X2 y] = Ok (X2 (mm_add_epi64 x y)) /\
  scall p b (8 + fuel)%nat "V2x64U::BitXorAssign::bitxor_assign" [X2 x; X2 y] = Ok (X2 (mm_xor_si128 x y)) /\
  scall p b (8 + fuel)%nat "V2x64U::BitOrAssign::bitor_assign" [X2 x; X2 y] = Ok (X2 (mm_or_si128 x y)) /\
  scall p b (8 + fuel)%nat "V2x64U::BitAndAssign::bitand_assign" [X2 x; X2 y] = Ok (X2 (mm_and_si128 x y)) /\
  scall p b (8 + fuel)%nat "V2x64U::rotate_by_32" [X2 x] = Ok (X2 (V2_rotate_by_32 x)) /\
  scall p b (8 + fuel)%nat "V2x64U::and_not" [X2 x; X2 y] = Ok (X2 (V2_and_not x y)) /\
  scall p b (8 + fuel)%nat "V2x64U::shuffle" [X2 x; X2 y] = Ok (X2 (mm_shuffle_epi8 x y)).
Proof. exact sse_wrapper_ops. Qed.

(* V2x64U::from(e) is read as e: every From impl of the wrapper is the identity *)
Theorem SRC_sse_from_identity : forall p b fuel v f, In f src_sse_from_impls -> scall p b (6 + fuel)%nat f [X2 v] = Ok (X2 v).
Proof. intros p b fuel v. exact (proj2 (sse_from_impls_are_identities p b fuel v)). Qed.

Theorem SRC_avx_kernel : forall p b fuel c packet x init,
  acall p b (14 + fuel)%nat "AvxHash::update" (acore_vals c ++ [X4 packet]) = Ok (XT (acore_vals (a_update c packet))) /\
  acall p b (10 + fuel)%nat "AvxHash::permute" [X4 x] = Ok (X4 (a_permute x)) /\
  acall p b (10 + fuel)%nat "AvxHash::zipper_merge" [X4 x] = Ok (X4 (a_zipper_merge x)) /\
  acall p b (12 + fuel)%nat "AvxHash::modular_reduction" [X4 x; X4 init] = Ok (X4 (a_modular_reduction x init)) /\
  (N.of_nat (plen b) <= M64 ->
   acall p b (20 + fuel)%nat "AvxHash::update_remainder" (acore_vals c)
   = lift_a (a_update_remainder p {| a_core := c; a_buffer := b |}) (fun c' => XT (acore_vals c'))).
Proof.
  intros. repeat match goal with |- _ /\ _ => split end; [apply avx_update_ok | apply avx_permute_ok | apply avx_zipper_merge_ok | apply avx_modular_reduction_ok
                        | apply avx_update_remainder_ok].
Qed.

Theorem SRC_avx_wrapper : forall p b fuel x y,
  acall p b (8 + fuel)%nat "V4x64U::Add::add" [X4 x; X4 y] = Ok (X4 (mm256_add_epi64 x y)) /\
  acall p b (8 + fuel)%nat "V4x64U::BitXor::bitxor" [X4 x; X4 y] = Ok (X4 (mm256_xor_si256 x y)) /\
  acall p b (8 + fuel)%nat "V4x64U::BitOr::bitor" [X4 x; X4 y] = Ok (X4 (mm256_or_si256 x y)) /\
  acall p b (8 + fuel)%nat "V4x64U::BitAnd::bitand" [X4 x; X4 y] = Ok (X4 (mm256_and_si256 x y)) /\
  acall p b (8 + fuel)%nat "V4x64U::AddAssign::add_assign" [X4 x; X4 y] = Ok (X4 (mm256_add_epi64 x y)) /\
  acall p b (8 + fuel)%nat "V4x64U::BitXorAssign::bitxor_assign" [X4 x; X4 y] = Ok (X4 (mm256_xor_si256 x y)) /\
  acall p b (8 + fuel)%nat "V4x64U::BitOrAssign::bitor_assign" [X4 x; X4 y] = Ok (X4 (mm256_or_si256 x y)) /\
  acall p b (8 + fuel)%nat "V4x64U::BitAndAssign::bitand_assign" [X4 x; X4 y] = Ok (X4 (mm256_and_si256 x y)) /\
  acall p b (8 + fuel)%nat "V4x64U::rotate_by_32" [X4 x] = Ok (X4 (V4_rotate_by_32 x)) /\
  acall p b (8 + fuel)%nat "V4x64U::shr_by_32" [X4 x] = Ok (X4 (V4_shr_by_32 x)) /\
  acall p b (8 + fuel)%nat "V4x64U::mul_low32" [X4 x; X4 y] = Ok (X4 (V4_mul_low32 x y)) /\
  acall p b (8 + fuel)%nat "V4x64U::and_not" [X4 x; X4 y] = Ok (X4 (V4_and_not x y)) /\
  acall p b (8 + fuel)%nat "V4x64U::shuffle" [X4 x; X4 y] = Ok (X4 (mm256_shuffle_epi8 x y)).
Proof. exact avx_wrapper_ops. Qed.

Theorem SRC_avx_from_identity : forall p b fuel v f, In f src_avx_from_impls -> acall p b (6 + fuel)%nat f [X4 v] = Ok (X4 v).
Proof. exact avx_from_impls_are_identities. Qed.

(* non-vacuity: the interpreter runs the generated SSE update on a concrete state and packet and agrees with the model *)
Example SRC_sse_runs :
  scall prof_dev packet_default 40 "SseHash::update"
    (core_vals {| v0L := (1,2); v0H := (3,4); v1L := (5,6); v1H := (7,8); mul0L := (9,10); mul0H := (11,12); mul1L := (13,14); mul1H := (15,16) |}
       ++ [XT [X2 (0xfffefdfcfbfaf9f8, 0x0102030405060708); X2 (0x8000000000000001, 0xdeadbeefcafebabe)]])
  = Ok (XT (core_vals (s_update {| v0L := (1,2); v0H := (3,4); v1L := (5,6); v1H := (7,8); mul0L := (9,10); mul0H := (11,12);
                                   mul1L := (13,14); mul1H := (15,16) |} (0xfffefdfcfbfaf9f8, 0x0102030405060708) (0x8000000000000001, 0xdeadbeefcafebabe)))).
Proof. vm_compute. reflexivity. Qed.

(* ---- SseHash::finalize64 / finalize128 / finalize256 (translated since VIf / VRepeat / stores are in the fragment) ----
   NOT the unbounded statement: a finite table of concrete states (two cores, pending lengths 0, 1, 5, 16, 17, 31, both
   build profiles) on which the interpreted source text and s_finalize* are computed and compared.  It is a test inside
   the assistant, kept here so that an edit of the text of finalize* (lanes summed, number of rounds, store offsets) breaks
   an obligation that names the function; the unbounded tie of these three functions is still the native correspondence. *)
Definition fin_core1 : score :=
  {| v0L := (0xdbe6d5d5fe4cce2f, 0xa4093822299f31d0); v0H := (0x13198a2e03707344, 0x243f6a8885a308d3);
     v1L := (0x3bd39e10cb0ef593, 0xc0acf169b5f18a8c); v1H := (0xbe5466cf34e90c6c, 0x452821e638d01377);
     mul0L := (0xdbe6d5d5fe4cce2f, 0xa4093822299f31d0); mul0H := (0x13198a2e03707344, 0x243f6a8885a308d3);
     mul1L := (0x3bd39e10cb0ef593, 0xc0acf169b5f18a8c); mul1H := (0xbe5466cf34e90c6c, 0x452821e638d01377) |}.
Definition fin_core2 : score :=
  {| v0L := (0xfffffffffffffff0, 0x8000000000000000); v0H := (0x00000000ffffffff, 0xffffffff00000000);
     v1L := (0x0123456789abcdef, 0xfedcba9876543210); v1H := (0x7fffffffffffffff, 0xc000000000000001);
     mul0L := (1, 2); mul0H := (0xdeadbeefcafebabe, 4); mul1L := (5, 0xffffffffffffffff); mul1H := (7, 0x8000000080000000) |}.
Definition fin_bytes : list N :=
  [0x80; 0x01; 0xff; 0x7f; 0x10; 0xa5; 0x5a; 0x00; 0xfe; 0x33; 0xc4; 0x9d; 0x21; 0xe7; 0x68; 0xb2;
   0x0f; 0xf0; 0x81; 0x18; 0x42; 0xbd; 0x99; 0x66; 0x03; 0xfc; 0x55; 0xaa; 0xd1; 0x2e; 0x77; 0x88].
Definition fin_cases : list (profile * score * packet) :=
  flat_map (fun pr => flat_map (fun c => map (fun k => (pr, c, {| buf := fin_bytes; idx := k |})) [0; 1; 5; 16; 17; 31]%nat)
                               [fin_core1; fin_core2]) [prof_dev; prof_release].
Definition vfst (r : res vval) : res vval :=
  match r with Ok (XT [a; _]) => Ok a | Ok _ => Fault | Panic => Panic | Fault => Fault end.
Definition res_eqb (a b : res vval) : bool :=
  match a, b with
  | Ok (XN x), Ok (XN y) => N.eqb x y
  | Ok (XT xs), Ok (XT ys) =>
      (fix go (l m : list vval) : bool :=
         match l, m with
         | [], [] => true
         | XN x :: l', XN y :: m' => N.eqb x y && go l' m'
         | _, _ => false
         end) xs ys
  | Panic, Panic => true
  | _, _ => false
  end.
Definition fin_case_ok (t : profile * score * packet) : bool :=
  let '(pr, c, b) := t in
  let s := {| s_core := c; s_buffer := b |} in
  res_eqb (vfst (scall pr b 60 "SseHash::finalize64" (core_vals c)))
          (match s_finalize64 pr s with Ok r => Ok (XN r) | Panic => Panic | Fault => Fault end)
  && res_eqb (vfst (scall pr b 60 "SseHash::finalize128" (core_vals c)))
             (match s_finalize128 pr s with Ok (a, d) => Ok (XT [XN a; XN d]) | Panic => Panic | Fault => Fault end)
  && res_eqb (vfst (scall pr b 60 "SseHash::finalize256" (core_vals c)))
             (match s_finalize256 pr s with Ok (a0, a1, a2, a3) => Ok (XT [XN a0; XN a1; XN a2; XN a3]) | Panic => Panic | Fault => Fault end).

Theorem SRC_sse_finalize_samples : forallb fin_case_ok fin_cases = true /\ List.length fin_cases = 24%nat.
Proof. split; vm_compute; reflexivity. Qed.
(* the table is not degenerate: results are Ok, and differ between the two cores *)
Example SRC_sse_finalize_samples_nontrivial :
  match s_finalize64 prof_dev {| s_core := fin_core1; s_buffer := {| buf := fin_bytes; idx := 17 |} |},
        s_finalize64 prof_dev {| s_core := fin_core2; s_buffer := {| buf := fin_bytes; idx := 17 |} |} with
  | Ok x, Ok y => negb (N.eqb x y)
  | _, _ => false
  end = true.
Proof. vm_compute. reflexivity. Qed.

Print Assumptions SRC_sse_kernel.
Print Assumptions SRC_sse_remainder_path.
Print Assumptions SRC_sse_wrapper.
Print Assumptions SRC_sse_from_identity.
Print Assumptions SRC_sse_finalize_samples.
Print Assumptions SRC_avx_kernel.
Print Assumptions SRC_avx_wrapper.
Print Assumptions SRC_avx_from_identity.
