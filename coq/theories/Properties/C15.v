(* C15 — hasher instances are isolated (model part): the interpreter's register file is a frame — an
   operation on one register never changes what any other register holds, so any interleaving of
   independent per-register histories gives each register the results of its isolated run.
   The absence of hidden global state in the source is a regenerated fact (gen/SrcFacts.v, see
   Properties/Facts.v); real thread schedules are sampled by the harness. *)
From Coq Require Import NArith List Lia Bool.
From HW Require Import Word Packet Portable Spec Dispatch History.
From HW.Refine Require Import Logical Backends Generic.
From HW.Properties Require Import Common.
Import ListNotations.

Theorem C15_frame : forall e rs o r', ~ In r' (target o) -> lookup (fst (fst (step e rs o))) r' = lookup rs r'.
Proof. exact step_frame. Qed.

(* the outcome of a step on register r depends on the register file only through the registers it reads *)
Definition reads (o : op) : list nat :=
  match o with
  | ONew _ _ _ _ | ODefault _ _ | ORestore _ _ _ _ => []
  | ORestoreFrom _ _ _ r2 | OClone _ r2 => [r2]
  | OCloneFrom r r2 => [r; r2]
  | OAppend r _ | OWrite r _ | OWriteAll r _ | OIoCopy r _ | OHWrite r _ | OFlush r | OFinish r | OCkpt r | ODebug r
  | OFin _ r | OHash _ r _ => [r]
  end.

Theorem C15_outputs_local : forall e rs1 rs2 o, (forall r, In r (reads o) -> lookup rs1 r = lookup rs2 r) ->
  snd (fst (step e rs1 o)) = snd (fst (step e rs2 o)) /\ snd (step e rs1 o) = snd (step e rs2 o).
Proof.
  intros e rs1 rs2 o H. destruct o; cbn [reads] in H; cbn [step];
    try (rewrite <- (H _ (or_introl eq_refl)));
    try (rewrite <- (H _ (or_intror (or_introl eq_refl))));
    repeat match goal with
    | |- context [lookup rs1 ?r] => destruct (lookup rs1 r); cbn [fst snd]; auto
    | |- context [h_checkpoint e ?h] => destruct (h_checkpoint e h); cbn [of_res fst snd]; auto
    | |- context [if (Nat.eqb ?a ?b || negb (same_type ?x ?y))%bool then _ else _] =>
        destruct (Nat.eqb a b || negb (same_type x y))%bool; cbn [fst snd]; auto
    | |- context [of_res _ ?x _] => destruct x as [[?|]| |]; cbn [of_res fst snd]; auto
    | |- context [of_res _ ?x _] => destruct x; cbn [of_res fst snd]; auto
    end.
Qed.

Example C15_example :
  let e := env_of prof_dev cfg_host in
  let a := [ONew 0 BP false kdoc; OAppend 0 (sample 33); OFin W64 0] in
  let b := [ONew 1 BA true (5,6,7,8)%N; OAppend 1 (sample 70); OFin W64 1] in
  let inter := [ONew 0 BP false kdoc; ONew 1 BA true (5,6,7,8)%N; OAppend 1 (sample 70); OAppend 0 (sample 33); OFin W64 1; OFin W64 0] in
  (nth 2 (run e a) OutIll, nth 2 (run e b) OutIll) = (nth 5 (run e inter) OutIll, nth 4 (run e inter) OutIll).
Proof. vm_compute. reflexivity. Qed.

Print Assumptions C15_frame.
Print Assumptions C15_outputs_local.
