(* SourceLevelWasm — properties of the SOURCE TEXT of src/wasm.rs.  [wsrc_hash] runs, with the interpreter of Facts/RustLite.v,
   the functions translated from the current src/wasm.rs and src/internal.rs (gen/SrcWasmFull.v, gen/SrcPacket.v):
       WasmHash::new(key);  append(d1); ...; append(dn);  finalize64 / 128 / 256
   For every key (four u64), every list of byte slices, every width and every build profile the result is Ok (no panic), equals
   HighwayHash of the concatenation, does not depend on how the bytes were cut into appends, and is the result the interpreted
   source of PortableHash gives (C04: the Wasm backend agrees with the portable one, at the level of the two source texts).
   Obtained by composing the translator tie (SourceKernelWasmFull.v) with the model's refinement theorems (WasmRefine.v).
   Every function on the path — internal::unordered_load3 and HashPacket's methods included — is translated source run by
   the interpreter; only the wasm32 SIMD instructions get their meaning from a table. *)
From Coq Require Import NArith List String Bool Lia.
From HW Require Import Word Packet Portable Spec X86 Wasm.
From HW.Facts Require Import RustLite.
From HWGen Require Import SrcPortable SrcPacket SrcWasmFull.
From HW.Refine Require Import Logical Codec PortableRefine PortableCodec StreamRefine Generic WasmRefine SourceTie SourceTieCkpt SourceTieWasmFull SourceTieWasmBytes SourceTieWasmCkpt.
From HW.Properties Require Import SourceLevel.
Import ListNotations.
Local Open Scope N_scope.

Notation wcall p := (call_fn p (wext p) wall_fns).

Definition WG0 : env := wgenv_of (w_core (w_new (0,0,0,0))) packet_default.

Fixpoint wsrc_feed (p : profile) (g : env) (ds : list (list N)) : res env :=
  match ds with
  | [] => Ok g
  | d :: ds' => do r <- wcall p 9 "WasmHash::append" g [VA d] ;; wsrc_feed p (fst (fst r)) ds'
  end.
Definition wfin_name (w : width) : string :=
  match w with W64 => "WasmHash::finalize64" | W128 => "WasmHash::finalize128" | W256 => "WasmHash::finalize256" end%string.
Definition wsrc_finish (p : profile) (w : width) (g : env) : res (option val) := ret_of (wcall p 9 (wfin_name w) g []).
Definition wsrc_hash (p : profile) (w : width) (k : lanes) (ds : list (list N)) : res (option val) :=
  do r0 <- wcall p 9 "WasmHash::new" WG0 [VA (ll k)] ;;
  do g <- wsrc_feed p (fst (fst r0)) ds ;;
  wsrc_finish p w g.

Definition all_bytes (ds : list (list N)) : bool := forallb wbytesb ds.
Lemma all_bytes_concat ds : all_bytes ds = true -> wbytesb (List.concat ds) = true.
Proof.
  induction ds as [|d ds IH]; cbn [all_bytes forallb List.concat]; [reflexivity|].
  intros H. apply andb_true_iff in H as [Hd Hs]. unfold wbytesb. rewrite forallb_app. apply andb_true_iff. split; [exact Hd|apply IH; exact Hs].
Qed.

Lemma WInv_wfp s : WInv s -> wfp (w_buffer s).
Proof. intros [_ [[Hl Hi] _]]. split; [exact Hl|]. unfold M64. lia. Qed.
Lemma WInv_wfpb s : WInv s -> wfpb (w_buffer s).
Proof. intros HI. split; [apply WInv_wfp; exact HI|]. destruct HI as [_ [_ Hb]]. exact Hb. Qed.

Lemma wsrc_feed_ok p ds : forall s, WInv s -> all_bytes ds = true ->
  exists s', wsrc_feed p (wgenv_of (w_core s) (w_buffer s)) ds = Ok (wgenv_of (w_core s') (w_buffer s')) /\ WInv s' /\
             wabs s' = absorb (wabs s) (List.concat ds).
Proof.
  induction ds as [|d ds IH]; intros s HI HB; cbn [wsrc_feed List.concat].
  - exists s. split; [reflexivity|]. split; [exact HI|]. symmetry. apply absorb_nil.
    destruct HI as [_ [[Hl Hi] _]]. unfold Lwf, wabs, pending. cbn [snd]. rewrite firstn_length. lia.
  - cbn [all_bytes forallb] in HB. apply andb_true_iff in HB as [Hd Hs].
    destruct (w_append_ok p s d HI Hd) as (s1 & E1 & HI1 & A1).
    change (call_fn p (wext p) wall_fns 9 "WasmHash::append" ?g ?a)
      with (call_fn p (wext p) wall_fns (S (S (S (S (S 4))))) "WasmHash::append" g a).
    rewrite (w_append_src p 4 (w_core s) (w_buffer s) d (WInv_wfp s HI)).
    replace {| w_core := w_core s; w_buffer := w_buffer s |} with s by (destruct s; reflexivity).
    rewrite E1. cbn [lift bind fst].
    destruct (IH s1 HI1 Hs) as (s' & E' & HI' & A').
    exists s'. split; [exact E'|]. split; [exact HI'|]. rewrite A', A1. apply absorb_app.
Qed.

Lemma wsrc_finish_ok p w s : WInv s ->
  wsrc_finish p w (wgenv_of (w_core s) (w_buffer s)) = Ok (Some (val_of_digest w (out w (wabs s)))).
Proof.
  intros HI. unfold wsrc_finish.
  pose proof (w_finalize_ok p w s HI) as F.
  pose proof (WInv_wfpb s HI) as W'.
  destruct s as [c b]. cbn [w_core w_buffer] in *.
  destruct w; cbn [w_finalize wfin_name] in F |- *.
  - change (call_fn p (wext p) wall_fns 9 "WasmHash::finalize64"%string ?g ?a)
      with (call_fn p (wext p) wall_fns (S (S (S (S (S (S (S 2))))))) "WasmHash::finalize64"%string g a).
    rewrite (w_finalize64_src p 2 c b W').
    destruct (w_finalize64 p {| w_core := c; w_buffer := b |}) as [x| |]; cbn [bind] in F; try discriminate.
    apply (f_equal (fun r => match r with Ok l => l | _ => [] end)) in F. cbv beta iota in F. rewrite <- F. reflexivity.
  - change (call_fn p (wext p) wall_fns 9 "WasmHash::finalize128"%string ?g ?a)
      with (call_fn p (wext p) wall_fns (S (S (S (S (S (S (S 2))))))) "WasmHash::finalize128"%string g a).
    rewrite (w_finalize128_src p 2 c b W').
    destruct (w_finalize128 p {| w_core := c; w_buffer := b |}) as [x| |]; cbn [bind] in F; try discriminate.
    apply (f_equal (fun r => match r with Ok l => l | _ => [] end)) in F. cbv beta iota in F. rewrite <- F. reflexivity.
  - change (call_fn p (wext p) wall_fns 9 "WasmHash::finalize256"%string ?g ?a)
      with (call_fn p (wext p) wall_fns (S (S (S (S (S (S (S 2))))))) "WasmHash::finalize256"%string g a).
    rewrite (w_finalize256_src p 2 c b W').
    destruct (w_finalize256 p {| w_core := c; w_buffer := b |}) as [x| |]; cbn [bind] in F; try discriminate.
    apply (f_equal (fun r => match r with Ok l => l | _ => [] end)) in F. cbv beta iota in F. rewrite <- F.
    destruct x as [[[x0 x1] x2] x3]. reflexivity.
Qed.

(* from any reachable state: further appends and a finalize are Ok and a function of the logical state and the bytes *)
Theorem SRCW_source_continue : forall p w s ds, WInv s -> all_bytes ds = true ->
  (do g <- wsrc_feed p (wgenv_of (w_core s) (w_buffer s)) ds ;; wsrc_finish p w g)
  = Ok (Some (val_of_digest w (out w (absorb (wabs s) (List.concat ds))))).
Proof.
  intros p w s ds HI HB. destruct (wsrc_feed_ok p ds s HI HB) as (s' & E' & HI' & A').
  rewrite E'. cbn [bind]. rewrite (wsrc_finish_ok p w s' HI'), A'. reflexivity.
Qed.

(* the interpreted wasm.rs computes HighwayHash: for every key of four u64, all byte slices, every width, every profile *)
Theorem SRCW_source_is_highwayhash : forall (p : profile) (w : width) (k0 k1 k2 k3 : N) (ds : list (list N)),
  wlanesb (k0,k1,k2,k3) = true -> all_bytes ds = true ->
  wsrc_hash p w (k0,k1,k2,k3) ds = Ok (Some (val_of_digest w (HH w (k0,k1,k2,k3) (List.concat ds)))).
Proof.
  intros p w k0 k1 k2 k3 ds HK HB. unfold wsrc_hash, WG0.
  change (call_fn p (wext p) wall_fns 9 "WasmHash::new"%string ?g ?a) with (call_fn p (wext p) wall_fns (S (S (S (S 5)))) "WasmHash::new"%string g a).
  cbn [ll lane0 lane1 lane2 lane3].
  rewrite (w_new_src p 5 _ packet_default k0 k1 k2 k3). cbn [bind fst].
  set (k := (k0,k1,k2,k3)) in *.
  destruct (w_new_ok k HK) as [I0 A0].
  change (wgenv_of (w_core (w_new k)) packet_default) with (wgenv_of (w_core (w_new k)) (w_buffer (w_new k))).
  rewrite (SRCW_source_continue p w (w_new k) ds I0 HB), A0, <- spec_as_absorb. reflexivity.
Qed.

Corollary SRCW_source_streaming_invariance : forall p w k0 k1 k2 k3 ds1 ds2,
  wlanesb (k0,k1,k2,k3) = true -> all_bytes ds1 = true -> all_bytes ds2 = true -> List.concat ds1 = List.concat ds2 ->
  wsrc_hash p w (k0,k1,k2,k3) ds1 = wsrc_hash p w (k0,k1,k2,k3) ds2.
Proof. intros. rewrite !SRCW_source_is_highwayhash by assumption. congruence. Qed.

(* C04 between the two source texts: wasm.rs and portable.rs, both interpreted, give the same digest *)
Corollary SRCW_source_agrees_with_portable_source : forall p p' w k0 k1 k2 k3 ds,
  wlanesb (k0,k1,k2,k3) = true -> all_bytes ds = true ->
  wsrc_hash p w (k0,k1,k2,k3) ds = src_hash p' w (k0,k1,k2,k3) ds.
Proof. intros. rewrite SRCW_source_is_highwayhash by assumption. rewrite SRC_source_is_highwayhash. reflexivity. Qed.

(* ---- checkpoints, at the level of the source text of wasm.rs *)
(* C14: the 164 bytes are encode of the logical state — hence the same bytes the interpreted portable.rs produces for a state with
   the same logical state (C03/C06: checkpoints are interchangeable between backends) *)
Theorem SRCW_source_checkpoint_canonical : forall p s, WInv s ->
  ret_of' (wcall p 9 "WasmHash::checkpoint" (wgenv_of (w_core s) (w_buffer s)) []) = Ok (Some (VA (encode (wabs s)))).
Proof.
  intros p s HI.
  change (call_fn p (wext p) wall_fns 9 "WasmHash::checkpoint"%string ?g ?a) with (call_fn p (wext p) wall_fns (S (S (S 6))) "WasmHash::checkpoint"%string g a).
  rewrite (w_checkpoint_src p 6 (w_core s) (w_buffer s) (WInv_wfp s HI)).
  replace {| w_core := w_core s; w_buffer := w_buffer s |} with s by (destruct s; reflexivity).
  rewrite (w_checkpoint_ok p s HI). reflexivity.
Qed.

Corollary SRCW_source_checkpoint_interchangeable : forall p p' ws s, WInv ws -> Inv s -> wabs ws = abs s ->
  ret_of' (wcall p 9 "WasmHash::checkpoint" (wgenv_of (w_core ws) (w_buffer ws)) [])
  = ret_of' (call_fn p' noext all_fns 9 "checkpoint" (genv_of (core s) (buffer s)) []).
Proof.
  intros p p' ws s HW HI E. rewrite (SRCW_source_checkpoint_canonical p ws HW), (SRC_source_checkpoint_canonical p' s HI), E. reflexivity.
Qed.

(* C11: ANY 164 bytes restore, in every profile, to a state in the invariant whose logical state is decode of the bytes *)
Theorem SRCW_source_restore_total : forall p c0 b0 c, List.length c = 164%nat -> wbytesb c = true ->
  exists s', wcall p 9 "WasmHash::from_checkpoint" (wgenv_of c0 b0) [VA c] = Ok (wgenv_of (w_core s') (w_buffer s'), [Some (VA c)], None) /\
             WInv s' /\ wabs s' = decode c.
Proof.
  intros p c0 b0 c Hc Hb.
  change (call_fn p (wext p) wall_fns 9 "WasmHash::from_checkpoint"%string ?g ?a)
    with (call_fn p (wext p) wall_fns (S (S (S (S (S (S 3)))))) "WasmHash::from_checkpoint"%string g a).
  rewrite (w_from_checkpoint_src p 3 c0 b0 c Hc).
  destruct (w_restore_ok p c Hb) as (s' & E & HI & A). exists s'. rewrite E. cbn [lift]. split; [reflexivity|]. split; assumption.
Qed.

(* C06: checkpoint, restore (into any hasher value), and carry on — same results as carrying on directly *)
Definition wsrc_hop (p : profile) (g g0 : env) : res env :=
  do o <- ret_of' (wcall p 9 "WasmHash::checkpoint" g []) ;;
  match o with
  | Some (VA ck) => do r <- wcall p 9 "WasmHash::from_checkpoint" g0 [VA ck] ;; Ok (fst (fst r))
  | _ => Fault
  end.

Theorem SRCW_source_checkpoint_transparent : forall p w s c0 b0 ds, WInv s -> all_bytes ds = true ->
  (do g' <- wsrc_hop p (wgenv_of (w_core s) (w_buffer s)) (wgenv_of c0 b0) ;; do g <- wsrc_feed p g' ds ;; wsrc_finish p w g)
  = (do g <- wsrc_feed p (wgenv_of (w_core s) (w_buffer s)) ds ;; wsrc_finish p w g).
Proof.
  intros p w s c0 b0 ds HI HB. unfold wsrc_hop.
  rewrite (SRCW_source_checkpoint_canonical p s HI). cbn [bind].
  assert (HL : Lwf (wabs s)).
  { destruct HI as [_ [[Hl Hi] _]]. unfold Lwf, wabs, pending. cbn [snd]. rewrite firstn_length. lia. }
  assert (HH : Hwf (fst (wabs s))) by (apply WCwf_Hwf; exact (proj1 HI)).
  assert (Hpb : wbytesb (snd (wabs s)) = true).
  { destruct HI as [_ [_ Hb]]. unfold wabs, pending. cbn [snd]. apply wbytesb_firstn. exact Hb. }
  destruct (SRCW_source_restore_total p c0 b0 (encode (wabs s)) (encode_length _ HL) (encode_wb _ Hpb)) as (s' & E & HI' & A).
  rewrite E. cbn [bind fst].
  rewrite (SRCW_source_continue p w s' ds HI' HB), (SRCW_source_continue p w s ds HI HB), A.
  rewrite (decode_encode (wabs s) HL HH). reflexivity.
Qed.

(* non-vacuity: a published vector through three appends, run by the interpreter on the translated wasm.rs *)
Example SRCW_source_vector :
  wsrc_hash prof_dev W64 (0x0706050403020100, 0x0F0E0D0C0B0A0908, 0x1716151413121110, 0x1F1E1D1C1B1A1918) [[0]; []; [1; 2]]
  = Ok (Some (VN (nth0 (HH W64 (0x0706050403020100, 0x0F0E0D0C0B0A0908, 0x1716151413121110, 0x1F1E1D1C1B1A1918) [0; 1; 2]) 0))).
Proof. vm_compute. reflexivity. Qed.

Print Assumptions SRCW_source_continue.
Print Assumptions SRCW_source_is_highwayhash.
Print Assumptions SRCW_source_streaming_invariance.
Print Assumptions SRCW_source_agrees_with_portable_source.
Print Assumptions SRCW_source_checkpoint_canonical.
Print Assumptions SRCW_source_checkpoint_interchangeable.
Print Assumptions SRCW_source_restore_total.
Print Assumptions SRCW_source_checkpoint_transparent.
