(* C13 — observers (checkpoint, finish, Debug formatting, flush) do not perturb state: the rest of the
   history prints exactly what it would have printed without them; a clone is the same value in another
   register and evolves independently. *)
From Coq Require Import NArith List Lia Bool.
From HW Require Import Word Packet Portable Spec Dispatch History.
From HW.Refine Require Import Logical Backends Generic.
From HW.Properties Require Import Common.
Import ListNotations.

Theorem C13_observer_transparent :
  forall e rs o r h rest, regs_ok e rs -> is_observer o = Some r -> lookup rs r = Some h ->
  exists line, run_from e rs (o :: rest) = line :: run_from e rs rest /\ line <> OutPanic /\ line <> OutFault.
Proof. exact observer_transparent. Qed.

Theorem C13_clone_is_same_value : forall e rs r r2 h, regs_ok e rs -> lookup rs r2 = Some h ->
  lookup (fst (fst (step e rs (OClone r r2)))) r = Some h.
Proof. exact clone_same. Qed.

Theorem C13_registers_independent : forall e rs o r', ~ In r' (target o) ->
  lookup (fst (fst (step e rs o))) r' = lookup rs r'.
Proof. exact step_frame. Qed.

(* the register file reached from the empty one by well-formed operations always satisfies regs_ok,
   so the hypotheses above hold at every point of every well-formed history *)
Theorem C13_reachable_ok : forall e rs o, regs_ok e rs -> wf_op o -> regs_ok e (fst (fst (step e rs o))).
Proof.
  intros e rs o Hr Hw. pose proof (step_safe e rs o Hr Hw) as S. destruct (step e rs o) as [[rs' outs] c]. exact (proj1 S).
Qed.

Example C13_example :
  let e := env_of prof_dev cfg_host in
  let strip := [ONew 0 BD false kdoc; OAppend 0 (sample 31); OClone 1 0; OAppend 0 (sample 9); OFin W64 1; OFin W64 0] in
  let obs := [ONew 0 BD false kdoc; ODebug 0; OAppend 0 (sample 31); OCkpt 0; OFinish 0; OClone 1 0; OCkpt 1;
              OAppend 0 (sample 9); OFinish 1; OFlush 0; OFin W64 1; ODebug 0; OFin W64 0] in
  filter (fun o => match o with OutDigest _ => true | _ => false end) (run e obs)
  = filter (fun o => match o with OutDigest _ => true | _ => false end) (run e strip).
Proof. vm_compute. reflexivity. Qed.

Print Assumptions C13_observer_transparent.
Print Assumptions C13_clone_is_same_value.
Print Assumptions C13_registers_independent.
