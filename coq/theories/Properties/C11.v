(* C11 — restoring from ARBITRARY bytes is total and backend-independent: for every byte list c (in
   particular every 164-byte array, whatever its count field) every hasher type restores — in every
   profile — to a hasher in the invariant whose logical state is [decode c], one function of c alone.
   Hence every later result is the same on every backend, an empty append changes nothing, streaming
   invariance holds from the restored state, and its own checkpoints are [encode (decode c)]. *)
From Coq Require Import NArith List Lia Bool.
From HW Require Import Word Packet Portable Spec Dispatch History.
From HW.Refine Require Import Logical Codec Backends Generic.
From HW.Properties Require Import Common.
Import ListNotations.

Theorem C11_restore_total :
  forall (e : env) (b : backend) (force : bool) (c : list N), wbytesb c = true -> b <> BB ->
  ctor_ok e (decode c) (h_restore e b force c).
Proof. exact h_restore_ok. Qed.

Theorem C11_backend_independent :
  forall (e1 e2 : env) (b1 b2 : backend) (f1 f2 : bool) (c : list N) (fs : list (list N)) (w : width) (h1 h2 : hasher),
  wbytesb c = true -> wbs fs -> b1 <> BB -> b2 <> BB ->
  h_restore e1 b1 f1 c = Ok (Some h1) -> h_restore e2 b2 f2 c = Ok (Some h2) ->
  exists x y, feed e1 h1 fs = Ok x /\ feed e2 h2 fs = Ok y /\
              h_finalize e1 w x = Ok (out w (absorb (decode c) (concat fs))) /\
              h_finalize e2 w y = Ok (out w (absorb (decode c) (concat fs))) /\
              h_checkpoint e1 x = h_checkpoint e2 y.
Proof.
  intros e1 e2 b1 b2 f1 f2 c fs w h1 h2 Hc Hfs Hb1 Hb2 H1 H2.
  destruct (h_restore_ok e1 b1 f1 c Hc Hb1) as [E|(x0 & E & I1 & A1)]; [congruence|]. rewrite H1 in E. injection E as <-.
  destruct (h_restore_ok e2 b2 f2 c Hc Hb2) as [E|(y0 & E & I2 & A2)]; [congruence|]. rewrite H2 in E. injection E as <-.
  destruct (feed_ok e1 fs Hfs h1 I1) as (x & Fx & Ix & Ax). destruct (feed_ok e2 fs Hfs h2 I2) as (y & Fy & Iy & Ay).
  exists x, y. rewrite !h_finalize_ok, !h_checkpoint_ok by assumption. rewrite Ax, Ay, A1, A2. auto.
Qed.

(* an empty append is the identity on the logical state, also right after a restore *)
Theorem C11_empty_append : forall e h, HInv e h ->
  exists h', h_append e h [] = Ok h' /\ HInv e h' /\ habs h' = habs h.
Proof.
  intros e h HI. destruct (h_append_ok e h [] HI eq_refl) as (h' & E & I & A). exists h'. split; [exact E|]. split; [exact I|].
  rewrite A. apply absorb_nil. apply (habs_wf e h HI).
Qed.

(* the restored hasher's own checkpoint is canonical and restores transparently *)
Theorem C11_recheckpoint : forall e b force c h, wbytesb c = true -> b <> BB -> h_restore e b force c = Ok (Some h) ->
  h_checkpoint e h = Ok (encode (decode c)) /\ decode (encode (decode c)) = decode c.
Proof.
  intros e b force c h Hc Hb Hr. destruct (h_restore_ok e b force c Hc Hb) as [E|(h0 & E & I & A)]; [congruence|].
  rewrite Hr in E. injection E as <-. rewrite h_checkpoint_ok by exact I. rewrite A. split; [reflexivity|].
  destruct (habs_wf e h I) as (Hl & Hw & _). rewrite A in Hl, Hw. apply decode_encode; assumption.
Qed.

Definition blob (cnt : N) : list N := map (fun i => N.land (N.of_nat i * 91 + 17) 255) (seq 0 160) ++ to_le_bytes 4 cnt.
Example C11_example :
  let e := env_of prof_dev cfg_host in
  forallb (fun cnt =>
    let outs := map (fun b => match h_restore e b true (blob cnt) with
                              | Ok (Some h) => match feed e h [[]; sample 5] with Ok h' => h_finalize e W64 h' | _ => Panic end
                              | _ => Panic end) [BP; BS; BA; BN; BW; BD] in
    match outs with Ok d :: rest => forallb (fun o => match o with Ok d' => if list_eq_dec N.eq_dec d d' then true else false | _ => false end) rest
                  | _ => false end)
    [0; 5; 31; 32; 33; 255; 256; 65536; 2147483648; 4294967295]%N = true.
Proof. vm_compute. reflexivity. Qed.

Print Assumptions C11_restore_total.
Print Assumptions C11_backend_independent.
Print Assumptions C11_empty_append.
Print Assumptions C11_recheckpoint.
