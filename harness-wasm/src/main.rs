// hwwasm — no_std, allocator-free script interpreter for Miri on wasm32-unknown-unknown (+simd128): executes the
// real src/wasm.rs (WasmHash), PortableHash and HighwayHasher on the script compiled in through $HW_SCRIPT and
// prints the canonical transcript through Miri's stdout shim.  That this program links and runs without any
// allocator is itself part of the evidence for C18.
#![no_std]
#![no_main]
use core::fmt::Write;
use core::hash::Hasher;
#[cfg(all(target_family = "wasm", target_feature = "simd128"))]
use highway::WasmHash;
use highway::{HighwayHash, HighwayHasher, Key, PortableHash};

extern "Rust" {
    fn miri_write_to_stdout(bytes: &[u8]);
}
struct Out;
impl Write for Out {
    fn write_str(&mut self, s: &str) -> core::fmt::Result {
        unsafe { miri_write_to_stdout(s.as_bytes()) };
        Ok(())
    }
}
struct Sink {
    buf: [u8; 2048],
    len: usize,
}
impl Write for Sink {
    fn write_str(&mut self, s: &str) -> core::fmt::Result {
        let b = s.as_bytes();
        if self.len + b.len() > self.buf.len() {
            return Err(core::fmt::Error);
        }
        self.buf[self.len..self.len + b.len()].copy_from_slice(b);
        self.len += b.len();
        Ok(())
    }
}

#[panic_handler]
fn ph(_i: &core::panic::PanicInfo) -> ! {
    let _ = writeln!(Out, "PANIC");
    core::arch::wasm32::unreachable()
}

static SCRIPT: &str = include_str!(env!("HW_SCRIPT"));

#[derive(Clone)]
enum H {
    None,
    P(PortableHash),
    #[cfg(all(target_family = "wasm", target_feature = "simd128"))]
    W(WasmHash),
    D(HighwayHasher),
}

macro_rules! each {
    ($h:expr, $x:ident => $e:expr) => {
        match $h {
            H::P($x) => $e,
            #[cfg(all(target_family = "wasm", target_feature = "simd128"))]
            H::W($x) => $e,
            H::D($x) => $e,
            H::None => panic!("absent register"),
        }
    };
}

fn hexval(c: u8) -> u8 {
    match c {
        b'0'..=b'9' => c - b'0',
        b'a'..=b'f' => c - b'a' + 10,
        b'A'..=b'F' => c - b'A' + 10,
        _ => 0,
    }
}
fn unhex<'a>(s: &str, buf: &'a mut [u8]) -> &'a [u8] {
    if s == "-" {
        return &buf[..0];
    }
    let b = s.as_bytes();
    let n = b.len() / 2;
    for i in 0..n {
        buf[i] = hexval(b[2 * i]) * 16 + hexval(b[2 * i + 1]);
    }
    &buf[..n]
}
fn parse_u64(s: &str) -> u64 {
    let mut x = 0u64;
    for c in s.bytes() {
        x = (x << 4) | u64::from(hexval(c));
    }
    x
}
fn parse_reg(s: &str) -> usize {
    let mut x = 0usize;
    for c in s.bytes() {
        x = x * 10 + (c - b'0') as usize;
    }
    x
}
fn ckpt_of(s: &str) -> [u8; 164] {
    let mut a = [0u8; 164];
    let mut tmp = [0u8; 164];
    let v = unhex(s, &mut tmp);
    a.copy_from_slice(v);
    a
}
fn make(backend: &str, key: Option<Key>, restore: Option<[u8; 164]>) -> H {
    match backend {
        "P" => H::P(match (restore, key) {
            (Some(c), _) => PortableHash::from_checkpoint(c),
            (None, Some(k)) => PortableHash::new(k),
            (None, None) => PortableHash::default(),
        }),
        "D" => H::D(match (restore, key) {
            (Some(c), _) => HighwayHasher::from_checkpoint(c),
            (None, Some(k)) => HighwayHasher::new(k),
            (None, None) => HighwayHasher::default(),
        }),
        #[cfg(all(target_family = "wasm", target_feature = "simd128"))]
        "W" => H::W(match (restore, key) {
            (Some(c), _) => WasmHash::from_checkpoint(c),
            (None, Some(k)) => WasmHash::new(k),
            (None, None) => WasmHash::default(),
        }),
        _ => panic!("backend"),
    }
}
fn put_hex(b: &[u8]) {
    let mut o = Out;
    for x in b {
        let _ = write!(o, "{:02x}", x);
    }
}

#[no_mangle]
fn miri_start(_argc: isize, _argv: *const *const u8) -> isize {
    let mut regs: [H; 64] = core::array::from_fn(|_| H::None);
    let mut buf = [0u8; 9000];
    let mut o = Out;
    for line in SCRIPT.lines() {
        let mut t: [&str; 8] = [""; 8];
        let mut n = 0;
        for w in line.split_ascii_whitespace() {
            if n < 8 {
                t[n] = w;
                n += 1;
            }
        }
        if n == 0 || t[0].starts_with('#') {
            continue;
        }
        match t[0] {
            "H" => {
                let _ = writeln!(o, "H {}", t[1]);
                for r in regs.iter_mut() {
                    *r = H::None;
                }
            }
            "place" | "hplace" => {}
            "new" | "fnew" => {
                let k = Key([parse_u64(t[3]), parse_u64(t[4]), parse_u64(t[5]), parse_u64(t[6])]);
                regs[parse_reg(t[1])] = make(t[2], Some(k), None);
                let _ = writeln!(o, "OK");
            }
            "default" => {
                regs[parse_reg(t[1])] = make(t[2], None, None);
                let _ = writeln!(o, "OK");
            }
            "restore" | "frestore" => {
                regs[parse_reg(t[1])] = make(t[2], None, Some(ckpt_of(t[3])));
                let _ = writeln!(o, "OK");
            }
            "restorefrom" | "frestorefrom" => {
                let c = each!(&regs[parse_reg(t[3])], h => h.checkpoint());
                regs[parse_reg(t[1])] = make(t[2], None, Some(c));
                let _ = writeln!(o, "OK");
            }
            "clonefrom" => {
                let (a, b) = (parse_reg(t[1]), parse_reg(t[2]));
                let src = regs[b].clone();
                match (&mut regs[a], &src) {
                    (H::P(x), H::P(y)) => x.clone_from(y),
                    #[cfg(all(target_family = "wasm", target_feature = "simd128"))]
                    (H::W(x), H::W(y)) => x.clone_from(y),
                    (H::D(x), H::D(y)) => x.clone_from(y),
                    _ => panic!("clonefrom types"),
                }
                let _ = writeln!(o, "OK");
            }
            "clone" => {
                let c = regs[parse_reg(t[2])].clone();
                regs[parse_reg(t[1])] = c;
                let _ = writeln!(o, "OK");
            }
            "append" => {
                let d = unhex(t[2], &mut buf);
                each!(&mut regs[parse_reg(t[1])], h => h.append(d));
                let _ = writeln!(o, "OK");
            }
            "hwrite" => {
                let d = unhex(t[2], &mut buf);
                each!(&mut regs[parse_reg(t[1])], h => Hasher::write(h, d));
                let _ = writeln!(o, "OK");
            }
            "finish" => {
                let x = each!(&regs[parse_reg(t[1])], h => Hasher::finish(h));
                let _ = writeln!(o, "FIN {:016x}", x);
            }
            "ckpt" => {
                let c = each!(&regs[parse_reg(t[1])], h => h.checkpoint());
                let _ = write!(o, "CK ");
                put_hex(&c);
                let _ = writeln!(o);
            }
            "debug" => {
                let mut s = Sink { buf: [0; 2048], len: 0 };
                let r = &regs[parse_reg(t[1])];
                let okf = each!(r, h => write!(s, "{:?}", h)).is_ok();
                if !okf {
                    let _ = writeln!(o, "DEBUGERR");
                } else if let H::D(_) = r {
                    let txt = core::str::from_utf8(&s.buf[..s.len]).unwrap_or("");
                    let tag = txt.split("tag: ").nth(1).and_then(|x| x.split(|c: char| !c.is_ascii_digit()).next()).unwrap_or("?");
                    let _ = writeln!(o, "TAG {}", tag);
                } else {
                    let _ = writeln!(o, "OK");
                }
            }
            "fin64" | "fin128" | "fin256" | "hash64" | "hash128" | "hash256" => {
                let r = parse_reg(t[1]);
                let mut h = core::mem::replace(&mut regs[r], H::None);
                if t[0].starts_with("hash") {
                    let d = unhex(t[2], &mut buf);
                    each!(&mut h, x => x.append(d));
                }
                if t[0].ends_with("64") {
                    let x = each!(h, x => x.finalize64());
                    let _ = writeln!(o, "D64 {:016x}", x);
                } else if t[0].ends_with("128") {
                    let x = each!(h, x => x.finalize128());
                    let _ = writeln!(o, "D128 {:016x} {:016x}", x[0], x[1]);
                } else {
                    let x = each!(h, x => x.finalize256());
                    let _ = writeln!(o, "D256 {:016x} {:016x} {:016x} {:016x}", x[0], x[1], x[2], x[3]);
                }
            }
            _ => {
                let _ = writeln!(o, "ILL script: unknown op");
            }
        }
    }
    0
}
